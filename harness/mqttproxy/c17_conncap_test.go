//go:build verif

package mqttproxy

// C17 (MQTT half): a real Broker with maxAllowedConnection = cap on a loopback port, 3 x cap raw
// MQTT clients (paho packets codec over TCP) connecting, disconnecting, closing abruptly and
// taking over client ids concurrently.
//
// Monitor (harness side, one lock, one logical clock): a connection is LIVE when the client
// holds an accepted CONNACK, has not closed, and has not been superseded by a later accepted
// connection of the same client id.  When two connects of the same id overlap in time the
// broker's order is not observable; then both are kept as candidates and the id is counted only
// while every candidate is still open (an under-approximation: never a false alarm).  At every
// accepted CONNACK: #live ids <= cap, and len(Broker.clients) <= cap under the broker's lock.
// Refused CONNACKs must carry "server unavailable".  At the final quiescent point every slot
// must have come back (exactly cap fresh clients are accepted, the next one is refused).
//
// Failed connection attempts (ids that never come back, clean and persistent sessions): the client
// resets its TCP connection right after CONNECT, or the connection is a harness-owned one handed
// to Broker.handleConn whose peer goes away before the CONNACK / whose CONNACK write returns an
// error (the harness side sees the result of that write, so "the slot was taken and the CONNACK
// for it failed" is an observation, not a guess).  They run inside the abrupt kinds and, in every
// case, as a wave of cap+1..2cap+1 attempts against the empty broker after the first quiescent
// point; at the next quiescent point none of them may still hold a slot.

import (
	"bytes"
	"fmt"
	"math/rand"
	"net"
	"os"
	"runtime"
	"sort"
	"sync"
	"sync/atomic"
	"testing"
	"time"

	"github.com/eclipse/paho.mqtt.golang/packets"
	"github.com/megaease/easegress/pkg/logger"
	"verif.local/kit"
)

func init() { logger.InitNop() }

var c17Watchdog = func() time.Duration {
	if v, err := time.ParseDuration(os.Getenv("C17_WATCHDOG")); err == nil && v > 0 {
		return v
	}
	return 120 * time.Second
}()

var c17Stalls int32

func c17WD() time.Duration {
	if atomic.LoadInt32(&c17Stalls) > 0 {
		return 10 * time.Second
	}
	return c17Watchdog
}

type c17Case struct {
	Kind      string `json:"kind"`
	Cap       int    `json:"cap"`
	Agents    int    `json:"agents"`
	Pool      int    `json:"pool"`
	Iters     int    `json:"iters"`
	Clean     string `json:"clean"` // never | always | mixed
	Abrupt    bool   `json:"abrupt"`
	Serialize bool   `json:"serializeConnectsPerId"`
	Settle    bool   `json:"oneConnectionPerIdAtATime"` // clean-session kinds: an id is reconnected only after the broker finished the teardown of its previous connection
	KeepOpen  int    `json:"keepOpenPercent"`
}

type c17Conn struct {
	id         int
	cid        string
	clean      bool
	s, e       int64
	closed     bool
	superseded bool
	nc         net.Conn
	idx        int
}

type c17Mon struct {
	r  *kit.Run
	cs *c17Case
	b  *Broker

	mu         sync.Mutex
	seq        int64
	cur        map[string][]*c17Conn
	cleanEnded map[string]bool
	nextID     int
	maxLive    int
	history    []string

	failed map[string]*c17Failed // ids used by connection attempts that fail on purpose (never reused)

	events  int64
	aborted int32
}

// c17Failed describes one connection attempt that fails after CONNECT was sent.
type c17Failed struct {
	Stage        string `json:"stage"` // client-reset-before-connack | peer-closed-before-connack | connack-write-error
	Clean        bool   `json:"cleanSession"`
	ConnackError bool   `json:"acceptingConnackWriteFailedSeenByHarness"`
	Refused      bool   `json:"refusedSeenByHarness"`
}

const (
	c17FailTCPReset = iota
	c17FailPeerClosed
	c17FailWriteError
)

var c17FailStages = []string{"client-reset-before-connack", "peer-closed-before-connack", "connack-write-error"}

func (m *c17Mon) registerFailed(cid string, mode int, clean bool) *c17Failed {
	f := &c17Failed{Stage: c17FailStages[mode], Clean: clean}
	m.mu.Lock()
	m.seq++
	m.failed[cid] = f
	m.note("%d: FAILING-ATTEMPT id=%s stage=%s clean=%v", m.seq, cid, f.Stage, clean)
	m.mu.Unlock()
	return f
}

func (m *c17Mon) note(format string, a ...interface{}) {
	if len(m.history) >= 400 {
		m.history = m.history[100:]
	}
	m.history = append(m.history, fmt.Sprintf(format, a...))
}

func (m *c17Mon) tail() []string {
	h := m.history
	if len(h) > 60 {
		h = h[len(h)-60:]
	}
	return append([]string{}, h...)
}

func (m *c17Mon) begin(cid string, clean bool, nc net.Conn) *c17Conn {
	m.mu.Lock()
	defer m.mu.Unlock()
	m.seq++
	m.nextID++
	c := &c17Conn{id: m.nextID, cid: cid, clean: clean, s: m.seq, nc: nc}
	m.note("%d: conn#%d CONNECT id=%s clean=%v", m.seq, c.id, cid, clean)
	return c
}

// liveLocked returns the ids counted as connected.
func (m *c17Mon) liveLocked() []string {
	var live []string
	for cid, cands := range m.cur {
		if len(cands) == 0 {
			continue
		}
		ok := true
		for _, c := range cands {
			if c.closed {
				ok = false
			}
		}
		if ok {
			live = append(live, cid)
		}
	}
	sort.Strings(live)
	return live
}

func (m *c17Mon) accepted(x *c17Conn) {
	m.mu.Lock()
	defer m.mu.Unlock()
	m.seq++
	x.e = m.seq
	cands := []*c17Conn{x}
	for _, y := range m.cur[x.cid] {
		if y.e > x.s {
			cands = append(cands, y) // overlapping connects of one id: order unknown
			if y.clean || x.clean {
				m.cleanEnded[x.cid] = true // one of the two has been taken over
			}
			m.r.Count("ambiguous_same_id_overlaps", 1)
		} else {
			y.superseded = true
			if y.clean {
				m.cleanEnded[x.cid] = true
			}
			if !y.closed {
				m.r.Count("takeovers_of_open_connection", 1)
			}
		}
	}
	m.cur[x.cid] = cands
	live := m.liveLocked()
	m.note("%d: conn#%d ACCEPTED id=%s live=%d", m.seq, x.id, x.cid, len(live))
	if len(live) > m.maxLive {
		m.maxLive = len(live)
	}
	// the broker's own view, under its own lock
	m.b.RLock()
	n := len(m.b.clients)
	var untracked []string
	for _, cid := range live {
		if _, ok := m.b.clients[cid]; !ok {
			untracked = append(untracked, cid)
		}
	}
	m.b.RUnlock()
	m.r.Count("connack_accepted_samples", 1)
	if len(live) == m.cs.Cap {
		m.r.Count("samples_at_cap", 1)
	}
	if n > m.cs.Cap {
		m.r.Violation("mqtt:broker-client-map-over-cap", map[string]interface{}{
			"len_clients": n, "cap": m.cs.Cap, "case": m.cs, "history": m.tail(),
		})
	}
	if len(live) > m.cs.Cap {
		why := "all-tracked-by-broker"
		if len(untracked) > 0 {
			why = "untracked-live-client:after-older-clean-session-connection-of-same-id-ended"
			for _, cid := range untracked {
				if !m.cleanEnded[cid] {
					why = "untracked-live-client:other"
				}
			}
		}
		m.r.Violation("mqtt:connected-over-cap:"+why, map[string]interface{}{
			"connected_clients": len(live), "cap": m.cs.Cap, "live_ids": live, "ids_missing_in_broker_map": untracked,
			"len_broker_clients": n, "case": m.cs, "history": m.tail(),
		})
	}
	atomic.AddInt64(&m.events, 1)
}

func (m *c17Mon) refused(x *c17Conn, code byte) {
	m.mu.Lock()
	m.seq++
	live := len(m.liveLocked())
	m.note("%d: conn#%d REFUSED id=%s code=%d live=%d", m.seq, x.id, x.cid, code, live)
	m.mu.Unlock()
	m.r.Count("connack_refused", 1)
	if code != packets.ErrRefusedServerUnavailable {
		m.r.Violation(fmt.Sprintf("mqtt:refused-with-code-%d-instead-of-server-unavailable", code), map[string]interface{}{"code": code, "case": m.cs})
	} else {
		m.r.Count("refused_server_unavailable", 1)
	}
	atomic.AddInt64(&m.events, 1)
}

// closing is called BEFORE the client closes its socket.
func (m *c17Mon) closing(x *c17Conn, how string) {
	m.mu.Lock()
	m.seq++
	x.closed = true
	if x.clean {
		m.cleanEnded[x.cid] = true
	}
	m.note("%d: conn#%d CLOSE(%s) id=%s superseded=%v", m.seq, x.id, how, x.cid, x.superseded)
	m.mu.Unlock()
	atomic.AddInt64(&m.events, 1)
}

func (m *c17Mon) inconclusive(why string) {
	atomic.AddInt32(&c17Stalls, 1)
	if atomic.CompareAndSwapInt32(&m.aborted, 0, 1) {
		m.r.Inconclusive(why + fmt.Sprintf(" [kind=%s cap=%d]", m.cs.Kind, m.cs.Cap))
	}
}

func (m *c17Mon) waitUntil(what string, cond func() bool) bool {
	last := atomic.LoadInt64(&m.events)
	lastT := time.Now()
	for n := 0; ; n++ {
		if cond() {
			return true
		}
		if atomic.LoadInt32(&m.aborted) != 0 {
			return false
		}
		if n < 20 {
			runtime.Gosched()
		} else {
			time.Sleep(500 * time.Microsecond)
		}
		if e := atomic.LoadInt64(&m.events); e != last {
			last, lastT = e, time.Now()
		} else if wd := c17WD(); time.Since(lastT) > wd {
			atomic.AddInt32(&c17Stalls, 1)
			m.inconclusive("watchdog: no progress for " + wd.String() + " while waiting for " + what)
			return false
		}
	}
}

// ---- raw client

func c17Connect(m *c17Mon, addr, cid string, clean bool) (*c17Conn, byte, bool) {
	nc, err := net.DialTimeout("tcp", addr, 60*time.Second)
	if err != nil {
		m.inconclusive("dial failed: " + err.Error())
		return nil, 0, false
	}
	x := m.begin(cid, clean, nc)
	cp := packets.NewControlPacket(packets.Connect).(*packets.ConnectPacket)
	cp.ProtocolName = "MQTT"
	cp.ProtocolVersion = 4
	cp.CleanSession = clean
	cp.ClientIdentifier = cid
	cp.Keepalive = 0
	if err := cp.Write(nc); err != nil {
		nc.Close()
		m.inconclusive("CONNECT write failed: " + err.Error())
		return nil, 0, false
	}
	nc.SetReadDeadline(time.Now().Add(c17WD()))
	p, err := packets.ReadPacket(nc)
	if err != nil {
		nc.Close()
		if ne, ok := err.(net.Error); ok && ne.Timeout() {
			m.inconclusive("no CONNACK within the watchdog time")
			return nil, 0, false
		}
		m.r.Violation("mqtt:connection-ended-without-connack", map[string]interface{}{"err": err.Error(), "id": cid, "case": m.cs})
		return nil, 0, false
	}
	nc.SetReadDeadline(time.Time{})
	ack, ok := p.(*packets.ConnackPacket)
	if !ok {
		nc.Close()
		m.r.Violation("mqtt:first-packet-not-connack", map[string]interface{}{"packet": p.String(), "case": m.cs})
		return nil, 0, false
	}
	if ack.ReturnCode == packets.Accepted {
		m.accepted(x)
		return x, ack.ReturnCode, true
	}
	m.refused(x, ack.ReturnCode)
	nc.Close()
	return x, ack.ReturnCode, true
}

func c17Close(m *c17Mon, x *c17Conn, how int) {
	names := []string{"disconnect-packet", "fin", "rst"}
	m.closing(x, names[how])
	switch how {
	case 0:
		packets.NewControlPacket(packets.Disconnect).Write(x.nc)
	case 2:
		if tc, ok := x.nc.(*net.TCPConn); ok {
			tc.SetLinger(0)
		}
	}
	x.nc.Close()
}

// c17CloseSettled closes (DISCONNECT packet or FIN) and then waits for the broker to close its
// side, which it does only after the whole teardown of that connection has run.  Used for the
// kinds with clean sessions, where a connect of an id that overlaps the teardown of an older
// connection of the same id can crash the process (double close of the session channel).
func c17CloseSettled(m *c17Mon, x *c17Conn, how int) {
	names := []string{"disconnect-packet+wait", "fin+wait"}
	how %= 2
	m.closing(x, names[how])
	if how == 0 {
		packets.NewControlPacket(packets.Disconnect).Write(x.nc)
	}
	if tc, ok := x.nc.(*net.TCPConn); ok {
		tc.CloseWrite()
	}
	x.nc.SetReadDeadline(time.Now().Add(c17WD()))
	buf := make([]byte, 256)
	for {
		if _, err := x.nc.Read(buf); err != nil {
			if ne, ok := err.(net.Error); ok && ne.Timeout() {
				m.inconclusive("broker did not close its side of a finished connection within the watchdog time")
			}
			break
		}
	}
	x.nc.Close()
}

func c17ConnectPacket(cid string, clean bool) *packets.ConnectPacket {
	cp := packets.NewControlPacket(packets.Connect).(*packets.ConnectPacket)
	cp.ProtocolName = "MQTT"
	cp.ProtocolVersion = 4
	cp.CleanSession = clean
	cp.ClientIdentifier = cid
	return cp
}

// c17Abrupt: CONNECT with a never reused id, then reset the TCP connection without reading.
// Whether the broker's CONNACK write fails is up to the kernel and not observable here.
func c17Abrupt(m *c17Mon, addr, cid string, clean bool, yields int) {
	m.registerFailed(cid, c17FailTCPReset, clean)
	nc, err := net.DialTimeout("tcp", addr, 60*time.Second)
	if err != nil {
		m.inconclusive("dial failed: " + err.Error())
		return
	}
	c17ConnectPacket(cid, clean).Write(nc)
	for k := 0; k < yields; k++ {
		runtime.Gosched()
	}
	if tc, ok := nc.(*net.TCPConn); ok {
		tc.SetLinger(0)
	}
	nc.Close()
	m.r.Count("abrupt_connect_and_reset", 1)
	if !clean {
		m.r.Count("abrupt_connect_and_reset_persistent_session", 1)
	}
	atomic.AddInt64(&m.events, 1)
}

// c17ObsConn is the broker's side of a harness-owned connection.  It records what became of the
// CONNACK the broker wrote on it (one Write of 4 bytes: 0x20 0x02 flags code) and, when asked
// to, fails that write the way a broken network does.
type c17ObsConn struct {
	net.Conn
	failConnack bool
	acceptedErr int32 // an accepting CONNACK (code 0) was written and the write returned an error
	acceptedOK  int32
	refusal     int32 // a refusing CONNACK was written (no slot taken)
}

func (c *c17ObsConn) Write(p []byte) (int, error) {
	ack := len(p) == 4 && p[0] == 0x20 && p[1] == 0x02
	var n int
	var err error
	if ack && c.failConnack {
		err = &net.OpError{Op: "write", Net: "pipe", Err: fmt.Errorf("c17: injected write error (connection reset by peer)")}
	} else {
		n, err = c.Conn.Write(p)
	}
	if ack {
		switch {
		case p[3] != packets.Accepted:
			atomic.StoreInt32(&c.refusal, 1)
		case err != nil:
			atomic.StoreInt32(&c.acceptedErr, 1)
		default:
			atomic.StoreInt32(&c.acceptedOK, 1)
		}
	}
	return n, err
}

// c17FailedAttempt runs Broker.handleConn on a harness-owned connection (net.Pipe) whose client
// sends CONNECT with a never reused id and never reads: in mode c17FailPeerClosed the client end
// is closed at once (the broker's CONNACK write ends with "closed pipe"), in mode
// c17FailWriteError the CONNACK write itself returns an error while the peer is still there.
// Returns after handleConn has returned; true if an ACCEPTING CONNACK was written and failed,
// i.e. the attempt had been given a slot.
func c17FailedAttempt(m *c17Mon, mode int, cid string, clean bool) bool {
	f := m.registerFailed(cid, mode, clean)
	srv, cli := net.Pipe()
	oc := &c17ObsConn{Conn: srv, failConnack: mode == c17FailWriteError}
	done := make(chan struct{})
	go func() {
		defer close(done)
		m.b.handleConn(oc)
	}()
	cli.SetWriteDeadline(time.Now().Add(c17WD()))
	werr := c17ConnectPacket(cid, clean).Write(cli)
	if mode == c17FailPeerClosed || werr != nil {
		cli.Close()
	}
	atomic.AddInt64(&m.events, 1)
	ok := m.waitUntil("handleConn to return after a failed connection attempt", func() bool {
		select {
		case <-done:
			return true
		default:
			return false
		}
	})
	cli.Close()
	if werr != nil {
		m.inconclusive("CONNECT write on the harness-owned connection failed: " + werr.Error())
		return false
	}
	if !ok {
		return false
	}
	m.mu.Lock()
	f.ConnackError = atomic.LoadInt32(&oc.acceptedErr) != 0
	f.Refused = atomic.LoadInt32(&oc.refusal) != 0
	m.mu.Unlock()
	sess := "persistent_session"
	if clean {
		sess = "clean_session"
	}
	switch {
	case f.ConnackError:
		m.r.Count("failed_attempts_accepting_connack_write_failed_"+sess, 1)
		m.r.Count("failed_attempts_accepting_connack_write_failed:"+f.Stage, 1)
	case f.Refused:
		m.r.Count("failed_attempts_refused_at_cap", 1)
	case atomic.LoadInt32(&oc.acceptedOK) != 0:
		// cannot happen with a peer that never reads; would make the attempt an ordinary client
		m.inconclusive("the CONNACK of a connection attempt that was meant to fail was written successfully")
	}
	atomic.AddInt64(&m.events, 1)
	return f.ConnackError
}

// ---- case generator

func c17GenCase(rng *rand.Rand, i int) *c17Case {
	kinds := []string{"nonclean-serialized", "nonclean-free", "mixed-settled", "nonclean-abrupt", "clean-settled", "mixed-abrupt-settled"}
	c := &c17Case{Kind: kinds[i%len(kinds)]}
	c.Cap = []int{1, 2, 3, 4, 6, 8}[rng.Intn(6)]
	c.Agents = 3 * c.Cap
	if c.Agents < 4 {
		c.Agents = 4
	}
	c.Pool = c.Cap + rng.Intn(c.Cap+1)
	if rng.Intn(4) == 0 {
		c.Pool = c.Cap + 1 + rng.Intn(2)
	}
	c.Iters = 3 + rng.Intn(4)
	c.KeepOpen = []int{0, 10, 30}[rng.Intn(3)]
	switch c.Kind {
	case "nonclean-serialized":
		c.Clean, c.Serialize = "never", true
	case "nonclean-free":
		c.Clean = "never"
	case "mixed-settled":
		c.Clean, c.Serialize, c.Settle = "mixed", true, true
	case "nonclean-abrupt":
		c.Clean, c.Abrupt, c.Serialize = "never", true, rng.Intn(2) == 0
	case "clean-settled":
		c.Clean, c.Serialize, c.Settle = "always", true, true
	case "mixed-abrupt-settled":
		c.Clean, c.Abrupt, c.Serialize, c.Settle = "mixed", true, true, true
	}
	return c
}

// c17HandleConnGoroutines counts goroutines currently executing Broker.handleConn.
func c17HandleConnGoroutines() int {
	buf := make([]byte, 1<<20)
	for {
		n := runtime.Stack(buf, true)
		if n < len(buf) {
			buf = buf[:n]
			break
		}
		buf = make([]byte, 2*len(buf))
	}
	return bytes.Count(buf, []byte("\ngithub.com/megaease/easegress/pkg/object/mqttproxy.(*Broker).handleConn("))
}

func c17NewBroker(capN int) *Broker {
	spec := &Spec{Name: "c17", EGName: "c17", Port: 0, MaxAllowedConnection: capN}
	return newBroker(spec, newStorage(nil), nil, func(s, ss string) ([]string, error) { return nil, nil })
}

func c17RunCase(r *kit.Run, cs *c17Case, seed int64) {
	b := c17NewBroker(cs.Cap)
	if b == nil {
		r.Inconclusive("broker did not start (listen failed)")
		return
	}
	quiescent := false
	defer func() {
		if quiescent {
			b.close()
			return
		}
		// aborted with connections possibly in flight: stop accepting, but do not run
		// Broker.close (it sets the client map to nil under the feet of running handlers)
		b.setClose()
		close(b.done)
		b.listener.Close()
	}()
	addr := fmt.Sprintf("127.0.0.1:%d", b.listener.Addr().(*net.TCPAddr).Port)
	m := &c17Mon{r: r, cs: cs, b: b, cur: map[string][]*c17Conn{}, cleanEnded: map[string]bool{}, failed: map[string]*c17Failed{}}

	idLocks := make([]sync.Mutex, cs.Pool)
	closeConn := func(x *c17Conn, how int) {
		if cs.Settle {
			// the id lock has been held since before CONNECT: one connection per id at a time
			c17CloseSettled(m, x, how)
			idLocks[x.idx].Unlock()
			return
		}
		c17Close(m, x, how)
	}
	var abruptSeq int64
	var keptMu sync.Mutex
	var kept []*c17Conn
	var wg sync.WaitGroup
	for a := 0; a < cs.Agents; a++ {
		wg.Add(1)
		arng := rand.New(rand.NewSource(seed + int64(a)*104729))
		go func() {
			defer wg.Done()
			acc := 0
			for att := 0; acc < cs.Iters && att < 8*cs.Iters; att++ {
				if atomic.LoadInt32(&m.aborted) != 0 {
					return
				}
				if cs.Abrupt && arng.Intn(5) == 0 {
					fid := fmt.Sprintf("abrupt-%d", atomic.AddInt64(&abruptSeq, 1))
					fclean := cs.Clean == "always" || (cs.Clean == "mixed" && arng.Intn(2) == 0)
					switch mode := []int{c17FailTCPReset, c17FailTCPReset, c17FailPeerClosed, c17FailWriteError}[arng.Intn(4)]; mode {
					case c17FailTCPReset:
						c17Abrupt(m, addr, fid, fclean, arng.Intn(3)*arng.Intn(20))
					default:
						c17FailedAttempt(m, mode, fid, fclean)
					}
					continue
				}
				k := arng.Intn(cs.Pool)
				cid := fmt.Sprintf("id-%d", k)
				clean := cs.Clean == "always" || (cs.Clean == "mixed" && arng.Intn(2) == 0)
				if cs.Serialize {
					idLocks[k].Lock()
				}
				x, code, ok := c17Connect(m, addr, cid, clean)
				if cs.Serialize && !(cs.Settle && ok && code == packets.Accepted) {
					idLocks[k].Unlock()
				}
				if !ok {
					return
				}
				x.idx = k
				if code != packets.Accepted {
					if arng.Intn(2) == 0 {
						time.Sleep(time.Duration(100+arng.Intn(400)) * time.Microsecond)
					} else {
						runtime.Gosched()
					}
					continue
				}
				acc++
				if !cs.Settle && arng.Intn(100) < cs.KeepOpen {
					keptMu.Lock()
					kept = append(kept, x) // stays open: a target for takeovers, closed at the end
					keptMu.Unlock()
					continue
				}
				// hold until the logical clock has advanced by h events (or 30 ms, whichever
				// comes first; workload shaping only): the broker stays saturated
				h := int64(arng.Intn(4*cs.Cap + 1))
				m.mu.Lock()
				until := m.seq + h
				m.mu.Unlock()
				t0 := time.Now()
				for time.Since(t0) < 30*time.Millisecond {
					m.mu.Lock()
					now := m.seq
					m.mu.Unlock()
					if now >= until {
						break
					}
					time.Sleep(100 * time.Microsecond)
				}
				closeConn(x, []int{0, 0, 1, 2}[arng.Intn(4)])
			}
		}()
	}
	done := make(chan struct{})
	go func() { wg.Wait(); close(done) }()
	if !m.waitUntil("all client agents to finish", func() bool {
		select {
		case <-done:
			return true
		default:
			return false
		}
	}) {
		return
	}
	for i, x := range kept {
		closeConn(x, i%3)
	}
	m.mu.Lock()
	r.Max("max:connected_clients_seen", int64(m.maxLive))
	r.Cover(fmt.Sprintf("%s/cap=%d/pool=%d/maxlive=%d", cs.Kind, cs.Cap, cs.Pool, m.maxLive))
	m.mu.Unlock()

	// ---- quiescent point: every client socket is closed; capacity must come back.
	// Barrier: a connection that gets its CONNACK was accepted by Broker.run after every earlier
	// connection (FIFO accept queue), so all their handleConn goroutines exist by now; when no
	// goroutine is inside handleConn any more, nothing is left that could still add or remove
	// an entry of the client map.
	barriers := 0
	quiesce := func(what string) bool {
		barriers++
		bx, code, ok := c17Connect(m, addr, fmt.Sprintf("barrier-%d", barriers), false)
		if !ok {
			return false
		}
		if code == packets.Accepted {
			c17Close(m, bx, 0)
		}
		return m.waitUntil(what, func() bool {
			time.Sleep(3 * time.Millisecond)
			return c17HandleConnGoroutines() == 0
		})
	}
	// leakCheck reports the entries of the client map (all of them belong to finished
	// connections), one violation per class of connection, and returns how many there are.
	leaked := map[string]int{}
	leakCheck := func(at string) {
		classes := map[string][]string{}
		var left []string
		b.RLock()
		for cid := range b.clients {
			left = append(left, cid)
		}
		b.RUnlock()
		m.mu.Lock()
		for _, cid := range left {
			if leaked[cid] != 0 {
				continue
			}
			leaked[cid] = 1
			k := "normal-client"
			if f, ok := m.failed[cid]; ok {
				k = f.Stage
				if !f.Clean {
					k += ":persistent-session"
				}
			}
			classes[k] = append(classes[k], cid)
		}
		m.mu.Unlock()
		r.Count("quiescent_points", 1)
		for k, ids := range classes {
			sort.Strings(ids)
			m.mu.Lock()
			attempts := map[string]*c17Failed{}
			for _, cid := range ids {
				if f, ok := m.failed[cid]; ok {
					cp := *f
					attempts[cid] = &cp
				}
			}
			hist := m.tail()
			m.mu.Unlock()
			r.Violation("mqtt:slot-never-returned-after-disconnect:"+k, map[string]interface{}{
				"entries_left_in_broker_map_whose_connection_is_finished": ids, "failed_attempts": attempts,
				"checked_at": at, "cap": cs.Cap, "case": cs, "history": hist,
			})
		}
	}
	if !quiesce("all handleConn goroutines to end after every client closed") {
		return
	}
	quiescent = true
	leakCheck("quiescent point after the client workload")

	// ---- wave of failed connection attempts against the (now empty) broker: more than cap of
	// them, one at a time, each finished (its handleConn returned) before the next starts, so
	// each of the first cap finds a free slot unless an earlier one kept its slot.
	quiescent = false
	wrng := rand.New(rand.NewSource(seed ^ 0x5eedfa11))
	nfail := cs.Cap + 1 + wrng.Intn(cs.Cap+1)
	off := wrng.Intn(3)
	for j := 0; j < nfail; j++ {
		if atomic.LoadInt32(&m.aborted) != 0 {
			return
		}
		mode := (j + off) % 3
		fclean := cs.Clean == "always" || (cs.Clean == "mixed" && wrng.Intn(2) == 0)
		fid := fmt.Sprintf("failwave-%d", j)
		if mode == c17FailTCPReset {
			c17Abrupt(m, addr, fid, fclean, wrng.Intn(3)*wrng.Intn(20))
			if !quiesce("the handler of a connection that was reset right after CONNECT to end") {
				return
			}
		} else {
			c17FailedAttempt(m, mode, fid, fclean)
		}
	}
	if !quiesce("all handleConn goroutines to end after the wave of failed connection attempts") {
		return
	}
	quiescent = true
	r.Count("failed_attempt_waves", 1)
	r.Cover(fmt.Sprintf("failed-connect-wave/clean=%s/cap=%d/n=%d", cs.Clean, cs.Cap, nfail))
	leakCheck("quiescent point after a wave of failed connection attempts")
	// exact capacity probe at quiescence
	// (entries left behind were reported above; the probe then only asks for the slots that are
	// free right now and leaves the upper end alone, because such an entry may still go away)
	b.RLock()
	free := cs.Cap - len(b.clients)
	b.RUnlock()
	var probes []*c17Conn
	for k := 0; k < free+1; k++ {
		x, code, ok := c17Connect(m, addr, fmt.Sprintf("probe-%d", k), false)
		if !ok {
			break
		}
		if code == packets.Accepted {
			probes = append(probes, x)
		}
		if k < free && code != packets.Accepted {
			r.Violation("mqtt:refused-below-cap-at-quiescence", map[string]interface{}{"accepted_before": k, "cap": cs.Cap, "leaked": len(leaked), "case": cs})
			break
		}
		if k == free && len(leaked) > 0 {
			break
		}
		if k == free {
			if code == packets.Accepted {
				r.Violation("mqtt:accepted-beyond-cap-at-quiescence", map[string]interface{}{"cap": cs.Cap, "case": cs})
			} else {
				r.Count("final_probe_exact_cap", 1)
			}
		}
	}
	for _, x := range probes {
		c17Close(m, x, 0)
	}
}

func TestVerif_C17_MQTTConnCap(t *testing.T) {
	r := kit.Start(t, "C17")
	defer r.Finish()
	r.Rule("one real Broker per case (maxAllowedConnection = cap in {1,2,3,4,6,8}, loopback port) and max(4, 3 x cap) raw MQTT clients, each 3-6 rounds: CONNECT with an id from a pool of cap..2cap ids (so ids collide: takeovers of open connections, also at the cap), clean / non-clean / mixed sessions, connects of one id serialized or free-running, then DISCONNECT / plain close / TCP reset / stay open as a takeover target; some kinds add connection attempts that fail after CONNECT was sent (unique ids that never come back, clean or persistent session as the kind says): TCP reset right after CONNECT, or a harness-owned connection handed to Broker.handleConn whose peer is gone before the CONNACK / whose CONNACK write returns an error (the harness side of that connection sees that an ACCEPTING CONNACK was written and failed, i.e. that a slot had been taken); in every case, after the first quiescent point, a wave of cap+1..2cap+1 such failed attempts of the three sorts runs one at a time against the empty broker and a second quiescent point follows; oracle at every accepted CONNACK: connected clients (accepted, not closed, not superseded) <= cap and len(Broker.clients) <= cap under the broker lock; every refusal carries 'server unavailable'; at both quiescent points (no goroutine inside handleConn) no entry of a finished connection or failed attempt is left in Broker.clients (one signature per sort of connection: normal-client, client-reset-before-connack, peer-closed-before-connack, connack-write-error, with ':persistent-session' for cleanSession=false), and at the last one every slot has come back (exactly cap fresh clients accepted, next refused); distinct = (kind, cap, pool, max connected) and (failed-connect wave: session mode, cap, size)")
	r.Assume("in the kinds with clean sessions an id has one connection at a time and is reconnected only after the broker closed the previous socket (a connect that overlaps the teardown of an older connection of the same id - also a takeover right after the CONNACK - can crash the process by a double close of Session.done, a defect outside this property); takeovers of open connections are exercised in the non-clean kinds; different ids always run concurrently")
	r.Assume("keepalive 0 (the broker never times a client out); a client id whose concurrent connects overlap is counted only while all overlapping connections are open; connection attempts that fail before reading the CONNACK use ids nobody else uses; whether the CONNACK write to a TCP connection that was reset really fails is not observable (the harness-owned connections make it observable), so only the latter are required to have been seen taking a slot")
	n := r.N(150, 6000)
	for i := 0; i < n; i++ {
		if !r.Mine(i) {
			continue
		}
		rng := r.CaseRand(i)
		cs := c17GenCase(rng, i)
		r.Case(i, cs)
		if i < 2 {
			r.Sample(cs)
		}
		c17RunCase(r, cs, rng.Int63())
	}
	for _, k := range []string{"connack_accepted_samples", "samples_at_cap", "refused_server_unavailable", "takeovers_of_open_connection", "quiescent_points", "final_probe_exact_cap", "abrupt_connect_and_reset",
		"abrupt_connect_and_reset_persistent_session", "failed_attempt_waves",
		"failed_attempts_accepting_connack_write_failed_persistent_session", "failed_attempts_accepting_connack_write_failed_clean_session",
		"failed_attempts_accepting_connack_write_failed:peer-closed-before-connack", "failed_attempts_accepting_connack_write_failed:connack-write-error"} {
		r.Require(k, 1)
	}
}
