//go:build verif

package supervisor

// C20 burst part: SLOW lifecycle callbacks x bursts of effective snapshots.
//
// One lifecycle callback (an Init, an Inherit or a Close) is held by the harness while
// 12..30 further effective snapshots are pushed - more than a watcher's event queue holds.
// After the callback has been released and everything has drained (a barrier that does not
// depend on any callback: repeated identical pushes + event queues empty + run loops parked,
// read from a goroutine dump) the whole history is judged at once: per name the recorded
// calls must be exactly the calls of the snapshot sequence in snapshot order, and the live
// sets must equal the last snapshot.  Half of the cases run with a second registered watcher
// on the traffic categories (consumed by the harness, possibly slow as well) and objects of
// that category changing in the same snapshots: each watcher must get exactly the events of
// its own categories, per name in snapshot order.

import (
	"bytes"
	"fmt"
	"math/rand"
	"runtime"
	"sort"
	"strings"
	"sync"
	"sync/atomic"
	"testing"
	"time"

	"github.com/megaease/easegress/pkg/context"
	"verif.local/kit"
)

const (
	c20KindGate    = "VerifC20Gate"
	c20GatePrefix  = "gate-"
	c20TrafficName = "verif-c20-traffic"
)

var c20GateNames = []string{"gate-x", "gate-y"}

// c20Gate is an object of the traffic-gate category.  The Supervisor does not watch that
// category; the harness's second watcher does (as RawConfigTrafficController would) and only
// records the events, so the callbacks are never called.
type c20Gate struct{}

func (c *c20Gate) Category() ObjectCategory { return CategoryTrafficGate }
func (c *c20Gate) Kind() string             { return c20KindGate }
func (c *c20Gate) DefaultSpec() interface{} { return &c20ObjSpec{} }
func (c *c20Gate) Status() *Status          { return &Status{ObjectStatus: struct{}{}} }
func (c *c20Gate) Close()                   {}
func (c *c20Gate) Init(*Spec, context.MuxMapper)            {}
func (c *c20Gate) Inherit(*Spec, Object, context.MuxMapper) {}

func init() { Register(&c20Gate{}) }

// ---------------------------------------------------------------- second watcher

type c20Drain struct {
	mu      sync.Mutex
	perName map[string][]string // name -> ops in the order received, e.g. "C2" "U3" "D"
	foreign []string            // entities that do not pass the watcher's filter
	events  int
	gate    chan struct{} // closed: start consuming
	stop    chan struct{}
}

// c20BurstDrain consumes the second watcher like a manager of those categories would: one
// event at a time, deletes, creates, updates.
func c20BurstDrain(d *c20Drain, w *ObjectEntityWatcher) {
	<-d.gate
	for {
		select {
		case <-d.stop:
			return
		case ev := <-w.Watch():
			d.note(ev)
		}
	}
}

func (d *c20Drain) note(ev *ObjectEntityWatcherEvent) {
	d.mu.Lock()
	defer d.mu.Unlock()
	one := func(op string, m map[string]*ObjectEntity, withVariant bool) {
		names := make([]string, 0, len(m))
		for n := range m {
			names = append(names, n)
		}
		sort.Strings(names)
		for _, n := range names {
			e := m[n]
			cat := e.Instance().Category()
			if cat != CategoryTrafficGate && cat != CategoryPipeline {
				d.foreign = append(d.foreign, fmt.Sprintf("%s %s (kind %s, category %s)", op, n, e.Spec().Kind(), cat))
				continue
			}
			s := op
			if withVariant {
				if os, ok := e.Spec().ObjectSpec().(*c20ObjSpec); ok {
					s += fmt.Sprint(os.Variant)
				}
			}
			d.perName[n] = append(d.perName[n], s)
		}
	}
	one("D", ev.Delete, false)
	one("C", ev.Create, true)
	one("U", ev.Update, true)
	if len(ev.Delete)+len(ev.Create)+len(ev.Update) > 0 {
		d.events++
	}
}

// ---------------------------------------------------------------- goroutine-dump idle check

var c20StackBuf = make([]byte, 1<<20)

type c20Goroutine struct {
	state string
	inner string // innermost non-runtime function line
	text  []byte
}

func c20Dump() []c20Goroutine {
	var dump []byte
	for {
		n := runtime.Stack(c20StackBuf, true)
		if n < len(c20StackBuf) {
			dump = c20StackBuf[:n]
			break
		}
		c20StackBuf = make([]byte, 2*len(c20StackBuf))
	}
	var out []c20Goroutine
	for _, g := range bytes.Split(dump, []byte("\n\n")) {
		lines := bytes.Split(g, []byte("\n"))
		hdr := lines[0]
		lb, rb := bytes.IndexByte(hdr, '['), bytes.IndexByte(hdr, ']')
		if lb < 0 || rb < lb {
			continue
		}
		state := hdr[lb+1 : rb]
		if c := bytes.IndexByte(state, ','); c >= 0 {
			state = state[:c]
		}
		gr := c20Goroutine{state: string(state), text: g}
		for _, l := range lines[1:] {
			if bytes.HasPrefix(l, []byte("\t")) || bytes.HasPrefix(l, []byte("runtime.")) || bytes.HasPrefix(l, []byte("created by ")) {
				continue
			}
			gr.inner = string(l)
			break
		}
		out = append(out, gr)
	}
	return out
}

// c20AllIdle (stop-the-world cut): exactly one Supervisor.run loop exists and is parked in
// its own select (not inside handleEvent); every ObjectRegistry.run loop is parked in its
// own select (not inside applyConfig); no goroutine at all is inside, or was started by,
// applyConfig; the harness consumer of the second watcher (if any) is parked in its select.
func c20AllIdle(withDrain bool) bool {
	superLoops, drains := 0, 0
	for _, g := range c20Dump() {
		if bytes.Contains(g.text, []byte(".(*ObjectRegistry).applyConfig")) {
			return false
		}
		switch {
		case strings.Contains(g.inner, "supervisor.(*Supervisor).run("):
			superLoops++
			if g.state != "select" {
				return false
			}
		case strings.Contains(g.inner, "supervisor.(*ObjectRegistry).run("):
			if g.state != "select" {
				return false
			}
		case strings.Contains(g.inner, "supervisor.c20BurstDrain("):
			drains++
			if g.state != "select" {
				return false
			}
		case bytes.Contains(g.text, []byte("supervisor.(*Supervisor).run(")),
			bytes.Contains(g.text, []byte("supervisor.(*ObjectRegistry).run(")),
			bytes.Contains(g.text, []byte("supervisor.c20BurstDrain(")):
			return false // a loop that is inside a call
		}
	}
	if withDrain && drains != 1 || !withDrain && drains != 0 {
		return false
	}
	return superLoops == 1
}

// ---------------------------------------------------------------- case

type c20BurstCase struct {
	Seq      []c20Snapshot // business controllers: prefix, held snapshot, burst
	Gates    [][]int       // per snapshot: variant of each gate name (0 absent); nil with one watcher
	HeldAt   int           // index of the snapshot one of whose callbacks is held
	HoldName string
	HoldK    int    // the HoldK-th callback on HoldName is the slow one
	HoldOp   string // Init | Inherit | Close (what that callback is expected to be)
	Watchers int
	SlowW2   bool // the second watcher's consumer does not read before the release either
}

func (c c20BurstCase) desc() map[string]interface{} {
	d := map[string]interface{}{
		"snapshots": c20SeqString(c.Seq), "held_at_snapshot_index": c.HeldAt,
		"slow_callback": fmt.Sprintf("%s#%d (%s)", c.HoldName, c.HoldK, c.HoldOp),
		"burst_len":     len(c.Seq) - c.HeldAt - 1, "watchers": c.Watchers, "second_watcher_slow": c.SlowW2,
	}
	if c.Gates != nil {
		d["gate_variants_per_snapshot"] = fmt.Sprint(c.Gates)
	}
	return d
}

func c20LiveState(rng *rand.Rand) c20State { return c20StateOf(1 + rng.Intn(6)) }

// c20Step: a random successor of cur in which at least one name changes.
func c20Step(rng *rand.Rand, cur c20Snapshot) c20Snapshot {
	next := c20RandomSeq2(rng, cur)
	same := true
	for i := range next {
		if next[i] != cur[i] {
			same = false
		}
	}
	if same {
		n := rng.Intn(len(next))
		for next[n] == cur[n] {
			next[n] = c20StateOf(rng.Intn(7))
		}
	}
	return next
}

func c20RandomSeq2(rng *rand.Rand, cur c20Snapshot) c20Snapshot {
	next := make(c20Snapshot, len(c20Names))
	for n := range next {
		switch p := rng.Intn(10); {
		case p < 3:
			next[n] = cur[n]
		case p < 5 && cur[n].Kind != 0:
			next[n] = c20State{Kind: cur[n].Kind, Variant: 1 + (cur[n].Variant+rng.Intn(2))%3}
		case p < 6 && cur[n].Kind != 0:
			next[n] = c20State{Kind: 3 - cur[n].Kind, Variant: cur[n].Variant}
		case p < 8 && cur[n].Kind != 0:
			next[n] = c20State{}
		default:
			next[n] = c20StateOf(rng.Intn(7))
		}
	}
	return next
}

func c20GenBurst(rng *rand.Rand, i int) c20BurstCase {
	c := c20BurstCase{HoldOp: []string{"Init", "Inherit", "Close"}[i%3], Watchers: 1 + (i/3)%2}
	p := rng.Intn(3)
	if c.HoldOp != "Init" && p == 0 {
		p = 1
	}
	c.HeldAt = p
	cur := make(c20Snapshot, len(c20Names))
	for k := 0; k < p; k++ {
		cur = c20Step(rng, cur)
		c.Seq = append(c.Seq, cur)
	}
	target := rng.Intn(len(c20Names))
	c.HoldName = c20Names[target]
	if c.HoldOp != "Init" && cur[target].Kind == 0 {
		// the target has to be live before the held snapshot
		cur = append(c20Snapshot(nil), cur...)
		cur[target] = c20LiveState(rng)
		c.Seq[p-1] = cur
	}
	if c.HoldOp == "Init" && cur[target].Kind != 0 && rng.Intn(2) == 0 && p > 0 {
		cur = append(c20Snapshot(nil), cur...)
		cur[target] = c20State{}
		c.Seq[p-1] = cur
	}
	held := c20RandomSeq2(rng, cur)
	switch c.HoldOp {
	case "Init": // the name appears, or its kind changes (close of the old one, init of the new one)
		if cur[target].Kind == 0 {
			held[target] = c20LiveState(rng)
		} else {
			held[target] = c20State{Kind: 3 - cur[target].Kind, Variant: 1 + rng.Intn(3)}
		}
	case "Inherit":
		held[target] = c20State{Kind: cur[target].Kind, Variant: 1 + cur[target].Variant%3}
	case "Close": // the name disappears, or its kind changes
		if rng.Intn(3) == 0 {
			held[target] = c20State{Kind: 3 - cur[target].Kind, Variant: 1 + rng.Intn(3)}
		} else {
			held[target] = c20State{}
		}
	}
	before := c20ExpectedCalls(c.Seq)[c.HoldName]
	c.HoldK = before + 1
	if c.HoldOp == "Init" && cur[target].Kind != 0 {
		c.HoldK = before + 2 // kind change: the second call is the Init (the first call on the name is held if the order is the other way round - also a slow callback)
	}
	c.Seq = append(c.Seq, held)
	cur = held
	for b := 12 + rng.Intn(19); b > 0; b-- {
		cur = c20Step(rng, cur)
		c.Seq = append(c.Seq, cur)
	}
	if c.Watchers == 2 {
		c.SlowW2 = rng.Intn(2) == 0
		g := make([]int, len(c20GateNames))
		for range c.Seq {
			g = append([]int(nil), g...)
			for n := range g {
				switch rng.Intn(4) {
				case 0:
					g[n] = 0
				case 1, 2:
					g[n] = 1 + (g[n]+rng.Intn(2))%3
				}
			}
			c.Gates = append(c.Gates, g)
		}
	}
	return c
}

// c20GateWant: the ops the second watcher has to see for one gate name, in order.
func c20GateWant(gates [][]int, n int) []string {
	var out []string
	prev := 0
	for _, g := range gates {
		switch v := g[n]; {
		case v == prev:
		case prev == 0:
			out = append(out, fmt.Sprint("C", v))
		case v == 0:
			out = append(out, "D")
		default:
			out = append(out, fmt.Sprint("U", v))
		}
		prev = g[n]
	}
	return out
}

func c20BurstRun(r *kit.Run, c c20BurstCase) {
	if c20Stuck {
		return
	}
	c20rec.reset(nil)
	defer c20rec.release() // never leave a callback blocked behind
	rig, ok := c20NewRig(r.TmpDir())
	if !ok {
		c20Stuck = true
		r.Inconclusive("watchdog: supervisor did not finish its first event / the sentinel-only snapshot")
		return
	}
	c20rec.take()
	defer func() {
		c20rec.release()
		if !rig.close() {
			c20Stuck = true
			r.Inconclusive("watchdog: Supervisor.Close did not return")
		}
	}()
	var drain *c20Drain
	var w2 *ObjectEntityWatcher
	if c.Watchers == 2 {
		drain = &c20Drain{perName: map[string][]string{}, gate: make(chan struct{}), stop: make(chan struct{})}
		w2 = rig.super.objectRegistry.NewWatcher(c20TrafficName, FilterCategory(CategoryPipeline, CategoryTrafficGate))
		go c20BurstDrain(drain, w2)
		if !c.SlowW2 {
			close(drain.gate)
		}
		defer func() {
			if c.SlowW2 {
				select {
				case <-drain.gate:
				default:
					close(drain.gate)
				}
			}
			close(drain.stop)
			rig.super.objectRegistry.CloseWatcher(c20TrafficName)
		}()
	}
	setGates := func(k int) {
		if c.Gates != nil {
			rig.gates = c.Gates[k]
		}
	}
	report := func(prefix string, k int, mism []c20Mismatch, extra map[string]interface{}) {
		for _, mm := range mism {
			mm.Detail["sequence"] = c20SeqString(c.Seq)
			mm.Detail["at_snapshot_index"] = k
			mm.Detail["case"] = c.desc()
			for key, v := range extra {
				mm.Detail[key] = v
			}
			r.Violation(prefix+mm.Sig, mm.Detail)
		}
	}

	// prefix: applied one by one, judged like everywhere else
	model := c20NewModel(len(c20Names))
	for k := 0; k < c.HeldAt; k++ {
		setGates(k)
		if !rig.apply(c.Seq[k]) {
			c20Stuck = true
			r.Inconclusive("watchdog: sentinel callback not seen after a prefix snapshot of a burst case")
			return
		}
		mism, _, _ := model.consume(c.Seq[k], c20rec.take())
		mism = append(mism, model.checkLiveSet(c.Seq[k], rig.liveViews())...)
		r.Eval(1)
		report("", k, mism, nil)
	}

	// the held snapshot: one callback on HoldName does not return
	c20rec.setHold(c.HoldName, c.HoldK)
	setGates(c.HeldAt)
	if !rig.send(rig.config(c.Seq[c.HeldAt])) {
		c20Stuck = true
		r.Inconclusive("watchdog: the registry did not accept the held snapshot")
		return
	}
	heldOp := ""
	select {
	case heldOp = <-c20rec.heldCh:
	case <-time.After(c20Watchdog):
		c20Stuck = true
		r.Inconclusive("watchdog: the callback scripted to be slow was never entered")
		return
	}

	// the burst, pushed by a goroutine of its own: the registry may stop accepting
	burst := c.Seq[c.HeldAt+1:]
	configs := make([]map[string]string, len(burst))
	for j := range burst {
		setGates(c.HeldAt + 1 + j)
		configs[j] = rig.config(burst[j])
	}
	var accepted int64
	pushed := make(chan bool, 1)
	go func() {
		for _, m := range configs {
			if !rig.send(m) {
				pushed <- false
				return
			}
			atomic.AddInt64(&accepted, 1)
		}
		pushed <- true
	}()
	// Release when the whole burst has been taken in, or when the registry has stopped taking
	// snapshots (it waits for room in a watcher's queue).  How long that takes decides nothing.
	last, lastChange, start := int64(-1), time.Now(), time.Now()
	for {
		a := atomic.LoadInt64(&accepted)
		if a != last {
			last, lastChange = a, time.Now()
		}
		if int(a) == len(burst) || time.Since(lastChange) > 150*time.Millisecond {
			break
		}
		if time.Since(start) > c20Watchdog {
			break
		}
		time.Sleep(time.Millisecond)
	}
	atRelease := atomic.LoadInt64(&accepted)
	queued := len(rig.super.watcher.eventChan)
	r.Max("burst_max_snapshots_accepted_while_held", atRelease)
	if queued == cap(rig.super.watcher.eventChan) {
		r.Count("burst_supervisor_queue_full_at_release", 1)
	}
	if w2 != nil && len(w2.eventChan) == cap(w2.eventChan) {
		r.Count("burst_second_watcher_queue_full_at_release", 1)
	}
	if atRelease >= 11 {
		r.Count("burst_backlog_of_11_or_more_at_release", 1)
	}
	c20rec.release()
	if drain != nil && c.SlowW2 {
		close(drain.gate)
	}
	select {
	case ok := <-pushed:
		if !ok {
			c20Stuck = true
			r.Inconclusive("watchdog: the registry did not accept a burst snapshot after the slow callback had been released")
			return
		}
	case <-time.After(2 * c20Watchdog):
		c20Stuck = true
		r.Inconclusive("watchdog: burst pusher did not finish")
		return
	}
	// barrier, independent of every callback: two more pushes of the last snapshot (as the
	// periodic re-sync delivers them).  The syncer channel is unbuffered and the registry
	// handles one snapshot at a time, so once the second one has been accepted applyConfig
	// of the last burst snapshot has returned.  Then: queues empty, loops parked.
	for j := 0; j < 2; j++ {
		if !rig.send(configs[len(configs)-1]) {
			c20Stuck = true
			r.Inconclusive("watchdog: the registry did not accept the repeated last snapshot")
			return
		}
	}
	deadline := time.Now().Add(c20Watchdog)
	for spin := 0; ; spin++ {
		empty := func() bool {
			return len(rig.super.watcher.eventChan) == 0 && (w2 == nil || len(w2.eventChan) == 0)
		}
		if empty() {
			r.Count("burst_goroutine_dumps", 1)
			if c20AllIdle(w2 != nil) && empty() {
				break
			}
		}
		if time.Now().After(deadline) {
			c20Stuck = true
			r.Inconclusive("watchdog: supervisor / registry / watchers did not become idle after a burst")
			return
		}
		if spin < 50 {
			runtime.Gosched()
		} else {
			time.Sleep(500 * time.Microsecond)
		}
	}
	r.Count("burst_cases_drained", 1)
	r.Count("burst_held_"+heldOp, 1)
	r.Count(fmt.Sprintf("burst_watchers_%d", c.Watchers), 1)
	r.Count("burst_snapshots", int64(len(burst)))

	// judge the held snapshot and the burst as one history: per name the calls recorded, in
	// the order recorded, are dealt out to the snapshots by the number of calls each
	// transition asks for; the usual model then compares call by call (instances,
	// predecessors, specs).  Only the first mismatch of a name is reported (what follows
	// on that name is a consequence of the dealing-out).
	events := c20rec.take()
	byName := map[string][]c20Event{}
	var lit []string
	for _, e := range events {
		byName[e.Name] = append(byName[e.Name], e)
		lit = append(lit, e.String())
	}
	r.Count("callbacks_seen", int64(len(events)))
	firstBad := map[string]bool{}
	prev := make(c20Snapshot, len(c20Names))
	if c.HeldAt > 0 {
		prev = c.Seq[c.HeldAt-1]
	}
	extra := map[string]interface{}{"all_callbacks_from_the_held_snapshot_on": lit, "snapshots_accepted_before_release": atRelease}
	for k := c.HeldAt; k < len(c.Seq); k++ {
		snap := c.Seq[k]
		var evs []c20Event
		for i, name := range c20Names {
			w := c20Want(c20Transition(prev[i], snap[i]))[0]
			n := 0
			if w != "" {
				n = len(strings.Split(w, " "))
			}
			if n > len(byName[name]) {
				n = len(byName[name])
			}
			evs = append(evs, byName[name][:n]...)
			byName[name] = byName[name][n:]
		}
		mism, transitions, _ := model.consume(snap, evs)
		r.Eval(1)
		for _, tr := range transitions {
			if tr != "absent" && tr != "unchanged" {
				r.Count("burst_t_"+tr, 1)
			}
		}
		var keep []c20Mismatch
		for _, mm := range mism {
			name, _ := mm.Detail["name"].(string)
			if firstBad[name] {
				continue
			}
			firstBad[name] = true
			keep = append(keep, mm)
		}
		report("burst:", k, keep, extra)
		prev = snap
	}
	for name, rest := range byName {
		if len(rest) == 0 || firstBad[name] {
			continue
		}
		var got, l []string
		for _, e := range rest {
			got = append(got, model.shape(name, c20State{}, e))
			l = append(l, e.String())
		}
		report("burst:", len(c.Seq)-1, []c20Mismatch{{
			Sig:    fmt.Sprintf("lifecycle:calls-beyond-the-snapshot-sequence:got=[%s]", strings.Join(got, " ")),
			Detail: map[string]interface{}{"name": name, "callbacks_seen": l},
		}}, extra)
	}
	lastSnap := c.Seq[len(c.Seq)-1]
	views := rig.liveViews()
	report("burst:", len(c.Seq)-1, model.checkLiveSet(lastSnap, views), extra)
	sigParts := []string{"held=" + heldOp, fmt.Sprintf("watchers=%d", c.Watchers), fmt.Sprintf("slow2=%v", c.SlowW2), fmt.Sprintf("prefix=%d", c.HeldAt), fmt.Sprintf("burst=%d", len(burst)/6*6)}
	r.Cover("burst:" + strings.Join(sigParts, "/"))

	// second watcher: only its own categories, per name in snapshot order, nothing lost
	if drain != nil {
		drain.mu.Lock()
		defer drain.mu.Unlock()
		if len(drain.foreign) > 0 {
			r.Violation("burst:event-delivered-to-the-wrong-watcher:traffic-watcher-got-business-controllers", map[string]interface{}{
				"foreign_entries": drain.foreign, "case": c.desc()})
		}
		r.Count("burst_second_watcher_events", int64(drain.events))
		w2ent := w2.Entities()
		or := rig.super.objectRegistry
		or.mutex.Lock()
		regGates := map[string]int{}
		for name, e := range or.entities {
			if strings.HasPrefix(name, c20GatePrefix) {
				regGates[name] = e.Spec().ObjectSpec().(*c20ObjSpec).Variant
			}
		}
		or.mutex.Unlock()
		lastGates := c.Gates[len(c.Gates)-1]
		for n, name := range c20GateNames {
			want := strings.Join(c20GateWant(c.Gates, n), " ")
			got := strings.Join(drain.perName[name], " ")
			if got != want {
				class := "other"
				switch {
				case len(drain.perName[name]) < len(c20GateWant(c.Gates, n)):
					class = "events-lost"
				case len(drain.perName[name]) > len(c20GateWant(c.Gates, n)):
					class = "events-added"
				default:
					class = "events-out-of-snapshot-order"
				}
				r.Violation("burst:second-watcher-events:"+class, map[string]interface{}{
					"name": name, "got": got, "want": want, "case": c.desc()})
			}
			e, present := w2ent[name]
			switch {
			case present != (lastGates[n] != 0):
				r.Violation("burst:liveset:second-watcher:"+map[bool]string{true: "extra-name", false: "missing-name"}[present], map[string]interface{}{"name": name, "case": c.desc()})
			case present && e.Spec().ObjectSpec().(*c20ObjSpec).Variant != lastGates[n]:
				r.Violation("burst:liveset:second-watcher:stale-spec", map[string]interface{}{"name": name, "case": c.desc()})
			}
			if regGates[name] != lastGates[n] {
				r.Violation("burst:liveset:registry:traffic-object-differs-from-last-snapshot", map[string]interface{}{"name": name, "registry_variant": regGates[name], "want_variant": lastGates[n], "case": c.desc()})
			}
		}
		for name := range drain.perName {
			if !strings.HasPrefix(name, c20GatePrefix) {
				r.Violation("burst:second-watcher-events:unknown-name", map[string]interface{}{"name": name, "case": c.desc()})
			}
		}
		for name := range w2ent {
			if !strings.HasPrefix(name, c20GatePrefix) {
				r.Violation("burst:liveset:second-watcher:extra-name", map[string]interface{}{"name": name, "case": c.desc()})
			}
		}
	}
}

// TestVerif_C20_SlowBurst: slow lifecycle callbacks x bursts of snapshots.
func TestVerif_C20_SlowBurst(t *testing.T) {
	if c20ReplayOfAnotherPart(t) {
		t.Skip("replaying a case of another part")
	}
	r := kit.Start(t, "C20")
	defer r.Finish()
	r.Rule("seeded cases on a fresh Supervisor: 0..2 snapshots applied one by one, then a snapshot in which one chosen lifecycle callback (case index mod 3: an Init - name appears or changes kind -, an Inherit, a Close - name disappears or changes kind) is held by the harness, and while it is held a burst of 12..30 further snapshots over the 3 names (each changes at least one business controller) is pushed by a separate goroutine; the callback is released when the whole burst has been accepted or the registry has stopped accepting (no progress for 150 ms - schedule only, no verdict). Every second triple of cases has a second registered watcher on the Pipeline/TrafficGate categories, consumed by the harness (in half of them only after the release), and two traffic-gate objects changing in the same snapshots. After a callback-independent barrier (last snapshot pushed twice more, event queues empty, Supervisor.run / ObjectRegistry.run / consumer parked in their selects and no goroutine in or started by applyConfig, from a goroutine dump) the recorded calls are dealt out per name to the snapshots and compared with the lifecycle model (exact calls per name in snapshot order, predecessor = previous live generation), the three live-set views must equal the last snapshot, the second watcher must have received per gate name exactly the create/update/delete sequence of the snapshots and no entity of another category. distinct = held op x watchers x slow second watcher x prefix length x burst length class")
	r.Assume("a held callback counts as called when it is entered; releasing on a stall is a scheduling decision of the workload, not an observation")
	n := r.N(36, 600)
	for i := 0; i < n; i++ {
		if !r.Mine(i) {
			continue
		}
		c := c20GenBurst(r.CaseRand(i), i)
		r.Case(i, c.desc())
		c20BurstRun(r, c)
		if i < 2 {
			r.Sample(c.desc())
		}
	}
	for _, k := range []string{"burst_cases_drained", "burst_held_Init", "burst_held_Inherit", "burst_held_Close", "burst_watchers_1", "burst_watchers_2",
		"burst_supervisor_queue_full_at_release", "burst_backlog_of_11_or_more_at_release", "burst_second_watcher_events",
		"burst_t_appear", "burst_t_spec-change", "burst_t_kind-change", "burst_t_disappear"} {
		r.Require(k, 1)
	}
}
