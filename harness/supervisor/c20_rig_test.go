//go:build verif

package supervisor

// C20 rig: test-only BusinessController kinds that record their lifecycle callbacks, a
// Supervisor built by the real MustNew on a mocked cluster whose syncer channel the
// harness feeds, the sentinel barrier, and the reference lifecycle model written from
// the property sentence.

import (
	"fmt"
	"sort"
	"strings"
	"sync"
	"time"

	"github.com/megaease/easegress/pkg/cluster"
	"github.com/megaease/easegress/pkg/cluster/clustertest"
	"github.com/megaease/easegress/pkg/logger"
	"github.com/megaease/easegress/pkg/option"
)

const (
	c20KindA        = "VerifC20A"
	c20KindB        = "VerifC20B"
	c20KindSentinel = "VerifC20Sentinel"
	c20SentinelName = "zz-sentinel"
	c20Watchdog     = 120 * time.Second
)

var (
	c20Names = []string{"obj-a", "obj-b", "obj-c"}
	c20Kinds = []string{"", c20KindA, c20KindB} // index 0 = absent
)

// ---------------------------------------------------------------- recording kinds

type c20ObjSpec struct {
	Variant int `yaml:"variant" jsonschema:"omitempty"`
}

// c20Base is the identity of one object instance (its address) plus what the recorder
// learnt about it.  Fields are only touched under c20rec.mu.
type c20Base struct {
	id   int
	name string
}

type c20Inst interface{ c20base() *c20Base }

type c20Event struct {
	Op       string // Init | Inherit | Close
	Inst     *c20Base
	InstID   int
	Kind     string
	Name     string
	Variant  int
	Prev     *c20Base // Inherit: predecessor instance (nil if it is not one of the recording kinds)
	PrevID   int
	PrevKind string
	Panicked bool
}

func (e c20Event) String() string {
	switch e.Op {
	case "Inherit":
		return fmt.Sprintf("%s.Inherit(%s v%d, inst#%d <- prev inst#%d of kind %s)%s", e.Kind, e.Name, e.Variant, e.InstID, e.PrevID, e.PrevKind, c20PanicMark(e.Panicked))
	case "Init":
		return fmt.Sprintf("%s.Init(%s v%d, inst#%d)%s", e.Kind, e.Name, e.Variant, e.InstID, c20PanicMark(e.Panicked))
	}
	return fmt.Sprintf("%s.Close(%s inst#%d)%s", e.Kind, e.Name, e.InstID, c20PanicMark(e.Panicked))
}

func c20PanicMark(p bool) string {
	if p {
		return "!panic"
	}
	return ""
}

type c20Recorder struct {
	mu       sync.Mutex
	frozen   bool
	events   []c20Event
	perName  map[string]int          // lifecycle callbacks seen per object name in this case
	panicAt  map[string]map[int]bool // object name -> set of k: the k-th callback on that name panics
	nextID   int
	fired    int
	sentinel chan int
	// slow callbacks (burst part): the holdAt[name]-th callback on that name reports on
	// heldCh and does not return before releaseCh is closed.
	holdAt    map[string]int
	heldCh    chan string
	releaseCh chan struct{}
}

var c20rec = &c20Recorder{sentinel: make(chan int, 1024)}

func (rec *c20Recorder) reset(panicAt map[string]map[int]bool) {
	rec.mu.Lock()
	defer rec.mu.Unlock()
	rec.frozen = false
	rec.events = nil
	rec.perName = map[string]int{}
	rec.panicAt = panicAt
	rec.nextID = 0
	rec.fired = 0
	rec.holdAt = nil
	rec.heldCh = make(chan string, 16)
	rec.releaseCh = make(chan struct{})
	for {
		select {
		case <-rec.sentinel:
			continue
		default:
		}
		break
	}
}

func (rec *c20Recorder) setScript(panicAt map[string]map[int]bool) {
	rec.mu.Lock()
	rec.panicAt = panicAt
	rec.mu.Unlock()
}

func (rec *c20Recorder) freeze() {
	rec.mu.Lock()
	rec.frozen = true
	rec.mu.Unlock()
}

// take returns and clears the events recorded since the last call.
func (rec *c20Recorder) take() []c20Event {
	rec.mu.Lock()
	defer rec.mu.Unlock()
	ev := rec.events
	rec.events = nil
	return ev
}

func (rec *c20Recorder) idOf(b *c20Base) int {
	if b.id == 0 {
		rec.nextID++
		b.id = rec.nextID
	}
	return b.id
}

// setHold scripts one slow callback: the k-th callback on the name blocks until release().
func (rec *c20Recorder) setHold(name string, k int) {
	rec.mu.Lock()
	rec.holdAt = map[string]int{name: k}
	rec.mu.Unlock()
}

// release lets the held callback (and any later one) return.  Idempotent per case.
func (rec *c20Recorder) release() {
	rec.mu.Lock()
	defer rec.mu.Unlock()
	select {
	case <-rec.releaseCh:
	default:
		close(rec.releaseCh)
	}
}

// record notes one lifecycle callback and tells whether the script wants it to panic.  A
// callback scripted to be slow is recorded first (the call has happened) and then blocks,
// outside the recorder's lock, until the harness releases it.
func (rec *c20Recorder) record(op, kind string, b *c20Base, spec *Spec, prev Object) bool {
	panicked, wait := rec.record1(op, kind, b, spec, prev)
	if wait != nil {
		<-wait
	}
	return panicked
}

func (rec *c20Recorder) record1(op, kind string, b *c20Base, spec *Spec, prev Object) (bool, chan struct{}) {
	rec.mu.Lock()
	defer rec.mu.Unlock()
	if rec.frozen {
		return false, nil
	}
	e := c20Event{Op: op, Inst: b, Kind: kind}
	e.InstID = rec.idOf(b)
	if spec != nil {
		b.name = spec.Name()
		e.Variant = spec.ObjectSpec().(*c20ObjSpec).Variant
	}
	e.Name = b.name
	if op == "Inherit" {
		if prev != nil {
			e.PrevKind = prev.Kind()
		}
		if pi, ok := prev.(c20Inst); ok {
			e.Prev = pi.c20base()
			e.PrevID = rec.idOf(e.Prev)
		}
	}
	rec.perName[e.Name]++
	if rec.panicAt[e.Name][rec.perName[e.Name]] {
		e.Panicked = true
		rec.fired++
	}
	rec.events = append(rec.events, e)
	if k, ok := rec.holdAt[e.Name]; ok && k == rec.perName[e.Name] {
		rec.heldCh <- op
		return e.Panicked, rec.releaseCh
	}
	return e.Panicked, nil
}

func (b *c20Base) c20base() *c20Base { return b }

func (b *c20Base) onInit(kind string, spec *Spec) {
	if c20rec.record("Init", kind, b, spec, nil) {
		panic("c20: scripted panic in Init")
	}
}

func (b *c20Base) onInherit(kind string, spec *Spec, prev Object) {
	if c20rec.record("Inherit", kind, b, spec, prev) {
		panic("c20: scripted panic in Inherit")
	}
}

func (b *c20Base) onClose(kind string) {
	if c20rec.record("Close", kind, b, nil, nil) {
		panic("c20: scripted panic in Close")
	}
}

type c20CtlA struct{ c20Base }

func (c *c20CtlA) Category() ObjectCategory      { return CategoryBusinessController }
func (c *c20CtlA) Kind() string                  { return c20KindA }
func (c *c20CtlA) DefaultSpec() interface{}      { return &c20ObjSpec{} }
func (c *c20CtlA) Status() *Status               { return &Status{ObjectStatus: struct{}{}} }
func (c *c20CtlA) Init(s *Spec)                  { c.onInit(c20KindA, s) }
func (c *c20CtlA) Inherit(s *Spec, prev Object)  { c.onInherit(c20KindA, s, prev) }
func (c *c20CtlA) Close()                        { c.onClose(c20KindA) }

type c20CtlB struct{ c20Base }

func (c *c20CtlB) Category() ObjectCategory      { return CategoryBusinessController }
func (c *c20CtlB) Kind() string                  { return c20KindB }
func (c *c20CtlB) DefaultSpec() interface{}      { return &c20ObjSpec{} }
func (c *c20CtlB) Status() *Status               { return &Status{ObjectStatus: struct{}{}} }
func (c *c20CtlB) Init(s *Spec)                  { c.onInit(c20KindB, s) }
func (c *c20CtlB) Inherit(s *Spec, prev Object)  { c.onInherit(c20KindB, s, prev) }
func (c *c20CtlB) Close()                        { c.onClose(c20KindB) }

// c20Sentinel is the barrier object: its Init/Inherit reports the sequence number
// carried in its spec.
type c20Sentinel struct{}

func (c *c20Sentinel) Category() ObjectCategory { return CategoryBusinessController }
func (c *c20Sentinel) Kind() string             { return c20KindSentinel }
func (c *c20Sentinel) DefaultSpec() interface{} { return &c20ObjSpec{} }
func (c *c20Sentinel) Status() *Status          { return &Status{ObjectStatus: struct{}{}} }
func (c *c20Sentinel) Init(s *Spec)             { c20rec.sentinel <- s.ObjectSpec().(*c20ObjSpec).Variant }
func (c *c20Sentinel) Inherit(s *Spec, _ Object) {
	c20rec.sentinel <- s.ObjectSpec().(*c20ObjSpec).Variant
}
func (c *c20Sentinel) Close() {}

func init() {
	logger.InitNop()
	Register(&c20CtlA{})
	Register(&c20CtlB{})
	Register(&c20Sentinel{})
}

// ---------------------------------------------------------------- snapshots

// c20State is the state of one name in a snapshot: Kind 0 = absent, 1 = kind A, 2 = kind B.
type c20State struct {
	Kind    int
	Variant int
}

func (s c20State) String() string {
	if s.Kind == 0 {
		return "-"
	}
	return fmt.Sprintf("%s%d", string(rune('A'+s.Kind-1)), s.Variant)
}

// c20StateOf decodes 0..6 (0 absent, 1..3 kind A variants 1..3, 4..6 kind B variants 1..3).
func c20StateOf(code int) c20State {
	if code == 0 {
		return c20State{}
	}
	return c20State{Kind: 1 + (code-1)/3, Variant: 1 + (code-1)%3}
}

type c20Snapshot []c20State // index = name index

func (s c20Snapshot) String() string {
	parts := make([]string, len(s))
	for i, st := range s {
		parts[i] = c20Names[i] + ":" + st.String()
	}
	return "{" + strings.Join(parts, " ") + "}"
}

func c20SeqString(seq []c20Snapshot) string {
	parts := make([]string, len(seq))
	for i, s := range seq {
		parts[i] = s.String()
	}
	return strings.Join(parts, " -> ")
}

func c20YAML(name, kind string, variant int) string {
	return fmt.Sprintf("name: %s\nkind: %s\nvariant: %d\n", name, kind, variant)
}

// ---------------------------------------------------------------- rig

type c20Rig struct {
	super  *Supervisor
	ch     chan map[string]string
	prefix string
	seq    int
	// gates (burst part only): variant of each c20GateNames object of the traffic-gate
	// category in the snapshots to come (0 = absent).  Not watched by the Supervisor.
	gates []int
}

// c20NewRig builds a real Supervisor (MustNew) on a mocked cluster.  ok=false: watchdog.
func c20NewRig(home string) (*c20Rig, bool) {
	rig := &c20Rig{ch: make(chan map[string]string)}
	layout := &cluster.Layout{}
	rig.prefix = layout.ConfigObjectPrefix()
	syncer := clustertest.NewMockedSyncer()
	syncer.MockedSyncPrefix = func(string) (<-chan map[string]string, error) { return rig.ch, nil }
	cls := clustertest.NewMockedCluster()
	cls.MockedLayout = func() *cluster.Layout { return layout }
	cls.MockedGetPrefix = func(string) (map[string]string, error) { return map[string]string{}, nil }
	cls.MockedSyncer = func(time.Duration) (cluster.Syncer, error) { return syncer, nil }
	rig.super = MustNew(&option.Options{AbsHomeDir: home}, cls)
	select {
	case <-rig.super.FirstHandleDone():
	case <-time.After(c20Watchdog):
		return rig, false
	}
	// The sentinel is created alone, in an event of its own, before any object under
	// observation exists: from now on it only ever changes in events that contain nothing
	// else, so no behaviour of the observed objects can keep the barrier from reporting.
	if !rig.apply(make(c20Snapshot, len(c20Names))) {
		return rig, false
	}
	return rig, true
}

func (rig *c20Rig) config(snap c20Snapshot) map[string]string {
	m := map[string]string{}
	for i, st := range snap {
		if st.Kind != 0 {
			m[rig.prefix+c20Names[i]] = c20YAML(c20Names[i], c20Kinds[st.Kind], st.Variant)
		}
	}
	for i, v := range rig.gates {
		if v != 0 {
			m[rig.prefix+c20GateNames[i]] = c20YAML(c20GateNames[i], c20KindGate, v)
		}
	}
	m[rig.prefix+c20SentinelName] = c20YAML(c20SentinelName, c20KindSentinel, rig.seq)
	return m
}

func (rig *c20Rig) send(m map[string]string) bool {
	select {
	case rig.ch <- m:
		return true
	case <-time.After(c20Watchdog):
		return false
	}
}

// apply pushes the snapshot and returns once every callback it caused has returned:
// the registry and the supervisor each handle one snapshot/event at a time, so the
// callback of the sentinel changed in a second push runs after the first push's event
// has been handled completely.  ok=false: watchdog fired (inconclusive).
func (rig *c20Rig) apply(snap c20Snapshot) bool {
	if !rig.send(rig.config(snap)) {
		return false
	}
	rig.seq++
	if !rig.send(rig.config(snap)) {
		return false
	}
	deadline := time.After(c20Watchdog)
	for {
		select {
		case n := <-c20rec.sentinel:
			if n == rig.seq {
				return true
			}
		case <-deadline:
			return false
		}
	}
}

func (rig *c20Rig) close() bool {
	c20rec.freeze()
	done := make(chan struct{})
	go func() {
		var wg sync.WaitGroup
		wg.Add(1)
		rig.super.Close(&wg)
		close(done)
	}()
	select {
	case <-done:
		return true
	case <-time.After(c20Watchdog):
		return false
	}
}

// ---------------------------------------------------------------- reference model

const (
	c20Live = iota + 1
	c20Superseded
	c20Closed
)

// c20Model is the lifecycle model from the property sentence: which instance is the
// live generation of each name, and what has happened to every instance seen so far.
type c20Model struct {
	prev  c20Snapshot
	live  map[string]*c20Base
	state map[*c20Base]int
}

func c20NewModel(names int) *c20Model {
	return &c20Model{prev: make(c20Snapshot, names), live: map[string]*c20Base{}, state: map[*c20Base]int{}}
}

func c20Transition(from, to c20State) string {
	switch {
	case from.Kind == 0 && to.Kind == 0:
		return "absent"
	case from.Kind == 0:
		return "appear"
	case to.Kind == 0:
		return "disappear"
	case from == to:
		return "unchanged"
	case from.Kind == to.Kind:
		return "spec-change"
	}
	return "kind-change"
}

// c20Want lists the acceptable call shapes for a transition (the sentence does not order
// the close and the init of a kind change).
func c20Want(tr string) []string {
	switch tr {
	case "appear":
		return []string{"Init(fresh)"}
	case "spec-change":
		return []string{"Inherit(fresh,prev=live,prevkind=same)"}
	case "disappear":
		return []string{"Close(live)"}
	case "kind-change":
		return []string{"Close(live) Init(fresh)", "Init(fresh) Close(live)"}
	}
	return []string{""}
}

func c20StateName(st int) string {
	switch st {
	case c20Live:
		return "live-elsewhere"
	case c20Superseded:
		return "superseded"
	case c20Closed:
		return "closed"
	}
	return "uninitialised"
}

type c20Mismatch struct {
	Sig    string
	Detail map[string]interface{}
}

// consume compares the callbacks recorded while snapshot `next` was applied with the
// model, name by name, and advances the model.  Every instance-level invariant (no
// second Init/Inherit on an instance, no second Close, no use after Close, predecessor =
// previous live generation) is part of the shape a call is reduced to.
func (m *c20Model) consume(next c20Snapshot, events []c20Event) (mism []c20Mismatch, transitions []string, panickedNames map[string]bool) {
	byName := map[string][]c20Event{}
	panickedNames = map[string]bool{}
	for _, e := range events {
		byName[e.Name] = append(byName[e.Name], e)
		if e.Panicked {
			panickedNames[e.Name] = true
		}
	}
	known := map[string]bool{}
	for i := range next {
		name := c20Names[i]
		known[name] = true
		tr := c20Transition(m.prev[i], next[i])
		transitions = append(transitions, tr)
		var got []string
		for _, e := range byName[name] {
			got = append(got, m.shape(name, next[i], e))
		}
		gotS := strings.Join(got, " ")
		want := c20Want(tr)
		ok := false
		for _, w := range want {
			if gotS == w {
				ok = true
			}
		}
		if !ok {
			var evs []string
			for _, e := range byName[name] {
				evs = append(evs, e.String())
			}
			mism = append(mism, c20Mismatch{
				Sig: fmt.Sprintf("lifecycle:%s:got=[%s]:want=[%s]", tr, gotS, want[0]),
				Detail: map[string]interface{}{
					"name": name, "transition": fmt.Sprintf("%s -> %s", m.prev[i], next[i]), "callbacks_seen": evs,
					"panic_scripted_on_this_name_in_this_snapshot": panickedNames[name],
				},
			})
		}
		if next[i].Kind == 0 {
			m.live[name] = nil // whatever happened, the model's live set is the snapshot
		}
	}
	for name, evs := range byName {
		if known[name] {
			continue
		}
		var got, lit []string
		for _, e := range evs {
			got = append(got, m.shape(name, c20State{}, e))
			lit = append(lit, e.String())
		}
		mism = append(mism, c20Mismatch{
			Sig:    fmt.Sprintf("lifecycle:orphan-call:got=[%s]", strings.Join(got, " ")),
			Detail: map[string]interface{}{"name": name, "callbacks_seen": lit},
		})
	}
	m.prev = append(c20Snapshot(nil), next...)
	return
}

// shape reduces one callback to its lifecycle meaning relative to the model and applies
// its effect to the model (adopting what really happened, so that later snapshots of the
// same sequence are still compared meaningfully).
func (m *c20Model) shape(name string, target c20State, e c20Event) string {
	switch e.Op {
	case "Init", "Inherit":
		attrs := []string{"fresh"}
		if st, seen := m.state[e.Inst]; seen {
			attrs[0] = "reused-" + c20StateName(st)
			if m.live[name] == e.Inst {
				attrs[0] = "reused-live"
			}
		}
		if e.Op == "Inherit" {
			p := "prev="
			switch {
			case e.Prev == nil:
				p += "foreign"
			case m.live[name] == e.Prev && m.state[e.Prev] == c20Live:
				p += "live"
			default:
				p += c20StateName(m.state[e.Prev])
			}
			attrs = append(attrs, p)
			if e.PrevKind == e.Kind {
				attrs = append(attrs, "prevkind=same")
			} else {
				attrs = append(attrs, "prevkind=other")
			}
			if e.Prev != nil {
				m.state[e.Prev] = c20Superseded
			}
		}
		if target.Kind == 0 || e.Kind != c20Kinds[target.Kind] || e.Variant != target.Variant {
			attrs = append(attrs, "spec-not-of-snapshot")
		}
		m.state[e.Inst] = c20Live
		m.live[name] = e.Inst
		return e.Op + "(" + strings.Join(attrs, ",") + ")"
	}
	// Close
	st, seen := m.state[e.Inst]
	a := ""
	switch {
	case !seen:
		a = "uninitialised"
	case st == c20Live && m.live[name] == e.Inst:
		a = "live"
		m.live[name] = nil
	default:
		a = c20StateName(st)
	}
	m.state[e.Inst] = c20Closed
	return "Close(" + a + ")"
}

// leaked counts instances the model still considers initialised and not closed although
// they are nobody's live generation (bookkeeping for the evidence; the deciding
// comparison is per name in consume).
func (m *c20Model) leaked() int {
	liveSet := map[*c20Base]bool{}
	for _, b := range m.live {
		if b != nil {
			liveSet[b] = true
		}
	}
	n := 0
	for b, st := range m.state {
		if st == c20Live && !liveSet[b] {
			n++
		}
	}
	return n
}

// ---------------------------------------------------------------- live-set views

type c20View struct {
	Kind    string
	Variant int
	Inst    *c20Base
}

func c20ViewOf(entities map[string]*ObjectEntity) map[string]c20View {
	out := map[string]c20View{}
	for name, e := range entities {
		if name == c20SentinelName || strings.HasPrefix(name, c20GatePrefix) {
			continue
		}
		v := c20View{Kind: e.Spec().Kind()}
		if os, ok := e.Spec().ObjectSpec().(*c20ObjSpec); ok {
			v.Variant = os.Variant
		}
		if ci, ok := e.Instance().(c20Inst); ok {
			v.Inst = ci.c20base()
		}
		out[name] = v
	}
	return out
}

// liveViews reads the three places the anchors name, each through the code's own
// synchronisation (sync.Map, registry mutex, watcher mutex) at a quiescent point.
func (rig *c20Rig) liveViews() map[string]map[string]c20View {
	sup := map[string]*ObjectEntity{}
	rig.super.businessControllers.Range(func(k, v interface{}) bool {
		sup[k.(string)] = v.(*ObjectEntity)
		return true
	})
	reg := map[string]*ObjectEntity{}
	or := rig.super.objectRegistry
	or.mutex.Lock()
	for k, v := range or.entities {
		reg[k] = v
	}
	or.mutex.Unlock()
	return map[string]map[string]c20View{
		"supervisor": c20ViewOf(sup),
		"registry":   c20ViewOf(reg),
		"watcher":    c20ViewOf(rig.super.watcher.Entities()),
	}
}

// checkLiveSet: the set of live objects equals the latest applied snapshot.
func (m *c20Model) checkLiveSet(snap c20Snapshot, views map[string]map[string]c20View) (mism []c20Mismatch) {
	viewNames := make([]string, 0, len(views))
	for v := range views {
		viewNames = append(viewNames, v)
	}
	sort.Strings(viewNames)
	for _, vn := range viewNames {
		view := views[vn]
		seen := map[string]bool{}
		for i, st := range snap {
			name := c20Names[i]
			seen[name] = true
			got, present := view[name]
			bad := ""
			switch {
			case st.Kind == 0 && present:
				bad = "extra-name"
			case st.Kind != 0 && !present:
				bad = "missing-name"
			case st.Kind == 0:
			case got.Kind != c20Kinds[st.Kind]:
				bad = "wrong-kind"
			case got.Variant != st.Variant:
				bad = "stale-spec"
			case vn == "supervisor" && got.Inst != m.live[name]:
				bad = "instance-is-not-the-live-generation"
			}
			if bad != "" {
				mism = append(mism, c20Mismatch{
					Sig:    "liveset:" + vn + ":" + bad,
					Detail: map[string]interface{}{"name": name, "snapshot": snap.String(), "view": fmt.Sprintf("%+v present=%v", got, present)},
				})
			}
		}
		for name := range view {
			if !seen[name] {
				mism = append(mism, c20Mismatch{Sig: "liveset:" + vn + ":extra-name", Detail: map[string]interface{}{"name": name}})
			}
		}
	}
	return
}
