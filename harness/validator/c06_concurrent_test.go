//go:build verif

package validator

// C06, concurrent part: ONE Validator instance verifies many requests at the same time, as it
// does in a pipeline behind the HTTP server (one filter instance, one goroutine per request).
//
// The property quantifies over requests, not over schedules: whether a request is admitted may
// depend on that request and the configuration only.  So every verdict obtained while other
// requests are being verified by the same filter must be the verdict the request gets alone:
// validly issued credentials => "", one covered part changed => invalid + 401/400, never a panic.
//
// Shape: per case a pool of a few validly issued base requests and their single mutations (the
// same issuers and mutation lists as the sequential parts) is first judged sequentially (a
// deviation there is reported under the sequential parts' signatures and the item is left out);
// then 8 goroutines verify items of the pool through the same filter in rounds.  In every round
// each goroutine first parses its requests (net/http + NewRequest + FetchPayload), all meet at a
// barrier, and then call Handle back to back.  Half of the rounds focus on ONE base request: some
// goroutines verify the untouched original while the others verify its mutations (a verification
// that mixes up state of two requests in flight shows as a mutation admitted next to its
// original); the other rounds mix all base requests (shows as a valid request refused).
// The race detector is scoped (props race_scope) to the validator and signer packages.

import (
	"bufio"
	"bytes"
	"fmt"
	"math/rand"
	"net/http"
	"os"
	"sort"
	"strings"
	"sync"
	"testing"
	"time"

	"verif.local/kit"

	"github.com/megaease/easegress/pkg/context"
	"github.com/megaease/easegress/pkg/protocols/httpprot"
)

type concItem struct {
	base   int
	name   string
	valid  bool
	w      wireReq
	wire   []byte
	seqSig string // signature under which a deviating SEQUENTIAL verdict is reported
}

type concPool struct {
	kind    string // jwt | basic | signature | presign
	cfg     interface{}
	v       *Validator
	items   []concItem
	cleanup func()
	rounds  int // barrier-started rounds
	batch   int // Handle calls per goroutine and round
}

func (pl *concPool) add(base int, name string, valid bool, w wireReq) {
	part := pl.kind
	mname := name
	if pl.kind == "presign" {
		part, mname = "signature", "presign-"+name
	}
	sig := part + ":mutated-accepted:" + mname
	if valid {
		sig = part + ":valid-rejected:" + mname + "(sequential-baseline-of-concurrent-part)"
	}
	pl.items = append(pl.items, concItem{base: base, name: name, valid: valid, w: w, wire: w.bytes(), seqSig: sig})
}

// shape: Basic verification is two orders of magnitude more expensive (bcrypt under the race
// detector), and its calls overlap anyway: fewer, shorter rounds.
func (pl *concPool) shape() {
	pl.rounds, pl.batch = concRounds, concBatch
	if pl.kind == "basic" {
		pl.rounds, pl.batch = 3, 3
	}
}

func (pl *concPool) close() {
	pl.v.Close()
	if pl.cleanup != nil {
		pl.cleanup()
	}
}

func concJWT(rng *rand.Rand, nb int) (*concPool, error) {
	cfg := genJWTCfg(rng)
	v, err := newValidator("kind: Validator\nname: v\n"+cfg.yaml(""), nil)
	if err != nil {
		return nil, err
	}
	pl := &concPool{kind: "jwt", cfg: cfg, v: v}
	for b := 0; b < nb; b++ {
		claims, _ := genClaims(rng)
		claims["jti"] = randAlnum(rng, 10) // the tokens of two base requests always differ
		g := genRequest(rng, genReqOpts{})
		viaCookie := cfg.Cookie != "" && rng.Intn(5) < 3
		tok := jwtEncode(cfg.Alg, cfg.Alg, cfg.key(), claims)
		w := g.W.clone()
		putToken(&w, cfg, viaCookie, tok, rng)
		pl.add(b, "valid", true, w)
		for _, m := range jwtMutations(rng, cfg, claims, tok) {
			mw := g.W.clone()
			putToken(&mw, cfg, viaCookie, m.tok, rng)
			pl.add(b, m.name, false, mw)
		}
		mw := g.W.clone()
		mw.delHeader("Authorization")
		mw.delHeader("Cookie")
		pl.add(b, "token-removed", false, mw)
	}
	return pl, nil
}

func concBasic(r *kit.Run, i int, rng *rand.Rand, nb int) (*concPool, error) {
	cfg := basicCfg{Mode: "FILE", Users: genBasicUsers(rng)}
	if rng.Intn(5) == 0 {
		cfg.Mode = "ETCD"
	}
	v, err := buildBasic(r, 200000+i, &cfg, "")
	if err != nil {
		return nil, err
	}
	pl := &concPool{kind: "basic", cfg: cfg, v: v}
	if cfg.File != "" {
		f := cfg.File
		pl.cleanup = func() { os.Remove(f) }
	}
	first := rng.Intn(len(cfg.Users))
	for b := 0; b < nb; b++ {
		u := cfg.Users[(first+b)%len(cfg.Users)]
		g := genRequest(rng, genReqOpts{})
		w := g.W.clone()
		w.setHeader("Authorization", basicHeader(u.Name, u.Pass))
		pl.add(b, "valid", true, w)
		for _, m := range basicMutations(rng, cfg, u) {
			mw := g.W.clone()
			mw.setHeader("Authorization", m.header)
			pl.add(b, m.name, false, mw)
		}
		mw := g.W.clone()
		mw.delHeader("Authorization")
		pl.add(b, "header-removed", false, mw)
	}
	return pl, nil
}

// concSignature: header form or presigned URLs.  The base requests of one pool are signed by
// different configured access keys where several are configured.
func concSignature(r *kit.Run, rng *rand.Rand, nb int, presign bool) (*concPool, error) {
	cfg := genSigCfg(rng, false)
	cfg.Presign = presign
	if presign {
		cfg.ExcludeBody, cfg.ShaHeader = false, false
	}
	v, err := newValidator("kind: Validator\nname: v\n"+cfg.yaml(""), nil)
	if err != nil {
		return nil, err
	}
	pl := &concPool{kind: "signature", cfg: cfg, v: v}
	if presign {
		pl.kind = "presign"
	}
	ids := keyIDs(cfg)
	sort.Strings(ids)
	for b := 0; b < nb; b++ {
		c := cfg
		c.KeyID = ids[rng.Intn(len(ids))]
		var extra []hdrKV
		for _, h := range c.Ignored {
			extra = append(extra, hdrKV{h, "198.51.100." + fmt.Sprint(rng.Intn(250))})
		}
		g := genRequest(rng, genReqOpts{extraHdrs: extra, noBody: presign})
		if presign {
			g.W.Method = pick(rng, "GET", "GET", "DELETE")
		}
		ts := c.validTime(rng)
		if presign && c.ttl() == 0 {
			ts = time.Now().Add(-time.Duration(rng.Int63n(int64(90 * time.Minute))))
		}
		expires := time.Duration(12+rng.Intn(150)) * time.Hour
		sw := g.W.clone()
		agree, _, _, serr := signBoth(c, &sw, ts, expires)
		if serr != nil || !agree {
			// "validly signed" is not defined for this request (see the Signature part)
			r.Count("conc_base_skipped_issuers_disagree", 1)
			continue
		}
		pl.add(b, "valid", true, sw)
		if presign {
			old := g.W.clone()
			sigV4Presign(&old, c.params(time.Now().Add(-expires-time.Duration(3+rng.Intn(100))*time.Hour)), expires)
			pl.add(b, "expired-by-hours", false, old)
			m := sw.clone()
			i0 := strings.LastIndex(m.RawQuery, "=") + 1
			s, _ := changeHex(rng, m.RawQuery[i0:])
			m.RawQuery = m.RawQuery[:i0] + s
			pl.add(b, "signature-hex-char-changed", false, m)
			for _, k := range foreignCreds(rng, c) {
				m := g.W.clone()
				pp := c.params(ts)
				pp.KeyID, pp.Secret = k.id, k.secret
				sigV4Presign(&m, pp, expires)
				pl.add(b, k.name, false, m)
			}
			// the presigned link used for another method / path / query / host
			m = sw.clone()
			if m.Method == "GET" {
				m.Method = "DELETE"
			} else {
				m.Method = "GET"
			}
			pl.add(b, "method-changed", false, m)
			m = sw.clone()
			m.Path = strings.TrimSuffix(m.Path, "/") + "/extra"
			pl.add(b, "path-segment-appended", false, m)
			m = sw.clone()
			m.RawQuery += "&added=1"
			pl.add(b, "query-param-added", false, m)
			m = sw.clone()
			m.Host = "evil." + m.Host
			pl.add(b, "host-changed", false, m)
			continue
		}
		for _, m := range sigMutations(rng, c, g, sw) {
			pl.add(b, m.name, false, m.w)
		}
		{
			m := unsignedCopy(c, sw)
			pp := c.params(ts)
			pp.Secret += "x"
			sigV4Header(&m, pp)
			pl.add(b, "resigned-with-wrong-secret", false, m)
		}
		for _, k := range foreignCreds(rng, c) {
			m := unsignedCopy(c, sw)
			pp := c.params(ts)
			pp.KeyID, pp.Secret = k.id, k.secret
			sigV4Header(&m, pp)
			pl.add(b, k.name, false, m)
		}
		if c.ttl() > 0 {
			for _, dir := range []int{-1, +1} {
				m := unsignedCopy(c, sw)
				off := c.ttl() + time.Duration(3+rng.Intn(200))*time.Hour
				sigV4Header(&m, c.params(time.Now().Add(time.Duration(dir)*off)))
				name := "signed-hours-before-ttl-window"
				if dir > 0 {
					name = "signed-hours-after-ttl-window(future)"
				}
				pl.add(b, name, false, m)
			}
		}
		// neutral changes stay valid
		{
			m := sw.clone()
			m.delHeader("User-Agent")
			m.Headers = append(m.Headers, hdrKV{"User-Agent", "verif-agent/2"})
			pl.add(b, "valid-after-unsigned-user-agent-changed", true, m)
			if len(sw.Body) > 0 {
				m := sw.clone()
				m.Chunked = !m.Chunked
				pl.add(b, "valid-after-body-reframed", true, m)
			}
		}
	}
	return pl, nil
}

// concPrepare / concHandle are serve() in two halves: everything the HTTP server does before the
// pipeline runs, and the filter itself.
func concPrepare(wire []byte) (*context.Context, *httpprot.Request, string) {
	stdr, err := http.ReadRequest(bufio.NewReader(bytes.NewReader(wire)))
	if err != nil {
		return nil, nil, "http.ReadRequest: " + err.Error()
	}
	stdr.RemoteAddr = "192.0.2.7:40000"
	req, _ := httpprot.NewRequest(stdr)
	if err := req.FetchPayload(0); err != nil {
		return nil, nil, "FetchPayload: " + err.Error()
	}
	ctx := context.New(nil)
	ctx.SetInputRequest(req)
	return ctx, req, ""
}

func concHandle(v *Validator, ctx *context.Context, req *httpprot.Request) (out verdict, forwarded []byte) {
	out.Result = v.Handle(ctx)
	if resp, ok := ctx.GetOutputResponse().(*httpprot.Response); ok && resp != nil {
		out.Status = resp.StatusCode()
	}
	out.Tags = ctx.Tags()
	return out, req.RawPayload()
}

// concCall is what one goroutine recorded about one Handle call (judged after the join).
type concCall struct {
	item       int
	round, gor int
	out        verdict
	fwdOK      bool
	panicMsg   string
	panicSite  string
	panicked   bool
	start, end time.Duration
}

const (
	concGoroutines = 8
	concBatch      = 6
	concRounds     = 5
	concBases      = 3
)

func TestVerif_C06_Concurrent(t *testing.T) {
	if c06NotReplayed(t) {
		return
	}
	r := kit.Start(t, "C06")
	defer r.Finish()
	r.Rule(fmt.Sprintf("Concurrent: per case ONE Validator (JWT | Basic FILE/ETCD | signature header form | presigned URLs; configurations, requests, issuers and single mutations as in the sequential parts, bodies up to 4 KiB; presigned links additionally used for another method/path/query/host) and a pool of %d validly issued base requests (signature: signed by different configured access keys) with all their single mutations and neutral variants. Every pool item is first judged alone (deviations are reported under the sequential signatures and the item is left out). Then %d goroutines verify pool items through the SAME filter instance in %d rounds (Basic, whose bcrypt checks are long: 3 rounds of 3 requests): each goroutine parses its %d requests (net/http + httpprot.NewRequest + FetchPayload), all meet at a barrier and call Handle back to back; rounds alternate between 'focus' (all goroutines work on one base request: half of them mostly verify the untouched original, the others mostly its mutations) and 'mixed' (items of all base requests). Oracle: whether a request is admitted depends on the request and the configuration only, so each concurrent verdict must be the one the request gets alone: valid => \"\" and the forwarded body is the body sent, mutated => invalid+401/400, no panic; race detector reports with both stacks in pkg/filters/validator or pkg/util/signer count as violations. Overlap is observed (monotonic timestamps around each Handle call, no synchronisation added between the calls of one round) and required: overlapping Handle calls for every method, and a mutation verified while its original is being verified. distinct = (method, item kind, overlapped or not)", concBases, concGoroutines, concRounds, concBatch))
	r.Assume("the configuration (and the credential store) is not changed while requests are served; everything assumed by the JWT, Basic and Signature parts")
	if !c06SelfCheck(r) {
		return
	}
	kinds := []string{"signature", "jwt", "signature", "basic", "presign", "signature", "jwt"} // 7: every kind visits every shard
	n := r.N(120, 3000)
	for i := 0; i < n; i++ {
		if !r.Mine(i) {
			continue
		}
		rng := r.CaseRand(i)
		kind := kinds[i%len(kinds)]
		var pl *concPool
		var err error
		switch kind {
		case "jwt":
			pl, err = concJWT(rng, concBases)
		case "basic":
			pl, err = concBasic(r, i, rng, concBases)
		case "signature":
			pl, err = concSignature(r, rng, concBases, false)
		default:
			pl, err = concSignature(r, rng, concBases, true)
		}
		if err != nil {
			r.Case(i, map[string]interface{}{"kind": kind})
			r.Violation(kind+":well-formed-spec-rejected", map[string]interface{}{"err": err.Error()})
			continue
		}
		var baseDesc []interface{}
		for _, it := range pl.items {
			if it.name == "valid" {
				baseDesc = append(baseDesc, descReq(it.w))
			}
		}
		r.Case(i, map[string]interface{}{"kind": kind, "config": pl.cfg, "base_requests": baseDesc, "pool_items": len(pl.items)})
		tc := time.Now()
		pl.shape()
		concCase(r, rng, pl)
		pl.close()
		r.Count("conc_cases:"+kind, 1)
		r.Count("conc_wall_ms(informative):"+kind, time.Since(tc).Milliseconds())
	}
	r.Require("conc_valid_accepted", 1)
	r.Require("conc_mutated_rejected", 1)
	for _, k := range []string{"jwt", "basic", "signature", "presign"} {
		r.Require("conc_overlapping_handle_calls:"+k, 1)
		r.Require("conc_valid_overlapped:"+k, 1)
		r.Require("conc_mutation_overlapped_its_original:"+k, 1)
	}
}

func concCase(r *kit.Run, rng *rand.Rand, pl *concPool) {
	kind := pl.kind
	p := &probe{r: r, v: pl.v, part: kind, cfg: pl.cfg}

	// ---- sequential baseline: the verdict each item gets alone
	usable := make([]bool, len(pl.items))
	baseOK := map[int]bool{}
	for k := range pl.items {
		it := &pl.items[k]
		if it.name != "valid" && !baseOK[it.base] {
			continue // its original is not admitted: nothing to compare with
		}
		var out verdict
		var fwd []byte
		r.Eval(1)
		if r.Guard(it.seqSig, map[string]interface{}{"config": pl.cfg, "request": descReq(it.w)}, func() { out, fwd = serve(pl.v, it.wire) }) {
			continue
		}
		switch {
		case out.Err != "" && it.valid:
			r.Inconclusive("harness request not parseable (" + it.seqSig + "): " + out.Err)
		case out.Err != "":
			r.Count("mutation_refused_by_net_http", 1)
		case it.valid && !out.accepted():
			r.Count("valid_rejected", 1)
			r.Violation(it.seqSig, map[string]interface{}{"config": pl.cfg, "request": descReq(it.w), "wire_head": head(it.wire), "real": out, "expected": "result \"\" (valid credentials)"})
		case it.valid && !bytes.Equal(fwd, it.w.Body):
			r.Violation(p.part+":forwarded-body-differs", map[string]interface{}{"config": pl.cfg, "request": descReq(it.w), "forwarded_len": len(fwd)})
		case it.valid:
			r.Count("valid_accepted", 1)
			usable[k] = true
			if it.name == "valid" {
				baseOK[it.base] = true
			}
		case out.accepted():
			r.Count("mutated_accepted", 1)
			r.Violation(it.seqSig, map[string]interface{}{"config": pl.cfg, "request": descReq(it.w), "wire_head": head(it.wire), "real": out, "expected": "result invalid + 401/400"})
		case !out.rejectedProperly():
			r.Violation(strings.Replace(it.seqSig, "mutated-accepted", "mutated-bad-rejection", 1)+fmt.Sprintf(":%s/%d", out.Result, out.Status),
				map[string]interface{}{"config": pl.cfg, "request": descReq(it.w), "real": out})
		default:
			r.Count("mutated_rejected", 1)
			usable[k] = true
		}
	}
	var bases []int
	validOf, mutOf := map[int][]int{}, map[int][]int{}
	for k, it := range pl.items {
		if !usable[k] || !baseOK[it.base] {
			continue
		}
		if it.valid {
			validOf[it.base] = append(validOf[it.base], k)
		} else {
			mutOf[it.base] = append(mutOf[it.base], k)
		}
	}
	for b := range baseOK {
		if len(validOf[b]) > 0 && len(mutOf[b]) > 0 {
			bases = append(bases, b)
		}
	}
	sort.Ints(bases)
	if len(bases) == 0 {
		r.Count("conc_case_without_usable_base", 1)
		return
	}

	// ---- schedule (pure function of the case PRNG)
	concRounds, concBatch := pl.rounds, pl.batch
	pickItem := func(b int, pValid int) int {
		// the original itself is preferred among the valid variants
		if rng.Intn(100) < pValid {
			vs := validOf[b]
			if rng.Intn(4) > 0 {
				return vs[0]
			}
			return vs[rng.Intn(len(vs))]
		}
		ms := mutOf[b]
		return ms[rng.Intn(len(ms))]
	}
	plan := make([][][]int, concGoroutines)
	roundKind := make([]string, concRounds)
	for rd := 0; rd < concRounds; rd++ {
		roundKind[rd] = "mixed"
		if rd%2 == 0 {
			roundKind[rd] = "focus"
		}
	}
	focus := make([]int, concRounds)
	for rd := range focus {
		focus[rd] = bases[rng.Intn(len(bases))]
	}
	for g := 0; g < concGoroutines; g++ {
		plan[g] = make([][]int, concRounds)
		for rd := 0; rd < concRounds; rd++ {
			for k := 0; k < concBatch; k++ {
				var it int
				if roundKind[rd] == "focus" {
					pv := 75
					if g%2 == 1 {
						pv = 25
					}
					it = pickItem(focus[rd], pv)
				} else {
					it = pickItem(bases[rng.Intn(len(bases))], 50)
				}
				plan[g][rd] = append(plan[g][rd], it)
			}
		}
	}

	// ---- concurrent phase
	calls := make([][]concCall, concGoroutines)
	barrier := make([]sync.WaitGroup, concRounds)
	for rd := range barrier {
		barrier[rd].Add(concGoroutines)
	}
	t0 := time.Now()
	var wg sync.WaitGroup
	for g := 0; g < concGoroutines; g++ {
		wg.Add(1)
		go func(g int) {
			defer wg.Done()
			type prep struct {
				ctx *context.Context
				req *httpprot.Request
			}
			for rd := 0; rd < concRounds; rd++ {
				batch := make([]prep, len(plan[g][rd]))
				for k, it := range plan[g][rd] {
					batch[k].ctx, batch[k].req, _ = concPrepare(pl.items[it].wire) // parse errors were sorted out by the baseline
				}
				barrier[rd].Done()
				barrier[rd].Wait()
				for k, it := range plan[g][rd] {
					c := concCall{item: it, round: rd, gor: g}
					if batch[k].ctx == nil {
						continue
					}
					c.start = time.Since(t0)
					c.panicMsg, c.panicSite, c.panicked = kit.Recover(func() {
						var fwd []byte
						c.out, fwd = concHandle(pl.v, batch[k].ctx, batch[k].req)
						c.fwdOK = bytes.Equal(fwd, pl.items[it].w.Body)
					})
					c.end = time.Since(t0)
					calls[g] = append(calls[g], c)
				}
			}
		}(g)
	}
	wg.Wait()

	// ---- judge (after the join, on this goroutine)
	byRound := make([][]*concCall, concRounds)
	for g := range calls {
		for k := range calls[g] {
			c := &calls[g][k]
			byRound[c.round] = append(byRound[c.round], c)
		}
	}
	for rd, cs := range byRound {
		for _, c := range cs {
			it := pl.items[c.item]
			// what was in flight at the same time (observation only)
			var overl []string
			overlapped, withOriginal := false, false
			for _, o := range cs {
				if o.gor == c.gor || o.start >= c.end || c.start >= o.end {
					continue
				}
				overlapped = true
				oi := pl.items[o.item]
				if oi.base == it.base && oi.valid {
					withOriginal = true
				}
				if len(overl) < 8 {
					overl = append(overl, fmt.Sprintf("base%d:%s", oi.base, oi.name))
				}
			}
			r.Eval(1)
			if overlapped {
				r.Count("conc_overlapping_handle_calls:"+kind, 1)
				if it.valid {
					r.Count("conc_valid_overlapped:"+kind, 1)
				} else if withOriginal {
					r.Count("conc_mutation_overlapped_its_original:"+kind, 1)
				}
			}
			cls := "mutated"
			if it.valid {
				cls = "valid"
			}
			r.Cover(fmt.Sprintf("concurrent:%s:%s:%s:overlapped=%v", kind, cls, it.name, overlapped))
			detail := map[string]interface{}{"config": pl.cfg, "item": fmt.Sprintf("base%d:%s", it.base, it.name), "request": descReq(it.w), "wire_head": head(it.wire),
				"round": rd, "round_kind": roundKind[rd], "goroutine": c.gor, "real": c.out, "in_flight_at_the_same_time": overl,
				"sequential_verdict_of_the_same_bytes": map[bool]string{true: "accepted", false: "invalid + 401/400"}[it.valid]}
			switch {
			case c.panicked:
				detail["panic"] = c.panicMsg
				r.Violation(fmt.Sprintf("concurrent:%s:panic:%s:%s", kind, c.panicSite, kit.MsgClass(c.panicMsg)), detail)
			case it.valid && !c.out.accepted():
				r.Count("conc_valid_rejected", 1)
				r.Violation("concurrent:"+kind+":valid-rejected-while-other-requests-in-flight", detail)
			case it.valid && !c.fwdOK:
				r.Violation("concurrent:"+kind+":forwarded-body-differs", detail)
			case it.valid:
				r.Count("conc_valid_accepted", 1)
			case c.out.accepted():
				r.Count("conc_mutated_accepted", 1)
				r.Violation("concurrent:"+kind+":mutated-accepted-while-other-requests-in-flight:"+it.name, detail)
			case !c.out.rejectedProperly():
				r.Violation(fmt.Sprintf("concurrent:%s:mutated-bad-rejection:%s/%d", kind, c.out.Result, c.out.Status), detail)
			default:
				r.Count("conc_mutated_rejected", 1)
			}
		}
	}
}
