//go:build verif

package validator

// Generators and request plumbing shared by the C06 parts.

import (
	"bytes"
	"fmt"
	"math/rand"
	"net/http"
	"os"
	"strings"
	"sync"
	"time"
	"unicode/utf8"

	"verif.local/kit"

	"github.com/megaease/easegress/pkg/cluster"
	"github.com/megaease/easegress/pkg/cluster/clustertest"
	"github.com/megaease/easegress/pkg/logger"
	"github.com/megaease/easegress/pkg/supervisor"
	"github.com/megaease/easegress/pkg/util/signer"
)

func init() { logger.InitNop() }

// c06SelfCheck refuses to decide anything if the independent issuers do not reproduce the
// published vectors (RFC 7515 A.1, {SHA} vector, AWS documentation example, sig-v4 test suite).
func c06SelfCheck(r *kit.Run) bool {
	ok := true
	for name, err := range map[string]error{"jwt": jwtSelfCheck(), "htpasswd": htpasswdSelfCheck(), "sigv4": sigSelfCheck()} {
		if err != nil {
			r.Inconclusive("issuer self-check failed (" + name + "): " + err.Error())
			ok = false
		}
	}
	if ok {
		r.Count("issuer_selfchecks_passed", 1)
	}
	return ok
}

// c06NotReplayed: when ./check --replay asks for one case of one part, the other parts of this
// property do not need to run again.
func c06NotReplayed(t interface{ Name() string }) bool {
	v := os.Getenv("VERIF_ONLY")
	return v != "" && !strings.HasPrefix(v, t.Name()+":")
}

func pick(rng *rand.Rand, xs ...string) string { return xs[rng.Intn(len(xs))] }

func randBytes(rng *rand.Rand, n int) []byte {
	b := make([]byte, n)
	rng.Read(b)
	return b
}

const alnum = "abcdefghijklmnopqrstuvwxyzABCDEFGHIJKLMNOPQRSTUVWXYZ0123456789"

func randAlnum(rng *rand.Rand, n int) string {
	b := make([]byte, n)
	for i := range b {
		b[i] = alnum[rng.Intn(len(alnum))]
	}
	return string(b)
}

// ---------------------------------------------------------------------------------- requests

var pathSegs = []string{"api", "v1", "users", "a b", "naïve", "文件", "x+y", "50%", "a:b@c", "~tilde", "semi;colon", "it's", "(p)", "star*", "q?mark", "hash#tag", "eq=amp&", "under_score", "dot.ted", "dash-ed", "%41"}

const subDelims = "!$&'()*+,;=:@"

// wirePath escapes segments for the request line.  Unreserved characters stay, everything else
// is percent-encoded; sub-delims and ':' '@' (legal raw in a path, RFC 3986 §3.3) are sometimes
// left raw, as real clients do.
func wirePath(rng *rand.Rand, segs []string, trailingSlash bool) string {
	if len(segs) == 0 {
		return "/"
	}
	var b strings.Builder
	for _, s := range segs {
		b.WriteByte('/')
		rawSub := rng.Intn(2) == 0
		for i := 0; i < len(s); i++ {
			c := s[i]
			switch {
			case isUnreserved(c):
				b.WriteByte(c)
			case rawSub && strings.IndexByte(subDelims, c) >= 0:
				b.WriteByte(c)
			default:
				fmt.Fprintf(&b, "%%%02X", c)
			}
		}
	}
	if trailingSlash {
		b.WriteByte('/')
	}
	return b.String()
}

var qKeys = []string{"a", "b", "id", "q", "tag", "Z"}
var qVals = []string{"", "1", "x", "v/w", "a&b", "c=d", "naïve", "p+q", "100%", "~t", "üñí", "k:v", "semi;", "long-" + strings.Repeat("v", 40)}

func encQ(s string) string { return awsURIEncode(s, false) }

type qParam struct{ K, V string }

func wireQuery(ps []qParam) string {
	out := make([]string, len(ps))
	for i, p := range ps {
		out[i] = encQ(p.K) + "=" + encQ(p.V)
	}
	return strings.Join(out, "&")
}

var hosts = []string{"api.example.com", "api.example.com:8080", "10.1.2.3:9000", "localhost"}

type genReqOpts struct {
	noBody     bool
	spaceInQ   bool // allow a query value with a space (issuers are known to disagree: '+' vs '%20')
	big        bool // allow 64 KiB / 1 MiB bodies
	extraHdrs  []hdrKV
	forceEmpty bool
}

type genReq struct {
	W      wireReq
	Segs   []string
	Query  []qParam
	Signed []string // names of generated headers a signing client covers (lower-case, besides host/date)
}

func genRequest(rng *rand.Rand, o genReqOpts) genReq {
	var g genReq
	g.W.Method = pick(rng, "GET", "GET", "POST", "POST", "PUT", "DELETE", "PATCH")
	for n := rng.Intn(5); n > 0; n-- {
		g.Segs = append(g.Segs, pathSegs[rng.Intn(len(pathSegs))])
	}
	g.W.Path = wirePath(rng, g.Segs, len(g.Segs) > 0 && rng.Intn(5) == 0)
	for n := rng.Intn(5); n > 0; n-- {
		p := qParam{qKeys[rng.Intn(len(qKeys))], qVals[rng.Intn(len(qVals))]}
		if o.spaceInQ && rng.Intn(3) == 0 {
			p.V = "two words"
		}
		g.Query = append(g.Query, p)
	}
	g.W.RawQuery = wireQuery(g.Query)
	g.W.Host = hosts[rng.Intn(len(hosts))]
	// headers
	if rng.Intn(2) == 0 {
		g.W.Headers = append(g.W.Headers, hdrKV{"Content-Type", pick(rng, "application/json", "application/x-www-form-urlencoded; charset=utf-8", "text/plain")})
	}
	if rng.Intn(2) == 0 {
		g.W.Headers = append(g.W.Headers, hdrKV{"X-Tenant", pick(rng, "acme", "Big  Corp", "a, b", "t-42")})
	}
	if rng.Intn(3) == 0 {
		g.W.Headers = append(g.W.Headers, hdrKV{"X-Trace-Id", randAlnum(rng, 16)})
	}
	if rng.Intn(3) == 0 {
		for n := 2 + rng.Intn(2); n > 0; n-- {
			g.W.Headers = append(g.W.Headers, hdrKV{"X-Multi", pick(rng, "one", "two", "zz top", "3")})
		}
	}
	if rng.Intn(4) == 0 {
		g.W.Headers = append(g.W.Headers, hdrKV{"User-Agent", "curl/8.1"})
	}
	g.W.Headers = append(g.W.Headers, o.extraHdrs...)
	// body
	if !o.noBody && g.W.Method != "GET" && rng.Intn(10) < 7 {
		var n int
		switch k := rng.Intn(20); {
		case k < 3:
			n = 1
		case k < 14:
			n = 2 + rng.Intn(300)
		case k < 18:
			n = 4096
		case k < 19 && o.big:
			n = 65536 + rng.Intn(3)
		case o.big:
			n = 1 << 20
		default:
			n = 1000
		}
		g.W.Body = randBytes(rng, n)
		g.W.Chunked = rng.Intn(5) == 0
	}
	return g
}

func descReq(w wireReq) map[string]interface{} {
	body := fmt.Sprintf("%d bytes", len(w.Body))
	if len(w.Body) > 0 && len(w.Body) <= 24 {
		body = fmt.Sprintf("%x", w.Body)
	}
	return map[string]interface{}{"method": w.Method, "path": w.Path, "query": w.RawQuery, "host": w.Host, "headers": w.Headers, "body": body, "chunked": w.Chunked}
}

// ---------------------------------------------------------------------------------- oracle plumbing

type probe struct {
	r    *kit.Run
	v    *Validator
	part string
	cfg  interface{}
}

// expectAccept: a request carrying valid credentials must pass (result "") and the body the
// pipeline will forward must be the body sent.
func (p *probe) expectAccept(sig string, w wireReq, extra interface{}) (ok bool) {
	var out verdict
	var fwd []byte
	p.r.Eval(1)
	if p.r.Guard(sig, map[string]interface{}{"config": p.cfg, "request": descReq(w)}, func() { out, fwd = serve(p.v, w.bytes()) }) {
		return false
	}
	if out.Err != "" {
		p.r.Inconclusive("harness request not parseable (" + sig + "): " + out.Err)
		return false
	}
	if !out.accepted() {
		p.r.Count("valid_rejected", 1)
		p.r.Violation(sig, map[string]interface{}{"config": p.cfg, "request": descReq(w), "wire_head": head(w.bytes()), "real": out, "expected": "result \"\" (valid credentials)", "info": extra})
		return false
	}
	p.r.Count("valid_accepted", 1)
	if !bytes.Equal(fwd, w.Body) {
		p.r.Violation(p.part+":forwarded-body-differs", map[string]interface{}{"config": p.cfg, "request": descReq(w), "forwarded_len": len(fwd)})
	}
	return true
}

// expectReject: a single mutation of an accepted request must be refused with result
// "invalid" and a 401/400 response.
func (p *probe) expectReject(sig string, w wireReq, extra interface{}) {
	var out verdict
	p.r.Eval(1)
	if p.r.Guard(sig, map[string]interface{}{"config": p.cfg, "request": descReq(w)}, func() { out, _ = serve(p.v, w.bytes()) }) {
		return
	}
	if out.Err != "" {
		// the mutation made the bytes unacceptable to net/http itself: never reaches the filter
		p.r.Count("mutation_refused_by_net_http", 1)
		return
	}
	switch {
	case out.accepted():
		p.r.Count("mutated_accepted", 1)
		p.r.Violation(sig, map[string]interface{}{"config": p.cfg, "request": descReq(w), "wire_head": head(w.bytes()), "real": out, "expected": "result invalid + 401/400", "info": extra})
	case !out.rejectedProperly():
		p.r.Violation(strings.Replace(sig, "mutated-accepted", "mutated-bad-rejection", 1)+fmt.Sprintf(":%s/%d", out.Result, out.Status),
			map[string]interface{}{"config": p.cfg, "request": descReq(w), "real": out})
	default:
		p.r.Count("mutated_rejected", 1)
		p.r.Count(fmt.Sprintf("reject_status_%d", out.Status), 1)
	}
}

func head(b []byte) string {
	if i := bytes.Index(b, []byte("\r\n\r\n")); i >= 0 {
		b = b[:i]
	}
	if len(b) > 1500 {
		b = b[:1500]
	}
	return string(b)
}

// ---------------------------------------------------------------------------------- text generators

var userNames = []string{"alice", "bob", "Carol", "dave.smith", "eve@example.com", "josé", "用户七", "müller", "o'neil", "x", "user-with-dash", "mallory 2", "UPPER", "zoë+tag"}

func genPassword(rng *rand.Rand) (pw string, class string) {
	switch rng.Intn(9) {
	case 0, 1:
		return randAlnum(rng, 6+rng.Intn(10)), "ascii"
	case 2:
		return "p" + pick(rng, "!#%&*()-_=+[]<>?,./~", "@^|\\\"'`") + randAlnum(rng, 4), "symbols"
	case 3:
		return pick(rng, "pässwörd", "密码123", "contraseña", "пароль", "🔑key") + randAlnum(rng, 3), "nonascii"
	case 4:
		return randAlnum(rng, 3) + " " + randAlnum(rng, 3) + "  " + randAlnum(rng, 2), "spaces"
	case 5:
		return randAlnum(rng, 60), "long"
	case 6:
		return randAlnum(rng, 1+rng.Intn(5)) + ":" + randAlnum(rng, 1+rng.Intn(5)), "colon"
	case 7:
		return pick(rng, ":lead"+randAlnum(rng, 3), "trail"+randAlnum(rng, 3)+":", "a:b:c"+randAlnum(rng, 2), "dbl::"+randAlnum(rng, 3), "ü:ñ"+randAlnum(rng, 2)), "colon"
	default:
		return randAlnum(rng, 1), "short"
	}
}

func lastRuneCut(s string) string {
	_, n := utf8.DecodeLastRuneInString(s)
	return s[:len(s)-n]
}

func swapCase(s string) (string, bool) {
	for i := 0; i < len(s); i++ {
		c := s[i]
		if c >= 'a' && c <= 'z' {
			return s[:i] + string(c-32) + s[i+1:], true
		}
		if c >= 'A' && c <= 'Z' {
			return s[:i] + string(c+32) + s[i+1:], true
		}
	}
	return s, false
}

// changeOneChar replaces one ASCII alphanumeric character (never the last character if
// keepLast) by a different one.
func changeOneChar(rng *rand.Rand, s string, keepLast bool) (string, bool) {
	n := len(s)
	if keepLast {
		n--
	}
	var idx []int
	for i := 0; i < n; i++ {
		if strings.IndexByte(alnum, s[i]) >= 0 {
			idx = append(idx, i)
		}
	}
	if len(idx) == 0 {
		return s, false
	}
	i := idx[rng.Intn(len(idx))]
	c := s[i]
	for {
		d := alnum[rng.Intn(len(alnum))]
		if d != c {
			return s[:i] + string(d) + s[i+1:], true
		}
	}
}

// ---------------------------------------------------------------------------------- etcd mock

// mockSuper returns a supervisor whose cluster serves the given credential entries the way
// the ETCD mode of the Basic validator reads them.
func mockSuper(kvs map[string]string, getErr error) *supervisor.Supervisor {
	cl := clustertest.NewMockedCluster()
	sy := clustertest.NewMockedSyncer()
	ch := make(chan map[string]string)
	sy.MockedSyncPrefix = func(string) (<-chan map[string]string, error) { return ch, nil }
	cl.MockedSyncer = func(time.Duration) (cluster.Syncer, error) { return sy, nil }
	cl.MockedGetPrefix = func(string) (map[string]string, error) { return kvs, getErr }
	var m sync.Map
	return supervisor.NewMock(nil, cl, m, m, nil, nil, false, nil, nil)
}

// ---------------------------------------------------------------------------------- signature config

type sigCfg struct {
	Lit         string            `json:"literals"`
	Keys        map[string]string `json:"accessKeys"`
	KeyID       string            `json:"signingKey"`
	Scopes      []string          `json:"scopes"`
	TTL         string            `json:"ttl"`
	ExcludeBody bool              `json:"excludeBody"`
	Ignored     []string          `json:"ignoredHeaders"`
	ShaHeader   bool              `json:"clientSendsContentSha"`
	Presign     bool              `json:"presign"`
}

func (c sigCfg) lit() sigLit {
	if c.Lit == "aws" {
		return litAWS
	}
	return litME
}

func (c sigCfg) ttl() time.Duration {
	d, _ := time.ParseDuration(c.TTL)
	return d
}

func (c sigCfg) yaml(indent string) string {
	var b strings.Builder
	b.WriteString(indent + "signature:\n")
	if c.Lit == "aws" {
		l := litAWS
		b.WriteString(indent + "  literal:\n")
		for _, kv := range [][2]string{{"scopeSuffix", l.Suffix}, {"algorithmName", l.QAlgo}, {"algorithmValue", l.Algo}, {"signedHeaders", l.QSigned},
			{"signature", l.QSig}, {"date", l.DateHdr}, {"expires", l.QExpires}, {"credential", l.QCred}, {"contentSha256", l.ShaHdr}, {"signingKeyPrefix", l.KeyPrefix}} {
			b.WriteString(indent + "    " + kv[0] + ": " + yamlQuote(kv[1]) + "\n")
		}
	}
	if c.TTL != "" {
		b.WriteString(indent + "  ttl: " + c.TTL + "\n")
	}
	if c.ExcludeBody {
		b.WriteString(indent + "  excludeBody: true\n")
	}
	if len(c.Ignored) > 0 {
		b.WriteString(indent + "  ignoredHeaders:\n")
		for _, h := range c.Ignored {
			b.WriteString(indent + "  - " + yamlQuote(h) + "\n")
		}
	}
	b.WriteString(indent + "  accessKeys:\n")
	for id, s := range c.Keys {
		b.WriteString(indent + "    " + yamlQuote(id) + ": " + yamlQuote(s) + "\n")
	}
	return b.String()
}

const secretChars = alnum + "/+=!-_.~"

func genSigCfg(rng *rand.Rand, allowPresign bool) sigCfg {
	c := sigCfg{Lit: "aws", Keys: map[string]string{}}
	if rng.Intn(5) < 2 {
		c.Lit = "me"
	}
	for n := 1 + rng.Intn(3); n > 0; n-- {
		id := "AKID" + randAlnum(rng, 4+rng.Intn(8))
		sec := make([]byte, 8+rng.Intn(33))
		for i := range sec {
			sec[i] = secretChars[rng.Intn(len(secretChars))]
		}
		c.Keys[id] = string(sec)
		c.KeyID = id // last generated one signs (map order is irrelevant)
	}
	if c.Lit == "aws" {
		c.Scopes = []string{pick(rng, "us-east-1", "eu-west-3", "cn-north-1"), pick(rng, "iam", "s3", "execute-api")}
	} else {
		for n := rng.Intn(4); n > 0; n-- {
			c.Scopes = append(c.Scopes, pick(rng, "prod", "region-1", "svc", "tenant42"))
		}
	}
	c.TTL = pick(rng, "", "1h", "2h", "24h", "90m")
	c.ExcludeBody = rng.Intn(10) == 0
	if rng.Intn(5) == 0 {
		c.Ignored = []string{pick(rng, "X-Forwarded-For", "X-Trace-Id")}
	}
	c.ShaHeader = !c.ExcludeBody && rng.Intn(6) == 0
	c.Presign = allowPresign && rng.Intn(7) == 0
	return c
}

func (c sigCfg) unsigned() map[string]bool {
	u := map[string]bool{"authorization": true, "user-agent": true}
	for _, h := range c.Ignored {
		u[strings.ToLower(h)] = true
	}
	return u
}

func (c sigCfg) params(t time.Time) sigParams {
	return sigParams{Lit: c.lit(), KeyID: c.KeyID, Secret: c.Keys[c.KeyID], Scopes: c.Scopes, Time: t,
		Unsigned: c.unsigned(), UnsignedPayload: c.ExcludeBody, ShaHeader: c.ShaHeader}
}

// validTime: comfortably inside the TTL (at most a sixth of it away from now); without a TTL
// any age.
func (c sigCfg) validTime(rng *rand.Rand) time.Time {
	now := time.Now()
	if c.ttl() == 0 {
		return now.Add(-time.Duration(rng.Int63n(int64(1000 * time.Hour))))
	}
	off := time.Duration(rng.Int63n(int64(c.ttl() / 6)))
	if rng.Intn(3) == 0 {
		return now.Add(off) // client clock ahead
	}
	return now.Add(-off)
}

// pkgClientSign is the second issuer: the package's own client-side signer (what the
// RequestAdaptor of a peer gateway or any Go client of this scheme runs) on a fresh outgoing
// request.  It returns the Authorization header (or, for presign, the signature parameter).
func pkgClientSign(c sigCfg, w wireReq, t time.Time, expires time.Duration) (string, error) {
	spec := &signer.Spec{AccessKeyID: c.KeyID, AccessKeySecret: c.Keys[c.KeyID], IgnoredHeaders: c.Ignored, ExcludeBody: c.ExcludeBody}
	if c.Lit == "aws" {
		l := litAWS
		spec.Literal = &signer.Literal{ScopeSuffix: l.Suffix, AlgorithmName: l.QAlgo, AlgorithmValue: l.Algo, SignedHeaders: l.QSigned,
			Signature: l.QSig, Date: l.DateHdr, Expires: l.QExpires, Credential: l.QCred, ContentSHA256: l.ShaHdr, SigningKeyPrefix: l.KeyPrefix}
	}
	s := signer.CreateFromSpec(spec)
	var body *bytes.Reader
	var req *http.Request
	var err error
	if len(w.Body) > 0 {
		body = bytes.NewReader(w.Body)
		req, err = http.NewRequest(w.Method, "http://"+w.Host+w.target(), body)
	} else {
		req, err = http.NewRequest(w.Method, "http://"+w.Host+w.target(), nil)
	}
	if err != nil {
		return "", err
	}
	lit := c.lit()
	for _, h := range w.Headers {
		if strings.EqualFold(h.K, "Authorization") || strings.EqualFold(h.K, lit.DateHdr) || strings.EqualFold(h.K, lit.ShaHdr) {
			continue
		}
		req.Header.Add(h.K, h.V)
	}
	if c.ShaHeader && !c.ExcludeBody {
		req.Header.Set(lit.ShaHdr, sha256hex(w.Body))
	}
	sc := s.NewContext(t, c.Scopes...)
	if c.Presign {
		if err := sc.Presign(req, expires); err != nil {
			return "", err
		}
		return req.URL.Query().Get(lit.QSig), nil
	}
	if err := sc.Sign(req); err != nil {
		return "", err
	}
	return req.Header.Get("Authorization"), nil
}

func disagreeClass(g genReq) string {
	seen := map[string]int{}
	for _, p := range g.Query {
		if strings.ContainsAny(p.V, " ") {
			return "query-space(+ vs %20)"
		}
		seen[p.K]++
	}
	for _, n := range seen {
		if n > 1 {
			return "multi-valued-query-order(encoded vs decoded sort)"
		}
	}
	return "other"
}
