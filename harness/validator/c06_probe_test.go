//go:build verif

package validator

import (
	"bytes"
	"fmt"
	"net/http"
	"testing"
	"time"

	"github.com/megaease/easegress/pkg/logger"
	"github.com/megaease/easegress/pkg/util/signer"
)

func init() { logger.InitNop() }

func TestVerif_C06_Probe(t *testing.T) {
	fmt.Println("jwt", jwtSelfCheck(), "ht", htpasswdSelfCheck(), "sig", sigSelfCheck())
	y := `
kind: Validator
name: v
signature:
  literal:
    scopeSuffix: aws4_request
    algorithmName: X-Amz-Algorithm
    algorithmValue: AWS4-HMAC-SHA256
    signedHeaders: X-Amz-SignedHeaders
    signature: X-Amz-Signature
    date: X-Amz-Date
    expires: X-Amz-Expires
    credential: X-Amz-Credential
    contentSha256: X-Amz-Content-Sha256
    signingKeyPrefix: AWS4
  accessKeys:
    AKIDEXAMPLE: wJalrXUtnFEMI/K7MDENG+bPxRfiCYEXAMPLEKEY
`
	v, err := newValidator(y, nil)
	fmt.Println("newValidator", err)
	t0 := time.Date(2015, 8, 30, 12, 36, 0, 0, time.UTC)
	p := sigParams{Lit: litAWS, KeyID: "AKIDEXAMPLE", Secret: "wJalrXUtnFEMI/K7MDENG+bPxRfiCYEXAMPLEKEY", Scopes: []string{"us-east-1", "iam"}, Time: t0,
		Unsigned: map[string]bool{"authorization": true, "user-agent": true}}
	w := awsDocExample()
	sigV4Header(&w, p)
	fmt.Printf("%s\n", w.bytes())
	out, _ := serve(v, w.bytes())
	fmt.Printf("doc example: %+v\n", out)
	// with body
	w2 := wireReq{Method: "POST", Path: "/a%20b/c", RawQuery: "k=v%2Fw&k=a", Host: "h.example:8080", Headers: []hdrKV{{"X-M", "a"}, {"X-M", "  b   c "}}, Body: []byte("hello")}
	sigV4Header(&w2, p)
	out, fw := serve(v, w2.bytes())
	fmt.Printf("body example: %+v fw=%q\n", out, fw)
	w2.Body = nil
	sigV4Header(&w2, p)
	out, fw = serve(v, w2.bytes())
	fmt.Printf("nobody example: %+v fw=%q\n", out, fw)
	w2.Body = []byte("x")
	out, fw = serve(v, w2.bytes())
	fmt.Printf("nobody+body added: %+v fw=%q\n", out, fw)

	// package client
	s := signer.CreateFromSpec(v.spec.Signature)
	s.SetCredential("AKIDEXAMPLE", "wJalrXUtnFEMI/K7MDENG+bPxRfiCYEXAMPLEKEY")
	r, _ := http.NewRequest("POST", "http://h.example:8080/a%20b/c?k=v%2Fw&k=a", bytes.NewReader([]byte("hello")))
	r.Header.Add("X-M", "a")
	r.Header.Add("X-M", "  b   c ")
	s.NewContext(t0, "us-east-1", "iam").Sign(r)
	fmt.Println("pkg :", r.Header.Get("Authorization"))
	w2.Body = []byte("hello")
	a, _ := sigV4Header(&w2, p)
	fmt.Println("mine:", a)
}
