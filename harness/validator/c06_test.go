//go:build verif

package validator

// C06 — "Validator admits exactly requests with valid JWT, signature or Basic credentials".
//
// Monitor shape: reference issuers + single-mutation oracle.  Credentials are produced by
// issuers that share no code with the validator (c06_issuers_test.go); every request is put on
// the wire as bytes, parsed by net/http, wrapped by httpprot.NewRequest + FetchPayload (body
// drained into the payload) — i.e. exactly what pkg/object/httpserver hands to a pipeline —
// and given to the real Validator built through filters.NewSpec/Init.
//
//   completeness: valid credentials            => result ""
//   soundness:    one covered part changed     => result "invalid" + 401/400
//   conjunction:  several methods configured   => all must accept

import (
	"encoding/base64"
	"encoding/hex"
	"fmt"
	"math/rand"
	"os"
	"path/filepath"
	"strings"
	"testing"
	"time"

	"verif.local/kit"
)

// ======================================================================================= JWT

type jwtCfg struct {
	Alg    string `json:"algorithm"`
	Secret string `json:"secretHex"`
	Cookie string `json:"cookieName"`
}

func (c jwtCfg) yaml(indent string) string {
	s := indent + "jwt:\n" + indent + "  algorithm: " + c.Alg + "\n" + indent + "  secret: " + yamlQuote(c.Secret) + "\n"
	if c.Cookie != "" {
		s += indent + "  cookieName: " + yamlQuote(c.Cookie) + "\n"
	}
	return s
}

func (c jwtCfg) key() []byte { b, _ := hex.DecodeString(c.Secret); return b }

func genJWTCfg(rng *rand.Rand) jwtCfg {
	c := jwtCfg{Alg: pick(rng, "HS256", "HS384", "HS512")}
	sec := hex.EncodeToString(randBytes(rng, 1+rng.Intn(48)))
	if rng.Intn(2) == 0 {
		sec = strings.ToUpper(sec)
	}
	c.Secret = sec
	if rng.Intn(5) < 2 {
		c.Cookie = pick(rng, "auth", "jwt-token", "SESSION_JWT")
	}
	return c
}

func hoursFromNow(rng *rand.Rand, sign int) int64 {
	return time.Now().Add(time.Duration(sign) * time.Duration(2+rng.Intn(900)) * time.Hour).Unix()
}

// genNumForm: half of the NumericDate claims are plain integers (what most issuers emit), the
// other half use one of the other legal JSON number forms.
func genNumForm(rng *rand.Rand) string {
	if rng.Intn(2) == 0 {
		return "int"
	}
	return pick(rng, numFormsNonInt...)
}

func genClaims(rng *rand.Rand) (map[string]interface{}, string) {
	cl := map[string]interface{}{"sub": pick(rng, "1234567890", "josé", "svc-account")}
	class := ""
	date := func(name string, sign int) {
		d := mkNumDate(rng, hoursFromNow(rng, sign), genNumForm(rng))
		cl[name] = d
		if class != "" {
			class += "+"
		}
		class += name
		if d.Form != "int" {
			class += "/" + d.Form
		}
	}
	if rng.Intn(3) > 0 {
		date("exp", +1)
	}
	if rng.Intn(3) == 0 {
		date("nbf", -1)
	}
	if rng.Intn(3) == 0 {
		date("iat", -1)
	}
	if rng.Intn(4) == 0 {
		cl["name"] = pick(rng, "Jöhn Dœ", "管理员", "a \"quoted\" name")
		cl["admin"] = rng.Intn(2) == 0
	}
	if class == "" {
		class = "noexp"
	}
	return cl, class
}

// claimNumForms lists the literal forms of the NumericDate claims present in cl.
func claimNumForms(cl map[string]interface{}) map[string]string {
	m := map[string]string{}
	for k, v := range cl {
		if d, ok := v.(numDate); ok {
			m[k] = d.Form
		}
	}
	return m
}

// putToken places the token where the configuration looks for it.
func putToken(w *wireReq, c jwtCfg, viaCookie bool, tok string, rng *rand.Rand) {
	w.delHeader("Authorization")
	w.delHeader("Cookie")
	if viaCookie {
		ck := c.Cookie + "=" + tok
		switch rng.Intn(3) {
		case 0:
			ck = "theme=dark; " + ck
		case 1:
			ck = ck + "; lang=en"
		}
		w.Headers = append(w.Headers, hdrKV{"Cookie", ck})
	} else {
		w.Headers = append(w.Headers, hdrKV{"Authorization", "Bearer " + tok})
	}
}

func otherAlg(rng *rand.Rand, alg string) string {
	for {
		a := pick(rng, "HS256", "HS384", "HS512")
		if a != alg {
			return a
		}
	}
}

type tokMut struct{ name, tok string }

func jwtMutations(rng *rand.Rand, c jwtCfg, claims map[string]interface{}, tok string) []tokMut {
	parts := strings.Split(tok, ".")
	var ms []tokMut
	for i, nm := range []string{"header", "payload", "signature"} {
		if m, ok := changeOneChar(rng, parts[i], true); ok {
			p := append([]string(nil), parts...)
			p[i] = m
			ms = append(ms, tokMut{"token-byte-flipped-in-" + nm, strings.Join(p, ".")})
		}
	}
	oa := otherAlg(rng, c.Alg)
	// header says another algorithm, old MAC kept
	hdr2 := strings.SplitN(jwtEncode(oa, oa, c.key(), claims), ".", 2)[0]
	ms = append(ms, tokMut{"alg-header-changed-mac-kept", hdr2 + "." + parts[1] + "." + parts[2]})
	// correctly MACed with the right secret, but under another HMAC algorithm than configured
	ms = append(ms, tokMut{"alg-changed-and-remaced-with-secret", jwtEncode(oa, oa, c.key(), claims)})
	// alg none
	none := strings.SplitN(jwtEncode("none", c.Alg, c.key(), claims), ".", 3)
	ms = append(ms, tokMut{"alg-none-empty-mac", none[0] + "." + none[1] + "."})
	ms = append(ms, tokMut{"alg-none-mac-kept", none[0] + "." + none[1] + "." + parts[2]})
	// wrong secret
	k2 := append([]byte(nil), c.key()...)
	k2[rng.Intn(len(k2))] ^= byte(1 << uint(rng.Intn(8)))
	ms = append(ms, tokMut{"secret-one-bit-off", jwtEncode(c.Alg, c.Alg, k2, claims)})
	ms = append(ms, tokMut{"secret-hex-text-used-as-key", jwtEncode(c.Alg, c.Alg, []byte(c.Secret), claims)})
	ms = append(ms, tokMut{"secret-extended", jwtEncode(c.Alg, c.Alg, append(append([]byte(nil), c.key()...), 0x01), claims)})
	// boundary secret: a token MACed with the EMPTY key names no configured secret.  (HMAC pads
	// its key with zero bytes, so the empty key and an all-zero secret are the same key: such a
	// configuration is skipped.)
	if strings.Trim(string(c.key()), "\x00") != "" {
		ms = append(ms, tokMut{"secret-empty", jwtEncode(c.Alg, c.Alg, []byte{}, claims)})
	}
	// time
	cp := func() map[string]interface{} {
		m := map[string]interface{}{}
		for k, v := range claims {
			m[k] = v
		}
		return m
	}
	// exp moved hours into the past / nbf moved hours into the future: once written as a plain
	// integer and once in another legal JSON number form (fraction, exponent); the instant a
	// NumericDate denotes, not its spelling, decides whether the token is currently valid
	for _, form := range []string{"int", pick(rng, numFormsNonInt...)} {
		sfx := ""
		if form != "int" {
			sfx = ":num-" + form
		}
		ex := cp()
		ex["exp"] = mkNumDate(rng, hoursFromNow(rng, -1), form)
		ms = append(ms, tokMut{"expired-by-hours" + sfx, jwtEncode(c.Alg, c.Alg, c.key(), ex)})
	}
	for _, form := range []string{"int", pick(rng, numFormsNonInt...)} {
		sfx := ""
		if form != "int" {
			sfx = ":num-" + form
		}
		nb := cp()
		nb["nbf"] = mkNumDate(rng, hoursFromNow(rng, +1), form)
		ms = append(ms, tokMut{"not-before-in-hours" + sfx, jwtEncode(c.Alg, c.Alg, c.key(), nb)})
	}
	// structure
	ms = append(ms, tokMut{"mac-segment-dropped", parts[0] + "." + parts[1]})
	ms = append(ms, tokMut{"mac-emptied", parts[0] + "." + parts[1] + "."})
	return ms
}

func TestVerif_C06_JWT(t *testing.T) {
	if c06NotReplayed(t) {
		return
	}
	r := kit.Start(t, "C06")
	defer r.Finish()
	r.Rule("JWT: per case a Validator{jwt: alg HS256/384/512, random 1-48 byte secret, optional cookieName} is built through filters.NewSpec+Init; an independent RFC 7515 encoder issues a token (claims with/without exp/nbf/iat, hours away from now, each NumericDate written either as a plain integer or in another legal JSON number form: fraction, '.0', exponent notation with or without sub-second digits, negative exponent; non-ASCII claims) carried as Bearer header or cookie on a random request (methods, escaped paths, bodies) parsed from wire bytes by net/http + httpprot.NewRequest + FetchPayload; valid token must give result \"\"; 18 single mutations (byte flip in each segment, alg header changed, re-MACed under another HS alg with the right secret, alg none, secret off by one bit / hex text / extended / EMPTY (token MACed with the zero-length key; skipped for an all-zero configured secret, which is the same HMAC key), expired or not-yet-valid by hours with the moved claim written once as an integer and once in a non-integer number form, MAC dropped/emptied, token removed, wrong scheme) must each give invalid+401/400; distinct = (alg, carrier, claim class incl. number forms, mutation)")
	r.Assume("exp/nbf/iat are positive JSON numbers (RFC 7519 NumericDate, any RFC 8259 number form, all digits kept so the value is exact to the sub-second) at least 2 h away from now; iat never in the future; token never present in both cookie and header; even-length hex secrets; scheme spelled 'Bearer'")
	if !c06SelfCheck(r) {
		return
	}
	n := r.N(1000, 25000)
	for i := 0; i < n; i++ {
		if !r.Mine(i) {
			continue
		}
		rng := r.CaseRand(i)
		cfg := genJWTCfg(rng)
		claims, cclass := genClaims(rng)
		g := genRequest(rng, genReqOpts{})
		viaCookie := cfg.Cookie != "" && rng.Intn(5) < 3
		carrier := "header"
		if viaCookie {
			carrier = "cookie"
		} else if cfg.Cookie != "" {
			carrier = "header(cookie-configured)"
		}
		r.Case(i, map[string]interface{}{"jwt": cfg, "claims": claims, "num_forms": claimNumForms(claims), "carrier": carrier, "request": descReq(g.W)})
		v, err := newValidator("kind: Validator\nname: v\n"+cfg.yaml(""), nil)
		if err != nil {
			r.Violation("jwt:well-formed-spec-rejected", map[string]interface{}{"config": cfg, "err": err.Error()})
			continue
		}
		p := &probe{r: r, v: v, part: "jwt", cfg: cfg}
		tok := jwtEncode(cfg.Alg, cfg.Alg, cfg.key(), claims)
		w := g.W.clone()
		putToken(&w, cfg, viaCookie, tok, rng)
		if i < 2 {
			r.Sample(map[string]interface{}{"jwt": cfg, "claims": claims, "wire_head": head(w.bytes())})
		}
		r.Cover(fmt.Sprintf("jwt:valid:%s:%s:%s", cfg.Alg, carrier, cclass))
		if !p.expectAccept(fmt.Sprintf("jwt:valid-rejected:%s:%s:%s", cfg.Alg, carrier, cclass), w, map[string]interface{}{"token": tok, "claims": claims}) {
			v.Close()
			continue
		}
		for cn, f := range claimNumForms(claims) {
			r.Count("valid_numform:"+f, 1)
			r.Cover("jwt:valid-numform:" + cn + ":" + f)
		}
		for _, m := range jwtMutations(rng, cfg, claims, tok) {
			mw := g.W.clone()
			putToken(&mw, cfg, viaCookie, m.tok, rng)
			r.Cover(fmt.Sprintf("jwt:mut:%s:%s:%s", m.name, cfg.Alg, carrier))
			r.Count("mut:"+m.name, 1)
			p.expectReject("jwt:mutated-accepted:"+m.name, mw, map[string]interface{}{"token": m.tok, "original": tok})
		}
		// no token at all / other scheme
		mw := g.W.clone()
		mw.delHeader("Authorization")
		mw.delHeader("Cookie")
		p.expectReject("jwt:mutated-accepted:token-removed", mw, nil)
		mw = g.W.clone()
		mw.setHeader("Authorization", "Basic "+tok)
		p.expectReject("jwt:mutated-accepted:scheme-not-bearer", mw, nil)
		if viaCookie {
			// token moved to a cookie of another name
			mw = g.W.clone()
			mw.setHeader("Cookie", "other"+cfg.Cookie+"="+tok)
			p.expectReject("jwt:mutated-accepted:cookie-renamed", mw, nil)
		}
		v.Close()
	}
	r.Require("valid_accepted", 1)
	r.Require("mutated_rejected", 1)
	r.Require("mut:alg-changed-and-remaced-with-secret", 1)
	r.Require("mut:secret-empty", 1)
	r.Require("mut:expired-by-hours", 1)
	r.Require("mut:not-before-in-hours", 1)
	// every non-integer spelling of a NumericDate must have been seen in an accepted token, in an
	// expired one and in a not-yet-valid one
	for _, f := range numFormsNonInt {
		r.Require("valid_numform:"+f, 1)
		r.Require("mut:expired-by-hours:num-"+f, 1)
		r.Require("mut:not-before-in-hours:num-"+f, 1)
	}
}

// ======================================================================================= Basic

type basicUser struct {
	Name, Pass, Class, Scheme string
}

type basicCfg struct {
	Mode  string      `json:"mode"`
	Users []basicUser `json:"users"`
	File  string      `json:"file,omitempty"`
}

func genBasicUsers(rng *rand.Rand) []basicUser {
	var us []basicUser
	used := map[string]bool{}
	for n := 1 + rng.Intn(4); n > 0; n-- {
		name := userNames[rng.Intn(len(userNames))]
		if used[name] {
			continue
		}
		pw, class := genPassword(rng)
		if used["pw:"+pw] {
			continue
		}
		used[name], used["pw:"+pw] = true, true
		us = append(us, basicUser{name, pw, class, pick(rng, "bcrypt", "sha", "ssha", "plain")})
	}
	return us
}

func basicHeader(user, pass string) string {
	return "Basic " + base64.StdEncoding.EncodeToString([]byte(user+":"+pass))
}

// buildBasic creates the credential store (htpasswd file or mocked etcd prefix) and the filter.
func buildBasic(r *kit.Run, i int, cfg *basicCfg, extraYAML string) (*Validator, error) {
	lines := make([]string, len(cfg.Users))
	for k, u := range cfg.Users {
		lines[k] = htpasswdLine(u.Name, u.Pass, u.Scheme)
	}
	if cfg.Mode == "FILE" {
		cfg.File = filepath.Join(r.TmpDir(), fmt.Sprintf("htpasswd-%d", i))
		if err := os.WriteFile(cfg.File, []byte(strings.Join(lines, "\n")+"\n"), 0o600); err != nil {
			return nil, err
		}
		return newValidator("kind: Validator\nname: v\n"+extraYAML+"basicAuth:\n  mode: FILE\n  userFile: "+yamlQuote(cfg.File)+"\n", nil)
	}
	kvs := map[string]string{}
	for k, u := range cfg.Users {
		enc := strings.SplitN(lines[k], ":", 2)[1]
		key := fmt.Sprintf("/custom-data/credentials/%d", k)
		if k%2 == 0 {
			kvs[key] = "key: " + yamlQuote(u.Name) + "\npassword: " + yamlQuote(enc) + "\n"
		} else {
			kvs[key] = "key: " + yamlQuote(fmt.Sprint("k", k)) + "\nusername: " + yamlQuote(u.Name) + "\npassword: " + yamlQuote(enc) + "\n"
		}
	}
	return newValidator("kind: Validator\nname: v\n"+extraYAML+"basicAuth:\n  mode: ETCD\n  etcdPrefix: credentials/\n", mockSuper(kvs, nil))
}

type credMut struct{ name, header string }

func basicMutations(rng *rand.Rand, cfg basicCfg, u basicUser) []credMut {
	var ms []credMut
	add := func(name, user, pass string) {
		if user == u.Name && pass == u.Pass {
			return
		}
		ms = append(ms, credMut{name, basicHeader(user, pass)})
	}
	if p, ok := changeOneChar(rng, u.Pass, false); ok {
		add("password-one-char-changed", u.Name, p)
	}
	add("password-last-char-dropped", u.Name, lastRuneCut(u.Pass))
	add("password-char-appended", u.Name, u.Pass+"x")
	add("password-colon-suffix-appended", u.Name, u.Pass+":"+randAlnum(rng, 3))
	if p, ok := swapCase(u.Pass); ok {
		add("password-case-changed", u.Name, p)
	}
	add("password-emptied", u.Name, "")
	add("password-space-appended", u.Name, u.Pass+" ")
	for _, o := range cfg.Users {
		if o.Name != u.Name {
			add("other-users-password", u.Name, o.Pass)
			add("other-user-name-this-password", o.Name, u.Pass)
			break
		}
	}
	add("unknown-user", "nobody"+randAlnum(rng, 3), u.Pass)
	// boundary credentials: they name no configured user, whatever password comes with them
	add("empty-user-and-empty-password", "", "")
	add("empty-user-this-password", "", u.Pass)
	add("blank-user-this-password", " ", u.Pass)
	add("blank-user-and-empty-password", " ", "")
	if n, ok := changeOneChar(rng, u.Name, false); ok {
		known := false
		for _, o := range cfg.Users {
			known = known || o.Name == n
		}
		if !known {
			add("user-one-char-changed", n, u.Pass)
		}
	}
	if u.Scheme != "plain" {
		enc := strings.SplitN(htpasswdLine(u.Name, u.Pass, "sha"), ":", 2)[1]
		add("stored-hash-sent-as-password", u.Name, enc)
	}
	b64 := base64.StdEncoding.EncodeToString([]byte(u.Name + ":" + u.Pass))
	ms = append(ms, credMut{"no-colon-separator", "Basic " + base64.StdEncoding.EncodeToString([]byte(u.Name+u.Pass))})
	ms = append(ms, credMut{"scheme-bearer", "Bearer " + b64})
	ms = append(ms, credMut{"not-base64", "Basic " + u.Name + ":" + u.Pass + "!"})
	ms = append(ms, credMut{"base64-of-base64", "Basic " + base64.StdEncoding.EncodeToString([]byte(b64))})
	return ms
}

func TestVerif_C06_Basic(t *testing.T) {
	if c06NotReplayed(t) {
		return
	}
	r := kit.Start(t, "C06")
	defer r.Finish()
	r.Rule("Basic: per case 1-4 users (ASCII / non-ASCII / dotted / e-mail names; passwords: alnum, symbols, non-ASCII, inner spaces, 60 chars, 1 char, containing ':' at start/middle/end/several) are written by an independent htpasswd writer (bcrypt, {SHA}, {SSHA}, plain) to a file (mode FILE) or served from a mocked etcd prefix (mode ETCD); the request 'Authorization: Basic base64(user:password)' (RFC 7617: the password is everything after the FIRST colon) for a configured user must give \"\"; ~22 single mutations of the credentials (one char changed/dropped/appended, ':xyz' appended, case, empty, another user's password/name, unknown user, boundary credentials naming no configured user: empty or blank user name with an empty password or with the configured user's password, stored hash as password, no colon, other scheme, broken base64, header removed) must give invalid+401/400; distinct = (mode, hash scheme, password class, mutation)")
	r.Assume("user names contain no ':' and no leading/trailing blanks; passwords are non-empty, < 72 bytes, do not start with '$' or '{' and have no leading/trailing blanks (htpasswd file format limits, not Validator semantics); the credential store is not modified while requests are served")
	if !c06SelfCheck(r) {
		return
	}
	n := r.N(500, 12000)
	for i := 0; i < n; i++ {
		if !r.Mine(i) {
			continue
		}
		rng := r.CaseRand(i)
		cfg := basicCfg{Mode: "FILE", Users: genBasicUsers(rng)}
		if rng.Intn(5) == 0 {
			cfg.Mode = "ETCD"
		}
		u := cfg.Users[rng.Intn(len(cfg.Users))]
		g := genRequest(rng, genReqOpts{})
		r.Case(i, map[string]interface{}{"basicAuth": cfg, "login": u, "request": descReq(g.W)})
		v, err := buildBasic(r, i, &cfg, "")
		if err != nil {
			r.Violation("basic:well-formed-spec-rejected", map[string]interface{}{"config": cfg, "err": err.Error()})
			continue
		}
		p := &probe{r: r, v: v, part: "basic", cfg: cfg}
		w := g.W.clone()
		w.setHeader("Authorization", basicHeader(u.Name, u.Pass))
		if i < 2 {
			r.Sample(map[string]interface{}{"basicAuth": cfg, "login": u, "wire_head": head(w.bytes())})
		}
		r.Cover(fmt.Sprintf("basic:valid:%s:%s:%s", cfg.Mode, u.Scheme, u.Class))
		r.Count("pwclass:"+u.Class, 1)
		sig := fmt.Sprintf("basic:valid-rejected:%s:%s:%s", u.Class, u.Scheme, cfg.Mode)
		if strings.Contains(u.Pass, ":") {
			// classify first: one signature for "password contains ':'", whatever the store
			sig = "basic:valid-rejected:password-contains-colon"
		}
		if p.expectAccept(sig, w, map[string]interface{}{"user": u.Name, "password": u.Pass}) {
			for _, m := range basicMutations(rng, cfg, u) {
				mw := g.W.clone()
				mw.setHeader("Authorization", m.header)
				r.Cover(fmt.Sprintf("basic:mut:%s:%s:%s", m.name, u.Scheme, u.Class))
				r.Count("mut:"+m.name, 1)
				p.expectReject("basic:mutated-accepted:"+m.name, mw, map[string]interface{}{"user": u.Name, "password": u.Pass})
			}
			mw := g.W.clone()
			mw.delHeader("Authorization")
			p.expectReject("basic:mutated-accepted:header-removed", mw, nil)
		}
		v.Close()
		if cfg.File != "" {
			os.Remove(cfg.File)
		}
	}
	r.Require("valid_accepted", 1)
	r.Require("mutated_rejected", 1)
	r.Require("pwclass:colon", 1)
	r.Require("pwclass:nonascii", 1)
	r.Require("mut:password-colon-suffix-appended", 1)
	r.Require("mut:empty-user-and-empty-password", 1)
	r.Require("mut:empty-user-this-password", 1)
	r.Require("mut:password-emptied", 1)
}

// ======================================================================================= Signature

// signBoth signs w (in place) with the independent issuer and asks the package's own client
// signer for its opinion.  agree tells whether both produced the same signature.
func signBoth(c sigCfg, w *wireReq, t time.Time, expires time.Duration) (agree bool, mine, theirs string, err error) {
	base := w.clone()
	if c.Presign {
		mine = sigV4Presign(w, c.params(t), expires)
	} else {
		mine, _ = sigV4Header(w, c.params(t))
	}
	theirs, err = pkgClientSign(c, base, t, expires)
	return err == nil && mine == theirs, mine, theirs, err
}

type reqMut struct {
	name string
	w    wireReq
}

func replaceInAuth(w wireReq, f func(string) string) wireReq {
	m := w.clone()
	m.setHeader("Authorization", f(w.getHeader("Authorization")))
	return m
}

// sigMutations: every entry changes exactly one covered part of the signed request sw without
// re-signing (or re-signs with exactly one wrong ingredient).
func sigMutations(rng *rand.Rand, c sigCfg, g genReq, sw wireReq) []reqMut {
	var ms []reqMut
	add := func(name string, f func(m *wireReq)) {
		m := sw.clone()
		f(&m)
		ms = append(ms, reqMut{name, m})
	}
	lit := c.lit()
	unsigned := c.unsigned()
	// method
	add("method-changed", func(m *wireReq) {
		for m.Method == sw.Method {
			m.Method = pick(rng, "GET", "POST", "PUT", "DELETE", "PATCH")
		}
	})
	// path
	if p, ok := changeOneChar(rng, sw.Path, false); ok && !strings.Contains(sw.Path, "%") {
		add("path-char-changed", func(m *wireReq) { m.Path = p })
	}
	add("path-segment-appended", func(m *wireReq) { m.Path = strings.TrimSuffix(m.Path, "/") + "/extra" })
	// another raw path with the same percent-decoded form: a segment separator is sent
	// escaped, i.e. two segments become one (the raw path is what gets forwarded)
	if i := strings.LastIndexByte(sw.Path, '/'); i > 0 && i < len(sw.Path)-1 {
		add("path-slash-escaped-two-segments-merged", func(m *wireReq) { m.Path = m.Path[:i] + "%2F" + m.Path[i+1:] })
	}
	if i := strings.Index(sw.Path, "%2F"); i >= 0 {
		add("path-escaped-slash-decoded", func(m *wireReq) { m.Path = m.Path[:i] + "/" + m.Path[i+3:] })
	}
	if len(g.Segs) > 0 {
		add("path-trailing-slash-toggled", func(m *wireReq) {
			if strings.HasSuffix(m.Path, "/") {
				m.Path = strings.TrimSuffix(m.Path, "/")
			} else {
				m.Path += "/"
			}
		})
		add("path-last-segment-dropped", func(m *wireReq) {
			p := strings.TrimSuffix(m.Path, "/")
			p = p[:strings.LastIndexByte(p, '/')]
			if p == "" {
				p = "/"
			}
			m.Path = p
		})
	}
	// query
	add("query-param-added", func(m *wireReq) {
		q := append(append([]qParam(nil), g.Query...), qParam{"added", "1"})
		m.RawQuery = wireQuery(q)
	})
	if len(g.Query) > 0 {
		k := rng.Intn(len(g.Query))
		add("query-value-changed", func(m *wireReq) {
			q := append([]qParam(nil), g.Query...)
			q[k].V += "x"
			m.RawQuery = wireQuery(q)
		})
		add("query-param-removed", func(m *wireReq) {
			q := append([]qParam(nil), g.Query[:k]...)
			m.RawQuery = wireQuery(append(q, g.Query[k+1:]...))
		})
		add("query-key-renamed", func(m *wireReq) {
			q := append([]qParam(nil), g.Query...)
			q[k].K += "2"
			m.RawQuery = wireQuery(q)
		})
	}
	// signed headers (everything the client sent except Authorization/User-Agent/ignored)
	var signedIdx []int
	for i, h := range sw.Headers {
		n := strings.ToLower(h.K)
		if !unsigned[n] && !strings.EqualFold(h.K, lit.DateHdr) && !strings.EqualFold(h.K, lit.ShaHdr) {
			signedIdx = append(signedIdx, i)
		}
	}
	if len(signedIdx) > 0 {
		k := signedIdx[rng.Intn(len(signedIdx))]
		name := sw.Headers[k].K
		add("signed-header-value-changed", func(m *wireReq) { m.Headers[k].V += "x" })
		add("signed-header-removed", func(m *wireReq) { m.Headers = append(m.Headers[:k:k], m.Headers[k+1:]...) })
		add("signed-header-second-value-added", func(m *wireReq) { m.Headers = append(m.Headers, hdrKV{name, "injected"}) })
		add("signed-headers-list-entry-dropped", func(m *wireReq) {
			*m = replaceInAuth(*m, func(a string) string {
				i := strings.Index(a, "SignedHeaders=") + 14
				j := i + strings.IndexByte(a[i:], ',')
				var keep []string
				for _, n := range strings.Split(a[i:j], ";") {
					if n != strings.ToLower(name) {
						keep = append(keep, n)
					}
				}
				return a[:i] + strings.Join(keep, ";") + a[j:]
			})
		})
	}
	add("host-changed", func(m *wireReq) { m.Host = "evil." + m.Host })
	add("date-header-one-second-later", func(m *wireReq) {
		t, _ := time.Parse(awsTime, m.getHeader(lit.DateHdr))
		m.setHeader(lit.DateHdr, t.Add(time.Second).Format(awsTime))
	})
	// body
	bodyClass := "base-body-empty"
	if len(sw.Body) > 0 {
		bodyClass = "base-body-nonempty"
	}
	if !c.ExcludeBody {
		add("body-byte-appended:"+bodyClass, func(m *wireReq) { m.Body = append(m.Body, 'x') })
		if len(sw.Body) > 0 {
			k := rng.Intn(len(sw.Body))
			add("body-byte-flipped:"+bodyClass, func(m *wireReq) { m.Body[k] ^= byte(1 << uint(rng.Intn(8))) })
			add("body-last-byte-dropped:"+bodyClass, func(m *wireReq) { m.Body = m.Body[:len(m.Body)-1] })
			if len(sw.Body) > 1 {
				add("body-emptied:"+bodyClass, func(m *wireReq) { m.Body = nil })
			}
		}
	}
	// the Authorization header itself
	add("signature-hex-char-changed", func(m *wireReq) {
		*m = replaceInAuth(*m, func(a string) string {
			i := strings.LastIndex(a, "Signature=") + 10
			s, _ := changeHex(rng, a[i:])
			return a[:i] + s
		})
	})
	for id := range c.Keys {
		if id != c.KeyID {
			other := id
			add("credential-other-known-key-id", func(m *wireReq) {
				*m = replaceInAuth(*m, func(a string) string { return strings.Replace(a, "Credential="+c.KeyID+"/", "Credential="+other+"/", 1) })
			})
			break
		}
	}
	add("credential-unknown-key-id", func(m *wireReq) {
		*m = replaceInAuth(*m, func(a string) string { return strings.Replace(a, "Credential="+c.KeyID+"/", "Credential="+c.KeyID+"X/", 1) })
	})
	if len(c.Scopes) > 0 {
		add("credential-scope-changed", func(m *wireReq) {
			*m = replaceInAuth(*m, func(a string) string { return strings.Replace(a, "/"+c.Scopes[0]+"/", "/"+c.Scopes[0]+"x/", 1) })
		})
	}
	add("authorization-removed", func(m *wireReq) { m.delHeader("Authorization") })
	return ms
}

// foreignCred is a credential (access key id + the secret the client signs with) that is NOT one
// of the configured access keys of c.
type foreignCred struct{ name, id, secret string }

// foreignCreds: requests are re-signed, correctly, by a client that holds no configured
// credential.  Besides ordinary unknown ids the list contains the boundary values of both halves
// of a credential: the empty / blank access key id and the empty secret, in every combination.  A
// request that names no configured access key must be refused whatever it is signed with.
func foreignCreds(rng *rand.Rand, c sigCfg) []foreignCred {
	own := c.Keys[c.KeyID]
	fc := []foreignCred{
		{"resigned-by-unknown-key-id-with-empty-secret", "AKIDunknown" + randAlnum(rng, 3), ""},
		{"resigned-by-unknown-key-id-with-own-secret", "AKIDunknown" + randAlnum(rng, 3), randAlnum(rng, 12)},
		{"resigned-by-unknown-key-id-with-known-secret", "AKIDunknown" + randAlnum(rng, 3), own},
		{"resigned-by-known-key-id-with-empty-secret", c.KeyID, ""},
		{"resigned-by-empty-key-id-with-empty-secret", "", ""},
		{"resigned-by-empty-key-id-with-own-secret", "", randAlnum(rng, 12)},
		{"resigned-by-empty-key-id-with-known-secret", "", own},
		{"resigned-by-blank-key-id-with-empty-secret", " ", ""},
		{"resigned-by-blank-key-id-with-known-secret", " ", own},
	}
	var out []foreignCred
	for _, k := range fc {
		if s, known := c.Keys[k.id]; known && s == k.secret {
			continue
		}
		out = append(out, k)
	}
	return out
}

func changeHex(rng *rand.Rand, s string) (string, bool) {
	i := rng.Intn(len(s))
	c := s[i]
	for {
		d := "0123456789abcdef"[rng.Intn(16)]
		if d != c {
			return s[:i] + string(d) + s[i+1:], true
		}
	}
}

// unsignedCopy strips what signing added.
func unsignedCopy(c sigCfg, w wireReq) wireReq {
	m := w.clone()
	m.delHeader("Authorization")
	m.delHeader(c.lit().DateHdr)
	m.delHeader(c.lit().ShaHdr)
	return m
}

func sigFeatures(c sigCfg) string {
	f := c.Lit
	if c.Presign {
		f += "+presign"
	}
	if c.TTL != "" {
		f += "+ttl"
	}
	if c.ExcludeBody {
		f += "+excludeBody"
	}
	if len(c.Ignored) > 0 {
		f += "+ignoredHeaders"
	}
	if c.ShaHeader {
		f += "+contentShaHeader"
	}
	return fmt.Sprintf("%s+scopes%d", f, len(c.Scopes))
}

func TestVerif_C06_Signature(t *testing.T) {
	if c06NotReplayed(t) {
		return
	}
	r := kit.Start(t, "C06")
	defer r.Finish()
	r.Rule("Signature: per case a Validator{signature: AWS literals (60%) or the default ME literals, 1-3 access keys, scopes (AWS: region/service; ME: 0-3), ttl none/1h/90m/2h/24h, excludeBody, ignoredHeaders} is built through filters.NewSpec+Init; a random request (5 methods, 0-4 path segments needing escaping incl. UTF-8, '%', sub-delims raw or escaped, 0-4 query parameters incl. multi-valued and values needing escaping, 0-6 headers incl. multi-valued and values with runs of blanks, Content-Length or chunked bodies 0 B-1 MiB, 4 hosts) is signed by (a) an independent from-the-AWS-documentation SigV4 signer, self-checked against the published AWS example and two cases of the public test suite, and (b) the package's own client-side Sign on a fresh outgoing request; only when both agree the request counts as validly signed and must give \"\" after net/http parsing + httpprot.NewRequest + FetchPayload; then ~25 single mutations (method, path char/segment/slash, query value/param/key, signed header value/removed/extra value/dropped from list, host, date header, body byte appended/flipped/dropped/emptied, signature hex char, key id other/unknown, scope, Authorization removed, re-signed with a wrong secret, re-signed correctly by a credential that is NOT configured: unknown / empty / blank access key id x empty / own / a configured secret, and a configured id with the empty secret, re-signed hours outside the TTL in both directions) must give invalid+401/400, and neutral changes (unsigned header added, body re-framed chunked<->Content-Length) must stay accepted; the Validator spec is written the ordinary way (only accessKeys configured, accessKeyId/accessKeySecret unset); presigned URLs: completeness + expiry + signature char + the same non-configured credentials presigning the link; distinct = (feature set, body class, framing, mutation)")
	r.Assume("signing time within ttl/6 of now when valid and >= ttl+3h away when expired; no dot-segments or empty path segments; raw '+' never used for a blank in a query; header values without quotes/tabs; Host without an explicit default port; hoisting not configured; disagreement between the two issuers (blank in a query value: '+' vs '%20'; multi-valued query sorted before vs after encoding) is recorded as a diagnostic and such requests are not used for the completeness oracle")
	if !c06SelfCheck(r) {
		return
	}
	n := r.N(1000, 25000)
	for i := 0; i < n; i++ {
		if !r.Mine(i) {
			continue
		}
		rng := r.CaseRand(i)
		var cfg sigCfg
		var g genReq
		fixed := i == 0
		if fixed {
			// case 0: the request of the AWS documentation example itself (signed 2015, no TTL)
			cfg = sigCfg{Lit: "aws", Keys: map[string]string{"AKIDEXAMPLE": "wJalrXUtnFEMI/K7MDENG+bPxRfiCYEXAMPLEKEY"}, KeyID: "AKIDEXAMPLE", Scopes: []string{"us-east-1", "iam"}}
			g = genReq{W: awsDocExample(), Query: []qParam{{"Action", "ListUsers"}, {"Version", "2010-05-08"}}}
		} else {
			cfg = genSigCfg(rng, true)
			if cfg.Presign {
				cfg.ExcludeBody, cfg.ShaHeader = false, false
			}
			var extra []hdrKV
			for _, h := range cfg.Ignored {
				extra = append(extra, hdrKV{h, "198.51.100." + fmt.Sprint(rng.Intn(250))})
			}
			g = genRequest(rng, genReqOpts{spaceInQ: rng.Intn(25) == 0, big: true, extraHdrs: extra, noBody: cfg.Presign})
			if cfg.Presign {
				g.W.Method = pick(rng, "GET", "GET", "DELETE")
			}
		}
		r.Case(i, map[string]interface{}{"signature": cfg, "request": descReq(g.W)})
		v, err := newValidator("kind: Validator\nname: v\n"+cfg.yaml(""), nil)
		if err != nil {
			r.Violation("signature:well-formed-spec-rejected", map[string]interface{}{"config": cfg, "err": err.Error()})
			continue
		}
		p := &probe{r: r, v: v, part: "signature", cfg: cfg}
		feat := sigFeatures(cfg)
		ts := cfg.validTime(rng)
		if cfg.Presign && cfg.ttl() == 0 {
			ts = time.Now().Add(-time.Duration(rng.Int63n(int64(90 * time.Minute)))) // link issued recently, expires in >= 12 h
		}
		if fixed {
			ts = time.Date(2015, 8, 30, 12, 36, 0, 0, time.UTC)
		}
		expires := time.Duration(12+rng.Intn(150)) * time.Hour

		sw := g.W.clone()
		agree, mine, theirs, serr := signBoth(cfg, &sw, ts, expires)
		if serr != nil {
			r.Inconclusive("package client signer failed: " + serr.Error())
			v.Close()
			continue
		}
		if fixed && !strings.HasSuffix(mine, "5d672d79c15b13162d9279b0855cfba6789a8edb4c82c400e06b5924a6f2b5d7") {
			r.Inconclusive("case 0 is not the AWS documentation example any more")
		}
		if !agree {
			// diagnostic only: the two issuers disagree, so "validly signed" is not defined here and
			// the completeness oracle is not applied.  Soundness still is: if the filter admits
			// the request as signed by the package's own client, every single mutation of that
			// accepted request must be refused.
			cls := disagreeClass(g)
			r.Count("issuers_disagree:"+cls, 1)
			if cls == "other" {
				r.Note("issuers disagree for an unexplained reason: cfg=%+v req=%v mine=%s theirs=%s", cfg, descReq(g.W), mine, theirs)
			}
			r.Cover("signature:issuers-disagree:" + cls)
			if !cfg.Presign {
				bw := sw.clone()
				bw.setHeader("Authorization", theirs)
				var out verdict
				r.Eval(1)
				if !r.Guard("signature:pkg-signed", descReq(bw), func() { out, _ = serve(v, bw.bytes()) }) && out.accepted() {
					r.Count("pkg_signed_accepted_on_disagreement", 1)
					for _, m := range sigMutations(rng, cfg, g, bw) {
						r.Count("mut(pkg-signed):"+strings.SplitN(m.name, ":", 2)[0], 1)
						p.expectReject("signature:mutated-accepted:"+m.name, m.w, map[string]interface{}{"original": descReq(bw), "signed_by": "package client (issuers disagree: " + cls + ")"})
					}
				}
			}
			v.Close()
			continue
		}
		r.Count("issuers_agree", 1)
		bodyClass := "body-empty"
		if len(sw.Body) > 0 {
			bodyClass = "body-nonempty"
		}
		framing := "content-length"
		if sw.Chunked {
			framing = "chunked"
		}
		r.Cover(fmt.Sprintf("signature:valid:%s:%s:%s", feat, bodyClass, framing))
		r.Count("valid:"+bodyClass, 1)
		if i < 3 {
			r.Sample(map[string]interface{}{"signature": cfg, "wire_head": head(sw.bytes()), "body_bytes": len(sw.Body)})
		}
		sig := "signature:valid-rejected:" + bodyClass + ":" + feat
		if len(sw.Body) > 0 && !cfg.ExcludeBody {
			// classify first: a signed request with a non-empty (already buffered) body
			sig = "signature:valid-rejected:body-nonempty-covered-by-signature"
		}
		ok := p.expectAccept(sig, sw, map[string]interface{}{"signed_at": ts.UTC().Format(awsTime), "signature": mine})
		if !ok && len(sw.Body) > 0 && !cfg.ExcludeBody {
			// do not let the body problem mask the rest: continue with the same request, body
			// removed and re-signed
			g.W.Body, g.W.Chunked = nil, false
			sw = g.W.clone()
			if a, _, _, _ := signBoth(cfg, &sw, ts, expires); a {
				r.Count("valid:body-empty(twin)", 1)
				ok = p.expectAccept("signature:valid-rejected:body-empty:"+feat, sw, map[string]interface{}{"twin_of_rejected_body_case": true})
			}
		}
		if !ok {
			v.Close()
			continue
		}
		if cfg.Presign {
			r.Count("presign_accepted", 1)
			// expired link: issued more than X-Amz-Expires (+3 h) ago
			old := g.W.clone()
			sigV4Presign(&old, cfg.params(time.Now().Add(-expires-time.Duration(3+rng.Intn(100))*time.Hour)), expires)
			r.Count("mut:presign-expired-by-hours", 1)
			p.expectReject("signature:mutated-accepted:presign-expired-by-hours", old, nil)
			m := sw.clone()
			i0 := strings.LastIndex(m.RawQuery, "=") + 1
			s, _ := changeHex(rng, m.RawQuery[i0:])
			m.RawQuery = m.RawQuery[:i0] + s
			p.expectReject("signature:mutated-accepted:presign-signature-hex-char-changed", m, nil)
			// the same link, presigned (correctly) by a client holding no configured credential
			for _, k := range foreignCreds(rng, cfg) {
				m := g.W.clone()
				pp := cfg.params(ts)
				pp.KeyID, pp.Secret = k.id, k.secret
				sigV4Presign(&m, pp, expires)
				r.Count("mut:presign-"+k.name, 1)
				r.Cover("signature:mut:presign-" + k.name + ":" + cfg.Lit)
				p.expectReject("signature:mutated-accepted:presign-"+k.name, m, map[string]interface{}{"signed_with": map[string]string{"accessKeyId": k.id, "secret": k.secret}, "configured_ids": keyIDs(cfg)})
			}
			v.Close()
			continue
		}
		for _, m := range sigMutations(rng, cfg, g, sw) {
			r.Cover(fmt.Sprintf("signature:mut:%s:%s", m.name, feat))
			r.Count("mut:"+strings.SplitN(m.name, ":", 2)[0], 1)
			p.expectReject("signature:mutated-accepted:"+m.name, m.w, map[string]interface{}{"original": descReq(sw)})
		}
		// re-signed with one wrong ingredient
		{
			m := unsignedCopy(cfg, sw)
			pp := cfg.params(ts)
			pp.Secret += "x"
			sigV4Header(&m, pp)
			r.Count("mut:resigned-with-wrong-secret", 1)
			p.expectReject("signature:mutated-accepted:resigned-with-wrong-secret", m, nil)
		}
		for _, k := range foreignCreds(rng, cfg) {
			m := unsignedCopy(cfg, sw)
			pp := cfg.params(ts)
			pp.KeyID, pp.Secret = k.id, k.secret
			sigV4Header(&m, pp)
			r.Count("mut:"+k.name, 1)
			r.Cover("signature:mut:" + k.name + ":" + cfg.Lit)
			p.expectReject("signature:mutated-accepted:"+k.name, m, map[string]interface{}{"signed_with": map[string]string{"accessKeyId": k.id, "secret": k.secret}, "configured_ids": keyIDs(cfg)})
		}
		if cfg.ttl() > 0 {
			for _, dir := range []int{-1, +1} {
				m := unsignedCopy(cfg, sw)
				off := cfg.ttl() + time.Duration(3+rng.Intn(200))*time.Hour
				sigV4Header(&m, cfg.params(time.Now().Add(time.Duration(dir)*off)))
				name := "signed-hours-before-ttl-window"
				if dir > 0 {
					name = "signed-hours-after-ttl-window(future)"
				}
				r.Count("mut:"+name, 1)
				r.Cover("signature:mut:" + name + ":" + cfg.TTL)
				p.expectReject("signature:mutated-accepted:"+name, m, map[string]interface{}{"ttl": cfg.TTL, "offset": off.String()})
			}
		}
		// neutral changes: not covered by the signature, must stay accepted
		{
			m := sw.clone()
			m.delHeader("User-Agent")
			m.Headers = append(m.Headers, hdrKV{"User-Agent", "verif-agent/2"})
			r.Count("neutral:user-agent", 1)
			p.expectAccept("signature:valid-rejected:after-unsigned-user-agent-changed", m, nil)
			if len(sw.Body) > 0 {
				m := sw.clone()
				m.Chunked = !m.Chunked
				r.Count("neutral:reframed", 1)
				p.expectAccept("signature:valid-rejected:after-body-reframed", m, nil)
			}
		}
		v.Close()
	}
	r.Require("issuers_agree", 1)
	r.Require("valid_accepted", 1)
	r.Require("mutated_rejected", 1)
	r.Require("valid:body-nonempty", 1)
	r.Require("mut:body-byte-appended", 1)
	r.Require("mut:signed-header-value-changed", 1)
	r.Require("mut:signed-hours-before-ttl-window", 1)
	r.Require("mut:query-value-changed", 1)
	// boundary credentials (empty / blank access key id, empty secret) must have been tried in
	// the header form and in the presigned form
	for _, n := range []string{"empty-key-id-with-empty-secret", "empty-key-id-with-known-secret", "blank-key-id-with-empty-secret", "known-key-id-with-empty-secret", "unknown-key-id-with-empty-secret"} {
		r.Require("mut:resigned-by-"+n, 1)
		r.Require("mut:presign-resigned-by-"+n, 1)
	}
}

func keyIDs(c sigCfg) []string {
	var ids []string
	for id := range c.Keys {
		ids = append(ids, id)
	}
	return ids
}

// ======================================================================================= several methods

type hdrRule struct {
	Name   string   `json:"name"`
	Values []string `json:"values,omitempty"`
	Regexp string   `json:"regexp,omitempty"`
	Good   string   `json:"good"`
	Bad    string   `json:"bad"`
}

func genHdrRules(rng *rand.Rand) []hdrRule {
	all := []hdrRule{
		{Name: "X-Api-Version", Values: []string{"v1", "v2"}, Good: "v2", Bad: "v3"},
		{Name: "X-Client", Regexp: "^ok-[0-9]+$", Good: "ok-17", Bad: "ko-17"},
		{Name: "X-Env", Values: []string{"prod"}, Good: "prod", Bad: "Prod"},
	}
	rng.Shuffle(len(all), func(i, j int) { all[i], all[j] = all[j], all[i] })
	return all[:1+rng.Intn(2)]
}

func hdrRulesYAML(rs []hdrRule) string {
	s := "headers:\n"
	for _, h := range rs {
		s += "  " + h.Name + ":\n"
		if len(h.Values) > 0 {
			s += "    values: [" + strings.Join(h.Values, ", ") + "]\n"
		} else {
			s += "    regexp: " + yamlQuote(h.Regexp) + "\n"
		}
	}
	return s
}

func TestVerif_C06_Multi(t *testing.T) {
	if c06NotReplayed(t) {
		return
	}
	r := kit.Start(t, "C06")
	defer r.Finish()
	r.Rule("Several methods: Validators combining header rules (values or anchored regexp, single-valued request headers), JWT (cookie or header), Basic (htpasswd file) and signature (header mode) in the 6 combinations whose credentials can coexist in one request; the fully valid request must give \"\"; then, for each configured method in turn, ONLY that method's credential is made invalid (rule header missing/wrong, token MACed with a wrong secret, with the empty key, or expired by hours (exp written as an integer or in another JSON number form), wrong password or empty user+password, signature hex char changed or request re-signed by the non-configured credential with empty access key id and empty secret) while all others stay valid (the signature is re-computed after the change where it covers the changed header) and the result must be invalid+401/400; distinct = (combination, method invalidated, how)")
	r.Assume("passwords without ':' and bodies empty when a signature is configured (those inputs belong to the single-method parts); a header rule has either values or an anchored regexp")
	if !c06SelfCheck(r) {
		return
	}
	combos := [][]string{{"headers", "jwt"}, {"headers", "basic"}, {"headers", "signature"}, {"jwtcookie", "basic"}, {"jwtcookie", "signature"}, {"headers", "jwtcookie", "basic"}, {"headers", "jwtcookie", "signature"}}
	n := r.N(420, 10500)
	for i := 0; i < n; i++ {
		if !r.Mine(i) {
			continue
		}
		rng := r.CaseRand(i)
		combo := combos[i%len(combos)]
		cname := strings.Join(combo, "+")
		has := func(m string) bool {
			for _, x := range combo {
				if x == m {
					return true
				}
			}
			return false
		}
		var rules []hdrRule
		var jc jwtCfg
		var bc basicCfg
		var sc sigCfg
		var claims map[string]interface{}
		y := "kind: Validator\nname: v\n"
		if has("headers") {
			rules = genHdrRules(rng)
			y += hdrRulesYAML(rules)
		}
		if has("jwt") || has("jwtcookie") {
			jc = genJWTCfg(rng)
			jc.Cookie = ""
			if has("jwtcookie") {
				jc.Cookie = "auth"
			}
			claims, _ = genClaims(rng)
			y += jc.yaml("")
		}
		if has("signature") {
			sc = genSigCfg(rng, false)
			sc.ExcludeBody, sc.ShaHeader = false, false
			y += sc.yaml("")
		}
		var u basicUser
		if has("basic") {
			bc = basicCfg{Mode: "FILE"}
			for len(bc.Users) == 0 {
				for _, x := range genBasicUsers(rng) {
					if x.Class != "colon" {
						bc.Users = append(bc.Users, x)
					}
				}
			}
			u = bc.Users[0]
		}
		g := genRequest(rng, genReqOpts{noBody: has("signature")})
		cfgDesc := map[string]interface{}{"combo": cname, "headers": rules, "jwt": jc, "basicAuth": bc, "signature": sc}
		r.Case(i, map[string]interface{}{"config": cfgDesc, "request": descReq(g.W)})
		var v *Validator
		var err error
		if has("basic") {
			v, err = buildBasic(r, i, &bc, strings.TrimPrefix(y, "kind: Validator\nname: v\n"))
		} else {
			v, err = newValidator(y, nil)
		}
		if err != nil {
			r.Violation("multi:well-formed-spec-rejected", map[string]interface{}{"config": cfgDesc, "err": err.Error()})
			continue
		}
		p := &probe{r: r, v: v, part: "multi", cfg: cfgDesc}
		ts := sc.validTime(rng)

		// build(bad): request in which exactly the ingredient named bad is invalid
		build := func(bad string) (wireReq, bool) {
			w := g.W.clone()
			for k, h := range rules {
				switch {
				case k == 0 && bad == "headers:missing":
				case k == 0 && bad == "headers:wrong-value":
					w.setHeader(h.Name, h.Bad)
				default:
					w.setHeader(h.Name, h.Good)
				}
			}
			if has("jwt") || has("jwtcookie") {
				tok := jwtEncode(jc.Alg, jc.Alg, jc.key(), claims)
				switch bad {
				case "jwt:wrong-secret":
					tok = jwtEncode(jc.Alg, jc.Alg, append([]byte("wrong"), jc.key()...), claims)
				case "jwt:empty-secret":
					tok = jwtEncode(jc.Alg, jc.Alg, []byte{}, claims)
				case "jwt:expired":
					tok = jwtEncode(jc.Alg, jc.Alg, jc.key(), map[string]interface{}{"sub": "x", "exp": mkNumDate(rng, hoursFromNow(rng, -1), genNumForm(rng))})
				}
				putToken(&w, jc, jc.Cookie != "", tok, rng)
			}
			if has("basic") {
				un, pw := u.Name, u.Pass
				switch bad {
				case "basic:wrong-password":
					pw += "x"
				case "basic:empty-user-and-empty-password":
					un, pw = "", ""
				}
				w.setHeader("Authorization", basicHeader(un, pw))
			}
			if has("signature") {
				agree, _, _, err := signBoth(sc, &w, ts, 0)
				if err != nil || !agree {
					return w, false
				}
				if bad == "signature:resigned-by-empty-key-id-with-empty-secret" {
					// correctly signed, but by the credential ("", ""), which is not configured
					pp := sc.params(ts)
					pp.KeyID, pp.Secret = "", ""
					sigV4Header(&w, pp)
				}
				if bad == "signature:hex-char-changed" {
					w = replaceInAuth(w, func(a string) string {
						k := strings.LastIndex(a, "Signature=") + 10
						s, _ := changeHex(rng, a[k:])
						return a[:k] + s
					})
				}
			}
			return w, true
		}

		w, ok := build("")
		if !ok {
			r.Count("issuers_disagree", 1)
			v.Close()
			continue
		}
		if i < 2 {
			r.Sample(map[string]interface{}{"config": cfgDesc, "yaml": y, "wire_head": head(w.bytes())})
		}
		r.Cover("multi:valid:" + cname)
		if p.expectAccept("multi:"+cname+":all-valid-rejected", w, nil) {
			var invs []string
			if has("headers") {
				invs = append(invs, "headers:missing", "headers:wrong-value")
			}
			if has("jwt") || has("jwtcookie") {
				invs = append(invs, "jwt:wrong-secret", "jwt:expired")
				if strings.Trim(string(jc.key()), "\x00") != "" { // HMAC: empty key == all-zero key
					invs = append(invs, "jwt:empty-secret")
				}
			}
			if has("basic") {
				invs = append(invs, "basic:wrong-password", "basic:empty-user-and-empty-password")
			}
			if has("signature") {
				invs = append(invs, "signature:hex-char-changed", "signature:resigned-by-empty-key-id-with-empty-secret")
			}
			for _, bad := range invs {
				mw, ok := build(bad)
				if !ok {
					continue
				}
				r.Cover(fmt.Sprintf("multi:only-invalid(%s):%s", bad, cname))
				r.Count("only_invalid:"+strings.SplitN(bad, ":", 2)[0], 1)
				r.Count("only_invalid_how:"+bad, 1)
				p.expectReject(fmt.Sprintf("multi:mutated-accepted:only-invalid(%s):%s", bad, cname), mw, nil)
			}
		}
		v.Close()
		if bc.File != "" {
			os.Remove(bc.File)
		}
	}
	r.Require("valid_accepted", 1)
	for _, m := range []string{"headers", "jwt", "basic", "signature"} {
		r.Require("only_invalid:"+m, 1)
	}
	for _, how := range []string{"signature:resigned-by-empty-key-id-with-empty-secret", "jwt:empty-secret", "basic:empty-user-and-empty-password"} {
		r.Require("only_invalid_how:"+how, 1)
	}
}

// ======================================================================================= mis-initialised stores

// TestVerif_C06_Gate: configurations validation accepts whose credential store turns out
// empty or unavailable at Init must admit nobody (the gate must not fall open).
func TestVerif_C06_Gate(t *testing.T) {
	if c06NotReplayed(t) {
		return
	}
	r := kit.Start(t, "C06")
	defer r.Finish()
	r.Rule("Gate: Basic validators whose store is empty or unreachable at Init (empty htpasswd file, empty etcd prefix, etcd GetPrefix error) x requests without credentials / with well-formed credentials of a non-configured user / with garbage: since no user is configured nothing may be admitted; distinct = (store state, request kind).  Non-deciding exploration (counters only): mode ETCD on a supervisor without cluster, which cannot occur in a running gateway")
	r.Assume("a running gateway always hands filters a supervisor with a cluster; specs validation rejects (mode \"\"/lower-case) are outside the property")
	if !c06SelfCheck(r) {
		return
	}
	type store struct {
		name string
		mk   func(i int) (*Validator, error)
	}
	stores := []store{
		{"file-empty", func(i int) (*Validator, error) {
			c := basicCfg{Mode: "FILE"}
			return buildBasic(r, 100000+i, &c, "")
		}},
		{"etcd-empty-prefix", func(i int) (*Validator, error) {
			return newValidator("kind: Validator\nname: v\nbasicAuth:\n  mode: ETCD\n  etcdPrefix: credentials/\n", mockSuper(map[string]string{}, nil))
		}},
		{"etcd-get-error", func(i int) (*Validator, error) {
			return newValidator("kind: Validator\nname: v\nbasicAuth:\n  mode: ETCD\n", mockSuper(nil, fmt.Errorf("etcdserver: request timed out")))
		}},
	}
	n := r.N(30, 300)
	for i := 0; i < n; i++ {
		if !r.Mine(i) {
			continue
		}
		rng := r.CaseRand(i)
		st := stores[i%len(stores)]
		g := genRequest(rng, genReqOpts{})
		r.Case(i, map[string]interface{}{"store": st.name, "request": descReq(g.W)})
		v, err := st.mk(i)
		if err != nil {
			r.Count("rejected_by_validation:"+st.name, 1)
			continue
		}
		p := &probe{r: r, v: v, part: "gate", cfg: st.name}
		for _, k := range []struct{ name, auth string }{
			{"no-credentials", ""},
			{"well-formed-unknown-user", basicHeader("alice", "secret")},
			{"empty-user-and-password", basicHeader("", "")},
			{"garbage", "Basic ???"},
		} {
			w := g.W.clone()
			if k.auth != "" {
				w.setHeader("Authorization", k.auth)
			}
			r.Cover("gate:" + st.name + ":" + k.name)
			p.expectReject("gate:mutated-accepted:"+st.name+":"+k.name, w, nil)
		}
		v.Close()
	}
	// exploration without verdict: ETCD mode and no cluster at all
	if v, err := newValidator("kind: Validator\nname: v\nbasicAuth:\n  mode: ETCD\n", nil); err == nil {
		w := wireReq{Method: "GET", Path: "/", Host: "localhost"}
		msg, site, panicked := kit.Recover(func() {
			out, _ := serve(v, w.bytes())
			if out.accepted() {
				r.Count("nondeciding:etcd-mode-without-cluster-admits-unauthenticated", 1)
				r.Note("exploration (no verdict): basicAuth mode ETCD on a nil supervisor/cluster leaves the validator nil and admits a request without credentials; unreachable in a running gateway")
			}
		})
		if panicked {
			r.Note("exploration: panic %s at %s", msg, site)
		}
	}
	r.Require("mutated_rejected", 1)
}
