//go:build verif

package validator

// Independent credential issuers for the C06 monitor.  Nothing in this file calls into
// pkg/util/signer or pkg/filters/validator for *producing* credentials:
//
//   - jwtEncode:   RFC 7515 compact serialization, HS256/384/512 (self-checked against RFC 7515 A.1)
//   - numDate:     NumericDate claims (RFC 7519 §2) spelled in every form of the JSON number grammar
//                  (integer, fraction, exponent; self-checked with math/big)
//   - htpasswd*:   Apache htpasswd lines: bcrypt, {SHA}, {SSHA}, plain (self-checked with a known {SHA} vector)
//   - sigV4*:      AWS Signature Version 4 written from the AWS documentation ("Create a canonical
//                  request", "Create a string to sign", "Calculate the signature", "Add the signature
//                  to the request"), with the literals as parameters so that it can also speak the
//                  Validator's default "ME" dialect.  Self-checked against the signature published
//                  in the AWS documentation (IAM ListUsers example) and the get-vanilla /
//                  post-vanilla cases of the public aws-sig-v4-test-suite.
//   - wireReq:     a request as bytes on the wire; parsed by http.ReadRequest exactly as net/http's
//                  server does, then httpprot.NewRequest + FetchPayload as pkg/object/httpserver does.

import (
	"bufio"
	"bytes"
	"crypto/hmac"
	"crypto/rand"
	"crypto/sha1"
	"crypto/sha256"
	"crypto/sha512"
	"encoding/base64"
	"encoding/hex"
	"encoding/json"
	"fmt"
	"hash"
	"math/big"
	mrand "math/rand"
	"net/http"
	"sort"
	"strconv"
	"strings"
	"time"

	"golang.org/x/crypto/bcrypt"

	"github.com/megaease/easegress/pkg/context"
	"github.com/megaease/easegress/pkg/filters"
	"github.com/megaease/easegress/pkg/protocols/httpprot"
	"github.com/megaease/easegress/pkg/supervisor"
	"github.com/megaease/easegress/pkg/util/yamltool"
)

// ---------------------------------------------------------------------------------- JWT

func b64url(b []byte) string { return base64.RawURLEncoding.EncodeToString(b) }

func jwtHash(alg string) func() hash.Hash {
	switch alg {
	case "HS256":
		return sha256.New
	case "HS384":
		return sha512.New384
	case "HS512":
		return sha512.New
	}
	return nil
}

// jwtSignInput signs an already serialized "header.payload" with HMAC-SHA2 (RFC 7515 §3.1, RFC 7518 §3.2).
func jwtSignInput(alg string, secret []byte, signingInput string) string {
	h := jwtHash(alg)
	if h == nil {
		return ""
	}
	m := hmac.New(h, secret)
	m.Write([]byte(signingInput))
	return b64url(m.Sum(nil))
}

// jwtEncode builds a compact JWS.  headerAlg is what the protected header says, signAlg is what
// the MAC is really computed with (they differ only in mutations).
func jwtEncode(headerAlg, signAlg string, secret []byte, claims map[string]interface{}) string {
	hdr, _ := json.Marshal(map[string]string{"alg": headerAlg, "typ": "JWT"})
	pl, _ := json.Marshal(claims)
	in := b64url(hdr) + "." + b64url(pl)
	return in + "." + jwtSignInput(signAlg, secret, in)
}

// numDate is a NumericDate claim value (RFC 7519 §2: "A JSON numeric value representing the
// number of seconds from 1970-01-01T00:00:00Z UTC ... non-integer values can be represented")
// together with the JSON number literal it is written as.  The issuer controls the literal: a
// token issuer is free to use any form of the JSON number grammar (RFC 8259 §6: int [frac] [exp]).
// The denoted instant always lies in [Sec, Sec+1) seconds.
type numDate struct {
	Sec  int64  // whole seconds of the denoted instant
	Form string // class of literal, one of numForms
	Text string // the JSON number literal
}

func (n numDate) MarshalJSON() ([]byte, error) { return []byte(n.Text), nil }

// numForms: the ways a NumericDate is spelled.  "int" is what most issuers emit; the others are
// equally legal JSON numbers: a fraction part (sub-second precision or ".0"), exponent notation
// with the decimal point moved left (1.7e9 style, integral or not), and a negative exponent.
var numForms = []string{"int", "frac", "frac-zero", "exp", "exp-frac", "exp-neg"}

// numFormsNonInt are the forms whose literal is not a plain integer.
var numFormsNonInt = numForms[1:]

// mkNumDate spells sec in the given form.  All digits of sec are kept, so the literal denotes sec
// exactly or sec plus a sub-second fraction.
func mkNumDate(rng *mrand.Rand, sec int64, form string) numDate {
	d := strconv.FormatInt(sec, 10)
	pick := func(xs ...string) string { return xs[rng.Intn(len(xs))] }
	sciExp := func() string { // exponent that moves the point behind the first digit back
		e := len(d) - 1
		switch rng.Intn(5) {
		case 0:
			return fmt.Sprintf("e%d", e)
		case 1:
			return fmt.Sprintf("E%d", e)
		case 2:
			return fmt.Sprintf("e+%d", e)
		case 3:
			return fmt.Sprintf("e+%02d", e)
		}
		return fmt.Sprintf("E+%02d", e)
	}
	n := numDate{Sec: sec, Form: form}
	tail := d[1:] // digits behind the moved decimal point (a JSON frac needs at least one digit)
	if tail == "" {
		tail = "0"
	}
	switch form {
	case "int":
		n.Text = d
	case "frac":
		n.Text = d + "." + pick("5", "25", "75", "001", "999", "500000")
	case "frac-zero":
		n.Text = d + pick(".0", ".00", ".000000")
	case "exp":
		n.Text = d[:1] + "." + tail + sciExp()
	case "exp-frac":
		n.Text = d[:1] + "." + tail + pick("5", "25", "75", "001") + sciExp()
	case "exp-neg":
		n.Text = d + pick("0e-1", "00E-2", "000e-3", "5e-1", "25E-2", "999e-03")
	default:
		panic("unknown numDate form " + form)
	}
	return n
}

// numDateSelfCheck: every form must be a legal JSON number that denotes an instant in [sec, sec+1).
func numDateSelfCheck() error {
	rng := mrand.New(mrand.NewSource(7))
	for _, sec := range []int64{1, 999999999, 1000000000, 1300819380, 1791047924, 4102444800, 10000000000} {
		for _, f := range numForms {
			for k := 0; k < 40; k++ {
				n := mkNumDate(rng, sec, f)
				if !json.Valid([]byte(n.Text)) {
					return fmt.Errorf("numDate %s %q is not valid JSON", f, n.Text)
				}
				r, ok := new(big.Rat).SetString(n.Text)
				if !ok {
					return fmt.Errorf("numDate %s %q is not a number", f, n.Text)
				}
				lo, hi := new(big.Rat).SetInt64(sec), new(big.Rat).SetInt64(sec+1)
				if r.Cmp(lo) < 0 || r.Cmp(hi) >= 0 {
					return fmt.Errorf("numDate %s %q is outside [%d,%d)", f, n.Text, sec, sec+1)
				}
				if isInt := !strings.ContainsAny(n.Text, ".eE"); isInt != (f == "int") {
					return fmt.Errorf("numDate %s %q: wrong literal class", f, n.Text)
				}
			}
		}
	}
	return nil
}

func jwtSelfCheck() error {
	if err := numDateSelfCheck(); err != nil {
		return err
	}
	key, _ := base64.RawURLEncoding.DecodeString("AyM1SysPpbyDfgZld3umj1qzKObwVMkoqQ-EstJQLr_T-1qS0gZH75aKtMN3Yj0iPS4hcgUuTwjAzZr1Z9CAow")
	in := "eyJ0eXAiOiJKV1QiLA0KICJhbGciOiJIUzI1NiJ9.eyJpc3MiOiJqb2UiLA0KICJleHAiOjEzMDA4MTkzODAsDQogImh0dHA6Ly9leGFtcGxlLmNvbS9pc19yb290Ijp0cnVlfQ"
	if got := jwtSignInput("HS256", key, in); got != "dBjftJeZ4CVP-mB92K27uhbUJU1p1r_wW1gFWFOEjXk" {
		return fmt.Errorf("RFC 7515 A.1 vector: got %s", got)
	}
	return nil
}

// ---------------------------------------------------------------------------------- htpasswd

// htpasswdLine returns "user:encoding" for the given scheme.
func htpasswdLine(user, pass, scheme string) string {
	switch scheme {
	case "bcrypt":
		h, err := bcrypt.GenerateFromPassword([]byte(pass), bcrypt.MinCost)
		if err != nil {
			panic(err)
		}
		return user + ":" + string(h)
	case "sha":
		s := sha1.Sum([]byte(pass))
		return user + ":{SHA}" + base64.StdEncoding.EncodeToString(s[:])
	case "ssha":
		salt := make([]byte, 4)
		rand.Read(salt)
		h := sha1.New()
		h.Write([]byte(pass))
		h.Write(salt)
		return user + ":{SSHA}" + base64.StdEncoding.EncodeToString(append(h.Sum(nil), salt...))
	default: // plain
		return user + ":" + pass
	}
}

func htpasswdSelfCheck() error {
	if got := htpasswdLine("u", "password", "sha"); got != "u:{SHA}W6ph5Mm5Pz8GgiULbPgzG37mj9g=" {
		return fmt.Errorf("{SHA} vector: got %s", got)
	}
	return nil
}

// ---------------------------------------------------------------------------------- SigV4

// sigLit are the textual constants of the scheme.
type sigLit struct {
	Name      string // "aws" | "me"
	Algo      string // AWS4-HMAC-SHA256
	KeyPrefix string // AWS4
	Suffix    string // aws4_request
	DateHdr   string // X-Amz-Date
	ShaHdr    string // X-Amz-Content-Sha256
	QAlgo     string // X-Amz-Algorithm
	QCred     string // X-Amz-Credential
	QDate     string // X-Amz-Date
	QExpires  string // X-Amz-Expires
	QSigned   string // X-Amz-SignedHeaders
	QSig      string // X-Amz-Signature
}

var litAWS = sigLit{"aws", "AWS4-HMAC-SHA256", "AWS4", "aws4_request", "X-Amz-Date", "X-Amz-Content-Sha256",
	"X-Amz-Algorithm", "X-Amz-Credential", "X-Amz-Date", "X-Amz-Expires", "X-Amz-SignedHeaders", "X-Amz-Signature"}

// the Validator's documented defaults
var litME = sigLit{"me", "ME-HMAC-SHA256", "ME", "megaease_request", "X-Me-Date", "X-Me-Content-Sha256",
	"X-Me-Algorithm", "X-Me-Credential", "X-Me-Date", "X-Me-Expires", "X-Me-SignedHeaders", "X-Me-Signature"}

type hdrKV struct{ K, V string }

// wireReq is a request as the client puts it on the wire.
type wireReq struct {
	Method   string
	Path     string // escaped form, as in the request line
	RawQuery string
	Host     string
	Headers  []hdrKV // in sending order; a name may repeat
	Body     []byte
	Chunked  bool
}

func (w wireReq) clone() wireReq {
	c := w
	c.Headers = append([]hdrKV(nil), w.Headers...)
	c.Body = append([]byte(nil), w.Body...)
	return c
}

func (w *wireReq) setHeader(k, v string) {
	for i := range w.Headers {
		if strings.EqualFold(w.Headers[i].K, k) {
			w.Headers[i].V = v
			return
		}
	}
	w.Headers = append(w.Headers, hdrKV{k, v})
}

func (w *wireReq) delHeader(k string) {
	out := w.Headers[:0:0]
	for _, h := range w.Headers {
		if !strings.EqualFold(h.K, k) {
			out = append(out, h)
		}
	}
	w.Headers = out
}

func (w wireReq) getHeader(k string) string {
	for _, h := range w.Headers {
		if strings.EqualFold(h.K, k) {
			return h.V
		}
	}
	return ""
}

func (w wireReq) target() string {
	t := w.Path
	if t == "" {
		t = "/"
	}
	if w.RawQuery != "" {
		t += "?" + w.RawQuery
	}
	return t
}

// bytes serializes the request as HTTP/1.1.
func (w wireReq) bytes() []byte {
	var b bytes.Buffer
	fmt.Fprintf(&b, "%s %s HTTP/1.1\r\nHost: %s\r\n", w.Method, w.target(), w.Host)
	for _, h := range w.Headers {
		fmt.Fprintf(&b, "%s: %s\r\n", h.K, h.V)
	}
	switch {
	case w.Chunked:
		b.WriteString("Transfer-Encoding: chunked\r\n\r\n")
		body := w.Body
		for len(body) > 0 {
			n := len(body)
			if n > 1000 {
				n = 1000
			}
			fmt.Fprintf(&b, "%x\r\n", n)
			b.Write(body[:n])
			b.WriteString("\r\n")
			body = body[n:]
		}
		b.WriteString("0\r\n\r\n")
	case len(w.Body) > 0 || w.Method == "POST" || w.Method == "PUT" || w.Method == "PATCH":
		fmt.Fprintf(&b, "Content-Length: %d\r\n\r\n", len(w.Body))
		b.Write(w.Body)
	default:
		b.WriteString("\r\n")
	}
	return b.Bytes()
}

const hexUp = "0123456789ABCDEF"

func isUnreserved(c byte) bool {
	return (c >= 'A' && c <= 'Z') || (c >= 'a' && c <= 'z') || (c >= '0' && c <= '9') || c == '-' || c == '_' || c == '.' || c == '~'
}

// awsURIEncode is the UriEncode() of the AWS documentation.
func awsURIEncode(s string, keepSlash bool) string {
	var b strings.Builder
	for i := 0; i < len(s); i++ {
		c := s[i]
		if isUnreserved(c) || (c == '/' && keepSlash) {
			b.WriteByte(c)
		} else {
			b.WriteByte('%')
			b.WriteByte(hexUp[c>>4])
			b.WriteByte(hexUp[c&15])
		}
	}
	return b.String()
}

func pctDecode(s string) string {
	var b strings.Builder
	for i := 0; i < len(s); i++ {
		if s[i] == '%' && i+2 < len(s) {
			if v, err := hex.DecodeString(s[i+1 : i+3]); err == nil {
				b.WriteByte(v[0])
				i += 2
				continue
			}
		}
		b.WriteByte(s[i])
	}
	return b.String()
}

// awsCanonicalQuery: decode the names/values sent, URI-encode them, sort by name then value.
func awsCanonicalQuery(raw string, extra [][2]string, drop string) string {
	type kv struct{ k, v string }
	var ps []kv
	if raw != "" {
		for _, p := range strings.Split(raw, "&") {
			if p == "" {
				continue
			}
			k, v := p, ""
			if i := strings.IndexByte(p, '='); i >= 0 {
				k, v = p[:i], p[i+1:]
			}
			k, v = pctDecode(k), pctDecode(v)
			if k == drop {
				continue
			}
			ps = append(ps, kv{awsURIEncode(k, false), awsURIEncode(v, false)})
		}
	}
	for _, e := range extra {
		ps = append(ps, kv{awsURIEncode(e[0], false), awsURIEncode(e[1], false)})
	}
	sort.Slice(ps, func(i, j int) bool {
		if ps[i].k != ps[j].k {
			return ps[i].k < ps[j].k
		}
		return ps[i].v < ps[j].v
	})
	out := make([]string, len(ps))
	for i, p := range ps {
		out[i] = p.k + "=" + p.v
	}
	return strings.Join(out, "&")
}

// trimAll: strip leading/trailing spaces, squeeze runs of spaces.
func trimAll(s string) string {
	return strings.Join(strings.Fields(strings.ReplaceAll(s, "\t", " ")), " ")
}

type sigParams struct {
	Lit             sigLit
	KeyID, Secret   string
	Scopes          []string // AWS: region, service
	Time            time.Time
	Unsigned        map[string]bool // lower-case header names the client does not sign
	UnsignedPayload bool            // x-amz-content-sha256: UNSIGNED-PAYLOAD
	ShaHeader       bool            // send the payload hash as a (signed) header too
}

func hmac256(key []byte, s string) []byte {
	m := hmac.New(sha256.New, key)
	m.Write([]byte(s))
	return m.Sum(nil)
}

func sha256hex(b []byte) string {
	s := sha256.Sum256(b)
	return hex.EncodeToString(s[:])
}

const awsTime = "20060102T150405Z"

func (p sigParams) scope() string {
	parts := append([]string{p.Time.UTC().Format("20060102")}, p.Scopes...)
	return strings.Join(append(parts, p.Lit.Suffix), "/")
}

func (p sigParams) signingKey() []byte {
	k := hmac256([]byte(p.Lit.KeyPrefix+p.Secret), p.Time.UTC().Format("20060102"))
	for _, s := range p.Scopes {
		k = hmac256(k, s)
	}
	return hmac256(k, p.Lit.Suffix)
}

// canonicalHeaders returns (canonical headers block, signed header list).
func sigCanonicalHeaders(w wireReq, unsigned map[string]bool) (string, string) {
	vals := map[string][]string{"host": {w.Host}}
	for _, h := range w.Headers {
		n := strings.ToLower(h.K)
		if unsigned[n] || n == "host" {
			continue
		}
		vals[n] = append(vals[n], trimAll(h.V))
	}
	names := make([]string, 0, len(vals))
	for n := range vals {
		names = append(names, n)
	}
	sort.Strings(names)
	var b strings.Builder
	for _, n := range names {
		b.WriteString(n + ":" + strings.Join(vals[n], ",") + "\n")
	}
	return b.String(), strings.Join(names, ";")
}

func (p sigParams) payloadHash(w wireReq) string {
	if p.UnsignedPayload {
		return "UNSIGNED-PAYLOAD"
	}
	return sha256hex(w.Body)
}

func (p sigParams) sign(method, canonURI, canonQuery, canonHeaders, signedHeaders, payloadHash string) (sig string, canonHash string) {
	cr := method + "\n" + canonURI + "\n" + canonQuery + "\n" + canonHeaders + "\n" + signedHeaders + "\n" + payloadHash
	canonHash = sha256hex([]byte(cr))
	sts := p.Lit.Algo + "\n" + p.Time.UTC().Format(awsTime) + "\n" + p.scope() + "\n" + canonHash
	return hex.EncodeToString(hmac256(p.signingKey(), sts)), canonHash
}

func canonURI(path string) string {
	if path == "" {
		return "/"
	}
	return awsURIEncode(path, true)
}

// sigV4Header signs w in place (adds the date header, optionally the content hash header, and
// Authorization) the way the AWS documentation describes header-based signing.
func sigV4Header(w *wireReq, p sigParams) (authorization string, canonHash string) {
	w.delHeader("Authorization")
	w.setHeader(p.Lit.DateHdr, p.Time.UTC().Format(awsTime))
	if p.UnsignedPayload {
		w.setHeader(p.Lit.ShaHdr, "UNSIGNED-PAYLOAD")
	} else if p.ShaHeader {
		w.setHeader(p.Lit.ShaHdr, sha256hex(w.Body))
	}
	ch, sh := sigCanonicalHeaders(*w, p.Unsigned)
	sig, canonHash := p.sign(w.Method, canonURI(w.Path), awsCanonicalQuery(w.RawQuery, nil, ""), ch, sh, p.payloadHash(*w))
	authorization = fmt.Sprintf("%s Credential=%s/%s, SignedHeaders=%s, Signature=%s", p.Lit.Algo, p.KeyID, p.scope(), sh, sig)
	w.setHeader("Authorization", authorization)
	return authorization, canonHash
}

// sigV4Presign adds query-string authentication (AWS "authenticating requests: using query
// parameters") to w in place and returns the signature.
func sigV4Presign(w *wireReq, p sigParams, expires time.Duration) string {
	ch, sh := sigCanonicalHeaders(*w, p.Unsigned)
	extra := [][2]string{
		{p.Lit.QAlgo, p.Lit.Algo},
		{p.Lit.QCred, p.KeyID + "/" + p.scope()},
		{p.Lit.QDate, p.Time.UTC().Format(awsTime)},
		{p.Lit.QExpires, fmt.Sprint(int64(expires / time.Second))},
		{p.Lit.QSigned, sh},
	}
	sig, _ := p.sign(w.Method, canonURI(w.Path), awsCanonicalQuery(w.RawQuery, extra, ""), ch, sh, p.payloadHash(*w))
	q := w.RawQuery
	for _, e := range append(extra, [2]string{p.Lit.QSig, sig}) {
		if q != "" {
			q += "&"
		}
		q += awsURIEncode(e[0], false) + "=" + awsURIEncode(e[1], false)
	}
	w.RawQuery = q
	return sig
}

// sigSelfCheck: the implementation above must reproduce published AWS results before it is
// trusted as an oracle.
func sigSelfCheck() error {
	t0 := time.Date(2015, 8, 30, 12, 36, 0, 0, time.UTC)
	const secret = "wJalrXUtnFEMI/K7MDENG+bPxRfiCYEXAMPLEKEY"
	// AWS General Reference, "Examples of the complete Signature Version 4 signing process" (IAM ListUsers)
	p := sigParams{Lit: litAWS, KeyID: "AKIDEXAMPLE", Secret: secret, Scopes: []string{"us-east-1", "iam"}, Time: t0,
		Unsigned: map[string]bool{"authorization": true, "user-agent": true}}
	if got := hex.EncodeToString(p.signingKey()); got != "c4afb1cc5771d871763a393e44b703571b55cc28424d1a5e86da6ed3c154a4b9" {
		return fmt.Errorf("AWS doc signing key: got %s", got)
	}
	w := awsDocExample()
	auth, ch := sigV4Header(&w, p)
	if ch != "f536975d06c0309214f805bb90ccff089219ecd68b2577efef23edd43b7e1a59" {
		return fmt.Errorf("AWS doc canonical request hash: got %s", ch)
	}
	const want = "AWS4-HMAC-SHA256 Credential=AKIDEXAMPLE/20150830/us-east-1/iam/aws4_request, SignedHeaders=content-type;host;x-amz-date, Signature=5d672d79c15b13162d9279b0855cfba6789a8edb4c82c400e06b5924a6f2b5d7"
	if auth != want {
		return fmt.Errorf("AWS doc Authorization: got %s", auth)
	}
	// aws-sig-v4-test-suite get-vanilla / post-vanilla
	p.Scopes = []string{"us-east-1", "service"}
	for _, c := range []struct{ m, sig string }{
		{"GET", "5fa00fa31553b73ebf1942676e86291e8372ff2a2260956d9b8aae1d763fbf31"},
		{"POST", "5da7c1a2acd57cee7505fc6676e4e544621c30862966e37dddb68e92efbe5d6b"},
	} {
		w := wireReq{Method: c.m, Path: "/", Host: "example.amazonaws.com"}
		auth, _ := sigV4Header(&w, p)
		if !strings.HasSuffix(auth, "Signature="+c.sig) {
			return fmt.Errorf("aws-sig-v4-test-suite %s-vanilla: got %s", strings.ToLower(c.m), auth)
		}
	}
	return nil
}

func awsDocExample() wireReq {
	return wireReq{Method: "GET", Path: "/", RawQuery: "Action=ListUsers&Version=2010-05-08", Host: "iam.amazonaws.com",
		Headers: []hdrKV{{"Content-Type", "application/x-www-form-urlencoded; charset=utf-8"}}}
}

// ---------------------------------------------------------------------------------- real code drivers

// newValidator builds a Validator the way the pipeline does: YAML -> filters.NewSpec
// (validation) -> CreateInstance -> Init.
func newValidator(yamlSpec string, super *supervisor.Supervisor) (*Validator, error) {
	raw := map[string]interface{}{}
	yamltool.Unmarshal([]byte(yamlSpec), &raw)
	spec, err := filters.NewSpec(super, "verif", raw)
	if err != nil {
		return nil, err
	}
	v := kind.CreateInstance(spec).(*Validator)
	v.Init()
	return v, nil
}

type verdict struct {
	Result string `json:"result"`
	Status int    `json:"status"`
	Tags   string `json:"tags"`
	Err    string `json:"err,omitempty"`
}

func (v verdict) accepted() bool { return v.Err == "" && v.Result == "" }
func (v verdict) rejectedProperly() bool {
	return v.Err == "" && v.Result == resultInvalid && (v.Status == 401 || v.Status == 400)
}

// serve hands the bytes to the filter exactly as the HTTP server would: net/http parses the
// request from the connection, mux.ServeHTTP wraps it with httpprot.NewRequest and buffers the
// body with FetchPayload, then the pipeline calls Handle.
func serve(v *Validator, wire []byte) (out verdict, forwarded []byte) {
	stdr, err := http.ReadRequest(bufio.NewReader(bytes.NewReader(wire)))
	if err != nil {
		return verdict{Err: "http.ReadRequest: " + err.Error()}, nil
	}
	stdr.RemoteAddr = "192.0.2.7:40000"
	req, _ := httpprot.NewRequest(stdr)
	if err := req.FetchPayload(0); err != nil {
		return verdict{Err: "FetchPayload: " + err.Error()}, nil
	}
	ctx := context.New(nil)
	ctx.SetInputRequest(req)
	out.Result = v.Handle(ctx)
	if resp, ok := ctx.GetOutputResponse().(*httpprot.Response); ok && resp != nil {
		out.Status = resp.StatusCode()
	}
	out.Tags = ctx.Tags()
	return out, req.RawPayload()
}

// yamlQuote renders a string as a double-quoted YAML scalar.
func yamlQuote(s string) string {
	b, _ := json.Marshal(s)
	return string(b)
}
