//go:build verif

package api

// C18 part 2: concurrent admin-API mutations serialize.
//
// 4-8 concurrent clients issue create/update/delete/get/list on 3 object names against
// two api.Servers (primary and secondary member of one embedded etcd cluster); every
// call is recorded with logical call/return stamps.  Oracles, all written from the
// property sentence: (1) successful mutations carry pairwise distinct X-Config-Version
// values that form the gap-free range v0+1..v0+k and the stored version ends at v0+k;
// (2) replaying the successful mutations in version order on a map model is possible
// step by step and yields the final GET /objects; (3) the whole history including the
// 409/404/400 answers and the reads is linearizable w.r.t. that model (porcupine).

import (
	"fmt"
	"math/rand"
	"net/http"
	"net/http/httptest"
	"sort"
	"strconv"
	"strings"
	"sync"
	"sync/atomic"
	"testing"
	"time"

	"github.com/anishathalye/porcupine"
	yaml "gopkg.in/yaml.v2"

	"verif.local/kit"
)

var c18Names = [3]string{"c18-obj-a", "c18-obj-b", "c18-obj-c"}

const (
	c18KindPipeline = "Pipeline"
	c18KindOther    = "TrafficController"
)

type c18Obj struct {
	Present bool   `json:"present"`
	Kind    string `json:"kind,omitempty"`
	Marker  string `json:"marker,omitempty"`
}

type c18State struct {
	Version int64
	Objs    [3]c18Obj
}

type c18In struct {
	Op     string `json:"op"` // create update delete get list
	Name   int    `json:"name"`
	Kind   string `json:"kind,omitempty"`
	Marker string `json:"marker,omitempty"`
}

type c18Out struct {
	Status  int       `json:"status"`
	Version int64     `json:"x_config_version"` // header value (new version on a successful mutation)
	Obj     c18Obj    `json:"obj,omitempty"`    // get
	List    [3]c18Obj `json:"list,omitempty"`   // list
	Extra   string    `json:"extra,omitempty"`
}

type c18Op struct {
	Client int    `json:"client"`
	Server int    `json:"server"`
	In     c18In  `json:"in"`
	Out    c18Out `json:"out"`
	Call   int64  `json:"call"`
	Ret    int64  `json:"ret"`
}

func c18SpecYAML(name, kind, marker string) string {
	if kind != c18KindPipeline {
		return fmt.Sprintf("name: %s\nkind: %s\n", name, kind)
	}
	return fmt.Sprintf("name: %s\nkind: Pipeline\nflow:\n- filter: mock\nfilters:\n- name: mock\n  kind: Mock\n  rules:\n  - code: 200\n    body: %s\n", name, marker)
}

type c18SpecView struct {
	Name    string `yaml:"name"`
	Kind    string `yaml:"kind"`
	Filters []struct {
		Rules []struct {
			Body string `yaml:"body"`
		} `yaml:"rules"`
	} `yaml:"filters"`
}

func (v *c18SpecView) obj() c18Obj {
	o := c18Obj{Present: true, Kind: v.Kind}
	if len(v.Filters) > 0 && len(v.Filters[0].Rules) > 0 {
		o.Marker = v.Filters[0].Rules[0].Body
	}
	return o
}

// c18Step is the sequential specification, straight from the property sentence.
func c18Step(st c18State, in c18In, out c18Out) (bool, c18State) {
	switch in.Op {
	case "create":
		if st.Objs[in.Name].Present {
			return out.Status == http.StatusConflict, st
		}
		if out.Status != http.StatusCreated || out.Version != st.Version+1 {
			return false, st
		}
		st.Version++
		st.Objs[in.Name] = c18Obj{Present: true, Kind: in.Kind, Marker: in.Marker}
		return true, st
	case "update":
		cur := st.Objs[in.Name]
		if !cur.Present {
			return out.Status == http.StatusNotFound, st
		}
		if cur.Kind != in.Kind {
			return out.Status == http.StatusBadRequest, st
		}
		if out.Status != http.StatusOK || out.Version != st.Version+1 {
			return false, st
		}
		st.Version++
		st.Objs[in.Name] = c18Obj{Present: true, Kind: in.Kind, Marker: in.Marker}
		return true, st
	case "delete":
		if !st.Objs[in.Name].Present {
			return out.Status == http.StatusNotFound, st
		}
		if out.Status != http.StatusOK || out.Version != st.Version+1 {
			return false, st
		}
		st.Version++
		st.Objs[in.Name] = c18Obj{}
		return true, st
	case "get":
		cur := st.Objs[in.Name]
		if !cur.Present {
			return out.Status == http.StatusNotFound, st
		}
		return out.Status == http.StatusOK && out.Obj == cur, st
	case "list":
		return out.Status == http.StatusOK && out.List == st.Objs, st
	}
	return false, st
}

func c18IsMutation(op string) bool { return op == "create" || op == "update" || op == "delete" }

func c18Success(o *c18Op) bool {
	switch o.In.Op {
	case "create":
		return o.Out.Status == http.StatusCreated
	case "update", "delete":
		return o.Out.Status == http.StatusOK
	}
	return false
}

var c18Allowed = map[string][]int{
	"create": {201, 409}, "update": {200, 404, 400}, "delete": {200, 404}, "get": {200, 404}, "list": {200},
}

// c18Do performs one request on the server's real router.
func c18Do(s *Server, in c18In) c18Out {
	var req *http.Request
	name := c18Names[in.Name]
	switch in.Op {
	case "create":
		req = httptest.NewRequest(http.MethodPost, APIPrefix+ObjectPrefix, strings.NewReader(c18SpecYAML(name, in.Kind, in.Marker)))
	case "update":
		req = httptest.NewRequest(http.MethodPut, APIPrefix+ObjectPrefix+"/"+name, strings.NewReader(c18SpecYAML(name, in.Kind, in.Marker)))
	case "delete":
		req = httptest.NewRequest(http.MethodDelete, APIPrefix+ObjectPrefix+"/"+name, nil)
	case "get":
		req = httptest.NewRequest(http.MethodGet, APIPrefix+ObjectPrefix+"/"+name, nil)
	case "list":
		req = httptest.NewRequest(http.MethodGet, APIPrefix+ObjectPrefix, nil)
	}
	rec := httptest.NewRecorder()
	s.router.ServeHTTP(rec, req)
	out := c18Out{Status: rec.Code, Version: -1}
	if v, err := strconv.ParseInt(rec.Header().Get(ConfigVersionKey), 10, 64); err == nil {
		out.Version = v
	}
	body := rec.Body.Bytes()
	switch {
	case in.Op == "get" && rec.Code == http.StatusOK:
		var v c18SpecView
		if err := yaml.Unmarshal(body, &v); err != nil || v.Name != name {
			out.Extra = "unexpected body: " + string(body)
			out.Obj = c18Obj{Present: true, Kind: "?", Marker: "?"}
		} else {
			out.Obj = v.obj()
		}
	case in.Op == "list" && rec.Code == http.StatusOK:
		var vs []c18SpecView
		if err := yaml.Unmarshal(body, &vs); err != nil {
			out.Extra = "unexpected body: " + string(body)
			out.Status = -1
			break
		}
		for i := range vs {
			found := false
			for k, n := range c18Names {
				if n == vs[i].Name {
					out.List[k] = vs[i].obj()
					found = true
				}
			}
			if !found {
				out.Extra += "foreign object " + vs[i].Name + "; "
			}
		}
	case rec.Code >= 400:
		out.Extra = strings.TrimSpace(string(body))
	}
	return out
}

func c18GenOp(rng *rand.Rand, marker string) c18In {
	in := c18In{Name: rng.Intn(3)}
	switch x := rng.Intn(100); {
	case x < 30:
		in.Op = "create"
	case x < 58:
		in.Op = "update"
	case x < 78:
		in.Op = "delete"
	case x < 92:
		in.Op = "get"
	default:
		in.Op = "list"
	}
	if in.Op == "create" || in.Op == "update" {
		in.Kind = c18KindPipeline
		in.Marker = marker
		if rng.Intn(5) == 0 {
			in.Kind = c18KindOther
			in.Marker = ""
		}
	}
	return in
}

func TestVerif_C18_AdminAPI(t *testing.T) {
	r := kit.Start(t, "C18")
	defer r.Finish()
	r.Rule("histories on two api.Servers (primary + secondary member of one embedded etcd) driven through their real chi routers: 0-2 sequential prefill creates, then 4-8 concurrent clients x 3-5 ops (create 30%, update 28%, delete 20%, get 14%, list 8%; 3 object names; Pipeline objects whose Mock filter body is a unique marker, 1 in 5 writes uses kind TrafficController to reach the 400 path), random server per op, then a final GET /objects; the secondary member (after the first endpoint sync also the primary) talks to etcd through a TCP relay that delays each forwarded chunk by a random time up to a per-connection, per-history maximum (0 / 0.5 / 1.5 / 4 ms) so that the members' etcd requests interleave as they do over a real network; " +
		"distinct = per-history vector of outcome counts (201, 200 update, 200 delete, 409, 404, 400) and number of overlapping successful mutations")
	r.Assume("spec bodies are valid and the URL name equals the spec name (the 400 of the property is the kind-mismatch 400)")
	r.Assume("a 503 answer (cluster request timed out under load) makes a history undecidable: it is set aside and listed in the notes; more than one such history and more than 1% of a shard's histories make the run inconclusive")

	rig, err := c18StartRig(r.TmpDir())
	defer rig.Close()
	if err != nil || len(rig.servers) != 2 {
		r.Inconclusive(fmt.Sprintf("embedded etcd rig did not start: %v", err))
		return
	}
	cls := rig.clusters[0]
	readVersion := func() (int64, error) {
		v, err := cls.Get(cls.Layout().ConfigVersion())
		if err != nil || v == nil {
			return 0, err
		}
		return strconv.ParseInt(*v, 10, 64)
	}

	n := r.N(60, 1500)
	mine, discarded503 := 0, 0
	for i := 0; i < n; i++ {
		if r.Mine(i) {
			mine++
		}
	}
	for i := 0; i < n; i++ {
		if !r.Mine(i) {
			continue
		}
		rng := r.CaseRand(i)
		// ---- plan
		nClients := 4 + rng.Intn(5)
		type planned struct {
			client, server int
			in             c18In
		}
		var prefill []planned
		for k, np := 0, rng.Intn(3); k < np; k++ {
			prefill = append(prefill, planned{0, rng.Intn(2), c18In{Op: "create", Name: rng.Intn(3), Kind: c18KindPipeline, Marker: fmt.Sprintf("m%d-pre-%d", i, k)}})
		}
		plans := make([][]planned, nClients)
		total := 0
		for c := 0; c < nClients; c++ {
			for k, nk := 0, 3+rng.Intn(3); k < nk; k++ {
				plans[c] = append(plans[c], planned{c, rng.Intn(2), c18GenOp(rng, fmt.Sprintf("m%d-%d-%d", i, c, k))})
				total++
			}
		}
		delays := rig.relay.SetDelays(rng)
		r.Case(i, map[string]interface{}{"clients": nClients, "prefill": len(prefill), "ops": total, "relay_max_delay_us_per_connection": delays})

		// ---- reset to the empty configuration (quiescent: nothing else is running)
		if err := cls.DeletePrefix(cls.Layout().ConfigObjectPrefix()); err != nil {
			r.Inconclusive("reset failed: " + err.Error())
			continue
		}
		v0, err := readVersion()
		if err != nil {
			r.Inconclusive("cannot read the config version: " + err.Error())
			continue
		}

		// ---- run
		var clock int64
		var hmu sync.Mutex
		var hist []*c18Op
		exec := func(p planned) {
			op := &c18Op{Client: p.client, Server: p.server, In: p.in}
			op.Call = atomic.AddInt64(&clock, 1)
			op.Out = c18Do(rig.servers[p.server], p.in)
			op.Ret = atomic.AddInt64(&clock, 1)
			hmu.Lock()
			hist = append(hist, op)
			hmu.Unlock()
		}
		for _, p := range prefill {
			exec(p)
		}
		var wg sync.WaitGroup
		start := make(chan struct{})
		for c := 0; c < nClients; c++ {
			wg.Add(1)
			go func(ops []planned) {
				defer wg.Done()
				<-start
				for _, p := range ops {
					exec(p)
				}
			}(plans[c])
		}
		close(start)
		done := make(chan struct{})
		go func() { wg.Wait(); close(done) }()
		select {
		case <-done:
		case <-time.After(10 * time.Minute):
			r.Inconclusive(fmt.Sprintf("history %d did not finish within the 10 min watchdog; aborting this shard", i))
			return
		}
		exec(planned{0, rng.Intn(2), c18In{Op: "list"}})
		final := hist[len(hist)-1]
		vEnd, verr := readVersion()
		r.Eval(len(hist))
		sort.Slice(hist, func(a, b int) bool { return hist[a].Call < hist[b].Call })

		// ---- classify answers
		undecidable := false
		cnt := map[string]int{}
		for _, o := range hist {
			key := fmt.Sprintf("%s/%d", o.In.Op, o.Out.Status)
			cnt[key]++
			r.Count("answers:"+key, 1)
			r.Cover(fmt.Sprintf("answer:%s/%d/server%d", o.In.Op, o.Out.Status, o.Server))
			if o.Out.Status == http.StatusServiceUnavailable {
				undecidable = true
				continue
			}
			ok := false
			for _, a := range c18Allowed[o.In.Op] {
				ok = ok || a == o.Out.Status
			}
			if !ok || o.Out.Extra != "" && o.Out.Status < 400 {
				r.Violation(fmt.Sprintf("api:unexpected-answer:%s:%d", o.In.Op, o.Out.Status), map[string]interface{}{"op": o, "history": hist})
				undecidable = true // the model has no such answer; the remaining oracles would only repeat it
			}
		}
		if undecidable {
			if cnt["create/503"]+cnt["update/503"]+cnt["delete/503"]+cnt["get/503"]+cnt["list/503"] > 0 {
				// a cluster-level fault (request timeout under load) was answered with 503: whether the
				// request took effect is not defined, the history cannot be judged and is set aside
				discarded503++
				r.Count("histories_set_aside_because_of_503", 1)
				for _, o := range hist {
					if o.Out.Status == http.StatusServiceUnavailable {
						r.Note("history %d: %s %s on server %d answered 503: %s", i, o.In.Op, c18Names[o.In.Name], o.Server, o.Out.Extra)
					}
				}
			}
			continue
		}
		var succ []*c18Op
		for _, o := range hist {
			if c18Success(o) {
				succ = append(succ, o)
			}
		}
		overl := 0
		for a := range succ {
			for b := a + 1; b < len(succ); b++ {
				if succ[a].Call < succ[b].Ret && succ[b].Call < succ[a].Ret {
					overl++
				}
			}
		}
		r.Count("overlapping_successful_mutation_pairs", int64(overl))
		r.Count("successful_mutations", int64(len(succ)))
		if overl > 12 {
			overl = 12
		}
		r.Cover(fmt.Sprintf("mix:201x%d:upd200x%d:del200x%d:409x%d:404x%d:400x%d:ovl%d", cnt["create/201"], cnt["update/200"], cnt["delete/200"],
			cnt["create/409"], cnt["update/404"]+cnt["delete/404"]+cnt["get/404"], cnt["update/400"], overl))
		if i < 2 {
			r.Sample(map[string]interface{}{"v0": v0, "history": hist})
		}

		// ---- oracle 1: distinct, gap-free versions
		sort.SliceStable(succ, func(a, b int) bool { return succ[a].Out.Version < succ[b].Out.Version })
		verBad := false
		for k, o := range succ {
			want := v0 + int64(k) + 1
			if o.Out.Version == want {
				continue
			}
			sig := "api:config-version-gap"
			if k > 0 && succ[k-1].Out.Version == o.Out.Version {
				sig = "api:duplicate-config-version"
			}
			r.Violation(sig, map[string]interface{}{"v0": v0, "position": k, "expected_version": want, "op": o, "history": hist})
			verBad = true
			break
		}
		if !verBad && verr == nil && vEnd != v0+int64(len(succ)) {
			r.Violation("api:stored-version-differs-from-successful-mutations", map[string]interface{}{
				"v0": v0, "successful_mutations": len(succ), "stored_version": vEnd, "history": hist})
			verBad = true
		}

		// ---- oracle 2: replay in version order
		if !verBad {
			st := c18State{Version: v0}
			replayOK := true
			for _, o := range succ {
				ok, nst := c18Step(st, o.In, o.Out)
				if !ok {
					r.Violation("api:replay-in-version-order-impossible:"+o.In.Op, map[string]interface{}{"v0": v0, "state_before": st, "op": o, "history": hist})
					replayOK = false
					break
				}
				st = nst
			}
			if replayOK && final.Out.List != st.Objs {
				r.Violation("api:final-objects-differ-from-replay", map[string]interface{}{"v0": v0, "replayed": st.Objs, "final_list": final.Out, "history": hist})
			}
		}

		// ---- oracle 3: linearizability of the whole history (answers of failed ops and reads included)
		model := porcupine.Model{
			Init: func() interface{} { return c18State{Version: v0} },
			Step: func(state, input, output interface{}) (bool, interface{}) {
				return c18Step(state.(c18State), input.(c18In), output.(c18Out))
			},
		}
		pops := make([]porcupine.Operation, 0, len(hist))
		for _, o := range hist {
			out := o.Out
			if !c18Success(o) {
				out.Version = 0 // header of a non-mutating answer is not specified by the property
			}
			out.Extra = ""
			pops = append(pops, porcupine.Operation{ClientId: o.Client, Input: o.In, Call: o.Call, Output: out, Return: o.Ret})
		}
		switch porcupine.CheckOperationsTimeout(model, pops, 60*time.Second) {
		case porcupine.Ok:
			r.Count("porcupine_ok", 1)
		case porcupine.Illegal:
			r.Count("porcupine_illegal", 1)
			r.Violation("api:history-not-linearizable", map[string]interface{}{"v0": v0, "history": hist})
		default:
			r.Count("porcupine_unknown", 1)
			r.Inconclusive(fmt.Sprintf("porcupine Unknown on history %d", i))
		}
	}
	// isolated 503 histories are set aside (and listed in the notes); more than 1% of them means the
	// workload did not run as intended (or the lock is stuck) and the run decides nothing
	if allowed := mine / 100; discarded503 > 1 && discarded503 > allowed {
		r.Inconclusive(fmt.Sprintf("%d of %d histories contained 503 answers (cluster request timeouts)", discarded503, mine))
	}
	for _, k := range []string{"create/201", "create/409", "update/200", "update/404", "update/400", "delete/200", "delete/404", "get/200", "get/404", "list/200"} {
		r.Require("answers:"+k, 1)
	}
	r.Require("overlapping_successful_mutation_pairs", 5)
	r.Require("porcupine_ok", 1)
}
