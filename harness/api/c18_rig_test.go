//go:build verif

package api

// Rig of the C18 admin-API monitor: an embedded single-node etcd (primary member), a
// secondary member in the same process, and one api.Server per member whose real chi
// router (real registerAPIs + reloadAPIs + middlewares) is driven in-process.  No
// listening admin sockets are opened.

import (
	"fmt"
	"math/rand"
	"net"
	"os"
	"path/filepath"
	"strings"
	"sync"
	"sync/atomic"
	"time"

	"github.com/go-chi/chi/v5"
	"github.com/phayes/freeport"

	"github.com/megaease/easegress/pkg/cluster"
	"github.com/megaease/easegress/pkg/cluster/customdata"
	"github.com/megaease/easegress/pkg/env"
	_ "github.com/megaease/easegress/pkg/filters/mock"
	"github.com/megaease/easegress/pkg/logger"
	"github.com/megaease/easegress/pkg/option"
)

func init() { logger.InitNop() }

var c18ArgsMu sync.Mutex

// c18Relay is a TCP relay in front of the etcd client port that delays every chunk it
// forwards by a random time up to a per-connection maximum.  It manufactures network
// jitter and, above all, latency asymmetry between the members (each member's etcd
// client has its own connection), i.e. interleavings of the members' etcd requests that
// a real deployment has and a loopback test never shows.
type c18Relay struct {
	ln     net.Listener
	target string
	conns  int64
	maxUs  [8]int64 // per connection index (mod 8): maximum delay per forwarded chunk, microseconds
}

func c18NewRelay(target string) (*c18Relay, error) {
	ln, err := net.Listen("tcp", "127.0.0.1:0")
	if err != nil {
		return nil, err
	}
	r := &c18Relay{ln: ln, target: target}
	go func() {
		for {
			c, err := ln.Accept()
			if err != nil {
				return
			}
			idx := int(atomic.AddInt64(&r.conns, 1)-1) % len(r.maxUs)
			go r.handle(c, idx)
		}
	}()
	return r, nil
}

func (r *c18Relay) URL() string { return "http://" + r.ln.Addr().String() }

func (r *c18Relay) Close() { r.ln.Close() }

// SetDelays picks a maximum delay per connection slot.
func (r *c18Relay) SetDelays(rng *rand.Rand) (out []int64) {
	choices := []int64{0, 0, 500, 1500, 4000}
	for i := range r.maxUs {
		v := choices[rng.Intn(len(choices))]
		atomic.StoreInt64(&r.maxUs[i], v)
		out = append(out, v)
	}
	return
}

func (r *c18Relay) handle(c net.Conn, idx int) {
	d, err := net.DialTimeout("tcp", r.target, 10*time.Second)
	if err != nil {
		c.Close()
		return
	}
	pipe := func(dst, src net.Conn, seed int64) {
		rng := rand.New(rand.NewSource(seed))
		buf := make([]byte, 32<<10)
		for {
			n, err := src.Read(buf)
			if n > 0 {
				if m := atomic.LoadInt64(&r.maxUs[idx]); m > 0 {
					time.Sleep(time.Duration(rng.Int63n(m+1)) * time.Microsecond)
				}
				if _, werr := dst.Write(buf[:n]); werr != nil {
					break
				}
			}
			if err != nil {
				break
			}
		}
		dst.Close()
		src.Close()
	}
	go pipe(d, c, int64(idx)*2+1)
	pipe(c, d, int64(idx)*2+2)
}

func c18Options(dir, name, role string, primaryPeerURLs []string) (opt *option.Options, err error) {
	defer func() {
		if e := recover(); e != nil {
			err = fmt.Errorf("options: %v", e)
		}
	}()
	ports, err := freeport.GetFreePorts(3)
	if err != nil {
		return nil, err
	}
	opt = option.New()
	opt.Name = name
	opt.ClusterName = "c18-cluster"
	opt.ClusterRole = role
	opt.ClusterRequestTimeout = "10s"
	if role == "primary" {
		opt.Cluster.ListenClientURLs = []string{fmt.Sprintf("http://localhost:%d", ports[0])}
		opt.Cluster.AdvertiseClientURLs = opt.Cluster.ListenClientURLs
		opt.Cluster.ListenPeerURLs = []string{fmt.Sprintf("http://localhost:%d", ports[1])}
		opt.Cluster.InitialAdvertisePeerURLs = opt.Cluster.ListenPeerURLs
		opt.Cluster.InitialCluster = map[string]string{name: opt.Cluster.InitialAdvertisePeerURLs[0]}
	} else {
		opt.Cluster.PrimaryListenPeerURLs = primaryPeerURLs
	}
	opt.APIAddr = fmt.Sprintf("localhost:%d", ports[2])
	opt.HomeDir = filepath.Join(dir, name)
	opt.DataDir = filepath.Join(dir, name, "data")
	opt.LogDir = filepath.Join(dir, name, "log")
	opt.MemberDir = filepath.Join(dir, name, "member")

	c18ArgsMu.Lock()
	saved := os.Args
	os.Args = saved[:1]
	_, err = opt.Parse()
	os.Args = saved
	c18ArgsMu.Unlock()
	if err != nil {
		return nil, err
	}
	if err = env.InitServerDir(opt); err != nil {
		return nil, err
	}
	return opt, nil
}

func c18NewCluster(opt *option.Options, wait time.Duration) (cluster.Cluster, error) {
	type res struct {
		c   cluster.Cluster
		err error
	}
	ch := make(chan res, 1)
	go func() {
		defer func() {
			if e := recover(); e != nil {
				ch <- res{nil, fmt.Errorf("cluster.New panicked: %v", e)}
			}
		}()
		c, err := cluster.New(opt)
		ch <- res{c, err}
	}()
	select {
	case x := <-ch:
		return x.c, x.err
	case <-time.After(wait):
		return nil, fmt.Errorf("cluster %s not ready after %v", opt.Name, wait)
	}
}

type c18Rig struct {
	clusters []cluster.Cluster // [0] primary, [1] secondary
	servers  []*Server
	relay    *c18Relay
}

// c18NewServer builds a Server the way MustNewServer does, minus the listening socket
// and the reload goroutine: the API table is registered with the real registerAPIs and
// the chi router is built by the real reloadAPIs (StripSlashes, API logger,
// config-version attacher, recoverer).  The global API table is reset first so that two
// servers in one process do not overwrite each other's "admin" group.
func c18NewServer(opt *option.Options, cls cluster.Cluster) *Server {
	s := &Server{opt: opt, cluster: cls}
	m := &dynamicMux{server: s, done: make(chan struct{})}
	m.router.Store(chi.NewRouter())
	s.router = m
	if _, err := s.getMutex(); err != nil {
		panic(err)
	}
	s.cds = customdata.NewStore(cls, cls.Layout().CustomDataKindPrefix(), cls.Layout().CustomDataPrefix())

	apisMutex.Lock()
	for k := range apis {
		delete(apis, k)
	}
	apisMutex.Unlock()
	s.registerAPIs()
	select {
	case <-apisChangeChan:
	default:
	}
	m.reloadAPIs()
	return s
}

func c18StartRig(dir string) (*c18Rig, error) {
	rig := &c18Rig{}
	popt, err := c18Options(dir, "c18-api-primary", "primary", nil)
	if err != nil {
		return rig, err
	}
	// The secondary reaches etcd through the relay from the start; the relay is also what
	// etcd advertises, so the clients' periodic endpoint sync (1 min) keeps them on it
	// (and moves the primary's own client there as well).
	rig.relay, err = c18NewRelay(strings.TrimPrefix(popt.Cluster.ListenClientURLs[0], "http://"))
	if err != nil {
		return rig, err
	}
	popt.Cluster.AdvertiseClientURLs = []string{rig.relay.URL()}
	p, err := c18NewCluster(popt, 3*time.Minute)
	if err != nil {
		return rig, err
	}
	rig.clusters = append(rig.clusters, p)
	sopt, err := c18Options(dir, "c18-api-secondary", "secondary", []string{rig.relay.URL()})
	if err != nil {
		return rig, err
	}
	sc, err := c18NewCluster(sopt, 3*time.Minute)
	if err != nil {
		return rig, err
	}
	rig.clusters = append(rig.clusters, sc)
	rig.servers = append(rig.servers, c18NewServer(popt, p), c18NewServer(sopt, sc))
	return rig, nil
}

func (g *c18Rig) Close() {
	done := make(chan struct{})
	go func() {
		defer close(done)
		for i := len(g.clusters) - 1; i >= 0; i-- {
			var wg sync.WaitGroup
			wg.Add(1)
			g.clusters[i].Close(&wg)
		}
	}()
	select {
	case <-done:
	case <-time.After(60 * time.Second):
	}
	if g.relay != nil {
		g.relay.Close()
	}
}
