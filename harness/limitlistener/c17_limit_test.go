//go:build verif

package limitlistener

// C17 (HTTP half, listener level): LimitListener around a counting in-memory listener the
// harness owns.  gauge = connections returned by the inner Accept minus connections closed,
// maintained under the monitor's lock and asserted at every accept against the cap in force.
//
// Cap in force (written from the property sentence, not from the code):
//   * no change outstanding            -> the last cap that was set
//   * changes outstanding (their completion signal not yet observed)
//                                      -> max(cap before the oldest outstanding change,
//                                             every cap set since)
// The monitor raises its bound BEFORE it calls SetMaxCount and lowers it only AFTER it has seen
// the semaphore's own done channel closed, so on a correct implementation the bound can never be
// below the real capacity at an instant (no false alarm by construction, no wall clock involved).

import (
	"context"
	"errors"
	"fmt"
	"math/rand"
	"net"
	"os"
	"runtime"
	"sync"
	"sync/atomic"
	"testing"
	"time"

	"verif.local/kit"
)

// c17Watchdog is the no-progress watchdog (its firing is inconclusive, never a verdict).
var c17Watchdog = func() time.Duration {
	if v, err := time.ParseDuration(os.Getenv("C17_WATCHDOG")); err == nil && v > 0 {
		return v
	}
	return 60 * time.Second
}()

// after the first stall the run is inconclusive anyway; later cases only collect further evidence
// and use a short watchdog so that the summary is still written in time
var c17Stalls int32

func c17WD() time.Duration {
	if atomic.LoadInt32(&c17Stalls) > 0 {
		return 5 * time.Second
	}
	return c17Watchdog
}

type c17Step struct {
	Cap  int    `json:"cap"`
	Wait bool   `json:"wait"` // wait for this change's completion signal before the next step
	Via  string `json:"via"`  // "sem": l.sem.SetMaxCount (done observed); "listener": l.SetMaxConnection (grow/same only)
	Gap  int    `json:"gap"`  // accepts to let pass before this step is issued
	// saturated scripts only: the step is issued back-to-back with the previous one (nobody waits
	// for a done channel, nothing closes); Yield = scheduler yields before it, Settle = give
	// permits released by an already applied grow the chance to be taken up first
	Yield  int  `json:"yield,omitempty"`
	Settle bool `json:"settle,omitempty"`
}

type c17Script struct {
	Kind       string `json:"kind"`
	Cap0       int    `json:"cap0"`
	Clients    int    `json:"clients"`
	MinIter    int    `json:"minIter"`
	HoldMax    int    `json:"holdMax"`
	AcceptErrs int    `json:"acceptErrs"`
	// Saturate: every accepted connection is held open until the whole change script has been
	// issued (listener full, Accept blocked, more dials waiting), then the normal churn starts
	Saturate bool      `json:"saturate,omitempty"`
	Steps    []c17Step `json:"steps"`
	// CloseFaults: that many connections of the churn report an error from their (first) Close
	// although the connection is really closed (always < the smallest cap of the script).
	// FaultWave: fault kind of the wave of faulty connections run at the final quiescent point.
	CloseFaults int    `json:"closeFaults,omitempty"`
	FaultWave   string `json:"faultWave,omitempty"`
}

// fault kinds of an inner connection / the inner listener (the inner connection is really closed
// by every Close, whatever Close returns)
const (
	c17FCloseErrOnce   = "close-error-once"   // first Close returns an error, later ones nil
	c17FCloseErrAlways = "close-error-always" // every Close returns an error
	c17FReadErr        = "read-error-first"   // first Read fails: the handler closes at once
	c17FWriteErr       = "write-error-first"  // handler greets, first Write fails: it closes at once
	c17FAcceptErrs     = "accept-error-burst" // temporary inner Accept errors between the dials
)

var c17FaultKinds = []string{c17FCloseErrOnce, c17FCloseErrAlways, c17FReadErr, c17FWriteErr, c17FAcceptErrs}

var errC17Injected = errors.New("c17: injected input/output error")

type c17Change struct {
	from, to int
	done     chan struct{}
	applied  bool
}

type c17Mon struct {
	r      *kit.Run
	script *c17Script

	mu          sync.Mutex
	gauge       int
	bound       int
	lastIssued  int
	pending     int
	changes     []*c17Change
	epOverlap   bool
	epGrowOverS bool
	// an identical repeat (same value as the cap set last) was issued while a shrink had not
	// been applied yet / a grow was issued after such a repeat while a shrink was still unapplied
	epSameOverS          bool
	epGrowAfterSameOverS bool
	prevSameOverS        bool // the change issued last was such a repeat
	epKind               string
	lastApplied          string
	accepts              int
	closes               int
	maxGauge             int
	freedAtCap           bool
	inInner              bool
	history              []string

	events  int64 // progress counter (atomic)
	aborted int32
	abort   chan struct{}
}

func (m *c17Mon) ctxLocked() string {
	switch {
	case m.pending == 0:
		return "steady:after-" + m.lastApplied
	case m.epGrowAfterSameOverS:
		return "overlap:grow-issued-after-identical-repeat-over-unapplied-shrink"
	case m.epGrowOverS:
		return "overlap:grow-issued-over-unapplied-shrink"
	case m.epOverlap:
		return "overlap:other"
	default:
		return "single:" + m.epKind
	}
}

func (m *c17Mon) note(s string) {
	if len(m.history) < 60 {
		m.history = append(m.history, s)
	}
}

func c17Kind(from, to int) string {
	switch {
	case to > from:
		return "grow"
	case to < from:
		return "shrink"
	}
	return "same"
}

// ---- inner listener and connection owned by the harness

type c17Dial struct {
	id           int
	srv          net.Conn
	accepted     chan struct{}
	clientClosed int32 // 1: the client closed, or the server side saw an injected Read/Write error (its handler may close)
	err          bool
	fault        string
}

type c17Inner struct {
	mon    *c17Mon
	q      chan *c17Dial
	closed chan struct{}
	once   sync.Once
}

type c17TempErr struct{}

func (c17TempErr) Error() string   { return "c17: injected temporary accept error" }
func (c17TempErr) Temporary() bool { return true }
func (c17TempErr) Timeout() bool   { return false }

func (in *c17Inner) Accept() (net.Conn, error) {
	m := in.mon
	m.mu.Lock()
	m.inInner = true
	m.mu.Unlock()
	defer func() {
		m.mu.Lock()
		m.inInner = false
		m.mu.Unlock()
	}()
	select {
	case d := <-in.q:
		if d.err {
			atomic.AddInt64(&m.events, 1)
			return nil, c17TempErr{}
		}
		c := &c17Conn{Conn: d.srv, mon: m, dial: d}
		m.onAccept(c, len(in.q))
		close(d.accepted)
		return c, nil
	case <-in.closed:
		return nil, errors.New("c17: inner listener closed")
	}
}

func (in *c17Inner) Close() error {
	in.once.Do(func() { close(in.closed) })
	return nil
}

func (in *c17Inner) Addr() net.Addr { return &net.TCPAddr{IP: net.IPv4(127, 0, 0, 1), Port: 1} }

type c17Conn struct {
	net.Conn
	mon                   *c17Mon
	dial                  *c17Dial
	once                  sync.Once
	closeCalls, ioFaulted int32
}

// Close really closes the inner connection every time; what it REPORTS depends on the fault kind.
func (c *c17Conn) Close() error {
	c.once.Do(func() { c.mon.onClose(c) })
	err := c.Conn.Close()
	n := atomic.AddInt32(&c.closeCalls, 1)
	if n == 2 {
		c.mon.r.Count("ll_inner_conn_closed_twice", 1)
	}
	switch c.dial.fault {
	case c17FCloseErrOnce:
		if n == 1 {
			c.mon.r.Count("ll_inner_close_errors_returned", 1)
			return errC17Injected
		}
	case c17FCloseErrAlways:
		c.mon.r.Count("ll_inner_close_errors_returned", 1)
		if n == 2 {
			c.mon.r.Count("ll_inner_second_close_errors_returned", 1)
		}
		return errC17Injected
	}
	return err
}

func (c *c17Conn) Read(b []byte) (int, error) {
	if c.dial.fault == c17FReadErr && atomic.CompareAndSwapInt32(&c.ioFaulted, 0, 1) {
		atomic.StoreInt32(&c.dial.clientClosed, 1) // the handler closes because of this error
		c.mon.r.Count("ll_inner_read_errors_returned", 1)
		return 0, errC17Injected
	}
	return c.Conn.Read(b)
}

func (c *c17Conn) Write(b []byte) (int, error) {
	if c.dial.fault == c17FWriteErr && atomic.CompareAndSwapInt32(&c.ioFaulted, 0, 1) {
		atomic.StoreInt32(&c.dial.clientClosed, 1)
		c.mon.r.Count("ll_inner_write_errors_returned", 1)
		return 0, errC17Injected
	}
	return c.Conn.Write(b)
}

func (m *c17Mon) onAccept(c *c17Conn, waiting int) {
	m.mu.Lock()
	m.gauge++
	m.accepts++
	if m.gauge > m.maxGauge {
		m.maxGauge = m.gauge
	}
	ctx := m.ctxLocked()
	if m.gauge > m.bound {
		m.r.Violation("limitlistener:accept-over-cap:"+ctx, map[string]interface{}{
			"open_after_accept": m.gauge, "cap_in_force": m.bound, "context": ctx,
			"last_cap_set": m.lastIssued, "changes_outstanding": m.pending, "script": m.script, "history": append([]string{}, m.history...),
		})
		m.note(fmt.Sprintf("OVER accept gauge=%d bound=%d", m.gauge, m.bound))
	}
	if m.gauge == m.bound {
		m.r.Count("accepts_reaching_cap", 1)
		if waiting > 0 {
			m.r.Count("held_back_dials_seen_at_cap", 1)
		}
	}
	if m.freedAtCap {
		m.freedAtCap = false
		m.r.Count("released_capacity_reused", 1)
	}
	m.mu.Unlock()
	atomic.AddInt64(&m.events, 1)
}

func (m *c17Mon) onClose(c *c17Conn) {
	m.mu.Lock()
	if atomic.LoadInt32(&c.dial.clientClosed) == 0 {
		ctx := m.ctxLocked()
		m.r.Violation("limitlistener:established-connection-closed-by-server:"+ctx, map[string]interface{}{
			"conn": c.dial.id, "context": ctx, "script": m.script,
		})
	}
	if m.gauge >= m.bound && m.pending == 0 {
		m.freedAtCap = true
	}
	m.gauge--
	m.closes++
	m.mu.Unlock()
	atomic.AddInt64(&m.events, 1)
}

// waitUntil polls cond; the only wall-clock use is a no-progress watchdog whose firing is
// inconclusive.
func (m *c17Mon) waitUntil(what string, cond func() bool) bool {
	last := atomic.LoadInt64(&m.events)
	lastT := time.Now()
	for n := 0; ; n++ {
		if cond() {
			return true
		}
		if atomic.LoadInt32(&m.aborted) != 0 {
			return false
		}
		if n < 50 {
			runtime.Gosched()
		} else {
			time.Sleep(200 * time.Microsecond)
		}
		if e := atomic.LoadInt64(&m.events); e != last {
			last, lastT = e, time.Now()
		} else if wd := c17WD(); time.Since(lastT) > wd {
			atomic.AddInt32(&c17Stalls, 1)
			m.doAbort("watchdog: no progress for " + wd.String() + " while waiting for " + what)
			return false
		}
	}
}

func (m *c17Mon) doAbort(why string) {
	if atomic.CompareAndSwapInt32(&m.aborted, 0, 1) {
		m.mu.Lock()
		why += fmt.Sprintf(" [kind=%s open=%d cap=%d outstanding=%d accepts=%d]", m.script.Kind, m.gauge, m.bound, m.pending, m.accepts)
		m.mu.Unlock()
		m.r.Inconclusive(why)
		close(m.abort)
	}
}

// issue performs one cap change the way the script says and returns the change record.
func (m *c17Mon) issue(ll *LimitListener, st c17Step) *c17Change {
	m.mu.Lock()
	from := m.lastIssued
	ch := &c17Change{from: from, to: st.Cap}
	kind := c17Kind(from, st.Cap)
	sameOverS, growAfterSame, growRightAfterSame := false, false, false
	if m.pending > 0 {
		m.epOverlap = true
		shrinkUnapplied := false
		for _, o := range m.changes {
			if o.to < o.from && !c17Closed(o.done) {
				shrinkUnapplied = true
			}
		}
		if shrinkUnapplied {
			switch kind {
			case "grow":
				m.epGrowOverS = true
				if m.epSameOverS {
					m.epGrowAfterSameOverS = true
					growAfterSame = true
					growRightAfterSame = m.prevSameOverS
				}
			case "same":
				m.epSameOverS = true
				sameOverS = true
			}
		}
	} else {
		m.epKind = kind
	}
	m.prevSameOverS = sameOverS
	if st.Cap > m.bound {
		m.bound = st.Cap
	}
	m.lastIssued = st.Cap
	m.pending++
	m.changes = append(m.changes, ch)
	m.note(fmt.Sprintf("issue %d->%d via %s (outstanding %d, open %d)", from, st.Cap, st.Via, m.pending, m.gauge))
	m.mu.Unlock()
	m.r.Count("change_"+kind, 1)
	if sameOverS {
		m.r.Count("ll_identical_repeat_issued_over_unapplied_shrink", 1)
	}
	if growAfterSame {
		m.r.Count("ll_grow_issued_after_identical_repeat_over_unapplied_shrink", 1)
	}
	if growRightAfterSame {
		m.r.Count("ll_grow_issued_right_after_identical_repeat_over_unapplied_shrink", 1)
	}

	if st.Via == "listener" {
		ll.SetMaxConnection(uint32(st.Cap))
		// grow / same only: the bound was raised above, nothing needs to be lowered, so the
		// (unobservable) completion of the asynchronous Release is not needed by the oracle.
		m.applied(ch)
		return ch
	}
	done := ll.sem.SetMaxCount(int64(st.Cap))
	ch.done = done
	go func() {
		select {
		case <-done:
			m.applied(ch)
		case <-m.abort:
		}
	}()
	return ch
}

func c17Closed(ch chan struct{}) bool {
	if ch == nil {
		return true
	}
	select {
	case <-ch:
		return true
	default:
		return false
	}
}

func (m *c17Mon) applied(ch *c17Change) {
	m.mu.Lock()
	ch.applied = true
	m.pending--
	if m.pending == 0 {
		m.bound = m.lastIssued
		switch {
		case m.epGrowAfterSameOverS:
			m.lastApplied = "overlap-grow-after-identical-repeat-over-shrink"
		case m.epGrowOverS:
			m.lastApplied = "overlap-grow-over-shrink"
		case m.epOverlap:
			m.lastApplied = "overlap"
		default:
			m.lastApplied = m.epKind
		}
		m.epOverlap, m.epGrowOverS, m.epKind = false, false, ""
		m.epSameOverS, m.epGrowAfterSameOverS, m.prevSameOverS = false, false, false
		m.changes = nil
		m.note(fmt.Sprintf("all applied: cap=%d open=%d", m.bound, m.gauge))
	}
	m.mu.Unlock()
	atomic.AddInt64(&m.events, 1)
}

func (m *c17Mon) isApplied(ch *c17Change) bool {
	m.mu.Lock()
	defer m.mu.Unlock()
	return ch.applied
}

// ---- script generator

func c17GenScript(rng *rand.Rand, i int) *c17Script {
	kinds := []string{"steady", "grow", "shrink-below-usage", "shrink-then-grow-b2b", "repeated-identical",
		"grow-then-shrink-b2b", "shrink-shrink-b2b", "sequential-mix", "random-mix", "shrink-grow-sequential",
		"saturated-b2b-mix"}
	s := &c17Script{Kind: kinds[i%len(kinds)], Clients: 64, MinIter: 2 + rng.Intn(3), HoldMax: []int{0, 3, 20, 60}[rng.Intn(4)], AcceptErrs: rng.Intn(3)}
	capv := func() int { return 1 + rng.Intn(12) }
	gap := func() int { return []int{0, 1, 5, 20, 40}[rng.Intn(5)] }
	via := func(from, to int) string {
		if to >= from && rng.Intn(3) == 0 {
			return "listener"
		}
		return "sem"
	}
	s.Cap0 = capv()
	cur := s.Cap0
	add := func(c int, wait bool, g int) {
		s.Steps = append(s.Steps, c17Step{Cap: c, Wait: wait, Via: via(cur, c), Gap: g})
		cur = c
	}
	switch s.Kind {
	case "steady":
	case "grow":
		add(cur+1+rng.Intn(8), true, 10+gap())
		if rng.Intn(2) == 0 {
			add(cur+1+rng.Intn(8), true, gap())
		}
	case "shrink-below-usage":
		s.Cap0 = 4 + rng.Intn(9)
		cur = s.Cap0
		add(1+rng.Intn(cur-1), true, 10+gap())
		if rng.Intn(2) == 0 && cur > 1 {
			add(1+rng.Intn(cur-1), true, gap())
		}
	case "shrink-then-grow-b2b":
		s.Cap0 = 3 + rng.Intn(10)
		cur = s.Cap0
		lo := 1 + rng.Intn(cur-1)
		add(lo, false, 10+gap())
		hi := lo + 1 + rng.Intn(s.Cap0-lo) // back up to at most the old cap
		add(hi, true, 0)
	case "shrink-grow-sequential":
		s.Cap0 = 3 + rng.Intn(10)
		cur = s.Cap0
		lo := 1 + rng.Intn(cur-1)
		add(lo, true, 10+gap())
		add(lo+1+rng.Intn(s.Cap0-lo), true, 0)
	case "repeated-identical":
		n := 2 + rng.Intn(3)
		for k := 0; k < n; k++ {
			add(cur, rng.Intn(2) == 0, gap())
		}
		c := capv()
		for k := 0; k < n; k++ {
			add(c, false, 0)
		}
	case "grow-then-shrink-b2b":
		hi := cur + 1 + rng.Intn(8)
		add(hi, false, 10+gap())
		add(1+rng.Intn(hi-1), true, 0)
	case "shrink-shrink-b2b":
		s.Cap0 = 5 + rng.Intn(8)
		cur = s.Cap0
		mid := 2 + rng.Intn(cur-2)
		add(mid, false, 10+gap())
		add(1+rng.Intn(mid-1), true, 0)
	case "saturated-b2b-mix":
		// 3-6 changes issued back-to-back while the listener is full and nothing closes: each
		// one is a shrink below the usage, an identical repeat of the value set last (what every
		// HTTPServer reload that keeps maxConnections does), a grow, or a return to an earlier
		// value (re-shrink / grow back)
		s.Saturate = true
		s.Cap0 = 2 + rng.Intn(9)
		cur = s.Cap0
		for _, c := range c17SaturatedCaps(rng, s.Cap0) {
			st := c17Step{Cap: c, Via: via(cur, c), Yield: []int{0, 0, 1, 5}[rng.Intn(4)], Settle: rng.Intn(4) == 0}
			s.Steps = append(s.Steps, st)
			cur = c
		}
	case "sequential-mix":
		n := 3 + rng.Intn(4)
		for k := 0; k < n; k++ {
			add(capv(), true, gap())
		}
	case "random-mix":
		n := 3 + rng.Intn(5)
		for k := 0; k < n; k++ {
			add(capv(), rng.Intn(2) == 0, gap())
		}
	}
	// faults (drawn last: the change scripts of a seed stay what they were)
	minCap := s.Cap0
	for _, st := range s.Steps {
		if st.Cap < minCap {
			minCap = st.Cap
		}
	}
	// (not in scripts with a grow through SetMaxConnection: its completion is not observable, the
	// audit has to wait for it, and a lost slot would be a stall there instead of a verdict)
	if cf := rng.Intn(minCap); rng.Intn(2) == 0 && !s.hasListenerVia() {
		s.CloseFaults = cf // 0..minCap-1
	}
	s.FaultWave = c17FaultKinds[(i/len(kinds))%len(c17FaultKinds)]
	return s
}

// c17SaturatedCaps draws the caps of a back-to-back script: 3-6 values, each a shrink, an
// identical repeat, a grow or a return to a value used earlier (caps 1..20).
func c17SaturatedCaps(rng *rand.Rand, cap0 int) []int {
	n := 3 + rng.Intn(4)
	cur := cap0
	seen := []int{cap0}
	var out []int
	for k := 0; k < n; k++ {
		c := cur
		switch x := rng.Intn(10); {
		case x < 4:
			if cur > 1 {
				c = 1 + rng.Intn(cur-1)
			}
		case x < 7:
			// identical repeat
		case x < 9:
			c = cur + 1 + rng.Intn(4)
		default:
			c = seen[rng.Intn(len(seen))]
		}
		if c > 20 {
			c = 20
		}
		out = append(out, c)
		seen = append(seen, c)
		cur = c
	}
	return out
}

func (s *c17Script) hasListenerVia() bool {
	for _, st := range s.Steps {
		if st.Via == "listener" {
			return true
		}
	}
	return false
}

// ---- one case

func c17RunScript(r *kit.Run, s *c17Script, seed int64) {
	m := &c17Mon{r: r, script: s, bound: s.Cap0, lastIssued: s.Cap0, lastApplied: "initial", abort: make(chan struct{})}
	in := &c17Inner{mon: m, q: make(chan *c17Dial, s.Clients+32), closed: make(chan struct{})}
	ll := NewLimitListener(in, uint32(s.Cap0))

	var handlers sync.WaitGroup
	var handlersActive int64
	srvDone := make(chan struct{})
	go func() { // the server: accept loop + one handler per connection, as net/http does
		defer close(srvDone)
		hr := rand.New(rand.NewSource(seed ^ 0x5eed))
		for {
			c, err := ll.Accept()
			if err != nil {
				var te interface{ Temporary() bool }
				if errors.As(err, &te) && te.Temporary() {
					continue
				}
				return
			}
			twice := hr.Intn(4) == 0
			handlers.Add(1)
			atomic.AddInt64(&handlersActive, 1)
			go func() {
				defer handlers.Done()
				defer atomic.AddInt64(&handlersActive, -1)
				buf := make([]byte, 1)
				greetFailed := false
				if lc, ok := c.(*limitListenerConn); ok {
					if ic, ok := lc.Conn.(*c17Conn); ok && ic.dial.fault == c17FWriteErr {
						_, err := c.Write([]byte{1})
						greetFailed = err != nil
					}
				}
				for !greetFailed {
					if _, err := c.Read(buf); err != nil {
						break
					}
				}
				c.Close()
				if twice {
					c.Close()
				}
			}()
		}
	}()

	// saturated scripts: accepted connections stay open until the gate opens
	gate := make(chan struct{})
	var gateOnce sync.Once
	openGate := func() { gateOnce.Do(func() { close(gate) }) }
	if !s.Saturate {
		openGate()
	}
	defer openGate()

	var stop int32
	var dialSeq int64
	closeFaultsLeft := int64(s.CloseFaults)
	dialHold := func(hold int, sleepy bool) bool {
		srv, cli := net.Pipe()
		d := &c17Dial{id: int(atomic.AddInt64(&dialSeq, 1)), srv: srv, accepted: make(chan struct{})}
		if hold%3 == 0 && atomic.LoadInt64(&closeFaultsLeft) > 0 && atomic.AddInt64(&closeFaultsLeft, -1) >= 0 {
			d.fault = []string{c17FCloseErrOnce, c17FCloseErrAlways}[d.id%2]
			r.Count("ll_churn_connections_with_close_error", 1)
		}
		select {
		case in.q <- d:
		case <-m.abort:
			return false
		}
		select {
		case <-d.accepted:
		case <-m.abort:
			return false
		}
		select {
		case <-gate:
		case <-m.abort:
			return false
		}
		for k := 0; k < hold; k++ {
			runtime.Gosched()
		}
		if sleepy {
			time.Sleep(time.Duration(hold) * 20 * time.Microsecond)
		}
		atomic.StoreInt32(&d.clientClosed, 1)
		cli.Close()
		return true
	}
	var clients sync.WaitGroup
	for c := 0; c < s.Clients; c++ {
		clients.Add(1)
		crng := rand.New(rand.NewSource(seed + int64(c)*7919))
		go func() {
			defer clients.Done()
			for it := 0; ; it++ {
				if it >= s.MinIter && atomic.LoadInt32(&stop) != 0 {
					return
				}
				if it > 4000 {
					return
				}
				if !dialHold(crng.Intn(s.HoldMax+1), crng.Intn(4) == 0) {
					return
				}
			}
		}()
	}

	// controller: the change script
	errsLeft := s.AcceptErrs
	full := func() bool {
		m.mu.Lock()
		defer m.mu.Unlock()
		return m.gauge >= m.bound
	}
	if s.Saturate {
		if m.waitUntil("the listener to fill up to its cap", full) {
			// lower bound only: lets the accept loop park in its next acquire, ahead of
			// whatever the changes will queue
			time.Sleep(300 * time.Microsecond)
			if full() && len(in.q) > 0 {
				r.Count("ll_b2b_scripts_started_full_with_dials_waiting", 1)
			}
		}
	}
	for _, st := range s.Steps {
		for k := 0; k < st.Yield; k++ {
			runtime.Gosched()
		}
		if st.Settle {
			// not a verdict: up to ~2ms for the listener to be full again (after an applied
			// grow); with an unapplied change nothing moves anyway
			for k := 0; k < 40 && !full(); k++ {
				time.Sleep(50 * time.Microsecond)
			}
		}
		m.mu.Lock()
		target := m.accepts + st.Gap
		m.mu.Unlock()
		if !m.waitUntil("accept progress before a step", func() bool {
			m.mu.Lock()
			defer m.mu.Unlock()
			return m.accepts >= target
		}) {
			break
		}
		if errsLeft > 0 {
			errsLeft--
			select {
			case in.q <- &c17Dial{err: true}:
				r.Count("accept_errors_injected", 1)
			default:
			}
		}
		ch := m.issue(ll, st)
		if st.Wait {
			if !m.waitUntil("completion signal of SetMaxCount", func() bool { return m.isApplied(ch) }) {
				break
			}
		}
	}
	for ; errsLeft > 0; errsLeft-- {
		select {
		case in.q <- &c17Dial{err: true}:
			r.Count("accept_errors_injected", 1)
		default:
		}
	}
	if s.Saturate {
		// nothing has closed yet: give an accept beyond the cap in force the chance to show
		// (lower bound on real time only), then let the connections go
		c17Quiesce(m)
		openGate()
	}
	atomic.StoreInt32(&stop, 1)
	cdone := make(chan struct{})
	go func() { clients.Wait(); close(cdone) }()
	ok := m.waitUntil("all clients to finish (released capacity must be reused)", func() bool { return c17Closed(cdone) })
	ok = ok && m.waitUntil("all cap changes to complete after every connection closed", func() bool {
		m.mu.Lock()
		defer m.mu.Unlock()
		return m.pending == 0
	})
	quiet := func() bool {
		m.mu.Lock()
		defer m.mu.Unlock()
		return m.gauge == 0 && atomic.LoadInt64(&handlersActive) == 0 && m.inInner && len(in.q) == 0
	}
	ok = ok && m.waitUntil("server side closes", quiet)
	if ok {
		r.Count("scripts_completed", 1)
		ctx := ""
		if s.CloseFaults > 0 {
			ctx = "after-churn-with-close-errors"
		}
		if c17Audit(r, m, ll, s, ctx, false) && c17Probe(r, m, in, s) {
			c17FaultWave(r, m, in, ll, s, seed, quiet)
		}
	}
	m.mu.Lock()
	mg := m.maxGauge
	r.Cover(fmt.Sprintf("%s/cap0=%d/steps=%d/max=%d/final=%d", s.Kind, s.Cap0, len(s.Steps), mg, m.lastIssued))
	m.mu.Unlock()
	r.Max("max:open_connections", int64(mg))

	// teardown
	if atomic.LoadInt32(&m.aborted) == 0 {
		close(m.abort) // stops waiter goroutines; nothing is pending
		atomic.StoreInt32(&m.aborted, 2)
	}
	ll.Close()
	select {
	case <-srvDone:
	case <-time.After(30 * time.Second):
		r.Note("accept loop did not exit within 30s after Close (not a verdict)")
	}
}

// c17Quiesce sleeps at least 2ms and then until no accept/close/applied event has been seen for
// 1ms (at most ~100ms).  It is only a lower bound on real time, never a verdict.
func c17Quiesce(m *c17Mon) {
	time.Sleep(2 * time.Millisecond)
	last := atomic.LoadInt64(&m.events)
	for k := 0; k < 100; k++ {
		time.Sleep(time.Millisecond)
		e := atomic.LoadInt64(&m.events)
		if e == last {
			return
		}
		last = e
	}
}

// c17Audit: at a quiescent point (no client, no handler, no change outstanding, accept loop
// parked inside the inner Accept holding exactly one slot) the free capacity must be exactly
// cap-1.  The probe is AcquireWithContext with an already cancelled context, which never
// blocks: it succeeds iff a slot is free.
// ctx "" = plain script; otherwise the kind of faulty inner connections the listener has seen (part
// of the signature).
// settled: an exact audit has already passed since the last change, no grow can be on its way.
func c17Audit(r *kit.Run, m *c17Mon, ll *LimitListener, s *c17Script, ctx string, settled bool) bool {
	cctx, cancel := context.WithCancel(context.Background())
	cancel()
	probe := func() int {
		n := 0
		for n < 64 && ll.sem.AcquireWithContext(cctx) == nil {
			n++
		}
		for k := 0; k < n; k++ {
			ll.sem.Release()
		}
		return n
	}
	m.mu.Lock()
	want := m.lastIssued - 1
	m.mu.Unlock()
	got := probe()
	if got < want && s.hasListenerVia() && !settled {
		// the Release of a grow issued through SetMaxConnection has no completion signal;
		// it may legitimately still be on its way
		if !m.waitUntil("asynchronous grow of SetMaxConnection to land", func() bool { got = probe(); return got >= want }) {
			return false
		}
	}
	r.Count("capacity_audits", 1)
	if got != want {
		dir := "extra"
		if got < want {
			dir = "lost"
		}
		over := "no-overlap"
		for i := range s.Steps {
			if i > 0 && !s.Steps[i-1].Wait {
				over = "with-overlap"
			}
		}
		sig := "limitlistener:capacity-drift:" + dir + ":" + over
		if ctx != "" {
			sig += ":" + ctx
		}
		r.Violation(sig, map[string]interface{}{
			"free_slots_found": got, "free_slots_expected": want, "final_cap": want + 1, "script": s, "history": m.history, "faults": ctx,
		})
		return false
	}
	return true
}

// c17Probe: cap+2 clients against the final cap: exactly cap are let in (the accept check
// refutes more), the others are held back, and closing one lets exactly one more in.
func c17Probe(r *kit.Run, m *c17Mon, in *c17Inner, s *c17Script) bool {
	m.mu.Lock()
	f := m.lastIssued
	base := m.accepts
	m.mu.Unlock()
	type pc struct {
		d   *c17Dial
		cli net.Conn
	}
	var ps []*pc
	for k := 0; k < f+2; k++ {
		srv, cli := net.Pipe()
		d := &c17Dial{id: 100000 + k, srv: srv, accepted: make(chan struct{})}
		ps = append(ps, &pc{d, cli})
		in.q <- d
	}
	if !m.waitUntil("final probe: cap connections accepted", func() bool {
		m.mu.Lock()
		defer m.mu.Unlock()
		return m.accepts-base >= f
	}) {
		return false
	}
	// close one accepted connection: one held-back dial must get through
	var first *pc
	if !m.waitUntil("final probe: accepted dial notified", func() bool {
		for _, p := range ps {
			if c17Closed(p.d.accepted) {
				first = p
				return true
			}
		}
		return false
	}) {
		return false
	}
	atomic.StoreInt32(&first.d.clientClosed, 1)
	first.cli.Close()
	first.cli = nil
	if !m.waitUntil("final probe: released slot reused", func() bool {
		m.mu.Lock()
		defer m.mu.Unlock()
		return m.accepts-base >= f+1
	}) {
		return false
	}
	r.Count("final_probe_reuse_ok", 1)
	for left := len(ps) - 1; left > 0; {
		var pick *pc
		for _, p := range ps {
			if p.cli != nil && c17Closed(p.d.accepted) {
				pick = p
				break
			}
		}
		if pick == nil {
			if !m.waitUntil("final probe: remaining dial accepted", func() bool {
				for _, p := range ps {
					if p.cli != nil && c17Closed(p.d.accepted) {
						return true
					}
				}
				return false
			}) {
				return false
			}
			continue
		}
		atomic.StoreInt32(&pick.d.clientClosed, 1)
		pick.cli.Close()
		pick.cli = nil
		left--
	}
	return m.waitUntil("final probe: drained", func() bool {
		m.mu.Lock()
		defer m.mu.Unlock()
		return m.gauge == 0
	})
}

// c17FaultWave: at the final quiescent point (audit and probe passed, nothing open) cap+1 more
// clients connect, some of them over FAULTY inner connections / a faulty inner listener of ONE
// kind (s.FaultWave): Close reports an error although it really closes (once / every time, the
// handler closes twice in 1/4 of the connections), the first Read or the first Write fails so
// that the handler closes at once, or the inner Accept fails temporarily between the dials.
// Every client closes once it was accepted.  When all cap+1 connections have been closed by the
// server (the inner connection's Close was called: it is closed whatever Close reported) and the
// accept loop is parked again, every slot must be back: the same exact free-capacity audit.
// Close-error faults are kept below the cap, so that a listener that loses their slots still
// reaches the quiescent point (a lost slot is a verdict of the audit, not a stall).
func c17FaultWave(r *kit.Run, m *c17Mon, in *c17Inner, ll *LimitListener, s *c17Script, seed int64, quiet func() bool) {
	kind := s.FaultWave
	if kind == "" || !m.waitUntil("fault wave: quiescent point before", quiet) {
		return
	}
	m.mu.Lock()
	f := m.lastIssued
	base := m.accepts
	m.mu.Unlock()
	rng := rand.New(rand.NewSource(seed ^ 0xfa17))
	total := f + 1
	maxFaulty := total
	if kind == c17FCloseErrOnce || kind == c17FCloseErrAlways {
		maxFaulty = f - 1
	}
	if maxFaulty < 1 {
		r.Count("ll_fault_wave_skipped_cap_1", 1)
		return
	}
	nf := 1 + rng.Intn(maxFaulty)
	faulty := map[int]bool{}
	for _, k := range rng.Perm(total)[:nf] {
		faulty[k] = true
	}
	type pc struct {
		d   *c17Dial
		cli net.Conn
	}
	var ps []*pc
	for k := 0; k < total; k++ {
		srv, cli := net.Pipe()
		d := &c17Dial{id: 200000 + k, srv: srv, accepted: make(chan struct{})}
		if faulty[k] {
			if kind == c17FAcceptErrs {
				for e := 1 + rng.Intn(3); e > 0; e-- {
					in.q <- &c17Dial{err: true}
					r.Count("accept_errors_injected", 1)
					r.Count("ll_fault_wave_accept_errors_injected", 1)
				}
			} else {
				d.fault = kind
			}
		}
		ps = append(ps, &pc{d, cli})
		in.q <- d
	}
	// every client closes once its dial was accepted (held back ones get in as slots come back)
	for left := total; left > 0; {
		var pick *pc
		next := func() bool {
			for _, p := range ps {
				if p.cli != nil && c17Closed(p.d.accepted) {
					pick = p
					return true
				}
			}
			return false
		}
		if !m.waitUntil("fault wave ("+kind+"): next dial accepted", next) {
			return
		}
		atomic.StoreInt32(&pick.d.clientClosed, 1)
		pick.cli.Close()
		pick.cli = nil
		left--
	}
	if !m.waitUntil("fault wave ("+kind+"): server side closes, accept loop parked", func() bool {
		m.mu.Lock()
		n := m.accepts - base
		m.mu.Unlock()
		return n >= total && quiet()
	}) {
		return
	}
	if c17Audit(r, m, ll, s, "after-faulty-connections:"+kind, true) {
		r.Count("ll_fault_wave_audited:"+kind, 1)
	}
}

func TestVerif_C17_LimitListener(t *testing.T) {
	r := kit.Start(t, "C17")
	defer r.Finish()
	r.Rule("scripts over a real LimitListener wrapping a counting in-memory listener: 64 clients dial/hold/close concurrently (2-4+ connections each, random holds, handler closes twice in 1/4 of the connections, injected temporary Accept errors) while a controller runs a cap-change script of kind steady | grow | shrink-below-usage | shrink-then-grow back-to-back | shrink-grow sequential | repeated-identical | grow-then-shrink b2b | shrink-shrink b2b | sequential mix | random mix | saturated back-to-back mix (every accepted connection is held open, listener full, Accept blocked and dials waiting; then 3-6 changes are issued back-to-back without waiting for any done channel and without any close: shrinks below the usage, identical repeats of the value set last - also over a shrink that has not been applied -, grows and returns to earlier values; only then the connections are let go) (caps 1..20, completion observed through SetMaxCount's done channel; grows partly through SetMaxConnection); oracle: open connections <= cap in force at every accept, no connection closed before its client closed, exact free-capacity audit and cap+2 probe at the final quiescent point; FAULTY inner connections and listener: in half of the scripts without a SetMaxConnection step 0..mincap-1 connections of the churn report an error from Close (first call only / every call) although the inner connection is really closed, and after the final probe a wave of cap+1 clients connects of which 1..n use inner connections of one fault kind - close-error-once | close-error-always (fewer than cap of them) | read-error-first | write-error-first (the handler closes at once, before the client) | temporary inner Accept errors between the dials -; when every connection of the wave has been closed by the server and the accept loop is parked again the exact free-capacity audit is repeated (a connection the server has closed gives its slot back whatever Close/Read/Write reported); distinct = (kind, cap0, #steps, max open, final cap)")
	r.Assume("caps >= 1 (HTTPServer spec minimum); cap in force while changes are outstanding = max of the caps involved; 'applied' = done channel of Semaphore.SetMaxCount closed for every outstanding change")
	n := r.N(600, 20000)
	for i := 0; i < n; i++ {
		if !r.Mine(i) {
			continue
		}
		rng := r.CaseRand(i)
		s := c17GenScript(rng, i)
		r.Case(i, s)
		if i < 3 {
			r.Sample(s)
		}
		c17RunScript(r, s, rng.Int63())
	}
	for _, k := range []string{"accepts_reaching_cap", "held_back_dials_seen_at_cap", "released_capacity_reused", "change_grow", "change_shrink", "change_same", "capacity_audits", "final_probe_reuse_ok", "scripts_completed",
		"ll_b2b_scripts_started_full_with_dials_waiting", "ll_identical_repeat_issued_over_unapplied_shrink", "ll_grow_issued_right_after_identical_repeat_over_unapplied_shrink",
		"ll_churn_connections_with_close_error", "ll_inner_close_errors_returned", "ll_inner_second_close_errors_returned", "ll_inner_conn_closed_twice", "ll_inner_read_errors_returned", "ll_inner_write_errors_returned", "ll_fault_wave_accept_errors_injected",
		"ll_fault_wave_audited:" + c17FCloseErrOnce, "ll_fault_wave_audited:" + c17FCloseErrAlways, "ll_fault_wave_audited:" + c17FReadErr, "ll_fault_wave_audited:" + c17FWriteErr, "ll_fault_wave_audited:" + c17FAcceptErrs} {
		r.Require(k, 1)
	}
}
