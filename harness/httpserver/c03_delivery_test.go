//go:build verif

package httpserver

// C03, delivery modes: the pool options that change HOW a backend response travels to
// the client, taken as a full product, against an honest and fast backend:
//
//	pool `timeout`            unset | set (3-6 s, never meant to fire)
//	response delivery         streamed (serverMaxBodySize -1 at pool / proxy level) | buffered (limit unset or 1 MiB)
//	Retry policy on the pool  none | 2 attempts
//	backend status            listed in the pool's failureCodes | not listed
//	response body             small (0-3000 bytes: inside the transport's first read) |
//	                          mid (6-70 KB: more than the transport's 4 KB reader) |
//	                          large (150-400 KB: more than any buffer between backend and client)
//	backend framing           length-declared (one write) | chunked (three flushed pieces)
//
// The first three are properties of the gateway configuration (8 configurations, case
// number mod 8), the last three of the exchange: every configuration gets every
// combination of {failure-coded, ordinary} x {small, large} x {length-declared, chunked}
// plus two mid-sized bodies, in random order on one kept-alive raw connection.  With a
// Retry policy a failure-coded response is the one of the last attempt, and half of the
// ordinary exchanges are answered only at the second attempt (the first one fails with a
// failure code or a dropped connection).
//
// Oracle: the full reference of the exchange part (c03Check: what the backend received
// at every attempt; status, end-to-end headers, decoded body and framing of what the
// client received).  The property makes no exception for any of these options: a
// response whose status is listed in failureCodes is the backend's response all the
// same ("the client receives the backend's status, end-to-end headers and body
// content", "always well-framed"), and a timeout that has not passed has no business
// changing anything.  With a pool timeout configured an exchange is judged only if it
// was over on the client side before `timeout` had passed since the client began to
// write the request (the deadline of no attempt can have been set earlier); otherwise it
// is not judged at all.  Every cell of the product must have been seen delivered intact
// at least once (Require), else the run is inconclusive.

import (
	"fmt"
	"math/rand"
	"strings"
	"testing"
	"time"

	"verif.local/kit"
)

type c03dvCell struct {
	Failure bool   `json:"failureCodedStatus"`
	Size    string `json:"size"` // small | mid | large
	Mode    string `json:"mode"` // cl | chunked
}

// c03dvCfg: configuration i of the delivery part.  The three configuration-level
// dimensions of the product are the three low bits of i.
func c03dvCfg(i int, rng *rand.Rand) *e2eCfg {
	cfg := &e2eCfg{}
	if i&1 != 0 {
		cfg.PoolTimeoutMs = 3000 + rng.Intn(3001)
	}
	if i&2 != 0 {
		cfg.Retry = &e2eRetry{MaxAttempts: 2, WaitMs: 3 + rng.Intn(5), Random: 0.5}
	}
	if i&4 != 0 { // streamed
		switch rng.Intn(3) {
		case 0:
			cfg.PoolServerMax = -1
		case 1:
			cfg.ProxyServerMax = -1
		default:
			cfg.PoolServerMax, cfg.ProxyServerMax = -1, 4096
		}
	} else { // buffered, the limit is never in the way
		switch rng.Intn(3) {
		case 0:
		case 1:
			cfg.PoolServerMax = 1 << 20
		default:
			cfg.ProxyServerMax = 1 << 20
		}
	}
	cfg.FailureCodes = [][]int{{503}, {500, 503}, {500, 502, 503}}[rng.Intn(3)]
	switch rng.Intn(3) {
	case 1:
		cfg.HostNameServer = true
	case 2:
		cfg.KeepHost = true
	}
	if rng.Intn(3) == 0 {
		cfg.CacheSize = 16
	}
	return cfg
}

func c03dvStreamed(cfg *e2eCfg) bool {
	return cfg.PoolServerMax < 0 || (cfg.PoolServerMax == 0 && cfg.ProxyServerMax < 0)
}

// c03dvClass names the input class of a refutation: delivery mode, timeout, status class.
func c03dvClass(cfg *e2eCfg, cell c03dvCell) string {
	s := []string{"buffered-response", "no-pool-timeout", "ordinary-status"}
	if c03dvStreamed(cfg) {
		s[0] = "streamed-response"
	}
	if cfg.PoolTimeoutMs > 0 {
		s[1] = "pool-timeout-not-passed"
	}
	if cell.Failure {
		s[2] = "failure-coded-status"
	}
	return strings.Join(s, ",")
}

// c03dvCounter names the cell of the product an exchange belongs to.
func c03dvCounter(cfg *e2eCfg, cell c03dvCell) string {
	s := []string{"buffered", "notimeout", "ordinary", cell.Size, "noretry"}
	if c03dvStreamed(cfg) {
		s[0] = "streamed"
	}
	if cfg.PoolTimeoutMs > 0 {
		s[1] = "timeout"
	}
	if cell.Failure {
		s[2] = "failurecode"
	}
	if cfg.Retry != nil {
		s[4] = "retry"
	}
	return strings.Join(s, "_")
}

// c03dvShape turns the exchange c03Gen made into one of the cell.
func c03dvShape(cfg *e2eCfg, rng *rand.Rand, ex *c03Ex, cell c03dvCell) {
	q, sc := &ex.Req, &ex.Script
	if q.Method == "HEAD" {
		q.Method = "GET" // (a HEAD response has no body to deliver)
	}
	if cell.Failure {
		sc.Status = cfg.FailureCodes[rng.Intn(len(cfg.FailureCodes))]
	} else {
		sc.Status = []int{200, 200, 200, 201, 404, 418, 501}[rng.Intn(7)]
	}
	var n int
	switch cell.Size {
	case "small":
		n = []int{0, 1, 100, 1024, 3000}[rng.Intn(5)]
	case "mid":
		n = 6000 + rng.Intn(64001)
	default:
		n = 150000 + rng.Intn(250001)
	}
	gz := rng.Intn(5) == 0
	// (a gzip-labelled body must stay as long on the backend's wire as its class says)
	compressible := !gz && rng.Intn(3) != 0
	c03fpPlain(ex)
	ex.RespPlain = c03Body(rng, n, compressible, ex.ID+"/resp")
	sc.Body = ex.RespPlain
	if gz {
		ex.RespGzip = true
		sc.Body = e2eGzip(ex.RespPlain)
		sc.Headers = append(sc.Headers, [2]string{"Content-Encoding", "gzip"})
	}
	ex.RespBody = e2eBrief(sc.Body)
	sc.Mode = cell.Mode
	if cfg.Retry != nil && !cell.Failure && rng.Intn(2) == 0 {
		// answered at the second attempt only
		sc.FailFirst = 1
		sc.FailStatus = []int{cfg.FailureCodes[rng.Intn(len(cfg.FailureCodes))], 0}[rng.Intn(2)]
	}
}

func TestVerif_C03_Delivery(t *testing.T) {
	r := kit.Start(t, "C03")
	defer r.Finish()
	if e2eNotReplayed(r) {
		return
	}
	r.Rule("delivery modes, full product: gateway configurations {pool timeout unset | 3-6 s} x {response streamed (serverMaxBodySize -1 at pool level, at proxy level, pool -1 over proxy 4096) | buffered (limit unset, 1 MiB at pool or proxy level)} x {Retry policy with 2 attempts | none} (the 8 combinations = case number mod 8), each with failureCodes [503] / [500,503] / [500,502,503], IP / host-name / keepHost server, route cache on or off; 10 exchanges per configuration in random order on one kept-alive raw connection, requests as in the exchange part (never HEAD), honest fast backend: {status listed in failureCodes | 200,201,404,418,501} x {body small 0-3000 bytes | large 150-400 KB} x {length-declared, one write | chunked, three flushed pieces}, plus a failure-coded and an ordinary mid-sized body (6-70 KB); every fifth body gzip-labelled (incompressible content, so that it stays long on the backend's wire); under a Retry policy half of the ordinary exchanges are answered at the second attempt only (first attempt: failure code or dropped connection), a failure-coded one is answered like that at both attempts. distinct = (cell of the product, failure codes, scripted status, response framing/encoding, request framing, fail-first kind, limit source, client-side framing)")
	r.Assume("a response whose status is listed in the pool's failureCodes is still the backend's response: status, end-to-end headers, complete body and framing are demanded exactly as for any other status (with a Retry policy: those of the last attempt; how many attempts the backend sees for such a status is not decided)")
	r.Assume("with a pool timeout (3-6 s, honest fast backend) an exchange is judged - in full - only if it was over on the client side before the timeout had passed since the client began to write the request: no attempt's deadline can have fired then; otherwise it is not judged at all")
	for _, a := range c03Assumptions {
		r.Assume(a)
	}
	be, err := e2eNewBackend()
	if err != nil {
		r.Inconclusive("cannot start backend: " + err.Error())
		return
	}
	defer be.Close()
	dd := &c03Dedupe{}
	n := r.N(8, 192)
	for i := 0; i < n; i++ {
		if !r.Mine(i) {
			continue
		}
		rng := r.CaseRand(i)
		cfg := c03dvCfg(i, rng)
		var cells []c03dvCell
		for _, failure := range []bool{true, false} {
			for _, size := range []string{"small", "large"} {
				for _, mode := range []string{"cl", "chunked"} {
					cells = append(cells, c03dvCell{failure, size, mode})
				}
			}
			cells = append(cells, c03dvCell{failure, "mid", []string{"cl", "chunked"}[rng.Intn(2)]})
		}
		rng.Shuffle(len(cells), func(a, b int) { cells[a], cells[b] = cells[b], cells[a] })
		type planned struct {
			Cell c03dvCell `json:"cell"`
			Ex   *c03Ex    `json:"exchange"`
		}
		var plan []planned
		for k, cell := range cells {
			ex := c03Gen(cfg, rng, fmt.Sprintf("c03d-%d-%d-%d", r.Seed(), i, k), k == len(cells)-1)
			c03dvShape(cfg, rng, ex, cell)
			plan = append(plan, planned{cell, ex})
		}
		r.Case(i, map[string]interface{}{"cfg": cfg, "plan": plan})
		gw, err := e2eStart(cfg, be)
		if err != nil {
			r.Inconclusive("gateway did not start: " + err.Error())
			continue
		}
		_, limitSrc := c03fpLimit(cfg)
		cl := &e2eClient{addr: gw.addr}
		for k, p := range plan {
			cell, ex := p.Cell, p.Ex
			sc := ex.Script
			be.Script(ex.ID, &sc)
			began := time.Now()
			res := cl.Do(&ex.Req, func() bool { return be.Contacted(ex.ID) })
			elapsed := time.Since(began)
			seen := be.Take(ex.ID)
			r.Eval(1)
			finds, _, inc := c03Check(cfg, ex, res, seen)
			for _, entry := range gw.errlog.TakePanics(res.Addrs) {
				site, msg := e2ePanicSig(entry)
				r.Count("handler_panics", 1)
				finds = append(finds, c03Finding{"", map[string]interface{}{"cfg": cfg, "exchange": ex, "serverLog": c03ClipN(entry, 3000)}, "handler-panic:" + site + ":" + msg})
			}
			if inc != "" {
				r.Inconclusive(inc)
				continue
			}
			resp := res.Resp
			counter := c03dvCounter(cfg, cell)
			r.Count("delivery_exchanges", 1)
			if cfg.PoolTimeoutMs > 0 && elapsed >= time.Duration(cfg.PoolTimeoutMs)*time.Millisecond {
				r.Count("delivery_pool_timeout_may_have_passed_not_judged", 1)
				continue
			}
			refuted := false
			for _, f := range finds {
				if f.Check == "backend-contacted-more-than-once" && cfg.Retry != nil && cell.Failure {
					continue // (a failure-coded response is retried)
				}
				refuted = true
				reqSide := strings.HasPrefix(f.Check, "req-") || f.Check == "backend-not-contacted" || f.Check == "backend-contacted-more-than-once"
				if f.Sig == "" || (!reqSide && seen != nil) {
					// (what the backend received does not depend on how the response is
					// delivered: the request-side signatures - and those of an answer to a
					// request that never reached the backend - stay those of the exchange part)
					f.Sig = "C03:" + f.Check + ":delivery(" + c03dvClass(cfg, cell) + ")"
				}
				f.Detail["deliveryCell"] = counter
				f.Detail["elapsedMs"] = elapsed.Milliseconds()
				dd.record(r, f)
			}
			framing := resp.Framing
			if resp.FramingErr != "" {
				framing = "ill-framed"
			}
			if !refuted && resp.FramingErr == "" && resp.Status == ex.Script.Status {
				r.Count("delivery_intact", 1)
				r.Count("delivery_intact_"+counter, 1)
				r.Count("delivery_intact_backend_"+ex.Script.Mode, 1)
				if ex.RespGzip {
					r.Count("delivery_intact_gzip_labelled", 1)
				}
				if seen != nil && len(seen.Bodies) > 1 {
					if cell.Failure {
						r.Count("delivery_intact_failure_coded_response_of_last_attempt", 1)
					} else {
						r.Count("delivery_intact_answered_at_second_attempt", 1)
					}
				}
			}
			ff := "none"
			if ex.Script.FailFirst > 0 {
				ff = fmt.Sprintf("status%d", ex.Script.FailStatus)
			}
			r.Cover(fmt.Sprintf("delivery/%s/fc%v/script%d.%s.gz%v/req-%s/failfirst-%s/limit-from-%s/answer%d/%s", counter, cfg.FailureCodes,
				ex.Script.Status, ex.Script.Mode, ex.RespGzip, ex.Req.Framing, ff, limitSrc, resp.Status, framing))
			if i < 8 && k == 0 {
				r.Sample(map[string]interface{}{"cfg": cfg, "cell": cell, "exchange": ex, "response": resp})
			}
		}
		cl.Close()
		c03Leftover(r, gw, cfg)
		gw.Close()
		be.CloseIdle()
	}
	// every cell of the product must have been delivered intact at least once
	for _, mode := range []string{"buffered", "streamed"} {
		for _, to := range []string{"notimeout", "timeout"} {
			for _, st := range []string{"ordinary", "failurecode"} {
				for _, size := range []string{"small", "large"} {
					for _, retry := range []string{"noretry", "retry"} {
						r.Require("delivery_intact_"+strings.Join([]string{mode, to, st, size, retry}, "_"), 1)
					}
				}
			}
		}
	}
	r.Require("delivery_intact_backend_cl", 1)
	r.Require("delivery_intact_backend_chunked", 1)
	r.Require("delivery_intact_failure_coded_response_of_last_attempt", 1)
	r.Require("delivery_intact_answered_at_second_attempt", 1)
}
