//go:build verif

package httpserver

import (
	"bufio"
	"fmt"
	"net"
	"net/http"
	"strings"
	"sync"
	"testing"
	"time"

	"github.com/megaease/easegress/pkg/context"
	"github.com/megaease/easegress/pkg/protocols/httpprot"
	"github.com/megaease/easegress/pkg/supervisor"
	"verif.local/kit"
)

// c11rtMapper: backend "slow" parks the request until the harness releases it (and tells
// the harness when it has been entered); every other backend echoes its name.
type c11rtMapper struct {
	mu      sync.Mutex
	entered chan string
	release chan struct{}
}

type c11rtHandler struct {
	name string
	m    *c11rtMapper
}

func (m *c11rtMapper) GetHandler(name string) (context.Handler, bool) {
	return &c11rtHandler{name: name, m: m}, true
}

func (h *c11rtHandler) Handle(ctx *context.Context) string {
	req := ctx.GetInputRequest().(*httpprot.Request)
	if strings.HasPrefix(h.name, "slow") {
		h.m.mu.Lock()
		ent, rel := h.m.entered, h.m.release
		h.m.mu.Unlock()
		ent <- h.name
		<-rel
	}
	resp, _ := httpprot.NewResponse(nil)
	resp.SetStatusCode(200)
	resp.HTTPHeader().Set(hdrBackend, h.name)
	resp.HTTPHeader().Set(hdrPath, req.Path())
	ctx.SetResponse(context.DefaultNamespace, resp)
	return ""
}

// c11rtSpec is generation k of a listening HTTPServer: routes /fast -> fast-<k>, /slow ->
// slow-<k>; opt selects which non-listener option differs from the previous generation.
func c11rtSpec(port int, k int, opt string) string {
	var b strings.Builder
	fmt.Fprintf(&b, "kind: HTTPServer\nname: c11rt\nport: %d\nkeepAlive: true\nhttps: false\n", port)
	switch opt {
	case "ipFilter":
		if k%2 == 1 {
			b.WriteString("ipFilter:\n  blockByDefault: false\n  blockIPs: [\"203.0.113.9\"]\n")
		}
	case "xForwardedFor":
		if k%2 == 1 {
			b.WriteString("xForwardedFor: true\n")
		}
	case "cacheSize":
		fmt.Fprintf(&b, "cacheSize: %d\n", 10+k)
	case "maxConnections":
		fmt.Fprintf(&b, "maxConnections: %d\n", 100+k)
	}
	fmt.Fprintf(&b, "rules:\n- paths:\n  - path: /fast\n    backend: fast-%d\n  - path: /slow\n    backend: slow-%d\n", k, k)
	return b.String()
}

type c11rtResp struct {
	Err     string `json:"err,omitempty"`
	Status  int    `json:"status,omitempty"`
	Backend string `json:"backend,omitempty"`
}

// c11rtGet sends one request on a FRESH connection.
func c11rtGet(addr, path string, timeout time.Duration) c11rtResp {
	c, err := net.DialTimeout("tcp", addr, 5*time.Second)
	if err != nil {
		return c11rtResp{Err: "dial: " + err.Error()}
	}
	defer c.Close()
	c.SetDeadline(time.Now().Add(timeout))
	fmt.Fprintf(c, "GET %s HTTP/1.1\r\nHost: h.test\r\nConnection: close\r\n\r\n", path)
	resp, err := http.ReadResponse(bufio.NewReader(c), nil)
	if err != nil {
		return c11rtResp{Err: "read: " + err.Error()}
	}
	resp.Body.Close()
	return c11rtResp{Status: resp.StatusCode, Backend: resp.Header.Get(hdrBackend)}
}

func c11rtFreePort() int {
	l, err := net.Listen("tcp", "127.0.0.1:0")
	if err != nil {
		return 0
	}
	defer l.Close()
	return l.Addr().(*net.TCPAddr).Port
}

// TestVerif_C11_Runtime: a real listening HTTPServer object is updated (Inherit) while a
// request is in flight; new connections must keep being served, by the old or the new
// generation, and the in-flight request must complete under its own generation.
func TestVerif_C11_Runtime(t *testing.T) {
	r := kit.Start(t, "C11")
	defer r.Finish()
	r.Rule("rig 4: a real HTTPServer object listening on a loopback port; per case a request is parked inside the old generation's backend, then HTTPServer.Inherit applies a generation that differs in the rules (generation marker in the backend names) and in one option that needs no listener restart (ipFilter / xForwardedFor / cacheSize / maxConnections / rules only); while the update is being applied requests on FRESH connections are sent until the new generation answers: none may be refused, reset or fail, each is served by the old or the new generation; then the parked request is released and must complete 200 under the old generation; distinct = (option changed, generations seen while updating)")
	r.Assume("the update has become visible when a fresh request is answered by the new generation's backend; the 30 s bound on that is a watchdog (inconclusive); options whose change legitimately restarts the listener (port, https, keepAlive, keepAliveTimeout, certificates, clientMaxBodySize, globalFilter) are not changed")
	opts := []string{"rules", "ipFilter", "xForwardedFor", "cacheSize", "maxConnections"}
	cases := r.N(10, 200)
	for i := 0; i < cases; i++ {
		if !r.Mine(i) {
			continue
		}
		opt := opts[i%len(opts)]
		r.Case(i, map[string]interface{}{"option": opt})
		// The probed port is free only at the moment of probing; on a shared machine another
		// process can take it before the server binds (and answer 200 to anything): the server
		// counts as up only when OUR generation 0 answers, otherwise another port is tried.
		var (
			port   int
			addr   string
			cur    *HTTPServer
			mapper *c11rtMapper
			up     bool
		)
		mkSpec := func(k int) *supervisor.Spec {
			s, err := supervisor.NewSpec(c11rtSpec(port, k, opt))
			if err != nil {
				t.Fatalf("spec rejected: %v", err)
			}
			return s
		}
		for try := 0; try < 4 && !up; try++ {
			if port = c11rtFreePort(); port == 0 {
				continue
			}
			addr = fmt.Sprintf("127.0.0.1:%d", port)
			mapper = &c11rtMapper{entered: make(chan string, 4), release: make(chan struct{})}
			cur = &HTTPServer{}
			cur.Init(mkSpec(0), mapper)
			for n := 0; n < 300 && !up; n++ {
				if g := c11rtGet(addr, "/fast", 5*time.Second); g.Status == 200 && g.Backend == "fast-0" {
					up = true
				} else {
					time.Sleep(10 * time.Millisecond)
				}
			}
			if !up {
				r.Count("runtime_port_lost_to_another_process_or_server_slow", 1)
				cur.Close()
			}
		}
		if !up {
			r.Inconclusive("server did not come up on " + addr)
			continue
		}
		gens := 2 + i%2
		abandoned := false
		for k := 1; k <= gens; k++ {
			// park one request in generation k-1
			slowDone := make(chan c11rtResp, 1)
			go func() { slowDone <- c11rtGet(addr, "/slow", 120*time.Second) }()
			select {
			case <-mapper.entered:
			case g := <-slowDone:
				// the request ended without ever entering its backend; it was sent after the
				// previous generation had been seen serving, so this is not the update under
				// test: recorded with its reason, the case is given up
				r.Inconclusive(fmt.Sprintf("parked request ended before reaching its backend: err=%q status=%d backend=%q", kit.MsgClass(g.Err), g.Status, g.Backend))
				abandoned = true
			case <-time.After(30 * time.Second):
				// the request may still arrive later and would then be taken for the parked
				// request of a later generation: give the whole case up
				r.Inconclusive("parked request never reached its backend")
				abandoned = true
			}
			if abandoned {
				break
			}
			next := &HTTPServer{}
			next.Inherit(mkSpec(k), cur, mapper)
			cur = next
			// fresh connections while the update is applied
			seen := map[string]bool{}
			visible := false
			deadline := time.Now().Add(30 * time.Second)
			for time.Now().Before(deadline) {
				g := c11rtGet(addr, "/fast", 10*time.Second)
				r.Eval(1)
				r.Count("runtime_fresh_requests_during_update", 1)
				switch {
				case g.Err != "":
					r.Violation("httpserver-hot-update:fresh-connection-failed-during-update:option="+opt+":"+kit.MsgClass(g.Err), map[string]interface{}{"option": opt, "generation": k, "observed": g})
					visible = true // stop probing this generation
				case g.Status != 200:
					r.Violation(fmt.Sprintf("httpserver-hot-update:request-failed-during-update:option=%s:status%d", opt, g.Status), map[string]interface{}{"option": opt, "generation": k, "observed": g})
					visible = true
				case g.Backend == fmt.Sprintf("fast-%d", k):
					seen["new"] = true
					visible = true
				case g.Backend == fmt.Sprintf("fast-%d", k-1):
					seen["old"] = true
				default:
					r.Violation("httpserver-hot-update:served-by-unknown-generation:option="+opt, map[string]interface{}{"option": opt, "generation": k, "observed": g})
					visible = true
				}
				if visible {
					break
				}
				time.Sleep(2 * time.Millisecond)
			}
			if !visible {
				r.Inconclusive("new generation not visible within the watchdog, option " + opt)
			}
			// the parked request completes under its own (old) generation
			mapper.mu.Lock()
			rel := mapper.release
			mapper.release = make(chan struct{})
			mapper.mu.Unlock()
			close(rel)
			select {
			case g := <-slowDone:
				if g.Err != "" || g.Status != 200 || g.Backend != fmt.Sprintf("slow-%d", k-1) {
					r.Violation("httpserver-hot-update:in-flight-request-did-not-complete-under-its-generation:option="+opt, map[string]interface{}{"option": opt, "generation": k, "observed": g})
				} else {
					r.Count("runtime_in_flight_requests_completed_after_update", 1)
				}
			case <-time.After(60 * time.Second):
				r.Inconclusive("parked request did not complete after release")
				abandoned = true
			}
			if abandoned {
				break
			}
			r.Cover(fmt.Sprintf("runtime/%s/old=%v/new=%v", opt, seen["old"], seen["new"]))
			r.Count("runtime_updates_applied_with_request_in_flight", 1)
		}
		if i < 2 {
			r.Sample(map[string]interface{}{"rig": "runtime", "option": opt, "spec_gen_1": c11rtSpec(port, 1, opt)})
		}
		if abandoned {
			// let a late parked request go so that Close does not wait for it
			mapper.mu.Lock()
			rel := mapper.release
			mapper.release = make(chan struct{})
			mapper.mu.Unlock()
			close(rel)
		}
		cur.Close()
	}
	r.Require("runtime_updates_applied_with_request_in_flight", 1)
	r.Require("runtime_in_flight_requests_completed_after_update", 1)
}
