//go:build verif

package httpserver

import (
	"bufio"
	"fmt"
	"math/rand"
	"net"
	"net/http"
	"os"
	"reflect"
	goruntime "runtime"
	"strings"
	"sync"
	"sync/atomic"
	"testing"
	"time"
	"unsafe"

	"github.com/megaease/easegress/pkg/context"
	"github.com/megaease/easegress/pkg/protocols/httpprot"
	"github.com/megaease/easegress/pkg/supervisor"
	"verif.local/kit"
)

// c11rtMapper: backend "slow" parks the request until the harness releases it (and tells
// the harness when it has been entered); every other backend echoes its name.
type c11rtMapper struct {
	mu      sync.Mutex
	entered chan string
	release chan struct{}
}

type c11rtHandler struct {
	name string
	m    *c11rtMapper
}

func (m *c11rtMapper) GetHandler(name string) (context.Handler, bool) {
	return &c11rtHandler{name: name, m: m}, true
}

func (h *c11rtHandler) Handle(ctx *context.Context) string {
	req := ctx.GetInputRequest().(*httpprot.Request)
	if strings.HasPrefix(h.name, "slow") {
		h.m.mu.Lock()
		ent, rel := h.m.entered, h.m.release
		h.m.mu.Unlock()
		ent <- h.name
		<-rel
	}
	resp, _ := httpprot.NewResponse(nil)
	resp.SetStatusCode(200)
	resp.HTTPHeader().Set(hdrBackend, h.name)
	resp.HTTPHeader().Set(hdrPath, req.Path())
	ctx.SetResponse(context.DefaultNamespace, resp)
	return ""
}

// c11rtSpec is generation k of a listening HTTPServer: routes /fast -> fast-<k>, /slow ->
// slow-<k>; opt selects which non-listener option differs from the previous generation.
func c11rtSpec(port int, k int, opt string) string {
	var b strings.Builder
	fmt.Fprintf(&b, "kind: HTTPServer\nname: c11rt\nport: %d\nkeepAlive: true\nhttps: false\n", port)
	switch opt {
	case "ipFilter":
		if k%2 == 1 {
			b.WriteString("ipFilter:\n  blockByDefault: false\n  blockIPs: [\"203.0.113.9\"]\n")
		}
	case "xForwardedFor":
		if k%2 == 1 {
			b.WriteString("xForwardedFor: true\n")
		}
	case "cacheSize":
		fmt.Fprintf(&b, "cacheSize: %d\n", 10+k)
	case "maxConnections":
		fmt.Fprintf(&b, "maxConnections: %d\n", 100+k)
	}
	fmt.Fprintf(&b, "rules:\n- paths:\n  - path: /fast\n    backend: fast-%d\n  - path: /slow\n    backend: slow-%d\n", k, k)
	return b.String()
}

type c11rtResp struct {
	Err     string `json:"err,omitempty"`
	Status  int    `json:"status,omitempty"`
	Backend string `json:"backend,omitempty"`
}

// c11rtGet sends one request on a FRESH connection.
func c11rtGet(addr, path string, timeout time.Duration) c11rtResp {
	c, err := net.DialTimeout("tcp", addr, 5*time.Second)
	if err != nil {
		return c11rtResp{Err: "dial: " + err.Error()}
	}
	defer c.Close()
	c.SetDeadline(time.Now().Add(timeout))
	fmt.Fprintf(c, "GET %s HTTP/1.1\r\nHost: h.test\r\nConnection: close\r\n\r\n", path)
	resp, err := http.ReadResponse(bufio.NewReader(c), nil)
	if err != nil {
		return c11rtResp{Err: "read: " + err.Error()}
	}
	resp.Body.Close()
	return c11rtResp{Status: resp.StatusCode, Backend: resp.Header.Get(hdrBackend)}
}

// c11rtFreePort picks a port below the kernel's ephemeral range (no ":0" listener and no
// outgoing connection of a neighbouring process is ever given such a port between this probe
// and the server's own bind) that can be bound on all interfaces right now.
func c11rtFreePort() int {
	seq := atomic.AddInt64(&c11rtPortSeq, 1)
	for try := 0; try < 400; try++ {
		p := 10000 + int((int64(os.Getpid())*131+seq*7919+int64(try)*13)%20000)
		l, err := net.Listen("tcp", fmt.Sprintf(":%d", p))
		if err != nil {
			continue
		}
		l.Close()
		return p
	}
	return 0
}

var c11rtPortSeq int64

// TestVerif_C11_Runtime: a real listening HTTPServer object is updated (Inherit) while a
// request is in flight; new connections must keep being served, by the old or the new
// generation, and the in-flight request must complete under its own generation.
func TestVerif_C11_Runtime(t *testing.T) {
	r := kit.Start(t, "C11")
	defer r.Finish()
	r.Rule("rig 4: a real HTTPServer object listening on a loopback port; per case a request is parked inside the old generation's backend, then HTTPServer.Inherit applies a generation that differs in the rules (generation marker in the backend names) and in one option that needs no listener restart (ipFilter / xForwardedFor / cacheSize / maxConnections / rules only); while the update is being applied requests on FRESH connections are sent until the new generation answers: none may be refused, reset or fail, each is served by the old or the new generation; then the parked request is released and must complete 200 under the old generation; distinct = (option changed, generations seen while updating)")
	r.Assume("the update has become visible when a fresh request is answered by the new generation's backend; the 30 s bound on that is a watchdog (inconclusive); options whose change legitimately restarts the listener (port, https, keepAlive, keepAliveTimeout, certificates, clientMaxBodySize, globalFilter) are not changed")
	opts := []string{"rules", "ipFilter", "xForwardedFor", "cacheSize", "maxConnections"}
	cases := r.N(10, 200)
	for i := 0; i < cases; i++ {
		if !r.Mine(i) {
			continue
		}
		opt := opts[i%len(opts)]
		r.Case(i, map[string]interface{}{"option": opt})
		// The probed port is free only at the moment of probing; on a shared machine another
		// process can take it before the server binds (and answer 200 to anything): the server
		// counts as up only when OUR generation 0 answers, otherwise another port is tried.
		var (
			port   int
			addr   string
			cur    *HTTPServer
			mapper *c11rtMapper
			up     bool
		)
		mkSpec := func(k int) *supervisor.Spec {
			s, err := supervisor.NewSpec(c11rtSpec(port, k, opt))
			if err != nil {
				t.Fatalf("spec rejected: %v", err)
			}
			return s
		}
		for try := 0; try < 4 && !up; try++ {
			if port = c11rtFreePort(); port == 0 {
				continue
			}
			addr = fmt.Sprintf("127.0.0.1:%d", port)
			mapper = &c11rtMapper{entered: make(chan string, 4), release: make(chan struct{})}
			cur = &HTTPServer{}
			cur.Init(mkSpec(0), mapper)
			for n := 0; n < 300 && !up; n++ {
				if g := c11rtGet(addr, "/fast", 5*time.Second); g.Status == 200 && g.Backend == "fast-0" {
					up = true
				} else {
					time.Sleep(10 * time.Millisecond)
				}
			}
			if !up {
				r.Count("runtime_port_lost_to_another_process_or_server_slow", 1)
				cur.Close()
			}
		}
		if !up {
			r.Inconclusive("server did not come up on " + addr)
			continue
		}
		gens := 2 + i%2
		abandoned := false
		for k := 1; k <= gens; k++ {
			// park one request in generation k-1
			slowDone := make(chan c11rtResp, 1)
			go func() { slowDone <- c11rtGet(addr, "/slow", 120*time.Second) }()
			select {
			case <-mapper.entered:
			case g := <-slowDone:
				// the request ended without ever entering its backend; it was sent after the
				// previous generation had been seen serving, so this is not the update under
				// test: recorded with its reason, the case is given up
				if ec := kit.MsgClass(g.Err); k > 1 && (strings.Contains(ec, "connection refused") || strings.Contains(ec, "connection reset")) {
					// ... unless the server's own port refused it after an update of this case
					// had been applied: the listener that had been seen serving is gone, which
					// only a restart of the server by that update explains (a loaded machine
					// delays a dial to a listening socket, it does not refuse it)
					r.Violation("httpserver-hot-update:request-after-update-refused-by-restarted-listener:option="+opt, map[string]interface{}{"option": opt, "generation_after_update": k - 1, "observed": g})
					abandoned = true
					break
				}
				r.Inconclusive(fmt.Sprintf("parked request ended before reaching its backend: err=%q status=%d backend=%q", kit.MsgClass(g.Err), g.Status, g.Backend))
				abandoned = true
			case <-time.After(30 * time.Second):
				// the request may still arrive later and would then be taken for the parked
				// request of a later generation: give the whole case up
				r.Inconclusive("parked request never reached its backend")
				abandoned = true
			}
			if abandoned {
				break
			}
			next := &HTTPServer{}
			next.Inherit(mkSpec(k), cur, mapper)
			cur = next
			// fresh connections while the update is applied
			seen := map[string]bool{}
			visible := false
			deadline := time.Now().Add(30 * time.Second)
			for time.Now().Before(deadline) {
				g := c11rtGet(addr, "/fast", 10*time.Second)
				r.Eval(1)
				r.Count("runtime_fresh_requests_during_update", 1)
				switch {
				case g.Err != "":
					r.Violation("httpserver-hot-update:fresh-connection-failed-during-update:option="+opt+":"+kit.MsgClass(g.Err), map[string]interface{}{"option": opt, "generation": k, "observed": g})
					visible = true // stop probing this generation
				case g.Status != 200:
					r.Violation(fmt.Sprintf("httpserver-hot-update:request-failed-during-update:option=%s:status%d", opt, g.Status), map[string]interface{}{"option": opt, "generation": k, "observed": g})
					visible = true
				case g.Backend == fmt.Sprintf("fast-%d", k):
					seen["new"] = true
					visible = true
				case g.Backend == fmt.Sprintf("fast-%d", k-1):
					seen["old"] = true
				default:
					r.Violation("httpserver-hot-update:served-by-unknown-generation:option="+opt, map[string]interface{}{"option": opt, "generation": k, "observed": g})
					visible = true
				}
				if visible {
					break
				}
				time.Sleep(2 * time.Millisecond)
			}
			if !visible {
				r.Inconclusive("new generation not visible within the watchdog, option " + opt)
			}
			// the parked request completes under its own (old) generation
			mapper.mu.Lock()
			rel := mapper.release
			mapper.release = make(chan struct{})
			mapper.mu.Unlock()
			close(rel)
			select {
			case g := <-slowDone:
				if g.Err != "" || g.Status != 200 || g.Backend != fmt.Sprintf("slow-%d", k-1) {
					r.Violation("httpserver-hot-update:in-flight-request-did-not-complete-under-its-generation:option="+opt, map[string]interface{}{"option": opt, "generation": k, "observed": g})
				} else {
					r.Count("runtime_in_flight_requests_completed_after_update", 1)
				}
			case <-time.After(60 * time.Second):
				r.Inconclusive("parked request did not complete after release")
				abandoned = true
			}
			if abandoned {
				break
			}
			r.Cover(fmt.Sprintf("runtime/%s/old=%v/new=%v", opt, seen["old"], seen["new"]))
			r.Count("runtime_updates_applied_with_request_in_flight", 1)
		}
		if i < 2 {
			r.Sample(map[string]interface{}{"rig": "runtime", "option": opt, "spec_gen_1": c11rtSpec(port, 1, opt)})
		}
		if abandoned {
			// let a late parked request go so that Close does not wait for it
			mapper.mu.Lock()
			rel := mapper.release
			mapper.release = make(chan struct{})
			mapper.mu.Unlock()
			close(rel)
		}
		cur.Close()
	}
	r.Require("runtime_updates_applied_with_request_in_flight", 1)
	r.Require("runtime_in_flight_requests_completed_after_update", 1)
}

// ---------------------------------------------------------------------------------------
// rig 5: option HISTORIES.  An option (maxConnections) is left unchanged by some updates and
// changed by later ones; after every update the value IN FORCE is observed through behaviour:
// as many simultaneous connections as the applied spec allows are opened and each request
// must enter its backend.

// c11hSpec is generation k of the history server: the rules carry k, maxConnections = maxConn,
// cacheSize = cache (the "other" hot-updatable option of the history).
func c11hSpec(port, k, maxConn, cache int) string {
	var b strings.Builder
	fmt.Fprintf(&b, "kind: HTTPServer\nname: c11h\nport: %d\nkeepAlive: true\nhttps: false\nmaxConnections: %d\n", port, maxConn)
	if cache > 0 {
		fmt.Fprintf(&b, "cacheSize: %d\n", cache)
	}
	fmt.Fprintf(&b, "rules:\n- paths:\n  - path: /fast\n    backend: fast-%d\n  - path: /slow\n    backend: slow-%d\n", k, k)
	return b.String()
}

// c11hAdjusters takes an atomic snapshot (runtime.Stack stops the world) of all goroutines and
// counts those that run the capacity adjustment of a connection limit (the goroutine started by
// sem.(*Semaphore).SetMaxCount, which the runtime's reload calls through
// limitListener.SetMaxConnection): waiting = parked in a channel receive, i.e. waiting for the
// adjustment requested before it; active = in any other state (runnable, running, acquiring
// permits).  The adjustments of one listener are requested one after the other by the fsm
// goroutine and form a chain in which each waits for its predecessor only: when at least one
// waits and none is active, the head of some chain waits for a signal no goroutine can give any
// more - that adjustment can never take effect, however long one waits.
func c11hAdjusters() (waiting, active int) {
	buf := make([]byte, 1<<20)
	for {
		n := goruntime.Stack(buf, true)
		if n < len(buf) {
			buf = buf[:n]
			break
		}
		buf = make([]byte, 2*len(buf))
	}
	for _, g := range strings.Split(string(buf), "\n\n") {
		if !strings.Contains(g, "pkg/util/sem.(*Semaphore).SetMaxCount.func") {
			continue
		}
		// only goroutines whose OWN frames are in the adjustment function, not the one
		// that merely created it
		own := false
		for _, ln := range strings.Split(g, "\n") {
			if strings.Contains(ln, "pkg/util/sem.(*Semaphore).SetMaxCount.func") && !strings.HasPrefix(ln, "created by") {
				own = true
			}
		}
		if !own {
			continue
		}
		hdr := g
		if j := strings.IndexByte(g, '\n'); j >= 0 {
			hdr = g[:j]
		}
		if strings.Contains(hdr, "[chan receive") {
			waiting++
		} else {
			active++
		}
	}
	return
}

// c11hHandedOver returns the capacity that the runtime has REQUESTED from its limit listener so far
// (Semaphore.realCapacity, read under the semaphore's own lock), after the fsm has finished
// every reload sent to it: a stale serve-failure event (start number 0, ignored by the fsm)
// is queued behind them and the call waits until the queue has been drained.  ok=false: not
// observable (fields renamed, queue not drained within the watchdog).  Must be called after a
// backend was seen entered (happens-before edge for rt.limitListener, which startServer
// assigns before the first connection is accepted; the histories never restart the listener).
func c11hHandedOver(rt *runtime) (n int64, ok bool) {
	select {
	case rt.eventChan <- &eventServeFailed{err: fmt.Errorf("c11 barrier"), startNum: 0}:
	case <-time.After(30 * time.Second):
		return 0, false
	}
	for dl := time.Now().Add(30 * time.Second); len(rt.eventChan) != 0; time.Sleep(time.Millisecond) {
		if time.Now().After(dl) {
			return 0, false
		}
	}
	defer func() {
		if recover() != nil {
			n, ok = 0, false
		}
	}()
	if rt.limitListener == nil {
		return 0, false
	}
	sv := reflect.ValueOf(rt.limitListener).Elem().FieldByName("sem")
	if !sv.IsValid() || sv.Kind() != reflect.Ptr || sv.IsNil() {
		return 0, false
	}
	se := reflect.NewAt(sv.Type().Elem(), unsafe.Pointer(sv.Pointer())).Elem()
	lk, rc := se.FieldByName("lock"), se.FieldByName("realCapacity")
	if !lk.IsValid() || !rc.IsValid() || lk.Type() != reflect.TypeOf(sync.Mutex{}) || rc.Kind() != reflect.Int64 {
		return 0, false
	}
	mu := (*sync.Mutex)(unsafe.Pointer(lk.UnsafeAddr()))
	mu.Lock()
	n = *(*int64)(unsafe.Pointer(rc.UnsafeAddr()))
	mu.Unlock()
	return n, true
}

type c11hStep struct {
	Kind  string `json:"kind"` // rules | other | raise | lower
	Cap   int    `json:"maxConnections"`
	Cache int    `json:"cacheSize"`
}

// c11hHistory draws cap0 and the update history.  Every third case is the template
// create -> rules-only -> change -> rules-only -> change back; the others are random mixes.
func c11hHistory(rng *rand.Rand, i int, thorough bool) (cap0 int, steps []c11hStep) {
	cap0 = 2 + rng.Intn(4) // 2..5
	var kinds []string
	if i%3 == 0 {
		ch, back := "raise", "lower"
		if (i/3)%2 == 1 && cap0 > 2 {
			ch, back = "lower", "raise"
		}
		kinds = []string{"rules", ch, []string{"rules", "other"}[rng.Intn(2)], back}
	} else {
		n := 4 + rng.Intn(2)
		if thorough {
			n = 4 + rng.Intn(5)
		}
		for j := 0; j < n; j++ {
			kinds = append(kinds, []string{"rules", "rules", "other", "raise", "lower"}[rng.Intn(5)])
		}
	}
	cur, cache := cap0, 0
	for _, kd := range kinds {
		if kd == "raise" && cur >= 6 {
			kd = "lower"
		} else if kd == "lower" && cur <= 2 {
			kd = "raise"
		}
		switch kd {
		case "raise":
			cur += 1 + rng.Intn(6-cur)
		case "lower":
			cur -= 1 + rng.Intn(cur-2)
		case "other":
			cache = 8 + rng.Intn(8)*2 + (1 - cache%2) // differs from the previous value
		}
		steps = append(steps, c11hStep{Kind: kd, Cap: cur, Cache: cache})
	}
	return
}

// TestVerif_C11_RuntimeOptionHistory: see the Rule text.
func TestVerif_C11_RuntimeOptionHistory(t *testing.T) {
	r := kit.Start(t, "C11")
	defer r.Finish()
	r.Rule("rig 5 (option histories): a real HTTPServer object listening on a loopback port is created with maxConnections in 2..5 and taken through 4-8 hot updates (HTTPServer.Inherit), each of kind rules-only | other option (cacheSize) | maxConnections raised | maxConnections lowered (values 2..6), so that the option is left unchanged by some updates and changed by later ones (every third case: create -> rules-only -> change -> rules-only -> change back); the rules carry the generation number; in half of the cases one request stays parked inside the previous generation's backend while the update is applied; after each update has become visible (a fresh request answered by the new generation) as many requests as the APPLIED spec's maxConnections allows are held simultaneously on connections of their own (the in-flight one included) and every one of them must ENTER its backend under the new generation: when the limit was raised this needs the new limit to be in force, not the old one; then all are released and must complete 200 under the generation that they entered; verdict for a limit that is not in force: an atomic goroutine snapshot shows that the capacity adjustment requested by the update waits for an earlier one while no adjustment goroutine is active any more (it can never take effect), or the capacity requested from the listener (read under the semaphore's lock once the fsm has drained its queue) is not the applied spec's value; a watchdog alone is inconclusive; distinct = (kind of the update, kind of the update before it, direction old cap -> new cap, request in flight)")
	r.Assume("the update has become visible when a fresh request is answered by the new generation's backend; maxConnections = number of simultaneously open connections the listener accepts (the accept loop takes its permit before accepting, so exactly maxConnections connections can be open and served); SetMaxConnection is only called by the runtime's fsm goroutine, one call after the other; watchdogs of 30-60 s are inconclusive, never violations")
	cases := r.N(12, 120)
	for i := 0; i < cases; i++ {
		if !r.Mine(i) {
			continue
		}
		rng := r.CaseRand(i)
		cap0, steps := c11hHistory(rng, i, cases > 12)
		inflight := rng.Intn(2) == 0
		r.Case(i, map[string]interface{}{"cap0": cap0, "steps": steps, "request_in_flight_across_updates": inflight})
		var (
			port   int
			addr   string
			cur    *HTTPServer
			mapper *c11rtMapper
			up     bool
		)
		mkSpec := func(k, maxConn, cache int) *supervisor.Spec {
			s, err := supervisor.NewSpec(c11hSpec(port, k, maxConn, cache))
			if err != nil {
				t.Fatalf("spec rejected: %v", err)
			}
			return s
		}
		for try := 0; try < 4 && !up; try++ {
			if port = c11rtFreePort(); port == 0 {
				continue
			}
			addr = fmt.Sprintf("127.0.0.1:%d", port)
			mapper = &c11rtMapper{entered: make(chan string, 32), release: make(chan struct{})}
			cur = &HTTPServer{}
			cur.Init(mkSpec(0, cap0, 0), mapper)
			for n := 0; n < 300 && !up; n++ {
				if g := c11rtGet(addr, "/fast", 5*time.Second); g.Status == 200 && g.Backend == "fast-0" {
					up = true
				} else {
					time.Sleep(10 * time.Millisecond)
				}
			}
			if !up {
				r.Count("runtime_port_lost_to_another_process_or_server_slow", 1)
				cur.Close()
			}
		}
		if !up {
			r.Inconclusive("server did not come up on " + addr)
			continue
		}
		if i < 2 {
			r.Sample(map[string]interface{}{"rig": "runtime-option-history", "cap0": cap0, "steps": steps, "request_in_flight_across_updates": inflight})
		}
		// adjustment goroutines that wait already (of servers of earlier cases) are not this
		// server's
		baseWaiting, _ := c11hAdjusters()
		releaseAll := func() {
			mapper.mu.Lock()
			rel := mapper.release
			mapper.release = make(chan struct{})
			mapper.mu.Unlock()
			close(rel)
		}
		type parked struct {
			gen  int
			done chan c11rtResp
		}
		var held []parked // requests that have entered their backend and are parked there
		park := func(gen int) parked {
			p := parked{gen: gen, done: make(chan c11rtResp, 1)}
			go func() { p.done <- c11rtGet(addr, "/slow", 150*time.Second) }()
			return p
		}
		abandoned := false
		prevKind, prevCap := "create", cap0
		for k := 1; k <= len(steps) && !abandoned; k++ {
			st := steps[k-1]
			dir := "same"
			if st.Cap > prevCap {
				dir = "raised"
			} else if st.Cap < prevCap {
				dir = "lowered"
			}
			ctx := map[string]interface{}{"generation": k, "update": st, "previous_update": prevKind, "previous_maxConnections": prevCap}
			// in half of the cases one request is in flight in generation k-1 while k is applied
			if inflight {
				p := park(k - 1)
				select {
				case name := <-mapper.entered:
					if name != fmt.Sprintf("slow-%d", k-1) {
						r.Violation("httpserver-hot-update:stale-generation-after-update-visible:option-history", map[string]interface{}{"context": ctx, "entered_backend": name})
					}
					held = append(held, p)
				case g := <-p.done:
					r.Inconclusive(fmt.Sprintf("option history: request ended before reaching its backend: err=%q status=%d backend=%q", kit.MsgClass(g.Err), g.Status, g.Backend))
					abandoned = true
				case <-time.After(30 * time.Second):
					r.Inconclusive("option history: request to be held across the update never reached its backend")
					abandoned = true
				}
				if abandoned {
					break
				}
			}
			next := &HTTPServer{}
			next.Inherit(mkSpec(k, st.Cap, st.Cache), cur, mapper)
			cur = next
			// the update becomes visible
			visible := false
			deadline := time.Now().Add(30 * time.Second)
			for !visible && !abandoned && time.Now().Before(deadline) {
				g := c11rtGet(addr, "/fast", 10*time.Second)
				r.Eval(1)
				switch {
				case g.Err != "":
					r.Violation("httpserver-hot-update:fresh-connection-failed-during-update:option=maxConnections-history:"+dir+":"+kit.MsgClass(g.Err), map[string]interface{}{"context": ctx, "observed": g})
					abandoned = true
				case g.Status != 200:
					r.Violation(fmt.Sprintf("httpserver-hot-update:request-failed-during-update:option=maxConnections-history:%s:status%d", dir, g.Status), map[string]interface{}{"context": ctx, "observed": g})
					abandoned = true
				case g.Backend == fmt.Sprintf("fast-%d", k):
					visible = true
				case g.Backend == fmt.Sprintf("fast-%d", k-1):
					time.Sleep(2 * time.Millisecond)
				default:
					r.Violation("httpserver-hot-update:served-by-unknown-generation:option=maxConnections-history", map[string]interface{}{"context": ctx, "observed": g})
					abandoned = true
				}
			}
			if abandoned {
				break
			}
			if !visible {
				r.Inconclusive("option history: new generation not visible within the watchdog")
				abandoned = true
				break
			}
			// as many simultaneous connections as the applied spec allows: each must enter
			var fresh []parked
			for n := len(held); n < st.Cap; n++ {
				fresh = append(fresh, park(k))
			}
			entered, ended, handedChecked := 0, 0, false
			deadline = time.Now().Add(60 * time.Second)
			tick := time.NewTicker(50 * time.Millisecond)
			for entered+ended < len(fresh) && !abandoned {
				select {
				case name := <-mapper.entered:
					entered++
					if name != fmt.Sprintf("slow-%d", k) {
						r.Violation("httpserver-hot-update:stale-generation-after-update-visible:option-history", map[string]interface{}{"context": ctx, "entered_backend": name})
					}
				case <-tick.C:
					// a request that ended without entering (refused, reset)?
					for _, p := range fresh {
						select {
						case g := <-p.done:
							ended++
							r.Violation("httpserver-hot-update:connection-within-applied-maxConnections-failed:"+dir+":"+kit.MsgClass(g.Err), map[string]interface{}{"context": ctx, "observed": g, "entered": entered + len(held), "allowed_by_applied_spec": st.Cap})
							p.done <- g
						default:
						}
					}
					if ended > 0 {
						abandoned = true
						break
					}
					if w, a := c11hAdjusters(); a == 0 && w > baseWaiting {
						// deterministic witness: the adjustment can never take effect
						r.Violation("httpserver-hot-update:new-option-never-in-force:maxConnections:"+dir, map[string]interface{}{
							"context": ctx, "entered_simultaneously": entered + len(held), "allowed_by_applied_spec": st.Cap,
							"witness": fmt.Sprintf("%d capacity adjustment goroutine(s) of the limit listener wait for an earlier adjustment, none is active: the new limit can never take effect while the new rules are being served", w-baseWaiting)})
						abandoned = true
					} else if !handedChecked && entered+len(held) > 0 {
						// not all have entered yet and no dead adjustment: was the new value handed
						// to the listener at all?  (deterministic once the fsm has drained its queue)
						handedChecked = true
						if n, ok := c11hHandedOver(cur.runtime); ok && n != int64(st.Cap) {
							r.Violation("httpserver-hot-update:limit-handed-to-listener-differs-from-applied-spec:maxConnections:"+dir, map[string]interface{}{"context": ctx, "handed_to_listener": n, "applied_spec": st.Cap, "entered_simultaneously": entered + len(held)})
							abandoned = true
						}
					} else if time.Now().After(deadline) {
						r.Inconclusive(fmt.Sprintf("option history: only %d of %d simultaneous requests entered their backend within the watchdog (%s, previous update %s)", entered+len(held), st.Cap, dir, prevKind))
						abandoned = true
					}
				}
			}
			tick.Stop()
			if abandoned {
				break
			}
			held = append(held, fresh...)
			// also when everything entered (limit lowered or unchanged): an adjustment that can
			// never take effect leaves the old limit in force
			if w, a := c11hAdjusters(); a == 0 && w > baseWaiting {
				r.Violation("httpserver-hot-update:new-option-never-in-force:maxConnections:"+dir, map[string]interface{}{
					"context": ctx, "entered_simultaneously": len(held), "allowed_by_applied_spec": st.Cap,
					"witness": fmt.Sprintf("%d capacity adjustment goroutine(s) of the limit listener wait for an earlier adjustment, none is active: the new limit can never take effect while the new rules are being served", w-baseWaiting)})
				abandoned = true
				break
			}
			// the value the fsm handed to the listener while applying generation k is the spec's
			if n, ok := c11hHandedOver(cur.runtime); !ok {
				r.Count("runtime_history_handed_over_limit_not_observable", 1)
			} else if n != int64(st.Cap) {
				r.Violation("httpserver-hot-update:limit-handed-to-listener-differs-from-applied-spec:maxConnections:"+dir, map[string]interface{}{"context": ctx, "handed_to_listener": n, "applied_spec": st.Cap, "entered_simultaneously": len(held)})
				abandoned = true
				break
			} else {
				r.Count("runtime_history_handed_over_limit_equals_applied_spec", 1)
			}
			r.Count("runtime_history_applied_limit_fully_used", 1)
			unchangedBefore := prevKind == "rules" || prevKind == "other"
			if dir == "raised" {
				r.Count("runtime_history_raised_limit_fully_used", 1)
				if unchangedBefore {
					r.Count("runtime_history_raised_limit_fully_used_after_update_that_left_it_unchanged", 1)
				}
			}
			if dir == "lowered" && unchangedBefore {
				r.Count("runtime_history_lowered_limit_after_update_that_left_it_unchanged", 1)
			}
			if dir == "same" && (prevKind == "raise" || prevKind == "lower") {
				r.Count("runtime_history_limit_kept_by_update_after_change", 1)
			}
			// release: each completes under the generation it entered
			releaseAll()
			for _, p := range held {
				select {
				case g := <-p.done:
					if g.Err != "" || g.Status != 200 || g.Backend != fmt.Sprintf("slow-%d", p.gen) {
						r.Violation("httpserver-hot-update:in-flight-request-did-not-complete-under-its-generation:option=maxConnections-history", map[string]interface{}{"context": ctx, "entered_generation": p.gen, "observed": g})
					} else {
						r.Count("runtime_history_parked_requests_completed", 1)
					}
				case <-time.After(60 * time.Second):
					r.Inconclusive("option history: parked request did not complete after release")
					abandoned = true
				}
				r.Eval(1)
			}
			held = nil
			r.Cover(fmt.Sprintf("runtime-history/%s/after=%s/%d->%d/inflight=%v", st.Kind, prevKind, prevCap, st.Cap, inflight))
			prevKind, prevCap = st.Kind, st.Cap
		}
		if abandoned {
			releaseAll() // parked requests must not keep Close waiting
		}
		cur.Close()
	}
	r.Require("runtime_history_applied_limit_fully_used", 1)
	r.Require("runtime_history_raised_limit_fully_used_after_update_that_left_it_unchanged", 1)
	r.Require("runtime_history_lowered_limit_after_update_that_left_it_unchanged", 1)
	r.Require("runtime_history_limit_kept_by_update_after_change", 1)
	r.Require("runtime_history_parked_requests_completed", 1)
	r.Require("runtime_history_handed_over_limit_equals_applied_spec", 1)
}
