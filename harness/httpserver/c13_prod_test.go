//go:build verif

package httpserver

// C13 section products.  Objects (and the Proxy filter) whose spec consists of several
// sub-specs ("sections") are validated section by section, often by one Validate() that
// walks the sections in order.  The single-point mutations of c13_mut_test.go change ONE
// node of a seed in which every other section is present and valid, so a combination
// like {section A: absent or degenerate, section B: invalid} is practically never
// generated, although it is exactly what exposes a validation that stops looking after
// section A.  This file adds the systematic class: per kind a list of sections, per
// section a list of variants (absent, null, empty, several valid shapes, several invalid
// kinds), and the cross product of the variants over the sections.
//
//   full product <= x13ProdFullCap tuples : every tuple (both tiers)
//   larger                                 : every PAIR of sections in every pair of
//                                            variants, the other sections at their default
//                                            (variant 0, valid); the thorough tier adds the
//                                            full product (or a seeded sample of it)
//
// The verdict of every tuple is validation's own: the labels valid/invalid below are
// names, never an oracle.  Accepted tuples are instantiated and driven exactly like
// every other C13 case.

import (
	"fmt"
	"math/rand"
	"strings"
	"time"
)

const (
	x13ProdFullCap     = 420   // quick and thorough: products up to this size are run completely
	x13ProdThoroughCap = 12000 // thorough: upper bound of tuples per product
)

type x13Variant struct {
	Name string
	YAML string // a mapping; its keys are merged into the section's parent node ("" = nothing set)
}

type x13Section struct {
	Name string
	At   string // dotted path of the parent mapping ("" = the root of the spec)
	Vars []x13Variant
}

type x13Product struct {
	Kind string
	Cat  x13Cat
	Base string
	Secs []x13Section

	base   map[string]interface{}
	frags  [][]map[string]interface{}
	tuples [][]int
}

func x13V(name, y string) x13Variant { return x13Variant{Name: name, YAML: y} }

// build composes the spec of one tuple.  A section whose parent node does not exist in
// this tuple (e.g. rules[0].paths when `rules` is absent) is not applicable: na.
func (p *x13Product) build(tuple []int) (tree map[string]interface{}, names []string, na bool) {
	tree = x13Clone(p.base).(map[string]interface{})
	for s := range p.Secs {
		v := tuple[s]
		names = append(names, p.Secs[s].Name+"="+p.Secs[s].Vars[v].Name)
		var parent interface{} = tree
		if p.Secs[s].At != "" {
			var ok bool
			parent, ok = x13Get(tree, x13P(p.Secs[s].At))
			if !ok {
				na = true
				continue
			}
		}
		pm, ok := parent.(map[string]interface{})
		if !ok {
			na = true
			continue
		}
		for k, val := range p.frags[s][v] {
			pm[k] = x13Clone(val)
		}
	}
	return
}

func (p *x13Product) prepare(rep *strings.Replacer, thorough bool, rng *rand.Rand) {
	p.base = x13ParseYAML(rep.Replace(p.Base))
	p.frags = make([][]map[string]interface{}, len(p.Secs))
	full := 1
	for s := range p.Secs {
		for _, v := range p.Secs[s].Vars {
			f := map[string]interface{}{}
			if strings.TrimSpace(v.YAML) != "" {
				f = x13ParseYAML(rep.Replace(v.YAML))
			}
			p.frags[s] = append(p.frags[s], f)
		}
		full *= len(p.Secs[s].Vars)
	}
	seen := map[string]bool{}
	add := func(t []int) {
		k := fmt.Sprint(t)
		if seen[k] {
			return
		}
		seen[k] = true
		// a tuple with a non-applicable section in a non-default variant is a duplicate of
		// the tuple with that section at its default
		for s := range p.Secs {
			if t[s] != 0 && p.sectionNA(t, s) {
				return
			}
		}
		p.tuples = append(p.tuples, append([]int{}, t...))
	}
	decode := func(idx int) []int {
		t := make([]int, len(p.Secs))
		for s := len(p.Secs) - 1; s >= 0; s-- {
			n := len(p.Secs[s].Vars)
			t[s] = idx % n
			idx /= n
		}
		return t
	}
	if full <= x13ProdFullCap {
		for i := 0; i < full; i++ {
			add(decode(i))
		}
		return
	}
	add(make([]int, len(p.Secs)))
	for a := 0; a < len(p.Secs); a++ {
		for b := a + 1; b < len(p.Secs); b++ {
			for va := range p.Secs[a].Vars {
				for vb := range p.Secs[b].Vars {
					t := make([]int, len(p.Secs))
					t[a], t[b] = va, vb
					add(t)
				}
			}
		}
	}
	if !thorough {
		return
	}
	if full <= x13ProdThoroughCap {
		for i := 0; i < full; i++ {
			add(decode(i))
		}
		return
	}
	for tries := 0; len(p.tuples) < x13ProdThoroughCap && tries < 4*x13ProdThoroughCap; tries++ {
		add(decode(rng.Intn(full)))
	}
}

// sectionNA tells whether section s has no parent node in tuple t.
func (p *x13Product) sectionNA(t []int, s int) bool {
	if p.Secs[s].At == "" {
		return false
	}
	// compose the sections before s only: a parent is always provided by an earlier section
	tree := x13Clone(p.base).(map[string]interface{})
	for q := 0; q < s; q++ {
		var parent interface{} = tree
		if p.Secs[q].At != "" {
			var ok bool
			if parent, ok = x13Get(tree, x13P(p.Secs[q].At)); !ok {
				continue
			}
		}
		if pm, ok := parent.(map[string]interface{}); ok {
			for k, val := range p.frags[q][t[q]] {
				pm[k] = x13Clone(val)
			}
		}
	}
	parent, ok := x13Get(tree, x13P(p.Secs[s].At))
	if !ok {
		return true
	}
	_, isMap := parent.(map[string]interface{})
	return !isMap
}

func x13ProdCounter(kind, what string) string {
	return strings.ToLower(kind) + "_products_" + what
}

// runProduct runs one tuple of a section product like any other C13 case.
func (h *x13H) runProduct(i int, c x13Case) {
	r := h.r
	p := c.prod
	tree, names, _ := p.build(c.tuple)
	h.kind = p.Kind
	h.reqClass, h.caseSigs = "", map[string]bool{}
	h.caseIdx, h.boundFull = i, false
	h.desc = map[string]interface{}{"kind": p.Kind, "seed": p.Kind + "#sections", "mutations": names, "yaml": x13ToYAML(tree)}
	r.Case(i, h.desc)
	r.Count(x13ProdCounter(p.Kind, "total"), 1)
	before := r.Counter("panics/" + h.kind)
	t0 := time.Now()
	defer func() { r.Count("ms/"+h.kind, time.Since(t0).Milliseconds()) }()
	pseudo := &x13Seed{Kind: p.Kind, ID: p.Kind + "#sections", Cat: p.Cat}
	var accepted bool
	switch p.Cat {
	case x13FilterHTTP, x13FilterMQTT:
		accepted = h.runFilter(pseudo, tree)
	case x13Pipeline:
		accepted = h.runPipeline(pseudo, tree)
	case x13GlobalFilter:
		accepted = h.runGlobalFilter(pseudo, tree)
	case x13HTTPServer:
		accepted = h.runHTTPServer(pseudo, tree)
	case x13MQTTProxy:
		accepted = h.runMQTTProxy(pseudo, tree)
	}
	outcome := "rejected"
	if accepted {
		outcome = "ok"
		r.Count(x13ProdCounter(p.Kind, "accepted"), 1)
		if r.Counter("panics/"+h.kind) > before {
			outcome = "panic"
			r.Count(x13ProdCounter(p.Kind, "panicked"), 1)
		}
	} else {
		r.Count(x13ProdCounter(p.Kind, "rejected"), 1)
	}
	allDefault := true
	for _, v := range c.tuple {
		if v != 0 {
			allDefault = false
		}
	}
	if allDefault && !accepted {
		r.Inconclusive("section product of " + p.Kind + ": the all-default tuple is rejected by validation (harness outdated?): " + h.validationError(pseudo, tree))
	}
	r.Cover(p.Kind + ":sections:" + strings.Join(names, ",") + ":" + outcome)
	if i%53 == 0 {
		r.Sample(map[string]interface{}{"kind": p.Kind, "sections": names, "outcome": outcome})
	}
}

// ---------------------------------------------------------------- variants of the pipeline grammar

// x13PipeSectionVariants: one sub-spec of the Pipeline grammar (flow + filters +
// resilience) under `key`, as used by GlobalFilter.beforePipeline / afterPipeline.
func x13PipeSectionVariants(key, p string) []x13Variant {
	ad := "  - name: " + p + "-ad\n    kind: ResponseAdaptor\n    header:\n      set:\n        X-Gf-" + p + ": \"1\"\n"
	if p == "b" {
		ad = "  - name: " + p + "-ad\n    kind: RequestAdaptor\n    header:\n      set:\n        X-Gf-" + p + ": \"1\"\n"
	}
	val := "  - name: " + p + "-val\n    kind: Validator\n    headers:\n      X-Trace:\n        regexp: \"^[a-z0-9-]*$\"\n"
	k := key + ":\n"
	return []x13Variant{
		x13V("valid", k+"  flow:\n  - filter: "+p+"-ad\n  filters:\n"+ad),
		x13V("absent", ""),
		x13V("null", key+": null\n"),
		x13V("filters-only", k+"  filters:\n"+ad),
		x13V("empty-flow", k+"  flow: []\n  filters:\n"+ad),
		x13V("valid-jump", k+"  flow:\n  - filter: "+p+"-val\n    jumpIf:\n      invalid: END\n  - filter: "+p+"-ad\n  filters:\n"+val+ad),
		x13V("valid-resilience", k+"  flow:\n  - filter: "+p+"-ad\n  filters:\n"+ad+"  resilience:\n  - name: r\n    kind: Retry\n    maxAttempts: 2\n    waitDuration: 1ms\n"),
		x13V("end-only", k+"  flow:\n  - filter: END\n  filters:\n"+ad),
		x13V("inv-flow-undefined-filter", k+"  flow:\n  - filter: "+p+"-ad\n  - filter: ghost\n  filters:\n"+ad),
		x13V("inv-jump-unknown-result", k+"  flow:\n  - filter: "+p+"-ad\n    jumpIf:\n      nosuchresult: END\n  filters:\n"+ad),
		x13V("inv-jump-unknown-target", k+"  flow:\n  - filter: "+p+"-val\n    jumpIf:\n      invalid: nowhere\n  - filter: "+p+"-ad\n  filters:\n"+val+ad),
		x13V("inv-jump-backward", k+"  flow:\n  - filter: "+p+"-ad\n  - filter: "+p+"-val\n    jumpIf:\n      invalid: "+p+"-ad\n  filters:\n"+val+ad),
		x13V("inv-unknown-kind", k+"  flow:\n  - filter: "+p+"-x\n  filters:\n  - name: "+p+"-x\n    kind: NoSuchKind\n"),
		x13V("inv-filter-spec", k+"  flow:\n  - filter: "+p+"-px\n  filters:\n  - name: "+p+"-px\n    kind: Proxy\n    pools: []\n"),
		x13V("inv-dup-filter-names", k+"  flow:\n  - filter: "+p+"-ad\n  filters:\n"+ad+ad),
		x13V("inv-resilience-kind", k+"  flow:\n  - filter: "+p+"-ad\n  filters:\n"+ad+"  resilience:\n  - name: r\n    kind: NoSuchPolicy\n"),
		x13V("inv-flow-without-filters", k+"  flow:\n  - filter: "+p+"-ad\n"),
		x13V("noflow-unknown-kind", k+"  filters:\n  - name: "+p+"-x\n    kind: NoSuchKind\n"),
	}
}

func x13IPFilterVariants(key string) []x13Variant {
	k := key + ":\n"
	return []x13Variant{
		x13V("absent", ""),
		x13V("valid", k+"  blockByDefault: false\n  allowIPs: [127.0.0.1, 10.0.0.0/8]\n  blockIPs: [192.168.0.0/16]\n"),
		x13V("block-by-default", k+"  blockByDefault: true\n"),
		x13V("null", key+": null\n"),
		x13V("empty", key+": {}\n"),
		x13V("inv-ip", k+"  blockByDefault: false\n  allowIPs: [not-an-ip]\n"),
		x13V("inv-cidr", k+"  blockByDefault: true\n  blockIPs: [10.0.0.0/99]\n"),
	}
}

// ---------------------------------------------------------------- the products

func x13Products(e *x13Env) []*x13Product {
	var out []*x13Product

	// ------------------------------------------------------------------ GlobalFilter
	out = append(out, &x13Product{
		Kind: "GlobalFilter", Cat: x13GlobalFilter,
		Base: "kind: GlobalFilter\nname: globalfilter\n",
		Secs: []x13Section{
			{Name: "before", Vars: x13PipeSectionVariants("beforePipeline", "b")},
			{Name: "after", Vars: x13PipeSectionVariants("afterPipeline", "a")},
		},
	})

	// ------------------------------------------------------------------ Pipeline
	fFull := `
filters:
- name: f0
  kind: RequestAdaptor
  header:
    set:
      X-P: "1"
- name: f1
  kind: Validator
  headers:
    X-Trace:
      regexp: "^[a-z0-9-]*$"
- name: px
  kind: Proxy
  pools:
  - servers:
    - url: @BACKEND@
    failureCodes: [503]
    retryPolicy: retry
    circuitBreakerPolicy: breaker
- name: f2
  kind: ResponseAdaptor
  header:
    set:
      X-Pipeline: "1"
`
	f1 := "- name: f1\n  kind: Validator\n  headers:\n    X-Trace:\n      regexp: \"^[a-z0-9-]*$\"\n"
	f2 := "- name: f2\n  kind: ResponseAdaptor\n  header:\n    set:\n      X-Pipeline: \"1\"\n"
	retry := "- name: retry\n  kind: Retry\n  maxAttempts: 2\n  waitDuration: 1ms\n"
	breaker := "- name: breaker\n  kind: CircuitBreaker\n  slidingWindowSize: 4\n  minimumNumberOfCalls: 2\n  waitDurationInOpenState: 5ms\n"
	out = append(out, &x13Product{
		Kind: "Pipeline", Cat: x13Pipeline,
		Base: "kind: Pipeline\nname: pipeline\n",
		Secs: []x13Section{
			{Name: "filters", Vars: []x13Variant{
				x13V("full", fFull),
				x13V("minimal", "filters:\n"+f1+f2),
				x13V("absent", ""),
				x13V("empty", "filters: []\n"),
				x13V("null", "filters: null\n"),
				x13V("inv-unknown-kind", "filters:\n- name: f1\n  kind: NoSuchKind\n"+f2),
				x13V("inv-dup-names", "filters:\n"+f1+f1+f2),
				x13V("inv-named-END", "filters:\n"+f1+f2+"- name: END\n  kind: Mock\n  rules:\n  - code: 200\n"),
				x13V("inv-filter-spec", "filters:\n"+f1+f2+"- name: px\n  kind: Proxy\n  pools: []\n"),
				x13V("list+null", "filters:\n"+f1+"- null\n"+f2),
			}},
			{Name: "flow", Vars: []x13Variant{
				x13V("linear", "flow:\n- filter: f1\n- filter: f2\n"),
				x13V("absent", ""),
				x13V("empty", "flow: []\n"),
				x13V("null", "flow: null\n"),
				x13V("jump-END", "flow:\n- filter: f1\n  jumpIf:\n    invalid: END\n- filter: f2\n"),
				x13V("jump-alias", "flow:\n- filter: f1\n  jumpIf:\n    invalid: last\n- filter: END\n- filter: f2\n  alias: last\n"),
				x13V("end-only", "flow:\n- filter: END\n"),
				x13V("uses-proxy", "flow:\n- filter: f1\n- filter: px\n  jumpIf:\n    serverError: f2\n    failureCode: f2\n- filter: END\n- filter: f2\n"),
				x13V("same-filter-twice", "flow:\n- filter: f1\n- filter: f2\n- filter: f1\n  alias: again\n"),
				x13V("inv-undefined-filter", "flow:\n- filter: f1\n- filter: ghost\n"),
				x13V("inv-unknown-result", "flow:\n- filter: f1\n  jumpIf:\n    nosuchresult: END\n- filter: f2\n"),
				x13V("inv-unknown-target", "flow:\n- filter: f1\n  jumpIf:\n    invalid: nowhere\n- filter: f2\n"),
				x13V("inv-jump-backward", "flow:\n- filter: f2\n- filter: f1\n  jumpIf:\n    invalid: f2\n"),
				x13V("inv-dup-alias-target", "flow:\n- filter: f1\n  jumpIf:\n    invalid: x\n- filter: f2\n  alias: x\n- filter: f2\n  alias: x\n"),
				x13V("list+null", "flow:\n- filter: f1\n- null\n- filter: f2\n"),
			}},
			{Name: "resilience", Vars: []x13Variant{
				x13V("both", "resilience:\n"+retry+breaker),
				x13V("absent", ""),
				x13V("empty", "resilience: []\n"),
				x13V("null", "resilience: null\n"),
				x13V("only-retry", "resilience:\n"+retry),
				x13V("kinds-swapped", "resilience:\n- name: retry\n  kind: CircuitBreaker\n  slidingWindowSize: 4\n- name: breaker\n  kind: Retry\n  maxAttempts: 2\n"),
				x13V("inv-unknown-kind", "resilience:\n- name: retry\n  kind: NoSuchPolicy\n"+breaker),
				x13V("inv-dup-names", "resilience:\n"+retry+retry+breaker),
				x13V("inv-no-name", "resilience:\n- kind: Retry\n  maxAttempts: 2\n"+breaker),
				x13V("list+null", "resilience:\n"+retry+"- null\n"+breaker),
			}},
		},
	})

	// ------------------------------------------------------------------ HTTPServer
	out = append(out, &x13Product{
		Kind: "HTTPServer", Cat: x13HTTPServer,
		Base: "kind: HTTPServer\nname: httpserver\nport: 10080\nkeepAlive: true\nkeepAliveTimeout: 5s\nmaxConnections: 64\ncacheSize: 8\n",
		Secs: []x13Section{
			{Name: "tls", Vars: []x13Variant{
				x13V("http", "https: false\n"),
				x13V("https-pair", "https: true\ncertBase64: @CERT_B64@\nkeyBase64: @KEY_B64@\n"),
				x13V("https-maps", "https: true\ncerts:\n  verif.local: @CERT_B64@\nkeys:\n  verif.local: @KEY_B64@\n"),
				x13V("https-pair+ca", "https: true\ncertBase64: @CERT_B64@\nkeyBase64: @KEY_B64@\ncaCertBase64: @CERT_B64@\n"),
				x13V("http-with-unusable-certs", "https: false\ncertBase64: aGVsbG8=\nkeyBase64: aGVsbG8=\ncerts:\n  x.local: aGVsbG8=\ncaCertBase64: aGVsbG8=\n"),
				x13V("https-autocert-no-certs", "https: true\nautoCert: true\n"),
				x13V("inv-https-no-certs", "https: true\n"),
				x13V("inv-https-cert-without-key", "https: true\ncerts:\n  verif.local: @CERT_B64@\n"),
				x13V("inv-https-garbage-pair", "https: true\ncertBase64: aGVsbG8=\nkeyBase64: aGVsbG8=\n"),
				x13V("inv-http3-without-https", "https: false\nhttp3: true\n"),
			}},
			{Name: "ipFilter", Vars: x13IPFilterVariants("ipFilter")},
			{Name: "rules", Vars: []x13Variant{
				x13V("two", "rules:\n- host: a.com\n  hostRegexp: \"^[a-z]+\\\\.a\\\\.com$\"\n- paths:\n  - pathPrefix: /noresp\n    backend: be-noresp\n  - backend: be-ok\n"),
				x13V("one", "rules:\n- host: a.com\n"),
				x13V("absent", ""),
				x13V("empty", "rules: []\n"),
				x13V("null", "rules: null\n"),
				x13V("inv-host-regexp", "rules:\n- hostRegexp: \"(\"\n"),
			}},
			{Name: "rule.ipFilter", At: "rules.0", Vars: x13IPFilterVariants("ipFilter")},
			{Name: "rule.paths", At: "rules.0", Vars: []x13Variant{
				x13V("mix", "paths:\n- path: /exact\n  methods: [GET, POST]\n  backend: be-ok\n  rewriteTarget: /rewritten\n  ipFilter:\n    blockByDefault: true\n    allowIPs: [127.0.0.1, 192.0.2.1]\n"+
					"- pathPrefix: /api\n  backend: be-proxy\n  headers:\n  - key: X-Verif-Id\n    values: [alice, bob]\n  - key: X-Env\n    regexp: \"^st\"\n  matchAllHeader: true\n"+
					"- pathRegexp: \"^/r/([a-z]+)/(.*)$\"\n  rewriteTarget: \"/$2/$1\"\n  backend: be-ok\n  clientMaxBodySize: -1\n"),
				x13V("absent", ""),
				x13V("empty", "paths: []\n"),
				x13V("null", "paths: null\n"),
				x13V("dangling-backend", "paths:\n- pathPrefix: /\n  backend: gone\n"),
				x13V("inv-path-regexp", "paths:\n- pathRegexp: \"(\"\n  backend: be-ok\n"),
				x13V("inv-rewrite-without-path", "paths:\n- backend: be-ok\n  rewriteTarget: /x\n"),
				x13V("inv-header-without-match", "paths:\n- pathPrefix: /api\n  backend: be-ok\n  headers:\n  - key: X-Env\n"),
				x13V("inv-path-ipfilter", "paths:\n- path: /exact\n  backend: be-ok\n  ipFilter:\n    blockByDefault: false\n    allowIPs: [not-an-ip]\n"),
				x13V("inv-no-backend", "paths:\n- path: /exact\n"),
				x13V("inv-method", "paths:\n- path: /exact\n  methods: [FETCH]\n  backend: be-ok\n"),
			}},
		},
	})

	// ------------------------------------------------------------------ MQTTProxy
	// (this version's MQTTProxy spec has no auth section: authentication is a pipeline's
	// MQTTClientAuth filter; the sections are tls, rules and the limits)
	cert := "- name: verif\n  cert: @CERT_PEM_Q@\n  key: @KEY_PEM_Q@\n"
	out = append(out, &x13Product{
		Kind: "MQTTProxy", Cat: x13MQTTProxy,
		Base: "kind: MQTTProxy\nname: mqttproxy\nport: 11883\n",
		Secs: []x13Section{
			{Name: "tls", Vars: []x13Variant{
				x13V("plain", "useTLS: false\n"),
				x13V("tls", "useTLS: true\ncertificate:\n"+cert),
				x13V("plain-with-certificate", "useTLS: false\ncertificate:\n"+cert),
				x13V("plain-with-unusable-certificate", "useTLS: false\ncertificate:\n- name: x\n  cert: garbage\n  key: garbage\n"),
				x13V("absent", ""),
				x13V("inv-tls-no-certificate", "useTLS: true\n"),
				x13V("inv-tls-empty-certificates", "useTLS: true\ncertificate: []\n"),
				x13V("inv-tls-unusable-certificate", "useTLS: true\ncertificate:\n- name: x\n  cert: garbage\n  key: garbage\n"),
				x13V("inv-certificate-without-key", "useTLS: true\ncertificate:\n- name: x\n  cert: @CERT_PEM_Q@\n"),
			}},
			{Name: "rules", Vars: []x13Variant{
				x13V("all-types", "rules:\n- when:\n    packetType: Connect\n  pipeline: mqtt-connect\n- when:\n    packetType: Publish\n  pipeline: mqtt-any\n- when:\n    packetType: Subscribe\n  pipeline: mqtt-any\n- when:\n    packetType: Unsubscribe\n  pipeline: mqtt-any\n- when:\n    packetType: Disconnect\n  pipeline: mqtt-any\n"),
				x13V("absent", ""),
				x13V("empty", "rules: []\n"),
				x13V("null", "rules: null\n"),
				x13V("only-connect", "rules:\n- when:\n    packetType: Connect\n  pipeline: mqtt-connect\n"),
				x13V("dangling-pipelines", "rules:\n- when:\n    packetType: Connect\n  pipeline: gone\n- when:\n    packetType: Publish\n  pipeline: gone\n"),
				x13V("rule-without-pipeline", "rules:\n- when:\n    packetType: Publish\n"),
				x13V("inv-rule-without-when", "rules:\n- pipeline: mqtt-any\n"),
				x13V("inv-empty-when", "rules:\n- when: {}\n  pipeline: mqtt-any\n"),
				x13V("inv-unknown-packet-type", "rules:\n- when:\n    packetType: Nope\n  pipeline: mqtt-any\n"),
				x13V("inv-duplicate-packet-type", "rules:\n- when:\n    packetType: Connect\n  pipeline: mqtt-connect\n- when:\n    packetType: Connect\n  pipeline: mqtt-any\n"),
				x13V("list+null", "rules:\n- when:\n    packetType: Connect\n  pipeline: mqtt-connect\n- null\n"),
			}},
			{Name: "limits", Vars: []x13Variant{
				x13V("absent", ""),
				x13V("all", "topicCacheSize: 16\nmaxAllowedConnection: 4\nconnectionLimit:\n  requestRate: 100\n  bytesRate: 100000\n  timePeriod: 1\nclientPublishLimit:\n  requestRate: 100\n  timePeriod: 2\n"),
				x13V("zeros", "topicCacheSize: 0\nmaxAllowedConnection: 0\nconnectionLimit:\n  requestRate: 0\n  bytesRate: 0\n  timePeriod: 0\nclientPublishLimit:\n  requestRate: 0\n  bytesRate: 0\n  timePeriod: 0\n"),
				// (byte rates small enough to throttle the conversation are a single-section matter: seed extras)
				x13V("bytes-only", "connectionLimit:\n  bytesRate: 100000\nclientPublishLimit:\n  bytesRate: 100000\n"),
				x13V("empty-maps", "connectionLimit: {}\nclientPublishLimit: {}\n"),
				x13V("nulls", "connectionLimit: null\nclientPublishLimit: null\n"),
				x13V("one-connection", "maxAllowedConnection: 1\nconnectionLimit:\n  requestRate: 1\n  timePeriod: 1\n"),
			}},
		},
	})

	// ------------------------------------------------------------------ Proxy
	srv := "  - url: @BACKEND@\n"
	out = append(out, &x13Product{
		Kind: "Proxy", Cat: x13FilterHTTP,
		Base: "kind: Proxy\nname: proxy\n",
		Secs: []x13Section{
			{Name: "pools", Vars: []x13Variant{
				x13V("main+candidate", "pools:\n- timeout: 200ms\n  failureCodes: [503, 504]\n  loadBalance:\n    policy: roundRobin\n  servers:\n"+srv+srv+
					"- filter:\n    headers:\n      X-Canary:\n        exact: \"yes\"\n  servers:\n"+srv),
				x13V("main-only", "pools:\n- servers:\n"+srv),
				x13V("main-stream", "pools:\n- serverMaxBodySize: -1\n  servers:\n"+srv),
				x13V("main-cache", "pools:\n- servers:\n"+srv+"  memoryCache:\n    expiration: 50ms\n    maxEntryBytes: 4096\n    codes: [200, 404]\n    methods: [GET, HEAD]\n"),
				x13V("main-policies", "pools:\n- failureCodes: [503]\n  retryPolicy: retry-ok\n  circuitBreakerPolicy: cb-ok\n  servers:\n"+srv),
				x13V("main-weighted", "pools:\n- loadBalance:\n    policy: weightedRandom\n  servers:\n  - url: @BACKEND@\n    weight: 1\n  - url: @BACKEND@\n    weight: 2\n"),
				x13V("absent", ""),
				x13V("null", "pools: null\n"),
				x13V("inv-empty", "pools: []\n"),
				x13V("inv-two-mains", "pools:\n- servers:\n"+srv+"- servers:\n"+srv),
				x13V("inv-no-main", "pools:\n- filter:\n    policy: random\n    permil: 500\n  servers:\n"+srv),
				x13V("inv-no-servers", "pools:\n- timeout: 1s\n"),
				x13V("inv-partial-weights", "pools:\n- servers:\n  - url: @BACKEND@\n    weight: 1\n  - url: @BACKEND@\n"),
			}},
			{Name: "mirrorPool", Vars: []x13Variant{
				x13V("absent", ""),
				x13V("random", "mirrorPool:\n  filter:\n    policy: random\n    permil: 1000\n  servers:\n"+srv),
				x13V("headers", "mirrorPool:\n  filter:\n    headers:\n      X-Verif-Id:\n        exact: alice\n  servers:\n"+srv),
				x13V("null", "mirrorPool: null\n"),
				x13V("empty", "mirrorPool: {}\n"),
				x13V("inv-without-filter", "mirrorPool:\n  servers:\n"+srv),
				x13V("inv-with-cache", "mirrorPool:\n  filter:\n    policy: random\n    permil: 1000\n  servers:\n"+srv+"  memoryCache:\n    expiration: 1s\n    maxEntryBytes: 10\n    codes: [200]\n    methods: [GET]\n"),
				x13V("inv-no-servers", "mirrorPool:\n  filter:\n    policy: random\n    permil: 1000\n"),
				x13V("inv-partial-weights", "mirrorPool:\n  filter:\n    policy: random\n    permil: 1000\n  servers:\n  - url: @BACKEND@\n    weight: 1\n  - url: @BACKEND@\n"),
			}},
			{Name: "compression", Vars: []x13Variant{
				x13V("absent", ""),
				x13V("min-16", "compression:\n  minLength: 16\n"),
				x13V("min-0", "compression:\n  minLength: 0\n"),
				x13V("empty", "compression: {}\n"),
				x13V("null", "compression: null\n"),
				x13V("negative", "compression:\n  minLength: -1\n"),
			}},
			{Name: "mtls", Vars: []x13Variant{
				x13V("absent", ""),
				x13V("valid", "mtls:\n  certBase64: @CERT_B64@\n  keyBase64: @KEY_B64@\n  rootCertBase64: @CERT_B64@\n"),
				x13V("unusable-pair", "mtls:\n  certBase64: aGVsbG8=\n  keyBase64: aGVsbG8=\n  rootCertBase64: aGVsbG8=\n"),
				x13V("null", "mtls: null\n"),
				x13V("inv-empty", "mtls: {}\n"),
				x13V("inv-not-base64", "mtls:\n  certBase64: \"%%%\"\n  keyBase64: \"%%%\"\n  rootCertBase64: \"%%%\"\n"),
			}},
			{Name: "bodySize", Vars: []x13Variant{
				x13V("absent", ""),
				x13V("1MiB", "serverMaxBodySize: 1048576\n"),
				x13V("stream", "serverMaxBodySize: -1\n"),
				x13V("tiny", "serverMaxBodySize: 1\n"),
			}},
		},
	})
	return out
}

func x13ProdReplacer(e *x13Env) *strings.Replacer {
	return strings.NewReplacer(
		"@BACKEND@", e.backend.URL,
		"@CERT_B64@", e.certB64,
		"@KEY_B64@", e.keyB64,
		"@CERT_PEM_Q@", fmt.Sprintf("%q", e.certPEM),
		"@KEY_PEM_Q@", fmt.Sprintf("%q", e.keyPEM),
	)
}
