//go:build verif

package httpserver

// C13 seeds: per kind 1-4 hand-written specs that validation accepts and that together
// use every section of the kind's spec type, plus hand-written cross-section mutations.

import (
	"fmt"
	"strings"
)

type x13Cat int

const (
	x13FilterHTTP x13Cat = iota
	x13FilterMQTT
	x13Pipeline
	x13HTTPServer
	x13GlobalFilter
	x13MQTTProxy
	x13Resilience
)

type x13Seed struct {
	Kind  string
	ID    string // kind + "#" + n
	Cat   x13Cat
	YAML  string
	Extra []x13Mut

	tree map[string]interface{}
	muts []x13Mut     // all single mutations (enumerated + extra)
	acc  map[int]bool // memo: single mutation i is accepted by validation on its own
}

func x13Seeds(e *x13Env, kafkaAddr string) []*x13Seed {
	rep := strings.NewReplacer(
		"@BACKEND@", e.backend.URL,
		"@INTROSPECT@", e.introspect.URL,
		"@REMOTE@", e.remote.URL,
		"@CERT_B64@", e.certB64,
		"@KEY_B64@", e.keyB64,
		"@CERT_PEM_Q@", fmt.Sprintf("%q", e.certPEM),
		"@KEY_PEM_Q@", fmt.Sprintf("%q", e.keyPEM),
		"@HTPASSWD@", e.htpasswd,
		"@KAFKA@", kafkaAddr,
		"@GF@", x13GFName,
	)
	var out []*x13Seed
	n := map[string]int{}
	add := func(kind string, cat x13Cat, y string, extra ...x13Mut) {
		n[kind]++
		out = append(out, &x13Seed{Kind: kind, ID: fmt.Sprintf("%s#%d", kind, n[kind]), Cat: cat, YAML: rep.Replace(y), Extra: extra})
	}

	// ------------------------------------------------------------------ Proxy
	add("Proxy", x13FilterHTTP, `
kind: Proxy
name: proxy
maxIdleConns: 64
maxIdleConnsPerHost: 8
serverMaxBodySize: 1048576
compression:
  minLength: 16
pools:
- spanName: main
  serverMaxBodySize: 4096
  timeout: 200ms
  failureCodes: [503, 504]
  retryPolicy: retry-ok
  circuitBreakerPolicy: cb-ok
  loadBalance:
    policy: weightedRandom
  servers:
  - url: @BACKEND@
    weight: 1
    tags: [v1, blue]
    keepHost: true
  - url: @BACKEND@
    weight: 2
    tags: [v2]
  memoryCache:
    expiration: 50ms
    maxEntryBytes: 4096
    codes: [200, 404]
    methods: [GET, HEAD]
- filter:
    policy: general
    matchAllHeaders: true
    headers:
      X-Canary:
        exact: "yes"
      X-Env:
        prefix: st
      X-Build:
        regex: "^b[0-9]+$"
      X-None:
        empty: true
    urls:
    - methods: [GET, POST]
      url:
        prefix: /
    - url:
        regex: "^/api/.*$"
  loadBalance:
    policy: roundRobin
  servers:
  - url: @BACKEND@
mirrorPool:
  filter:
    policy: random
    permil: 1000
  servers:
  - url: @BACKEND@
`,
		x13X("all-weights-zero", "pools.0.servers.0.weight", 0, "pools.0.servers.1.weight", 0),
		x13X("weights-on-some", "pools.0.servers.0.weight", x13DropMark),
		x13X("two-main-pools", "pools.1.filter", x13DropMark),
		x13X("mirror-without-filter", "mirrorPool.filter", x13DropMark),
		x13X("mirror-with-cache", "mirrorPool.memoryCache", x13AddMark{map[string]interface{}{"expiration": "1s", "maxEntryBytes": 10, "codes": []interface{}{200}, "methods": []interface{}{"GET"}}}),
		x13X("stream-and-compression", "pools.0.serverMaxBodySize", -1, "serverMaxBodySize", -1),
		x13X("stream-main-pool", "pools.0.serverMaxBodySize", -1),
		x13X("no-servers-no-service", "pools.0.servers", []interface{}{}),
		x13X("weighted-random-single-zero", "pools.0.servers", []interface{}{map[string]interface{}{"url": e.backend.URL, "weight": 0}}),
		x13X("lb-header-hash-without-key", "pools.0.loadBalance", map[string]interface{}{"policy": "headerHash"}),
		x13X("filter-headerhash-no-key", "pools.1.filter", map[string]interface{}{"policy": "headerHash", "permil": 500}),
		x13X("filter-empty-conflict", "pools.1.filter.headers.X-None", map[string]interface{}{"empty": true, "exact": "x"}),
	)
	add("Proxy", x13FilterHTTP, `
kind: Proxy
name: proxy
mtls:
  certBase64: @CERT_B64@
  keyBase64: @KEY_B64@
  rootCertBase64: @CERT_B64@
pools:
- serverMaxBodySize: -1
  loadBalance:
    policy: headerHash
    headerHashKey: X-User
  servers:
  - url: @BACKEND@
  - url: @BACKEND@
- filter:
    policy: headerHash
    headerHashKey: X-User
    permil: 500
  loadBalance:
    policy: ipHash
  servers:
  - url: @BACKEND@
- filter:
    policy: ipHash
    permil: 1
  loadBalance:
    policy: random
  servers:
  - url: @BACKEND@
`,
		x13X("compression-with-stream", "compression", x13AddMark{map[string]interface{}{"minLength": 0}}),
		x13X("mtls-garbage-cert", "mtls.certBase64", "aGVsbG8="),
	)
	add("Proxy", x13FilterHTTP, `
kind: Proxy
name: proxy
pools:
- serviceRegistry: verif-registry
  serviceName: verif-service
  serverTags: [v1]
  servers:
  - url: @BACKEND@
    tags: [v1]
`,
		x13X("service-without-fallback-servers", "pools.0.servers", x13DropMark),
		x13X("service-no-registry", "pools.0.serviceRegistry", x13DropMark, "pools.0.servers", x13DropMark),
	)

	// ------------------------------------------------------------------ Validator
	add("Validator", x13FilterHTTP, `
kind: Validator
name: validator
headers:
  X-Verif-Id:
    values: ["alice", "bob", ""]
  X-Trace:
    regexp: "^[a-z0-9-]*$"
jwt:
  algorithm: HS256
  secret: 6d79736563726574
  cookieName: auth
`)
	add("Validator", x13FilterHTTP, `
kind: Validator
name: validator
signature:
  literal:
    scopeSuffix: megaease_request
    algorithmName: X-Me-Algorithm
    algorithmValue: ME-HMAC-SHA256
    signedHeaders: X-Me-SignedHeaders
    signature: X-Me-Signature
    date: X-Me-Date
    expires: X-Me-Expires
    credential: X-Me-Credential
    contentSha256: X-Me-Content-Sha256
    signingKeyPrefix: ME
  headerHoisting:
    allowedPrefix: [X-Me-]
    disallowedPrefix: [X-Me-Meta-]
    disallowed: [X-Me-Content-Sha256]
  ignoredHeaders: [User-Agent, X-Forwarded-For]
  excludeBody: false
  ttl: 10m
  accessKeyId: verif-ak
  accessKeySecret: verif-secret
  accessKeys:
    verif-ak: verif-secret
    other: other-secret
`,
		x13X("no-access-keys", "signature.accessKeys", x13DropMark),
		x13X("empty-signature-section", "signature", map[string]interface{}{}),
	)
	add("Validator", x13FilterHTTP, `
kind: Validator
name: validator
oauth2:
  jwt:
    algorithm: HS256
    secret: 6d79736563726574
`,
		x13X("oauth2-neither", "oauth2", map[string]interface{}{}),
	)
	add("Validator", x13FilterHTTP, `
kind: Validator
name: validator
oauth2:
  tokenIntrospect:
    endPoint: @INTROSPECT@
    basicAuth: dmVyaWY6c2VjcmV0
    clientId: client
    clientSecret: secret
    insecureTls: true
`,
		x13X("oauth2-both", "oauth2.jwt", x13AddMark{map[string]interface{}{"algorithm": "HS256", "secret": "6d79736563726574"}}),
	)
	add("Validator", x13FilterHTTP, `
kind: Validator
name: validator
basicAuth:
  mode: FILE
  userFile: @HTPASSWD@
`,
		x13X("basic-file-missing", "basicAuth.userFile", "/nonexistent/verif/htpasswd"),
		x13X("basic-no-mode", "basicAuth.mode", x13DropMark),
	)
	add("Validator", x13FilterHTTP, `
kind: Validator
name: validator
basicAuth:
  mode: ETCD
  etcdPrefix: verif-credentials
`)

	// ------------------------------------------------------------------ RateLimiter
	add("RateLimiter", x13FilterHTTP, `
kind: RateLimiter
name: ratelimiter
defaultPolicyRef: default
policies:
- name: default
  timeoutDuration: 2ms
  limitRefreshPeriod: 10ms
  limitForPeriod: 2
- name: strict
  timeoutDuration: 0ms
  limitRefreshPeriod: 20ms
  limitForPeriod: 1
urls:
- methods: [GET, POST]
  url:
    exact: /admit
  policyRef: strict
- url:
    prefix: /api
- url:
    regex: "^/r/[a-z]+$"
  policyRef: default
- methods: [PUT]
  url:
    empty: true
`,
		x13X("no-default-ref", "defaultPolicyRef", x13DropMark),
		x13X("zero-refresh", "policies.0.limitRefreshPeriod", "0s", "policies.1.limitRefreshPeriod", "0s"),
		x13X("dup-policy-names", "policies.1.name", "default"),
	)

	// ------------------------------------------------------------------ Mock / Fallback
	add("Mock", x13FilterHTTP, `
kind: Mock
name: mock
rules:
- match:
    path: /exact
    headers:
      X-Verif-Id:
        exact: alice
      X-Env:
        prefix: st
      X-Build:
        regex: "^b[0-9]+$"
      X-None:
        empty: true
    matchAllHeaders: true
  code: 201
  headers:
    X-Mock: "1"
  body: mocked
  delay: 1ms
- match:
    pathPrefix: /api
  code: 404
- match: {}
  code: 200
  body: any
`)
	add("Fallback", x13FilterHTTP, `
kind: Fallback
name: fallback
mockCode: 503
mockHeaders:
  X-Fallback: "1"
mockBody: fallback body
`)

	// ------------------------------------------------------------------ CORSAdaptor
	add("CORSAdaptor", x13FilterHTTP, `
kind: CORSAdaptor
name: cors
allowedOrigins: ["http://a.com", "*.b.com"]
allowedMethods: [GET, POST, OPTIONS]
allowedHeaders: [X-Verif-Id, Content-Type]
allowCredentials: true
exposedHeaders: [X-Exposed]
maxAge: 600
supportCORSRequest: true
`)
	add("CORSAdaptor", x13FilterHTTP, `
kind: CORSAdaptor
name: cors
allowedOrigins: ["*"]
supportCORSRequest: false
`)

	// ------------------------------------------------------------------ Request/ResponseAdaptor
	add("RequestAdaptor", x13FilterHTTP, `
kind: RequestAdaptor
name: reqadaptor
host: backend.local
method: POST
path:
  addPrefix: /v2
header:
  del: [X-Del]
  set:
    X-Set: "1"
  add:
    X-Add: "2"
body: new body
compress: gzip
`,
		x13X("compress-and-decompress", "decompress", x13AddMark{"gzip"}),
		x13X("body-and-decompress", "compress", x13DropMark, "decompress", x13AddMark{"gzip"}),
		x13X("compress-unknown", "compress", "brotli"),
	)
	add("RequestAdaptor", x13FilterHTTP, `
kind: RequestAdaptor
name: reqadaptor
path:
  regexpReplace:
    regexp: "^/api/([a-z]+)/(.*)$"
    replace: "/$2/$1"
decompress: gzip
`,
		x13X("path-replace", "path", map[string]interface{}{"replace": "/fixed"}),
		x13X("path-trim", "path", map[string]interface{}{"trimPrefix": "/api"}),
		x13X("path-empty", "path", map[string]interface{}{}),
		x13X("decompress-unknown", "decompress", "zip"),
	)
	add("ResponseAdaptor", x13FilterHTTP, `
kind: ResponseAdaptor
name: respadaptor
header:
  del: [X-Del]
  set:
    X-Set: "1"
  add:
    X-Add: "2"
body: new body
compress: gzip
`,
		x13X("compress-and-decompress", "decompress", x13AddMark{"gzip"}),
		x13X("body-and-decompress", "compress", x13DropMark, "decompress", x13AddMark{"gzip"}),
		x13X("compress-unknown", "compress", "brotli"),
	)
	add("ResponseAdaptor", x13FilterHTTP, `
kind: ResponseAdaptor
name: respadaptor
decompress: gzip
`,
		x13X("decompress-unknown", "decompress", "zip"),
	)

	// ------------------------------------------------------------------ builders
	add("RequestBuilder", x13FilterHTTP, `
kind: RequestBuilder
name: reqbuilder
protocol: http
leftDelim: "{{"
rightDelim: "}}"
template: |
  method: POST
  url: http://built.local/x{{ .requests.DEFAULT.Path }}
  headers:
    X-Built: ["1"]
  body: "built {{ .requests.DEFAULT.Method }}"
`,
		x13X("template-unclosed", "template", "method: {{ .x"),
		x13X("template-unknown-func", "template", "method: {{ nosuchfunc 1 }}"),
		x13X("template-not-yaml", "template", "{{ \"[\" }} : : ]"),
		x13X("template-nil-deref", "template", "method: GET\nurl: /{{ .requests.NOPE.Path }}"),
		x13X("template-bad-url", "template", "method: GET\nurl: \"http://[::1\""),
		x13X("template-bad-method", "template", "method: \"BAD METHOD\"\nurl: /"),
		x13X("template-scalar", "template", "42"),
		x13X("template-with-and-namespace", "sourceNamespace", x13AddMark{"DEFAULT"}),
		x13X("delims-only-left", "rightDelim", x13DropMark, "leftDelim", "<<"),
		x13X("protocol-mqtt", "protocol", "mqtt"),
	)
	add("RequestBuilder", x13FilterHTTP, `
kind: RequestBuilder
name: reqbuilder
sourceNamespace: other
`)
	add("ResponseBuilder", x13FilterHTTP, `
kind: ResponseBuilder
name: respbuilder
protocol: http
leftDelim: "{{"
rightDelim: "}}"
template: |
  statusCode: 202
  headers:
    X-Built: ["1"]
  body: "built for {{ .requests.DEFAULT.Path }}"
`,
		x13X("template-unclosed", "template", "statusCode: {{ .x"),
		x13X("template-bad-status", "template", "statusCode: 99999"),
		x13X("template-status-string", "template", "statusCode: abc"),
		x13X("template-scalar", "template", "42"),
		x13X("template-resp-deref", "template", "statusCode: 200\nbody: \"{{ .responses.NOPE.Body }}\""),
		x13X("protocol-mqtt", "protocol", "mqtt"),
	)
	add("ResponseBuilder", x13FilterHTTP, `
kind: ResponseBuilder
name: respbuilder
sourceNamespace: other
`)

	// ------------------------------------------------------------------ header filters
	add("HeaderLookup", x13FilterHTTP, `
kind: HeaderLookup
name: headerlookup
headerKey: X-Verif-Id
etcdPrefix: verif-lookup/
pathRegExp: "^/api/([a-z]+)/[0-9]*"
headerSetters:
- etcdKey: ext-id
  headerKey: X-Ext-Id
- etcdKey: plan
  headerKey: X-Plan
`,
		x13X("regexp-no-group", "pathRegExp", "^/api/"),
	)
	add("HeaderToJSON", x13FilterHTTP, `
kind: HeaderToJSON
name: headertojson
headerMap:
- header: X-Verif-Id
  json: id
- header: X-Env
  json: env
`)
	add("CertExtractor", x13FilterHTTP, `
kind: CertExtractor
name: certextractor
certIndex: -1
target: subject
field: CommonName
headerKey: X-Cert-Cn
`,
		x13X("issuer-organization", "target", "issuer", "field", "Organization"),
		x13X("index-min", "certIndex", -32768),
		x13X("index-max", "certIndex", 32767),
	)
	add("RemoteFilter", x13FilterHTTP, `
kind: RemoteFilter
name: remotefilter
url: @REMOTE@
timeout: 500ms
`)
	add("MeshAdaptor", x13FilterHTTP, `
kind: MeshAdaptor
name: meshadaptor
serviceCanaries:
- header:
    del: [X-Del]
    set:
      X-Mesh-Service-Canary: canary
    add:
      X-Add: "1"
  filter:
    matchAllHeaders: false
    headers:
      X-Verif-Id:
        exact: alice
    urls:
    - methods: [GET]
      url:
        prefix: /
- header:
    set:
      X-Mesh: "2"
  filter:
    policy: random
    permil: 500
`,
		x13X("canary-without-header", "serviceCanaries.1.header", x13DropMark),
		x13X("canary-without-filter", "serviceCanaries.1.filter", x13DropMark),
	)
	add("Kafka", x13FilterHTTP, `
kind: Kafka
name: kafka
backend: ["@KAFKA@"]
topic:
  default: verif-topic
  dynamic:
    header: X-Kafka-Topic
`,
		x13X("dynamic-empty", "topic.dynamic", map[string]interface{}{}),
	)

	// ------------------------------------------------------------------ MQTT filters
	add("KafkaMQTT", x13FilterMQTT, `
kind: KafkaMQTT
name: kafkamqtt
backend: ["@KAFKA@"]
topic:
  default: verif-topic
mqtt:
  topicKey: topic
  headerKey: headers
  payloadKey: payload
`,
		x13X("no-kv-keys", "mqtt", map[string]interface{}{"topicKey": "", "headerKey": "", "payloadKey": ""}),
	)
	add("TopicMapper", x13FilterMQTT, `
kind: TopicMapper
name: topicmapper
matchIndex: 0
setKV:
  topic: topic
  headers: headers
route:
- name: g2s
  matchExpr: g2s
- name: d2s
  matchExpr: "^d2s$"
policies:
- name: d2s
  topicIndex: 1
  route:
  - topic: to_cloud
    exprs: ["bar", "tar"]
  - topic: to_raw
    exprs: [".*"]
  headers:
    0: d2s
    1: type
    2: device
- name: g2s
  topicIndex: 4
  route:
  - topic: to_cloud
    exprs: ["bar", "tar"]
  headers:
    0: g2s
    1: gateway
    4: type
`,
		x13X("route-to-missing-policy", "policies.1.name", "other"),
		x13X("negative-match-index", "matchIndex", -1),
		x13X("negative-topic-index", "policies.0.topicIndex", -1),
		x13X("negative-header-level", "policies.0.headers", map[string]interface{}{"-1": "neg"}),
		x13X("no-setkv", "setKV", x13DropMark),
	)
	add("MQTTClientAuth", x13FilterMQTT, `
kind: MQTTClientAuth
name: mqttauth
salt: ""
auth:
- username: verif
  saltedSha256Pass: 2bb80d537b1da3e38bd30361aa855686bde0eacd7162fef6a25fe97bf527a25b
- username: other
  saltedSha256Pass: abc
`)
	add("ConnectControl", x13FilterMQTT, `
kind: ConnectControl
name: connectcontrol
bannedClientRe: "^banned-.*"
bannedClients: [banned, other]
bannedTopicRe: "^secret/.*"
bannedTopics: [banned/topic]
`)

	// ------------------------------------------------------------------ Pipeline
	add("Pipeline", x13Pipeline, `
kind: Pipeline
name: pipeline
flow:
- filter: validator
  jumpIf:
    invalid: END
- filter: ratelimiter
  alias: rl
  jumpIf:
    rateLimited: fb
- filter: reqbuilder
  namespace: copy
- filter: proxy
  jumpIf:
    serverError: fb
    failureCode: fb
- filter: respadaptor
  jumpIf:
    responseNotFound: END
- filter: END
- filter: fallback
  alias: fb
filters:
- name: validator
  kind: Validator
  headers:
    X-Trace:
      regexp: "^[a-z0-9-]*$"
- name: ratelimiter
  kind: RateLimiter
  defaultPolicyRef: default
  policies:
  - name: default
    timeoutDuration: 1ms
    limitRefreshPeriod: 10ms
    limitForPeriod: 50
  urls:
  - url:
      prefix: /
- name: reqbuilder
  kind: RequestBuilder
  sourceNamespace: DEFAULT
- name: proxy
  kind: Proxy
  pools:
  - servers:
    - url: @BACKEND@
    failureCodes: [503]
    retryPolicy: retry
    circuitBreakerPolicy: breaker
- name: respadaptor
  kind: ResponseAdaptor
  header:
    set:
      X-Pipeline: "1"
- name: fallback
  kind: Fallback
  mockCode: 502
  mockBody: fallback
resilience:
- name: retry
  kind: Retry
  maxAttempts: 2
  waitDuration: 20ms
  backOffPolicy: exponential
  randomizationFactor: 0.5
- name: breaker
  kind: CircuitBreaker
  slidingWindowType: COUNT_BASED
  failureRateThreshold: 50
  slowCallRateThreshold: 100
  slidingWindowSize: 4
  permittedNumberOfCallsInHalfOpenState: 2
  minimumNumberOfCalls: 2
  slowCallDurationThreshold: 1s
  maxWaitDurationInHalfOpenState: 10ms
  waitDurationInOpenState: 10ms
`,
		x13X("policy-wrong-kind", "filters.3.pools.0.retryPolicy", "breaker", "filters.3.pools.0.circuitBreakerPolicy", "retry"),
		x13X("policy-missing-section", "resilience", x13DropMark),
		x13X("jump-backwards", "flow.3.jumpIf", map[string]interface{}{"serverError": "validator"}),
		x13X("jump-to-alias-original-name", "flow.1.jumpIf", map[string]interface{}{"rateLimited": "fallback"}),
		x13X("duplicate-alias", "flow.6.alias", "rl"),
		x13X("flow-unknown-filter", "flow.4.filter", "ghost"),
		x13X("alias-END", "flow.1.alias", "END"),
		x13X("same-filter-twice", "flow.5", map[string]interface{}{"filter": "respadaptor"}),
		x13X("dup-filter-names", "filters.5.name", "proxy"),
		x13X("filter-named-END", "filters.5.name", "END", "flow.6.filter", "END"),
		x13X("namespace-on-fallback", "flow.6.namespace", x13AddMark{"copy"}),
		// a node whose filter runs in a namespace no RequestBuilder has written to
		x13X("namespace-without-request-on-validator", "flow.0.namespace", x13AddMark{"nowhere"}),
		x13X("namespace-without-request-on-ratelimiter", "flow.1.namespace", x13AddMark{"nowhere"}),
		x13X("namespace-without-request-on-proxy", "flow.3.namespace", x13AddMark{"nowhere"}),
		x13X("namespace-without-request-on-respadaptor", "flow.4.namespace", x13AddMark{"nowhere"}),
		x13X("namespace-without-request-on-fallback", "flow.6.namespace", x13AddMark{"nowhere"}),
		x13X("namespace-of-builder-changed", "flow.2.namespace", "elsewhere", "flow.3.namespace", x13AddMark{"copy"}),
		x13X("dup-resilience-names", "resilience.1.name", "retry"),
	)
	add("Pipeline", x13Pipeline, `
kind: Pipeline
name: pipeline
filters:
- name: cors
  kind: CORSAdaptor
  supportCORSRequest: true
- name: adaptor
  kind: RequestAdaptor
  header:
    set:
      X-P: "1"
- name: mock
  kind: Mock
  rules:
  - match:
      pathPrefix: /
    code: 200
    body: ok
- name: respbuilder
  kind: ResponseBuilder
  template: |
    statusCode: 200
    body: "rebuilt"
`)

	// ------------------------------------------------------------------ GlobalFilter
	add("GlobalFilter", x13GlobalFilter, `
kind: GlobalFilter
name: globalfilter
beforePipeline:
  flow:
  - filter: before-validator
    jumpIf:
      invalid: END
  - filter: before-adaptor
  filters:
  - name: before-validator
    kind: Validator
    headers:
      X-Trace:
        regexp: "^[a-z0-9-]*$"
  - name: before-adaptor
    kind: RequestAdaptor
    header:
      set:
        X-Before: "1"
afterPipeline:
  flow:
  - filter: after-adaptor
  filters:
  - name: after-adaptor
    kind: ResponseAdaptor
    header:
      set:
        X-After: "1"
  resilience:
  - name: r
    kind: Retry
    maxAttempts: 2
`,
		x13X("filters-without-flow", "beforePipeline.flow", x13DropMark),
		x13X("after-fallback-first", "afterPipeline", map[string]interface{}{
			"flow":    []interface{}{map[string]interface{}{"filter": "fb"}},
			"filters": []interface{}{map[string]interface{}{"name": "fb", "kind": "Fallback", "mockCode": 200}},
		}),
	)

	// ------------------------------------------------------------------ HTTPServer
	add("HTTPServer", x13HTTPServer, `
kind: HTTPServer
name: httpserver
port: 10080
keepAlive: true
keepAliveTimeout: 5s
https: false
http3: false
maxConnections: 64
cacheSize: 8
xForwardedFor: true
clientMaxBodySize: 4096
globalFilter: @GF@
tracing:
  serviceName: verif
  tags:
    env: test
  zipkin:
    hostport: 127.0.0.1:10080
    serverURL: @BACKEND@/zipkin
    sampleRate: 1
    sameSpan: true
    id128Bit: true
ipFilter:
  blockByDefault: false
  allowIPs: [127.0.0.1, 10.0.0.0/8]
  blockIPs: [192.168.0.0/16]
rules:
- host: a.com
  hostRegexp: "^[a-z]+\\.a\\.com$"
  ipFilter:
    blockByDefault: false
    blockIPs: [10.9.9.9]
  paths:
  - path: /exact
    methods: [GET, POST]
    backend: be-ok
    rewriteTarget: /rewritten
    clientMaxBodySize: 16
    ipFilter:
      blockByDefault: true
      allowIPs: [127.0.0.1, 192.0.2.1]
  - pathPrefix: /api
    backend: be-proxy
    rewriteTarget: /v2
    headers:
    - key: X-Verif-Id
      values: [alice, bob]
    - key: X-Env
      regexp: "^st"
    matchAllHeader: true
  - pathRegexp: "^/r/([a-z]+)/(.*)$"
    rewriteTarget: "/$2/$1"
    backend: be-ok
    clientMaxBodySize: -1
- paths:
  - pathPrefix: /noresp
    backend: be-noresp
  - pathPrefix: /gone
    backend: gone
  - backend: be-ok
    headers:
    - key: X-Env
      values: [prod]
`,
		x13X("rewrite-on-header-only-path", "rules.1.paths.2.rewriteTarget", x13AddMark{"/x"}),
		x13X("global-filter-dangling", "globalFilter", "no-such-global-filter"),
		x13X("header-values-and-empty-regexp", "rules.0.paths.1.headers.0", map[string]interface{}{"key": "X-Verif-Id", "values": []interface{}{"alice"}, "regexp": ""}),
		x13X("rule-without-paths", "rules.0.paths", x13DropMark),
		x13X("negative-body-size", "clientMaxBodySize", -1),
		x13X("tracing-bad-url", "tracing.zipkin.serverURL", "://bad"),
	)
	add("HTTPServer", x13HTTPServer, `
kind: HTTPServer
name: httpserver
port: 10443
keepAlive: false
https: true
autoCert: false
certBase64: @CERT_B64@
keyBase64: @KEY_B64@
caCertBase64: @CERT_B64@
certs:
  verif.local: @CERT_B64@
  plain.local: @CERT_PEM_Q@
keys:
  verif.local: @KEY_B64@
  plain.local: @KEY_PEM_Q@
rules:
- paths:
  - backend: be-ok
`,
		x13X("cert-without-key", "keys", x13DropMark),
		x13X("https-no-certs", "certBase64", x13DropMark, "keyBase64", x13DropMark, "certs", x13DropMark, "keys", x13DropMark),
		x13X("https-autocert-no-certs", "autoCert", true, "certBase64", x13DropMark, "keyBase64", x13DropMark, "certs", x13DropMark, "keys", x13DropMark, "caCertBase64", x13DropMark),
		x13X("http3-without-https", "https", false, "http3", x13AddMark{true}),
		x13X("ca-garbage", "caCertBase64", "aGVsbG8="),
	)

	// ------------------------------------------------------------------ MQTTProxy
	add("MQTTProxy", x13MQTTProxy, `
kind: MQTTProxy
name: mqttproxy
port: 11883
useTLS: false
topicCacheSize: 16
maxAllowedConnection: 4
connectionLimit:
  requestRate: 100
  bytesRate: 100000
  timePeriod: 1
clientPublishLimit:
  requestRate: 100
  timePeriod: 2
rules:
- when:
    packetType: Connect
  pipeline: mqtt-connect
- when:
    packetType: Publish
  pipeline: mqtt-any
- when:
    packetType: Subscribe
  pipeline: mqtt-any
- when:
    packetType: Unsubscribe
  pipeline: mqtt-any
- when:
    packetType: Disconnect
  pipeline: mqtt-any
`,
		x13X("rule-without-when", "rules.1.when", x13DropMark),
		x13X("rule-dangling-pipeline", "rules.0.pipeline", "gone", "rules.1.pipeline", "gone"),
		x13X("duplicate-packet-type", "rules.1.when.packetType", "Connect"),
		x13X("bytes-rate-only", "connectionLimit", map[string]interface{}{"bytesRate": 10}),
		x13X("publish-bytes-only", "clientPublishLimit", map[string]interface{}{"bytesRate": 4}),
		x13X("tls-without-certificate", "useTLS", true),
		x13X("zero-everything-limits", "connectionLimit", map[string]interface{}{"requestRate": 0, "bytesRate": 0, "timePeriod": 0}),
	)
	add("MQTTProxy", x13MQTTProxy, `
kind: MQTTProxy
name: mqttproxy
port: 18883
useTLS: true
certificate:
- name: verif
  cert: @CERT_PEM_Q@
  key: @KEY_PEM_Q@
`,
		x13X("certificate-garbage", "certificate.0.cert", "garbage"),
	)

	// ------------------------------------------------------------------ resilience
	add("Retry", x13Resilience, `
kind: Retry
name: retry
maxAttempts: 3
waitDuration: 1ms
backOffPolicy: exponential
randomizationFactor: 0.5
`,
		x13X("random-backoff", "backOffPolicy", "random"),
		x13X("factor-one", "randomizationFactor", 1),
		x13X("factor-above-one", "randomizationFactor", 1.5),
		x13X("factor-negative", "randomizationFactor", -0.5),
	)
	add("CircuitBreaker", x13Resilience, `
kind: CircuitBreaker
name: breaker
slidingWindowType: COUNT_BASED
failureRateThreshold: 50
slowCallRateThreshold: 50
countingNetworkError: true
slidingWindowSize: 4
permittedNumberOfCallsInHalfOpenState: 2
minimumNumberOfCalls: 2
slowCallDurationThreshold: 5ms
maxWaitDurationInHalfOpenState: 5ms
waitDurationInOpenState: 5ms
`,
		x13X("min-calls-above-window", "minimumNumberOfCalls", 100, "slidingWindowSize", 2),
	)
	add("CircuitBreaker", x13Resilience, `
kind: CircuitBreaker
name: breaker
slidingWindowType: TIME_BASED
failureRateThreshold: 1
slowCallRateThreshold: 1
slidingWindowSize: 2
permittedNumberOfCallsInHalfOpenState: 1
minimumNumberOfCalls: 1
slowCallDurationThreshold: 1ms
waitDurationInOpenState: 1ms
`)
	return out
}
