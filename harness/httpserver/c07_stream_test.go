//go:build verif

package httpserver

// C07, "-1 streams a body of any size" (to the backend, intact) when the pool that
// forwards the stream has its resilience options switched on: retryPolicy, failureCodes,
// circuitBreakerPolicy.  A streamed body exists once: whatever the pool does after an
// attempt has failed, the client must not be shown a success for a body that no
// successful backend contact has received, and no backend contact may be handed another
// (empty, tail-only, ...) body as if it were the complete one.
//
// What makes the input class: the FIRST attempt fails AFTER the backend has read the body
// (all of it: it answers a status listed in failureCodes, a status not listed, or drops
// the connection; part of it: it resets the connection in the middle of the upload), and a
// later contact of the same exchange would be answered 200.  Buffered routes (positive or
// default limit) of the same gateway are the control: there a retry re-sends the buffered
// body and must deliver it intact every time.

import (
	"bytes"
	"fmt"
	"strings"
	"testing"
	"time"

	"verif.local/kit"
)

// c07sFail is how the backend treats the first FailFirst contacts of an exchange.
type c07sFail struct {
	Kind   string // none | failure-code | unlisted-status | dropped-after-body | reset-mid-body
	First  int    // number of failing contacts (-1: as many as the pool could ever make)
	Status int
}

var c07sPlans = []c07sFail{
	{Kind: "none"},
	{Kind: "failure-code", First: 1, Status: 503},
	{Kind: "reset-mid-body", First: 1},
	{Kind: "none"},
	{Kind: "dropped-after-body", First: 1},
	{Kind: "failure-code", First: 2, Status: 502},
	{Kind: "unlisted-status", First: 1, Status: 500},
	{Kind: "none"},
	{Kind: "failure-code", First: -1, Status: 503},
	{Kind: "reset-mid-body", First: 2},
	{Kind: "dropped-after-body", First: -1},
}

var c07sKinds = []string{"retry", "retry+breaker", "breaker", "retry-without-failure-codes", "failure-codes-only"}

func TestVerif_C07_StreamResilience(t *testing.T) {
	r := kit.Start(t, "C07")
	defer r.Finish()
	if e2eNotReplayed(r) {
		return
	}
	r.Rule("streamed request bodies x pool resilience: clientMaxBodySize -1 at server level (both routes stream), at path level over a buffered server-level limit (unset / 300000..900000), or at server level under a buffered path-level limit x pool options {retryPolicy (2-4 attempts, wait 3-12 ms) + failureCodes [502,503]; retry + circuit breaker (count window 6, min 4 calls, 50 %, open for 15 ms or 5 s); breaker only; retry without failureCodes; failureCodes only} x route cache on/off; per gateway 16 sequential POST/PUT exchanges on a kept-alive raw connection, bodies '<exchange id>@<offset>;' of 1..3000, 70-200 KB, 0.6-1.5 MB, length-declared or chunked; the backend fails the first 1 / 2 / all contacts of an exchange AFTER reading the body (status listed in failureCodes, unlisted 500, connection dropped after the whole body) or in the middle of it (reads a random prefix, then RST), later contacts are answered 200; exchanges without a scripted failure in between. Every contact's body at the backend is recorded. distinct = (resilience options, stream or buffered, limit source, size class, framing, failure kind, failing contacts, contacts seen, outcome)")
	r.Assume("the oracle is the property's '-1 streams a body of any size' read as 'the body reaches the backend intact': (1) a 2xx seen by the client requires a backend contact that was answered with the scripted success AND received exactly the bytes the client sent; (2) a backend contact that did not stop reading on purpose and saw the body end cleanly must have received exactly the bytes the client sent (an aborted transfer - read error at the backend - is not a delivery); (3) without a scripted failure the exchange passes intact with 200 (with a circuit breaker: or is refused 503 without backend contact). How often the pool contacts the backend, and which error status the client gets for a failed stream, are not decided")
	be, err := e2eNewBackend()
	if err != nil {
		r.Inconclusive("cannot start backend: " + err.Error())
		return
	}
	defer be.Close()
	dd := &c07Dedupe{}
	sigs := map[string]int{} // at most 2 reports per signature (the kit keeps 40 per shard)
	const perCase = 16
	n := r.N(15, 300)
	for i := 0; i < n; i++ {
		if !r.Mine(i) {
			continue
		}
		rng := r.CaseRand(i)
		cfg := &e2eCfg{}
		switch i % 3 {
		case 0:
			cfg.ServerClientMax = -1
		case 1:
			cfg.PathClientMax = -1
			if rng.Intn(2) == 0 {
				cfg.ServerClientMax = int64(300000 + rng.Intn(600000))
			}
		default:
			cfg.ServerClientMax = -1
			cfg.PathClientMax = int64(300000 + rng.Intn(600000))
		}
		if rng.Intn(2) == 0 {
			cfg.CacheSize = 64
		}
		kind := c07sKinds[(i/3)%len(c07sKinds)]
		maxAttempts := 1
		if strings.HasPrefix(kind, "retry") {
			maxAttempts = 2 + rng.Intn(3)
			cfg.Retry = &e2eRetry{MaxAttempts: maxAttempts, WaitMs: 3 + rng.Intn(10), Random: []float64{0, 0.5, 1}[rng.Intn(3)]}
		}
		if kind != "retry-without-failure-codes" {
			cfg.FailureCodes = []int{502, 503}
		}
		if strings.Contains(kind, "breaker") {
			cfg.CircuitBreaker = &e2eCB{WindowSize: 6, MinCalls: 4, FailureRate: 50, PermittedHalfOpen: 2, WaitOpenMs: []int{15, 15, 5000}[rng.Intn(3)]}
		}
		r.Case(i, map[string]interface{}{"cfg": cfg, "resilience": kind})
		gw, err := e2eStart(cfg, be)
		if err != nil {
			r.Inconclusive("gateway did not start: " + err.Error())
			continue
		}
		cl := &e2eClient{addr: gw.addr}
		bigReset := rng.Intn(perCase) // the one exchange that may combine a big body with a mid-body reset
		for k := 0; k < perCase; k++ {
			id := fmt.Sprintf("c07s-%d-%d-%d", r.Seed(), i, k)
			route := []string{"/lim/upload", "/upload"}[rng.Intn(2)]
			levels, names := []int64{cfg.PathClientMax, cfg.ServerClientMax}, []string{"path", "server"}
			if route == "/upload" {
				levels, names = levels[1:], names[1:]
			}
			eff, src := c07Eff(levels, names)
			class := "buffered"
			if eff < 0 {
				class = "stream"
			}
			plan := c07sPlans[(k+i)%len(c07sPlans)]
			if kind == "retry-without-failure-codes" && plan.Kind == "failure-code" {
				plan.Kind = "unlisted-status"
			}
			failFirst := plan.First
			if failFirst < 0 {
				failFirst = maxAttempts + 1
			}
			size, sizeClass := 0, ""
			x := rng.Intn(11)
			if plan.Kind == "reset-mid-body" {
				// a gateway that gives up in the middle of a big upload keeps the client's
				// connection lingering for a while: one such exchange per case at most
				x = 3 + rng.Intn(6)
				if k == bigReset {
					x = 10
				}
			}
			switch {
			case x < 5:
				size, sizeClass = 1+rng.Intn(3000), "small"
			case x < 9:
				size, sizeClass = 70000+rng.Intn(130000), "medium"
			default:
				size, sizeClass = 600000+rng.Intn(900000), "big"
			}
			if eff > 0 && int64(size) > eff {
				size = int(eff)
			}
			body := e2ePatternBody(id, size)
			fr := []string{"cl", "chunked"}[rng.Intn(2)]
			chunk := []int{100, 4096, 70000}[rng.Intn(3)]
			if size > 3000 && chunk < 4096 {
				chunk = 16384
			}
			q := &e2eReq{Method: []string{"POST", "PUT"}[rng.Intn(2)], Target: route + "?k=" + id, Body: body, Framing: fr, Chunk: chunk,
				Headers: [][2]string{{"Host", "limits.example"}, {e2eIDHeader, id}, {"Content-Type", "application/octet-stream"}}}
			want := e2ePatternBody("resp-of-"+id, 10+rng.Intn(50))
			sc := &e2eScript{Status: 200, Headers: [][2]string{{"Content-Type", "application/octet-stream"}}, Body: want, Mode: "cl",
				FailFirst: failFirst, FailStatus: plan.Status}
			if plan.Kind == "reset-mid-body" {
				sc.FailReadN = 1
				if size > 1 {
					sc.FailReadN = 1 + rng.Intn(size-1)
				}
			}
			be.Script(id, sc)
			res := cl.Do(q, func() bool { return be.Contacted(id) })
			seen := be.Take(id)
			r.Eval(1)
			contacts := 0
			desc := map[string]interface{}{"cfg": cfg, "resilience": kind, "id": id, "route": route, "effectiveLimit": eff, "limitFrom": src, "bodySize": size,
				"framing": fr, "chunk": chunk, "failure": plan.Kind, "script": sc, "response": res.Resp, "ioErr": res.IOErr, "writeErr": res.WriteErr, "backendContacted": seen != nil}
			if seen != nil {
				contacts = len(seen.Bodies)
				var got []string
				for a, b := range seen.Bodies {
					got = append(got, fmt.Sprintf("contact %d: %d bytes, read error %q", a+1, len(b), seen.BodyErrs[a]))
				}
				desc["backendContacts"] = got
			}
			c07Panics(r, dd, gw, desc)
			if res.Watchdog {
				r.Inconclusive("socket watchdog fired: " + res.IOErr + " " + res.WriteErr)
				continue
			}
			resp := res.Resp
			// the signature names what went wrong and the input class (failure kind x pool
			// options); framing, limit source and sizes are in the detail
			tag := plan.Kind + ":" + kind
			bad := func(what string) {
				sig := "C07:req-resilience:" + class + ":" + what + ":" + tag
				r.Count("oracle_refutations", 1)
				if sigs[sig]++; sigs[sig] <= 2 {
					r.Violation(sig, desc)
				}
			}
			r.Count("sres_"+class+"_exchanges", 1)
			r.Count("sres_"+class+"_limit_from_"+src, 1)

			// (2) every contact that saw the body end cleanly got the client's bytes
			deliveredTo := -1 // a success-scripted contact that received the body intact
			for a, b := range c07sBodies(seen) {
				scriptedPartial := sc.FailReadN > 0 && a < failFirst
				if scriptedPartial {
					if seen.BodyErrs[a] == e2ePartialRead {
						r.Count("sres_"+class+"_backend_reset_mid_body", 1)
					}
					continue
				}
				if seen.BodyErrs[a] != "" {
					continue // the transfer was aborted: the backend knows it has no complete body
				}
				if !bytes.Equal(b, body) {
					which := "first-contact"
					if a > 0 {
						which = "repeated-contact"
					}
					d := e2eBodyDiff(body, b)
					d["contact"] = a + 1
					desc["backendBodyDiff"] = d
					bad("backend-got-other-body-as-complete(" + which + ")")
					continue
				}
				if a >= failFirst && deliveredTo < 0 {
					deliveredTo = a
				}
			}

			outcome := fmt.Sprintf("%d", resp.Status)
			shortCircuited := false
			switch {
			case resp.FramingErr != "":
				outcome = "aborted"
				if plan.Kind == "none" {
					fk := resp.FramingErr
					if j := strings.IndexByte(fk, '('); j > 0 {
						fk = fk[:j]
					}
					bad("framing:" + fk)
				}
			case resp.Status/100 == 2:
				// (1) a success needs a successful contact that got the whole body
				if deliveredTo < 0 {
					bad("client-got-2xx-but-no-successful-contact-received-the-body")
				} else if !bytes.Equal(resp.Body, want) {
					desc["responseBodyDiff"] = e2eBodyDiff(want, resp.Body)
					bad("response-body-differs")
				} else {
					r.Count("sres_"+class+"_passed_intact_"+fr, 1)
					if sizeClass == "big" {
						r.Count("sres_"+class+"_big_passed_intact", 1)
					}
					if deliveredTo > 0 {
						r.Count("sres_"+class+"_passed_intact_after_failed_contacts", 1)
					}
					if cfg.CircuitBreaker != nil {
						r.Count("sres_"+class+"_passed_intact_through_breaker", 1)
					}
				}
			default:
				if cfg.CircuitBreaker != nil && resp.Status == 503 && seen == nil {
					shortCircuited = true
					outcome = "503-without-contact"
					r.Count("sres_breaker_refused_without_contact", 1)
				} else if plan.Kind == "none" {
					// (3)
					bad(fmt.Sprintf("status-got%d-want200", resp.Status))
				}
				if plan.Kind != "none" && seen != nil {
					r.Count("sres_"+class+"_failure_answered_with_error_status", 1)
				}
			}
			// observations about the input class (never verdicts)
			if plan.Kind != "none" && seen != nil {
				r.Count("sres_"+class+"_first_contact_failed:"+plan.Kind, 1)
				if cfg.Retry != nil && seen.BodyErrs[0] == "" && bytes.Equal(seen.Bodies[0], body) {
					r.Count("sres_"+class+"_retry_configured_first_contact_failed_after_whole_body:"+plan.Kind, 1)
				}
				if cfg.Retry != nil && sc.FailReadN > 0 && seen.BodyErrs[0] == e2ePartialRead {
					r.Count("sres_"+class+"_retry_configured_first_contact_failed_mid_body", 1)
				}
				if cfg.CircuitBreaker != nil {
					r.Count("sres_"+class+"_failed_contact_under_breaker", 1)
				}
			}
			r.Cover(fmt.Sprintf("req-resilience/%s/%s/%s/%s/%s/%s/fail%d/contacts%d/%s", kind, class, src, sizeClass, fr, plan.Kind, plan.First, contacts, outcome))
			if i < 2 && k < 2 {
				r.Sample(desc)
			}
			if shortCircuited && cfg.CircuitBreaker.WaitOpenMs < 1000 {
				// let the breaker go half-open (a lower bound on real time, no verdict)
				time.Sleep(time.Duration(cfg.CircuitBreaker.WaitOpenMs+10) * time.Millisecond)
			}
		}
		cl.Close()
		gw.Close()
		be.CloseIdle()
	}
	for _, k := range []string{
		"sres_stream_exchanges", "sres_buffered_exchanges", "sres_stream_limit_from_path", "sres_stream_limit_from_server",
		"sres_stream_passed_intact_cl", "sres_stream_passed_intact_chunked", "sres_stream_big_passed_intact", "sres_stream_passed_intact_through_breaker",
		"sres_stream_retry_configured_first_contact_failed_after_whole_body:failure-code",
		"sres_stream_retry_configured_first_contact_failed_after_whole_body:dropped-after-body",
		"sres_stream_retry_configured_first_contact_failed_after_whole_body:unlisted-status",
		"sres_stream_retry_configured_first_contact_failed_mid_body",
		"sres_stream_backend_reset_mid_body", "sres_stream_failed_contact_under_breaker", "sres_stream_failure_answered_with_error_status",
		// the control: the retry policy of these gateways is live
		"sres_buffered_passed_intact_after_failed_contacts", "sres_breaker_refused_without_contact",
	} {
		r.Require(k, 1)
	}
}

// c07sBodies returns the bodies of all contacts (none if the backend was never contacted).
func c07sBodies(s *e2eSeen) [][]byte {
	if s == nil {
		return nil
	}
	return s.Bodies
}
