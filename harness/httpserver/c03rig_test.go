//go:build verif

package httpserver

// End-to-end rig shared by the C03 and C07 monitors:
//
//	raw TCP client (this file) -> real http.Server{Handler: real mux} on 127.0.0.1:0
//	  -> real Pipeline (RequestAdaptor?, Proxy, ResponseAdaptor?) built through
//	     supervisor.NewSpec + Pipeline.Init -> real loopback backend (net/http server,
//	     this file) that records what it receives and plays a scripted response.
//
// The client writes hand-built HTTP/1.1 requests and parses the response bytes itself
// (strict framing reader), so nothing of net/http's client-side leniency hides a
// badly framed gateway response.

import (
	"bufio"
	"bytes"
	"compress/gzip"
	"crypto/sha1"
	"encoding/hex"
	"errors"
	"fmt"
	"io"
	"log"
	"net"
	"net/http"
	"os"
	"strconv"
	"strings"
	"sync"
	"syscall"
	"time"

	"github.com/megaease/easegress/pkg/context"
	_ "github.com/megaease/easegress/pkg/filters/proxy"
	_ "github.com/megaease/easegress/pkg/filters/requestadaptor"
	_ "github.com/megaease/easegress/pkg/filters/responseadaptor"
	"github.com/megaease/easegress/pkg/logger"
	"github.com/megaease/easegress/pkg/object/pipeline"
	"github.com/megaease/easegress/pkg/protocols/httpprot/httpstat"
	"github.com/megaease/easegress/pkg/supervisor"
	"verif.local/kit"
)

func init() { logger.InitNop() }

// e2eWatchdog is the socket read/write deadline of the raw client.  Its firing makes
// the exchange inconclusive, never a violation.
const e2eWatchdog = 120 * time.Second

const e2eIDHeader = "X-E2e-Id"

// ---------------------------------------------------------------- helpers

// e2eNotReplayed tells that a single case of ANOTHER part is being replayed, so this
// part has nothing to do.
func e2eNotReplayed(r *kit.Run) bool {
	return os.Getenv("VERIF_ONLY") != "" && !r.Replaying()
}

func e2eGzip(b []byte) []byte {
	var buf bytes.Buffer
	zw := gzip.NewWriter(&buf)
	zw.Write(b)
	zw.Close()
	return buf.Bytes()
}

// e2eGunzip undoes a gzip label.  An empty body stays empty (a zero-length entity has
// nothing to decode; clients accept that).
func e2eGunzip(b []byte) ([]byte, error) {
	if len(b) == 0 {
		return nil, nil
	}
	zr, err := gzip.NewReader(bytes.NewReader(b))
	if err != nil {
		return nil, err
	}
	out, err := io.ReadAll(zr)
	if err != nil {
		return out, err
	}
	return out, nil
}

// e2eBrief describes a body without dumping it.
func e2eBrief(b []byte) string {
	h := sha1.Sum(b)
	head := b
	if len(head) > 48 {
		head = head[:48]
	}
	return fmt.Sprintf("len=%d sha1=%s head=%q", len(b), hex.EncodeToString(h[:6]), head)
}

func e2eCanon(k string) string { return http.CanonicalHeaderKey(k) }

// e2eValues returns the values of a header (canonical name compare) in wire order.
func e2eValues(h [][2]string, name string) []string {
	var out []string
	cn := e2eCanon(name)
	for _, kv := range h {
		if e2eCanon(kv[0]) == cn {
			out = append(out, kv[1])
		}
	}
	return out
}

func e2eTokens(vals []string) []string {
	var out []string
	for _, v := range vals {
		for _, t := range strings.Split(v, ",") {
			if t = strings.TrimSpace(t); t != "" {
				out = append(out, t)
			}
		}
	}
	return out
}

func e2eHasToken(vals []string, tok string) bool {
	for _, t := range e2eTokens(vals) {
		if strings.EqualFold(t, tok) {
			return true
		}
	}
	return false
}

// ---------------------------------------------------------------- backend

// e2eScript is the response the backend plays for one exchange id.
type e2eScript struct {
	Status  int         `json:"status"`
	Headers [][2]string `json:"headers,omitempty"`
	Body    []byte      `json:"-"`    // bytes put on the wire (already encoded)
	Mode    string      `json:"mode"` // cl | chunked | short | short-chunked | drop | reset | drop-in-headers | hang | bodiless
	SendN   int         `json:"sendN,omitempty"`
	// short: Content-Length len(Body) is declared, only Body[:SendN] is sent, then the
	// connection is closed.
	// short-chunked: a chunked body is begun, Body[:SendN] is sent in chunks, then the
	// connection is closed without the terminating chunk.
	// drop / reset: the request is read, then the connection is closed (FIN / RST) without
	// a single response byte.  drop-in-headers: closed in the middle of the header block.
	// hang: no response until the caller gives up (its connection ends).

	// The first FailFirst contacts of this exchange id are answered with FailStatus and a
	// tiny body (FailStatus 0: the connection is dropped instead); later contacts play the
	// script.  For gateways with a retry policy.
	FailFirst  int `json:"failFirst,omitempty"`
	FailStatus int `json:"failStatus,omitempty"`
	// Slow backend (lower bounds, never part of a verdict): wait before reading the
	// request body / before answering.
	ReadDelayMs int `json:"readDelayMs,omitempty"`
	RespDelayMs int `json:"respDelayMs,omitempty"`
	// bodiless: the response has no body by definition (answer to a HEAD request, status 204
	// or 304) but its head declares `Content-Length: Declared` (Declared < 0: no
	// Content-Length line).  A HEAD request (status other than 204 / 304) is answered through
	// net/http's server, which keeps a Content-Length the handler set; everything else is
	// written raw (net/http strips Content-Length from 204 / 304) with `Connection: close`.
	Declared int64 `json:"declared,omitempty"`
	// FailReadN > 0: a failing contact (one of the first FailFirst) reads only FailReadN
	// bytes of the request body and then resets the connection (RST) without a response
	// byte: a backend that dies in the middle of an upload.  What it read is recorded with
	// the body error e2ePartialRead.
	FailReadN int `json:"failReadN,omitempty"`
}

// e2ePartialRead is the BodyErr of a contact that stopped reading on purpose (FailReadN).
const e2ePartialRead = "e2e backend: scripted partial read"

// e2eHangWatchdog bounds a "hang" script; its firing is reported in e2eSeen.HangExpired
// and makes the exchange inconclusive.
const e2eHangWatchdog = 100 * time.Second

// e2eSeen is what the backend received for one exchange id.
type e2eSeen struct {
	Method     string
	RequestURI string
	Host       string
	Header     http.Header
	Body       []byte
	BodyErr    string
	Chunked    bool
	CL         int64
	N          int
	Contacts   []string // remote address and time of every contact for this id
	// every contact, in order of arrival (Body/BodyErr above are those of the last one)
	Bodies      [][]byte
	BodyErrs    []string
	Times       []time.Time // arrival of the request head of every contact
	HangExpired bool
}

type e2eBackend struct {
	ln      net.Listener
	srv     *http.Server
	port    string
	mu      sync.Mutex
	scripts map[string]*e2eScript
	seen    map[string]*e2eSeen
	total   int64
	conns   map[net.Conn]http.ConnState
}

func e2eNewBackend() (*e2eBackend, error) {
	ln, err := net.Listen("tcp", "127.0.0.1:0")
	if err != nil {
		return nil, err
	}
	b := &e2eBackend{ln: ln, scripts: map[string]*e2eScript{}, seen: map[string]*e2eSeen{}, conns: map[net.Conn]http.ConnState{}}
	_, b.port, _ = net.SplitHostPort(ln.Addr().String())
	b.srv = &http.Server{
		Handler:  b,
		ErrorLog: log.New(io.Discard, "", 0),
		ConnState: func(c net.Conn, s http.ConnState) {
			b.mu.Lock()
			if s == http.StateClosed || s == http.StateHijacked {
				delete(b.conns, c)
			} else {
				b.conns[c] = s
			}
			b.mu.Unlock()
		},
	}
	go b.srv.Serve(ln)
	return b, nil
}

func (b *e2eBackend) Close() { b.srv.Close() }

// CloseIdle closes the keep-alive connections the gateway's transport left behind (a
// Proxy filter does not close its transport), so that thousands of cases do not pile
// up sockets.
func (b *e2eBackend) CloseIdle() {
	b.mu.Lock()
	var cs []net.Conn
	for c, s := range b.conns {
		if s == http.StateIdle {
			cs = append(cs, c)
		}
	}
	b.mu.Unlock()
	for _, c := range cs {
		c.Close()
	}
}

func (b *e2eBackend) Script(id string, s *e2eScript) {
	b.mu.Lock()
	b.scripts[id] = s
	b.mu.Unlock()
}

// Take returns and forgets what was seen for id (nil: never contacted).
func (b *e2eBackend) Take(id string) *e2eSeen {
	b.mu.Lock()
	defer b.mu.Unlock()
	s := b.seen[id]
	delete(b.seen, id)
	delete(b.scripts, id)
	return s
}

// Contacted tells whether id has reached the backend.
func (b *e2eBackend) Contacted(id string) bool {
	b.mu.Lock()
	defer b.mu.Unlock()
	return b.seen[id] != nil
}

func (b *e2eBackend) Total() int64 {
	b.mu.Lock()
	defer b.mu.Unlock()
	return b.total
}

func (b *e2eBackend) ServeHTTP(w http.ResponseWriter, r *http.Request) {
	id := r.Header.Get(e2eIDHeader)
	arrived := time.Now()
	b.mu.Lock()
	sc := b.scripts[id]
	b.mu.Unlock()
	if sc != nil && sc.ReadDelayMs > 0 {
		time.Sleep(time.Duration(sc.ReadDelayMs) * time.Millisecond)
	}
	partial := false
	if sc != nil && sc.FailReadN > 0 {
		b.mu.Lock()
		prev := 0
		if old := b.seen[id]; old != nil {
			prev = old.N
		}
		b.mu.Unlock()
		partial = prev+1 <= sc.FailFirst
	}
	var body []byte
	var err error
	if partial {
		body, err = io.ReadAll(io.LimitReader(r.Body, int64(sc.FailReadN)))
		if err == nil {
			err = errors.New(e2ePartialRead)
		}
	} else {
		body, err = io.ReadAll(r.Body)
	}
	seen := &e2eSeen{
		Method: r.Method, RequestURI: r.RequestURI, Host: r.Host, Header: r.Header.Clone(),
		Body: body, CL: r.ContentLength, N: 1,
	}
	for _, te := range r.TransferEncoding {
		if te == "chunked" {
			seen.Chunked = true
		}
	}
	if err != nil {
		seen.BodyErr = err.Error()
	}
	b.mu.Lock()
	b.total++
	seen.Contacts = []string{r.RemoteAddr + " " + arrived.Format("15:04:05.000000")}
	seen.Bodies, seen.BodyErrs, seen.Times = [][]byte{body}, []string{seen.BodyErr}, []time.Time{arrived}
	if old := b.seen[id]; old != nil {
		seen.N = old.N + 1
		seen.Contacts = append(old.Contacts, seen.Contacts...)
		seen.Bodies = append(old.Bodies, seen.Bodies...)
		seen.BodyErrs = append(old.BodyErrs, seen.BodyErrs...)
		seen.Times = append(old.Times, seen.Times...)
		seen.HangExpired = old.HangExpired
	}
	b.seen[id] = seen
	sc = b.scripts[id]
	nth := seen.N
	b.mu.Unlock()
	if sc == nil {
		w.Header().Set("Content-Type", "text/plain")
		w.WriteHeader(598)
		io.WriteString(w, "e2e backend: no script for id "+id)
		return
	}
	if sc.RespDelayMs > 0 {
		time.Sleep(time.Duration(sc.RespDelayMs) * time.Millisecond)
	}
	mode := sc.Mode
	if nth <= sc.FailFirst {
		if partial {
			if hj, ok := w.(http.Hijacker); ok {
				if c, _, err := hj.Hijack(); err == nil {
					if tc, ok := c.(*net.TCPConn); ok {
						tc.SetLinger(0)
					}
					c.Close()
				}
			}
			return
		}
		if sc.FailStatus != 0 {
			w.Header().Set("Content-Type", "text/plain")
			w.Header().Set("X-E2e-Failed-Attempt", strconv.Itoa(nth))
			w.WriteHeader(sc.FailStatus)
			io.WriteString(w, "e2e backend: scripted failure of attempt "+strconv.Itoa(nth))
			return
		}
		mode = "drop"
	}
	switch mode {
	case "drop", "reset", "drop-in-headers", "short-chunked":
		hj, ok := w.(http.Hijacker)
		if !ok {
			w.WriteHeader(597)
			return
		}
		c, bw, err := hj.Hijack()
		if err != nil {
			return
		}
		switch mode {
		case "reset":
			if tc, ok := c.(*net.TCPConn); ok {
				tc.SetLinger(0)
			}
		case "drop-in-headers":
			fmt.Fprintf(bw, "HTTP/1.1 %d %s\r\nContent-Type: text/plain\r\nX-Cut-Off: he", sc.Status, http.StatusText(sc.Status))
			bw.Flush()
		case "short-chunked":
			fmt.Fprintf(bw, "HTTP/1.1 %d %s\r\n", sc.Status, http.StatusText(sc.Status))
			for _, kv := range sc.Headers {
				fmt.Fprintf(bw, "%s: %s\r\n", kv[0], kv[1])
			}
			bw.WriteString("Transfer-Encoding: chunked\r\n\r\n")
			rest := sc.Body[:sc.SendN]
			for len(rest) > 0 {
				k := 4096
				if k > len(rest) {
					k = len(rest)
				}
				fmt.Fprintf(bw, "%x\r\n", k)
				bw.Write(rest[:k])
				bw.WriteString("\r\n")
				rest = rest[k:]
			}
			bw.Flush()
		}
		c.Close()
		return
	case "hang":
		t := time.NewTimer(e2eHangWatchdog)
		defer t.Stop()
		select {
		case <-r.Context().Done():
		case <-t.C:
			b.mu.Lock()
			if s := b.seen[id]; s != nil {
				s.HangExpired = true
			}
			b.mu.Unlock()
		}
		return
	}
	switch mode {
	case "bodiless":
		if r.Method == "HEAD" && sc.Status != 204 && sc.Status != 304 {
			h := w.Header()
			for _, kv := range sc.Headers {
				h.Add(kv[0], kv[1])
			}
			if sc.Declared >= 0 {
				h.Set("Content-Length", strconv.FormatInt(sc.Declared, 10))
			}
			w.WriteHeader(sc.Status)
			return
		}
		hj, ok := w.(http.Hijacker)
		if !ok {
			w.WriteHeader(597)
			return
		}
		c, bw, err := hj.Hijack()
		if err != nil {
			return
		}
		fmt.Fprintf(bw, "HTTP/1.1 %d %s\r\n", sc.Status, http.StatusText(sc.Status))
		for _, kv := range sc.Headers {
			fmt.Fprintf(bw, "%s: %s\r\n", kv[0], kv[1])
		}
		if sc.Declared >= 0 {
			fmt.Fprintf(bw, "Content-Length: %d\r\n", sc.Declared)
		}
		bw.WriteString("Connection: close\r\n\r\n")
		bw.Flush()
		c.Close()
	case "short":
		hj, ok := w.(http.Hijacker)
		if !ok {
			w.WriteHeader(597)
			return
		}
		c, bw, err := hj.Hijack()
		if err != nil {
			return
		}
		fmt.Fprintf(bw, "HTTP/1.1 %d %s\r\n", sc.Status, http.StatusText(sc.Status))
		for _, kv := range sc.Headers {
			fmt.Fprintf(bw, "%s: %s\r\n", kv[0], kv[1])
		}
		fmt.Fprintf(bw, "Content-Length: %d\r\n\r\n", len(sc.Body))
		bw.Write(sc.Body[:sc.SendN])
		bw.Flush()
		c.Close()
	case "chunked":
		h := w.Header()
		for _, kv := range sc.Headers {
			h.Add(kv[0], kv[1])
		}
		w.WriteHeader(sc.Status)
		fl, _ := w.(http.Flusher)
		if fl != nil {
			fl.Flush()
		}
		rest := sc.Body
		for _, cut := range []int{len(rest) / 3, len(rest) / 2} {
			if cut > 0 && cut < len(rest) {
				w.Write(rest[:cut])
				if fl != nil {
					fl.Flush()
				}
				rest = rest[cut:]
			}
		}
		w.Write(rest)
	default: // cl
		h := w.Header()
		for _, kv := range sc.Headers {
			h.Add(kv[0], kv[1])
		}
		if sc.Status == 204 || sc.Status == 304 {
			w.WriteHeader(sc.Status)
			return
		}
		h.Set("Content-Length", strconv.Itoa(len(sc.Body)))
		w.WriteHeader(sc.Status)
		w.Write(sc.Body)
	}
}

// ---------------------------------------------------------------- gateway

type e2eAdaptor struct {
	Body       string `json:"body,omitempty"`
	Compress   bool   `json:"compress,omitempty"`
	Decompress bool   `json:"decompress,omitempty"`
}

func (a *e2eAdaptor) String() string {
	if a == nil {
		return "none"
	}
	s := ""
	if a.Body != "" {
		s += "body"
	}
	if a.Compress {
		s += "+compress"
	}
	if a.Decompress {
		s += "+decompress"
	}
	return strings.TrimPrefix(s, "+")
}

// e2eCfg is one gateway configuration.  Limits: 0 = not set in the YAML.
type e2eCfg struct {
	ServerClientMax int64       `json:"serverClientMax"`
	PathClientMax   int64       `json:"pathClientMax"` // for pathPrefix /lim/ ; path "/" has none
	ProxyServerMax  int64       `json:"proxyServerMax"`
	PoolServerMax   int64       `json:"poolServerMax"`
	HostNameServer  bool        `json:"hostNameServer"`
	KeepHost        bool        `json:"keepHost"`
	Compression     *int        `json:"compressionMinLength,omitempty"`
	ReqAd           *e2eAdaptor `json:"reqAdaptor,omitempty"`
	RespAd          *e2eAdaptor `json:"respAdaptor,omitempty"`
	CacheSize       int         `json:"cacheSize,omitempty"` // HTTPServer route cache (0 = off)
	// pool-level failure handling
	FailureCodes  []int     `json:"failureCodes,omitempty"`
	Retry         *e2eRetry `json:"retry,omitempty"`         // pipeline resilience policy used by the pool
	PoolTimeoutMs int       `json:"poolTimeoutMs,omitempty"` // pool `timeout`
	// pipeline resilience policy used by the pool as circuitBreakerPolicy
	CircuitBreaker *e2eCB `json:"circuitBreaker,omitempty"`
	// DeadPort: the pool's only server is 127.0.0.1:<DeadPort>, a port that refuses
	// connections (see e2eReservePort)
	DeadPort string `json:"deadPort,omitempty"`
	// Further pools of the Proxy, each with a backend of its own (see e2ePoolX): a mirrorPool
	// and a candidate pool (a pool with a filter, listed before the main pool).
	Mirror    *e2ePoolX `json:"mirrorPool,omitempty"`
	Candidate *e2ePoolX `json:"candidatePool,omitempty"`
}

// e2ePoolX is an additional pool of the Proxy (mirrorPool or candidate pool) with its own
// recording backend and a request filter.
type e2ePoolX struct {
	Port string `json:"port"` // loopback port of this pool's backend (an e2eBackend)
	// Filter: "header" (one header must have the exact value), "header-all" (matchAllHeaders
	// over that header and a Host-independent second one that every e2e request carries:
	// the exchange id, by regex) or "random-1000" (policy random, permil 1000: every request)
	Filter      string `json:"filter"`
	HeaderName  string `json:"headerName,omitempty"`
	HeaderValue string `json:"headerValue,omitempty"`
}

func (p *e2ePoolX) yaml(indent string) string {
	var b strings.Builder
	w := func(format string, a ...interface{}) { b.WriteString(indent); fmt.Fprintf(&b, format, a...) }
	w("servers:\n")
	w("- url: http://127.0.0.1:%s\n", p.Port)
	w("filter:\n")
	switch p.Filter {
	case "random-1000":
		w("  policy: random\n")
		w("  permil: 1000\n")
	case "header-all":
		w("  matchAllHeaders: true\n")
		w("  headers:\n")
		w("    %s:\n", p.HeaderName)
		w("      exact: %q\n", p.HeaderValue)
		w("    %s:\n", e2eIDHeader)
		w("      regex: \"^.+$\"\n")
	default:
		w("  headers:\n")
		w("    %s:\n", p.HeaderName)
		w("      exact: %q\n", p.HeaderValue)
	}
	return b.String()
}

// e2eCB is a CircuitBreaker resilience policy (count based window).
type e2eCB struct {
	WindowSize        int `json:"slidingWindowSize"`
	MinCalls          int `json:"minimumNumberOfCalls"`
	FailureRate       int `json:"failureRateThreshold"`
	WaitOpenMs        int `json:"waitDurationInOpenStateMs"`
	PermittedHalfOpen int `json:"permittedNumberOfCallsInHalfOpenState"`
}

// e2eRetry is a Retry resilience policy.
type e2eRetry struct {
	MaxAttempts int     `json:"maxAttempts"`
	WaitMs      int     `json:"waitMs"`
	Random      float64 `json:"randomizationFactor"`
}

// e2eReservePort binds (without listening on) a loopback port: connecting to it is
// refused for as long as the returned release function has not been called, and nobody
// else on the machine can take the port meanwhile.
func e2eReservePort() (port string, release func(), err error) {
	fd, err := syscall.Socket(syscall.AF_INET, syscall.SOCK_STREAM, 0)
	if err != nil {
		return "", nil, err
	}
	if err = syscall.Bind(fd, &syscall.SockaddrInet4{Addr: [4]byte{127, 0, 0, 1}}); err != nil {
		syscall.Close(fd)
		return "", nil, err
	}
	sa, err := syscall.Getsockname(fd)
	if err != nil {
		syscall.Close(fd)
		return "", nil, err
	}
	in4, ok := sa.(*syscall.SockaddrInet4)
	if !ok {
		syscall.Close(fd)
		return "", nil, errors.New("not an IPv4 socket address")
	}
	return strconv.Itoa(in4.Port), func() { syscall.Close(fd) }, nil
}

func (a *e2eAdaptor) yaml(name, kind string) string {
	var b strings.Builder
	fmt.Fprintf(&b, "- name: %s\n  kind: %s\n", name, kind)
	if a.Body != "" {
		fmt.Fprintf(&b, "  body: %q\n", a.Body)
	}
	if a.Compress {
		b.WriteString("  compress: gzip\n")
	}
	if a.Decompress {
		b.WriteString("  decompress: gzip\n")
	}
	return b.String()
}

func (c *e2eCfg) backendURL(be *e2eBackend) string {
	if c.DeadPort != "" {
		return "http://127.0.0.1:" + c.DeadPort
	}
	if c.HostNameServer {
		return "http://localhost:" + be.port
	}
	return "http://127.0.0.1:" + be.port
}

func (c *e2eCfg) pipelineYAML(be *e2eBackend) string {
	var b strings.Builder
	b.WriteString("name: pl\nkind: Pipeline\nflow:\n")
	if c.ReqAd != nil {
		b.WriteString("- filter: reqad\n")
	}
	b.WriteString("- filter: proxy\n")
	if c.RespAd != nil {
		b.WriteString("- filter: respad\n")
	}
	if c.Retry != nil || c.CircuitBreaker != nil {
		b.WriteString("resilience:\n")
	}
	if c.Retry != nil {
		fmt.Fprintf(&b, "- name: retry\n  kind: Retry\n  maxAttempts: %d\n  waitDuration: %dms\n  randomizationFactor: %g\n",
			c.Retry.MaxAttempts, c.Retry.WaitMs, c.Retry.Random)
	}
	if cb := c.CircuitBreaker; cb != nil {
		fmt.Fprintf(&b, "- name: breaker\n  kind: CircuitBreaker\n  slidingWindowType: COUNT_BASED\n  slidingWindowSize: %d\n  minimumNumberOfCalls: %d\n  failureRateThreshold: %d\n  waitDurationInOpenState: %dms\n  permittedNumberOfCallsInHalfOpenState: %d\n",
			cb.WindowSize, cb.MinCalls, cb.FailureRate, cb.WaitOpenMs, cb.PermittedHalfOpen)
	}
	b.WriteString("filters:\n")
	if c.ReqAd != nil {
		b.WriteString(c.ReqAd.yaml("reqad", "RequestAdaptor"))
	}
	b.WriteString("- name: proxy\n  kind: Proxy\n")
	if c.ProxyServerMax != 0 {
		fmt.Fprintf(&b, "  serverMaxBodySize: %d\n", c.ProxyServerMax)
	}
	if c.Compression != nil {
		fmt.Fprintf(&b, "  compression:\n    minLength: %d\n", *c.Compression)
	}
	if c.Mirror != nil {
		b.WriteString("  mirrorPool:\n")
		b.WriteString(c.Mirror.yaml("    "))
	}
	b.WriteString("  pools:\n")
	if c.Candidate != nil {
		b.WriteString("  - " + strings.TrimPrefix(c.Candidate.yaml("    "), "    "))
	}
	b.WriteString("  - servers:\n")
	fmt.Fprintf(&b, "    - url: %s\n", c.backendURL(be))
	if c.KeepHost {
		b.WriteString("      keepHost: true\n")
	}
	if c.PoolServerMax != 0 {
		fmt.Fprintf(&b, "    serverMaxBodySize: %d\n", c.PoolServerMax)
	}
	if c.Retry != nil {
		b.WriteString("    retryPolicy: retry\n")
	}
	if c.CircuitBreaker != nil {
		b.WriteString("    circuitBreakerPolicy: breaker\n")
	}
	if c.PoolTimeoutMs > 0 {
		fmt.Fprintf(&b, "    timeout: %dms\n", c.PoolTimeoutMs)
	}
	if len(c.FailureCodes) > 0 {
		b.WriteString("    failureCodes: [")
		for i, fc := range c.FailureCodes {
			if i > 0 {
				b.WriteString(", ")
			}
			b.WriteString(strconv.Itoa(fc))
		}
		b.WriteString("]\n")
	}
	if c.RespAd != nil {
		b.WriteString(c.RespAd.yaml("respad", "ResponseAdaptor"))
	}
	return b.String()
}

func (c *e2eCfg) serverYAML() string {
	var b strings.Builder
	b.WriteString("kind: HTTPServer\nname: e2e\nport: 18080\nkeepAlive: true\nhttps: false\n")
	if c.ServerClientMax != 0 {
		fmt.Fprintf(&b, "clientMaxBodySize: %d\n", c.ServerClientMax)
	}
	if c.CacheSize > 0 {
		fmt.Fprintf(&b, "cacheSize: %d\n", c.CacheSize)
	}
	b.WriteString("rules:\n- paths:\n")
	b.WriteString("  - pathPrefix: /lim/\n    backend: pl\n")
	if c.PathClientMax != 0 {
		fmt.Fprintf(&b, "    clientMaxBodySize: %d\n", c.PathClientMax)
	}
	b.WriteString("  - pathPrefix: /\n    backend: pl\n")
	return b.String()
}

type e2eMapper map[string]context.Handler

func (m e2eMapper) GetHandler(name string) (context.Handler, bool) {
	h, ok := m[name]
	return h, ok
}

type e2eGateway struct {
	mux    *mux
	pl     *pipeline.Pipeline
	srv    *http.Server
	ln     net.Listener
	addr   string
	errlog e2eLog
}

// e2eLog collects what net/http's server reports (handler panics end up here), one
// entry per log call.
type e2eLog struct {
	mu      sync.Mutex
	entries []string
}

func (l *e2eLog) Write(p []byte) (int, error) {
	l.mu.Lock()
	if len(l.entries) < 4096 {
		e := string(p)
		if len(e) > 6000 {
			e = e[:6000]
		}
		l.entries = append(l.entries, e)
	}
	l.mu.Unlock()
	return len(p), nil
}

// TakePanics returns and removes the "http: panic serving <addr>" entries of the given
// client addresses (all panic entries if addrs is nil).
func (l *e2eLog) TakePanics(addrs []string) []string {
	l.mu.Lock()
	defer l.mu.Unlock()
	var out, keep []string
	for _, e := range l.entries {
		hit := false
		if strings.HasPrefix(e, "http: panic serving ") {
			if addrs == nil {
				hit = true
			}
			for _, a := range addrs {
				if strings.HasPrefix(e, "http: panic serving "+a+": ") {
					hit = true
				}
			}
		}
		if hit {
			out = append(out, e)
		} else {
			keep = append(keep, e)
		}
	}
	l.entries = keep
	return out
}

// e2ePanicSig reduces a "http: panic serving" entry to site and message class.
func e2ePanicSig(entry string) (site, msg string) {
	msg = entry
	if j := strings.Index(msg, "\n"); j > 0 {
		msg = msg[:j]
	}
	msg = strings.TrimPrefix(msg, "http: panic serving ")
	if j := strings.Index(msg, ": "); j > 0 {
		msg = msg[j+2:]
	}
	return kit.PanicSite(entry), kit.MsgClass(msg)
}

// e2eStart builds the pipeline and the mux through the real spec/Init path and serves
// the mux with a real http.Server (the way runtime.startServer does).
func e2eStart(cfg *e2eCfg, be *e2eBackend) (g *e2eGateway, err error) {
	defer func() {
		if e := recover(); e != nil {
			g, err = nil, fmt.Errorf("panic while building gateway: %v", e)
		}
	}()
	plSpec, err := supervisor.NewSpec(cfg.pipelineYAML(be))
	if err != nil {
		return nil, fmt.Errorf("pipeline spec: %v", err)
	}
	pl := &pipeline.Pipeline{}
	pl.Init(plSpec, nil)
	mapper := e2eMapper{"pl": pl}
	ss, err := supervisor.NewSpec(cfg.serverYAML())
	if err != nil {
		pl.Close()
		return nil, fmt.Errorf("server spec: %v", err)
	}
	m := newMux(httpstat.New(), httpstat.NewTopN(10), mapper)
	m.reload(ss, mapper)
	ln, err := net.Listen("tcp", "127.0.0.1:0")
	if err != nil {
		pl.Close()
		return nil, err
	}
	g = &e2eGateway{mux: m, pl: pl, ln: ln, addr: ln.Addr().String()}
	g.srv = &http.Server{Handler: m, ErrorLog: log.New(&g.errlog, "", 0)}
	g.srv.SetKeepAlivesEnabled(true)
	go g.srv.Serve(ln)
	return g, nil
}

func (g *e2eGateway) Close() {
	g.srv.Close()
	g.pl.Close()
	g.mux.close()
}

// ---------------------------------------------------------------- raw client

// e2eReq is a hand-built HTTP/1.1 request.
type e2eReq struct {
	Method  string      `json:"method"`
	Target  string      `json:"target"`
	Headers [][2]string `json:"headers"` // everything except the framing headers
	Body    []byte      `json:"-"`
	// Framing: none | cl | chunked | short-cl (Content-Length: Declared > len(Body), then
	// the write side is closed).
	Framing  string `json:"framing"`
	Declared int    `json:"declared,omitempty"`
	Chunk    int    `json:"chunk,omitempty"` // chunk size for chunked framing
	// PaceUs > 0: the body is put on the wire in pieces of Chunk bytes (default 4096), each
	// followed by a pause of PaceUs microseconds: a body that arrives in many reads (a lower
	// bound on real time, never part of a verdict).
	PaceUs int `json:"paceUs,omitempty"`
}

func (q *e2eReq) head() []byte {
	var b bytes.Buffer
	fmt.Fprintf(&b, "%s %s HTTP/1.1\r\n", q.Method, q.Target)
	for _, kv := range q.Headers {
		b.WriteString(kv[0] + ": " + kv[1] + "\r\n")
	}
	switch q.Framing {
	case "cl":
		fmt.Fprintf(&b, "Content-Length: %d\r\n", len(q.Body))
	case "short-cl":
		fmt.Fprintf(&b, "Content-Length: %d\r\n", q.Declared)
	case "chunked":
		b.WriteString("Transfer-Encoding: chunked\r\n")
	}
	b.WriteString("\r\n")
	return b.Bytes()
}

func (q *e2eReq) writeTo(c *net.TCPConn) error {
	if _, err := c.Write(q.head()); err != nil {
		return err
	}
	switch q.Framing {
	case "cl", "short-cl":
		if len(q.Body) > 0 && q.PaceUs > 0 {
			n := q.Chunk
			if n <= 0 {
				n = 4096
			}
			for rest := q.Body; len(rest) > 0; {
				k := n
				if k > len(rest) {
					k = len(rest)
				}
				if _, err := c.Write(rest[:k]); err != nil {
					return err
				}
				rest = rest[k:]
				time.Sleep(time.Duration(q.PaceUs) * time.Microsecond)
			}
		} else if len(q.Body) > 0 {
			if _, err := c.Write(q.Body); err != nil {
				return err
			}
		}
		if q.Framing == "short-cl" {
			return c.CloseWrite()
		}
	case "chunked":
		n := q.Chunk
		if n <= 0 {
			n = 4096
		}
		bw := bufio.NewWriterSize(c, 64<<10)
		rest := q.Body
		for len(rest) > 0 {
			k := n
			if k > len(rest) {
				k = len(rest)
			}
			fmt.Fprintf(bw, "%x\r\n", k)
			bw.Write(rest[:k])
			bw.WriteString("\r\n")
			rest = rest[k:]
			if q.PaceUs > 0 {
				if err := bw.Flush(); err != nil {
					return err
				}
				time.Sleep(time.Duration(q.PaceUs) * time.Microsecond)
			}
		}
		bw.WriteString("0\r\n\r\n")
		return bw.Flush()
	}
	return nil
}

// e2eResp is the gateway's response as parsed by the strict reader.
type e2eResp struct {
	Proto      string      `json:"proto"`
	Status     int         `json:"status"`
	Headers    [][2]string `json:"headers"`
	Body       []byte      `json:"-"`
	Framing    string      `json:"framing"`              // none | cl | chunked | close
	FramingErr string      `json:"framingErr,omitempty"` // "" = well-framed
	Close      bool        `json:"close"`                // connection ends after this response
	BodyBrief  string      `json:"body"`
}

type e2eConn struct {
	c    *net.TCPConn
	br   *bufio.Reader
	used int
}

var errE2eWatchdog = errors.New("e2e watchdog")

func e2eIsTimeout(err error) bool {
	var ne net.Error
	return errors.As(err, &ne) && ne.Timeout() || errors.Is(err, os.ErrDeadlineExceeded)
}

// readLine reads one CRLF-terminated line (without the CRLF).
func e2eReadLine(br *bufio.Reader) (string, string, error) {
	var line []byte
	for {
		part, err := br.ReadSlice('\n')
		line = append(line, part...)
		if err == bufio.ErrBufferFull {
			if len(line) > 1<<20 {
				return "", "line-too-long", nil
			}
			continue
		}
		if err != nil {
			return string(line), "", err
		}
		break
	}
	if len(line) < 2 || line[len(line)-2] != '\r' {
		return string(line), "bare-lf-line-ending", nil
	}
	return string(line[:len(line)-2]), "", nil
}

func e2eIsTokenChar(c byte) bool {
	if c >= '0' && c <= '9' || c >= 'a' && c <= 'z' || c >= 'A' && c <= 'Z' {
		return true
	}
	return strings.IndexByte("!#$%&'*+-.^_`|~", c) >= 0
}

// e2eReadResponse parses one response strictly.  err != nil: I/O failure (resp may be
// partially filled, FramingErr says where the stream ended); a protocol error is
// reported in FramingErr with err == nil.
func e2eReadResponse(br *bufio.Reader, head bool) (*e2eResp, error) {
	resp := &e2eResp{}
	defer func() { resp.BodyBrief = e2eBrief(resp.Body) }()
	for {
		line, bad, err := e2eReadLine(br)
		if err != nil {
			if line == "" {
				resp.FramingErr = "eof-before-status-line"
			} else {
				resp.FramingErr = "eof-in-status-line"
			}
			return resp, err
		}
		if bad != "" {
			resp.FramingErr = "status-line:" + bad
			return resp, nil
		}
		if len(line) < 12 || !strings.HasPrefix(line, "HTTP/1.") || line[8] != ' ' {
			resp.FramingErr = fmt.Sprintf("bad-status-line(%q)", e2eClip(line))
			return resp, nil
		}
		resp.Proto = line[:8]
		st, aerr := strconv.Atoi(line[9:12])
		if aerr != nil || (len(line) > 12 && line[12] != ' ') {
			resp.FramingErr = fmt.Sprintf("bad-status-line(%q)", e2eClip(line))
			return resp, nil
		}
		resp.Status = st
		resp.Headers = nil
		for {
			hl, bad, err := e2eReadLine(br)
			if err != nil {
				resp.FramingErr = "eof-in-headers"
				return resp, err
			}
			if bad != "" {
				resp.FramingErr = "header-line:" + bad
				return resp, nil
			}
			if hl == "" {
				break
			}
			i := strings.IndexByte(hl, ':')
			if i <= 0 {
				resp.FramingErr = fmt.Sprintf("bad-header-line(%q)", e2eClip(hl))
				return resp, nil
			}
			for k := 0; k < i; k++ {
				if !e2eIsTokenChar(hl[k]) {
					resp.FramingErr = fmt.Sprintf("bad-header-name(%q)", e2eClip(hl))
					return resp, nil
				}
			}
			resp.Headers = append(resp.Headers, [2]string{hl[:i], strings.Trim(hl[i+1:], " \t")})
		}
		if st >= 100 && st < 200 && st != 101 {
			continue // interim response
		}
		break
	}
	conn := e2eValues(resp.Headers, "Connection")
	resp.Close = e2eHasToken(conn, "close") || (resp.Proto == "HTTP/1.0" && !e2eHasToken(conn, "keep-alive"))
	te := e2eValues(resp.Headers, "Transfer-Encoding")
	cls := e2eValues(resp.Headers, "Content-Length")
	noBody := head || resp.Status == 204 || resp.Status == 304 || (resp.Status >= 100 && resp.Status < 200)
	var declared int64 = -1
	if len(cls) > 0 {
		for _, v := range cls {
			n, err := strconv.ParseInt(v, 10, 64)
			if err != nil || n < 0 || strings.TrimLeft(v, "0123456789") != "" {
				resp.FramingErr = fmt.Sprintf("bad-content-length(%q)", e2eClip(v))
				return resp, nil
			}
			if declared >= 0 && declared != n {
				resp.FramingErr = "conflicting-content-lengths"
				return resp, nil
			}
			declared = n
		}
	}
	if len(te) > 0 && declared >= 0 {
		resp.FramingErr = "both-transfer-encoding-and-content-length"
		return resp, nil
	}
	if noBody {
		resp.Framing = "none"
		return resp, nil
	}
	switch {
	case len(te) > 0:
		toks := e2eTokens(te)
		if len(toks) != 1 || !strings.EqualFold(toks[0], "chunked") {
			resp.FramingErr = fmt.Sprintf("unsupported-transfer-encoding(%q)", e2eClip(strings.Join(te, ",")))
			return resp, nil
		}
		resp.Framing = "chunked"
		for {
			sl, bad, err := e2eReadLine(br)
			if err != nil {
				resp.FramingErr = fmt.Sprintf("eof-in-chunked-body(after %d bytes)", len(resp.Body))
				return resp, err
			}
			if bad != "" {
				resp.FramingErr = "chunk-size-line:" + bad
				return resp, nil
			}
			hexs := sl
			if i := strings.IndexByte(hexs, ';'); i >= 0 {
				hexs = hexs[:i]
			}
			hexs = strings.TrimRight(hexs, " \t")
			n, perr := strconv.ParseUint(hexs, 16, 31)
			if perr != nil || hexs == "" {
				resp.FramingErr = fmt.Sprintf("bad-chunk-size(%q)", e2eClip(sl))
				return resp, nil
			}
			if n == 0 {
				break
			}
			buf := make([]byte, n)
			if _, err := io.ReadFull(br, buf); err != nil {
				resp.FramingErr = fmt.Sprintf("eof-in-chunk-data(after %d bytes)", len(resp.Body))
				return resp, err
			}
			resp.Body = append(resp.Body, buf...)
			var crlf [2]byte
			if _, err := io.ReadFull(br, crlf[:]); err != nil {
				resp.FramingErr = "eof-after-chunk-data"
				return resp, err
			}
			if crlf != [2]byte{'\r', '\n'} {
				resp.FramingErr = "chunk-data-not-followed-by-crlf"
				return resp, nil
			}
		}
		for { // trailer section
			tl, bad, err := e2eReadLine(br)
			if err != nil {
				resp.FramingErr = "eof-in-trailer-section"
				return resp, err
			}
			if bad != "" {
				resp.FramingErr = "trailer-line:" + bad
				return resp, nil
			}
			if tl == "" {
				break
			}
		}
	case declared >= 0:
		resp.Framing = "cl"
		buf := make([]byte, declared)
		n, err := io.ReadFull(br, buf)
		resp.Body = buf[:n]
		if err != nil {
			resp.FramingErr = "body-shorter-than-content-length"
			return resp, err
		}
	default:
		resp.Framing = "close"
		resp.Close = true
		b, err := io.ReadAll(br)
		resp.Body = b
		if err != nil && !e2eIsReset(err) {
			return resp, err
		}
		return resp, nil
	}
	return resp, nil
}

func e2eClip(s string) string {
	if len(s) > 80 {
		return s[:80] + "..."
	}
	return s
}

func e2eIsReset(err error) bool {
	return err != nil && (strings.Contains(err.Error(), "connection reset") || strings.Contains(err.Error(), "broken pipe"))
}

// e2eClient keeps one connection to the gateway and reuses it while the gateway lets it.
type e2eClient struct {
	addr       string
	conn       *e2eConn
	Reconnects int
	Reused     int
}

func (cl *e2eClient) dial() error {
	c, err := net.DialTimeout("tcp", cl.addr, e2eWatchdog)
	if err != nil {
		return err
	}
	cl.conn = &e2eConn{c: c.(*net.TCPConn), br: bufio.NewReaderSize(c, 64<<10)}
	return nil
}

func (cl *e2eClient) Close() {
	if cl.conn != nil {
		cl.conn.c.Close()
		cl.conn = nil
	}
}

type e2eResult struct {
	Addrs    []string // local addresses of the connections used
	Resent   bool     // the request was sent again on a fresh connection (see Do)
	Resp     *e2eResp
	IOErr    string // I/O error that ended reading (after FramingErr was set), "" if none
	Watchdog bool   // the deadline fired: inconclusive
	WriteErr string // error of the request writer (informational)
	Reused   bool   // sent on a connection that had served a response before
}

// alive tells whether a kept connection is still open (the server may close it after a
// response without announcing it).
func (c *e2eConn) alive() bool {
	c.c.SetReadDeadline(time.Now().Add(2 * time.Millisecond))
	_, err := c.br.Peek(1)
	c.c.SetReadDeadline(time.Time{})
	return err == nil || e2eIsTimeout(err)
}

// Do performs one exchange.  A request is never pipelined.  contacted (may be nil)
// tells whether the backend has seen this exchange: a request that met a dead kept-alive
// connection is sent again on a fresh one only if it provably was not processed.
func (cl *e2eClient) Do(q *e2eReq, contacted func() bool) *e2eResult {
	var addrs []string
	for attempt := 0; ; attempt++ {
		if cl.conn != nil && cl.conn.used > 0 && !cl.conn.alive() {
			cl.Close()
			cl.Reconnects++
		}
		reused := cl.conn != nil && cl.conn.used > 0
		if cl.conn == nil {
			if err := cl.dial(); err != nil {
				return &e2eResult{Resp: &e2eResp{FramingErr: "dial-failed"}, IOErr: err.Error(), Watchdog: true}
			}
		}
		addrs = append(addrs, cl.conn.c.LocalAddr().String())
		res := cl.once(q)
		res.Reused = reused
		res.Addrs = addrs
		res.Resent = attempt > 0
		if reused && attempt == 0 && res.Resp.FramingErr == "eof-before-status-line" && !res.Watchdog &&
			contacted != nil && !contacted() {
			cl.Close()
			cl.Reconnects++
			continue
		}
		if reused {
			cl.Reused++
		}
		return res
	}
}

func (cl *e2eClient) once(q *e2eReq) *e2eResult {
	conn := cl.conn
	conn.used++
	res := &e2eResult{}
	dl := time.Now().Add(e2eWatchdog)
	conn.c.SetDeadline(dl)
	werr := make(chan error, 1)
	go func() { werr <- q.writeTo(conn.c) }()
	resp, err := e2eReadResponse(conn.br, q.Method == "HEAD")
	res.Resp = resp
	if err != nil {
		res.IOErr = err.Error()
		if e2eIsTimeout(err) {
			res.Watchdog = true
		}
	}
	if err == nil && resp.FramingErr == "" {
		if resp.Close {
			// nothing may follow the response
			extra, rerr := io.Copy(io.Discard, conn.br)
			if extra > 0 {
				resp.FramingErr = fmt.Sprintf("bytes-after-response(%d)", extra)
			}
			if rerr != nil && e2eIsTimeout(rerr) {
				res.Watchdog = true
			}
		} else if q.Framing == "short-cl" {
			resp.Close = true
		} else if n := conn.br.Buffered(); n > 0 {
			// requests are never pipelined: whatever has arrived behind a complete
			// response on a kept-alive connection does not belong to any response
			resp.FramingErr = fmt.Sprintf("bytes-after-response(%d)", n)
		}
	}
	// the writer ends when everything is written or the socket dies
	if e := <-werr; e != nil {
		res.WriteErr = e.Error()
		if e2eIsTimeout(e) {
			res.Watchdog = true
		}
	}
	if err != nil || resp.FramingErr != "" || resp.Close {
		cl.Close()
	}
	return res
}

// ---------------------------------------------------------------- self-identifying bodies

// e2ePatternBody returns n bytes that name their owner and their position all the way
// through: records "<owner>@<offset, 8 hex digits>;" repeated and cut to n.  Bytes of one
// exchange that turn up in the body of another are thereby visible and attributable.
func e2ePatternBody(owner string, n int) []byte {
	const hexd = "0123456789abcdef"
	b := make([]byte, 0, n+len(owner)+16)
	for len(b) < n {
		off := len(b)
		b = append(b, owner...)
		b = append(b, '@')
		var o [8]byte
		for i := 7; i >= 0; i-- {
			o[i] = hexd[off&15]
			off >>= 4
		}
		b = append(b, o[:]...)
		b = append(b, ';')
	}
	return b[:n]
}

// e2eBodyDiff describes how got differs from want: lengths, the first differing offset
// and the bytes around it on both sides (a foreign owner tag shows up there).
func e2eBodyDiff(want, got []byte) map[string]interface{} {
	d := map[string]interface{}{"wantLen": len(want), "gotLen": len(got)}
	n := len(want)
	if len(got) < n {
		n = len(got)
	}
	first := -1
	for i := 0; i < n; i++ {
		if want[i] != got[i] {
			first = i
			break
		}
	}
	if first < 0 {
		if len(want) != len(got) {
			d["firstDifference"] = fmt.Sprintf("common prefix of %d bytes, then one side ends", n)
		}
		return d
	}
	last := first
	for i := n - 1; i > first; i-- {
		if want[i] != got[i] {
			last = i
			break
		}
	}
	clip := func(b []byte, at int) string {
		lo, hi := at-8, at+72
		if lo < 0 {
			lo = 0
		}
		if hi > len(b) {
			hi = len(b)
		}
		return fmt.Sprintf("%q", b[lo:hi])
	}
	d["firstDifferenceAt"] = first
	d["lastDifferenceAt"] = last
	d["wantThere"] = clip(want, first)
	d["gotThere"] = clip(got, first)
	return d
}
