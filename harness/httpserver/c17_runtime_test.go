//go:build verif

package httpserver

// C17 (HTTP half, through the real httpserver runtime): a real runtime (fsm, http.Server,
// gnet.Listen, LimitListener) on a loopback port with maxConnections = cap, raw keep-alive HTTP
// clients over TCP, and cap changes through the real reload event.
//
// gauge = clients that have received a response on their connection and have not closed it yet
// (incremented when the response arrives, decremented before the socket is closed), so
// gauge <= connections the server holds at every instant.  Bound: the cap of the spec; raised
// BEFORE a reload that grows it; never lowered after a shrinking reload because the runtime
// discards the completion signal of SetMaxConnection (the shrink is then only *observed* to be
// in force: exactly the new cap of a fresh wave of clients is served - bounded progress,
// watchdog => inconclusive).

import (
	"bufio"
	"fmt"
	"io"
	"math/rand"
	"net"
	"net/http"
	"os"
	"sync"
	"sync/atomic"
	"testing"
	"time"

	"github.com/megaease/easegress/pkg/context"
	"github.com/megaease/easegress/pkg/logger"
	"github.com/megaease/easegress/pkg/protocols/httpprot"
	"github.com/megaease/easegress/pkg/supervisor"
	"verif.local/kit"
)

func init() { logger.InitNop() }

var c17Watchdog = func() time.Duration {
	if v, err := time.ParseDuration(os.Getenv("C17_WATCHDOG")); err == nil && v > 0 {
		return v
	}
	return 120 * time.Second
}()

var c17Stalls int32

func c17WD() time.Duration {
	if atomic.LoadInt32(&c17Stalls) > 0 {
		return 10 * time.Second
	}
	return c17Watchdog
}

type c17Mapper struct{}
type c17Handler struct{}

func (c17Mapper) GetHandler(name string) (context.Handler, bool) { return c17Handler{}, true }
func (c17Handler) Handle(ctx *context.Context) string {
	resp, _ := httpprot.NewResponse(nil)
	resp.SetStatusCode(200)
	ctx.SetResponse(context.DefaultNamespace, resp)
	return ""
}

type c17HCase struct {
	Kind    string `json:"kind"`
	Cap     int    `json:"cap"`
	NewCap  int    `json:"newCap,omitempty"`
	Seq     []int  `json:"seq,omitempty"` // b2b-reload-mix: maxConnections of the reloads, in order
	Clients int    `json:"clients"`
}

type c17HMon struct {
	r  *kit.Run
	cs *c17HCase

	mu       sync.Mutex
	gauge    int
	bound    int
	ctx      string
	maxGauge int
	history  []string

	events   int64
	aborted  int32
	teardown int32
	rt       *runtime
}

type c17HClient struct {
	id        int
	conn      net.Conn
	servedCh  chan struct{}
	release   chan struct{}
	done      chan struct{}
	cancelled int32
	counted   bool // under c17HMon.mu
	mon       *c17HMon
	relOnce   sync.Once
}

func c17Yaml(port, maxConn int) string {
	return fmt.Sprintf("kind: HTTPServer\nname: c17\nport: %d\nkeepAlive: true\nkeepAliveTimeout: 3600s\nhttps: false\nmaxConnections: %d\nrules:\n- paths:\n  - pathPrefix: /\n    backend: be\n", port, maxConn)
}

func (m *c17HMon) inconclusive(why string) {
	atomic.AddInt32(&c17Stalls, 1)
	if atomic.CompareAndSwapInt32(&m.aborted, 0, 1) {
		st := ""
		if m.rt != nil {
			st = fmt.Sprintf(" runtime state=%s err=%v", m.rt.getState(), m.rt.getError())
		}
		m.mu.Lock()
		g := m.gauge
		m.mu.Unlock()
		m.r.Inconclusive(why + fmt.Sprintf(" [kind=%s cap=%d new=%d open=%d%s]", m.cs.Kind, m.cs.Cap, m.cs.NewCap, g, st))
	}
}

func (m *c17HMon) waitUntil(what string, cond func() bool) bool {
	last := atomic.LoadInt64(&m.events)
	lastT := time.Now()
	for {
		if cond() {
			return true
		}
		if atomic.LoadInt32(&m.aborted) != 0 {
			return false
		}
		time.Sleep(500 * time.Microsecond)
		if e := atomic.LoadInt64(&m.events); e != last {
			last, lastT = e, time.Now()
		} else if wd := c17WD(); time.Since(lastT) > wd {
			atomic.AddInt32(&c17Stalls, 1)
			m.inconclusive("watchdog: no progress for " + wd.String() + " while waiting for " + what)
			return false
		}
	}
}

// served counts the connection unless the harness has already closed its socket; the decision
// and the one in free() are taken under the same lock, so the socket of a counted connection
// is only ever closed by its own goroutine, after closing().
func (m *c17HMon) served(c *c17HClient) bool {
	m.mu.Lock()
	if atomic.LoadInt32(&c.cancelled) != 0 {
		m.mu.Unlock()
		return false
	}
	c.counted = true
	m.gauge++
	if m.gauge > m.maxGauge {
		m.maxGauge = m.gauge
	}
	if len(m.history) < 80 {
		m.history = append(m.history, fmt.Sprintf("served client %d -> open %d (cap in force %d, %s)", c.id, m.gauge, m.bound, m.ctx))
	}
	if m.gauge > m.bound {
		m.r.Violation("httpserver:served-over-cap:"+m.ctx, map[string]interface{}{
			"served_open_connections": m.gauge, "cap_in_force": m.bound, "context": m.ctx, "case": m.cs, "history": append([]string{}, m.history...),
		})
	}
	if m.gauge == m.bound {
		m.r.Count("served_reaching_cap", 1)
	}
	m.mu.Unlock()
	atomic.AddInt64(&m.events, 1)
	return true
}

func (m *c17HMon) closing(c *c17HClient) {
	m.mu.Lock()
	m.gauge--
	m.mu.Unlock()
	atomic.AddInt64(&m.events, 1)
}

func (m *c17HMon) setCtx(ctx string, raiseTo int) {
	m.mu.Lock()
	m.ctx = ctx
	if raiseTo > m.bound {
		m.bound = raiseTo
	}
	if len(m.history) < 80 {
		m.history = append(m.history, fmt.Sprintf("-- %s (cap in force for the oracle %d, open %d)", ctx, m.bound, m.gauge))
	}
	m.mu.Unlock()
}

func (m *c17HMon) open() int {
	m.mu.Lock()
	defer m.mu.Unlock()
	return m.gauge
}

func c17Request(conn net.Conn, br *bufio.Reader) error {
	if _, err := io.WriteString(conn, "GET /c17 HTTP/1.1\r\nHost: c17\r\n\r\n"); err != nil {
		return err
	}
	resp, err := http.ReadResponse(br, nil)
	if err != nil {
		return err
	}
	io.Copy(io.Discard, resp.Body)
	resp.Body.Close()
	if resp.StatusCode != 200 {
		return fmt.Errorf("status %d", resp.StatusCode)
	}
	return nil
}

func (m *c17HMon) spawn(addr string, n int, idBase int) []*c17HClient {
	var out []*c17HClient
	for i := 0; i < n; i++ {
		c := &c17HClient{mon: m, id: idBase + i, servedCh: make(chan struct{}), release: make(chan struct{}), done: make(chan struct{})}
		conn, err := net.DialTimeout("tcp", addr, 60*time.Second)
		if err != nil {
			m.inconclusive("dial failed: " + err.Error())
			close(c.done)
			continue
		}
		c.conn = conn
		out = append(out, c)
		go func() {
			defer close(c.done)
			defer c.conn.Close()
			br := bufio.NewReader(c.conn)
			if err := c17Request(c.conn, br); err != nil {
				// held back until released (socket closed by the controller) or torn down
				if atomic.LoadInt32(&c.cancelled) == 0 && atomic.LoadInt32(&m.teardown) == 0 {
					m.inconclusive("request failed on a connection nobody closed: " + err.Error())
				}
				return
			}
			if !m.served(c) {
				return
			}
			close(c.servedCh)
			<-c.release
			// still established?  a second request on the same connection must be answered
			if atomic.LoadInt32(&m.teardown) == 0 && atomic.LoadInt32(&c.cancelled) == 0 {
				if err := c17Request(c.conn, br); err != nil {
					if atomic.LoadInt32(&m.teardown) != 0 || atomic.LoadInt32(&c.cancelled) != 0 {
						m.closing(c)
						return // the server was shut down (or the harness closed the socket) under the request: not a verdict
					}
					m.mu.Lock()
					ctx := m.ctx
					m.mu.Unlock()
					m.r.Violation("httpserver:established-connection-dropped:"+ctx, map[string]interface{}{"err": err.Error(), "client": c.id, "case": m.cs})
				} else {
					m.r.Count("second_request_on_held_connection_ok", 1)
				}
			}
			m.closing(c)
		}()
	}
	return out
}

func (c *c17HClient) isServed() bool {
	select {
	case <-c.servedCh:
		return true
	default:
		return false
	}
}

// free lets the client go: a served client checks its connection and closes, a held-back one
// has its socket closed.
func (c *c17HClient) free() {
	c.relOnce.Do(func() {
		c.mon.mu.Lock()
		if c.counted {
			c.mon.mu.Unlock()
			close(c.release)
			return
		}
		atomic.StoreInt32(&c.cancelled, 1)
		c.mon.mu.Unlock()
		c.conn.Close()
		close(c.release)
	})
}

func c17FreeAll(cs []*c17HClient) {
	for _, c := range cs {
		c.free()
	}
	for _, c := range cs {
		<-c.done
	}
}

func c17ServedCount(cs []*c17HClient) int {
	n := 0
	for _, c := range cs {
		if c.isServed() {
			n++
		}
	}
	return n
}

// c17FreePort picks a port below the ephemeral range (so that no outgoing connection of a
// neighbouring process can take it as its source port in the meantime) that can be bound on all
// interfaces right now.
func c17FreePort(rng *rand.Rand) int {
	for try := 0; try < 200; try++ {
		p := 10000 + rng.Intn(20000)
		l, err := net.Listen("tcp", fmt.Sprintf(":%d", p))
		if err != nil {
			continue
		}
		l.Close()
		return p
	}
	return 0
}

// c17HSeq draws the caps of 3-6 back-to-back reloads: each a shrink, an identical repeat, a grow
// or a return to a value used earlier (1..12).  With mustRepeat the draw is repeated until the
// sequence contains a shrink followed (not necessarily at once) by an identical repeat and a grow
// right after it.
func c17HSeq(rng *rand.Rand, cap0 int, mustRepeat bool) []int {
	for {
		n := 3 + rng.Intn(4)
		cur := cap0
		seen := []int{cap0}
		var out []int
		shrunk, same, ok := false, false, false
		for k := 0; k < n; k++ {
			c := cur
			switch x := rng.Intn(10); {
			case x < 4:
				if cur > 1 {
					c = 1 + rng.Intn(cur-1)
				}
			case x < 7:
			case x < 9:
				c = cur + 1 + rng.Intn(4)
			default:
				c = seen[rng.Intn(len(seen))]
			}
			if c > 12 {
				c = 12
			}
			switch {
			case c < cur:
				shrunk, same = true, false
			case c == cur:
				same = shrunk
			default:
				if same {
					ok = true
				}
				same = false
			}
			out = append(out, c)
			seen = append(seen, c)
			cur = c
		}
		if ok || !mustRepeat {
			return out
		}
	}
}

func c17HRun(r *kit.Run, cs *c17HCase, rng *rand.Rand) {
	m := &c17HMon{r: r, cs: cs, bound: cs.Cap, ctx: "steady:initial"}
	var rt *runtime
	var port int
	lastErr := ""
	prng := rand.New(rand.NewSource(time.Now().UnixNano() ^ int64(os.Getpid())<<20)) // port choice only; not part of the case
	for try := 0; try < 8 && rt == nil; try++ {
		port = c17FreePort(prng)
		ss, err := supervisor.NewSpec(c17Yaml(port, cs.Cap))
		if err != nil {
			r.Inconclusive("spec rejected: " + err.Error())
			return
		}
		x := newRuntime(ss, c17Mapper{})
		x.eventChan <- &eventReload{nextSuperSpec: ss, muxMapper: c17Mapper{}}
		// stateRunning is published before the listener exists: wait until a connection gets through
		ok := m.waitUntil("runtime to listen", func() bool {
			if x.getState() == stateFailed {
				return true
			}
			if x.getState() != stateRunning {
				return false
			}
			c, err := net.DialTimeout("tcp", fmt.Sprintf("127.0.0.1:%d", port), time.Second)
			if err != nil {
				time.Sleep(2 * time.Millisecond)
				return false
			}
			c.Close()
			return true
		})
		if ok && x.getState() == stateRunning {
			rt = x
		} else {
			lastErr = fmt.Sprintf("state=%s err=%v port=%d", x.getState(), x.getError(), port)
			x.Close()
			if !ok {
				return
			}
		}
	}
	if rt == nil {
		r.Inconclusive("runtime could not listen: " + lastErr)
		return
	}
	m.rt = rt
	addr := fmt.Sprintf("127.0.0.1:%d", port)
	reload := func(n int) {
		ss, err := supervisor.NewSpec(c17Yaml(port, n))
		if err != nil {
			m.inconclusive("spec rejected: " + err.Error())
			return
		}
		rt.eventChan <- &eventReload{nextSuperSpec: ss, muxMapper: c17Mapper{}}
		r.Count("reloads", 1)
	}
	var all []*c17HClient
	defer func() {
		atomic.StoreInt32(&m.teardown, 1)
		for _, c := range all {
			c.free()
		}
		rt.Close()
		for _, c := range all {
			<-c.done
		}
		m.mu.Lock()
		r.Max("max:served_open_connections", int64(m.maxGauge))
		r.Cover(fmt.Sprintf("%s/cap=%d/new=%d/max=%d", cs.Kind, cs.Cap, cs.NewCap, m.maxGauge))
		m.mu.Unlock()
	}()

	// every kind starts saturated: more clients than the cap
	wave := m.spawn(addr, cs.Clients, 0)
	all = append(all, wave...)
	if !m.waitUntil("cap clients to be served", func() bool { return m.open() >= cs.Cap }) {
		return
	}
	time.Sleep(30 * time.Millisecond) // give an over-admission the chance to show (lower bound only)
	if c17ServedCount(wave) < len(wave) {
		r.Count("held_back_clients_seen_at_cap", 1)
	}

	switch cs.Kind {
	case "steady-reuse":
		k := 1 + rng.Intn(cs.Cap)
		if k > 4 {
			k = 4
		}
		freed := 0
		for _, c := range wave {
			if freed < k && c.isServed() {
				c.free()
				<-c.done
				freed++
			}
		}
		if !m.waitUntil("released capacity to be reused", func() bool { return c17ServedCount(wave) >= cs.Cap+k }) {
			return
		}
		r.Count("released_capacity_reused", 1)
		time.Sleep(20 * time.Millisecond)
	case "grow":
		m.setCtx("after-grow-reload", cs.NewCap)
		reload(cs.NewCap)
		want := cs.NewCap
		if want > cs.Clients {
			want = cs.Clients
		}
		if !m.waitUntil("grown capacity to be used", func() bool { return m.open() >= want }) {
			return
		}
		r.Count("grow_through_reload_observed", 1)
		time.Sleep(30 * time.Millisecond)
	case "repeated-identical":
		m.setCtx("repeated-identical-reloads", cs.Cap)
		for k := 0; k < 3; k++ {
			reload(cs.Cap)
		}
		time.Sleep(50 * time.Millisecond)
		// free one, one more must get in; the cap is still the cap
		for _, c := range wave {
			if c.isServed() {
				c.free()
				<-c.done
				break
			}
		}
		if !m.waitUntil("released capacity to be reused after identical reloads", func() bool { return c17ServedCount(wave) >= cs.Cap+1 }) {
			return
		}
		r.Count("released_capacity_reused", 1)
		time.Sleep(20 * time.Millisecond)
	case "shrink-then-grow-b2b":
		// cap -> lo -> cap in two reloads back to back: every cap involved is <= cap
		m.setCtx("overlap:grow-issued-over-unapplied-shrink", cs.Cap)
		reload(cs.NewCap)
		reload(cs.Cap)
		time.Sleep(100 * time.Millisecond)
		for _, c := range wave[:len(wave)/2] {
			c.free()
		}
		for _, c := range wave[:len(wave)/2] {
			<-c.done
		}
		time.Sleep(50 * time.Millisecond)
	case "b2b-reload-mix":
		// 3-6 reloads back to back while every served connection is held: shrinks below the
		// usage, reloads that keep maxConnections (what every reload of an HTTPServer whose
		// other fields changed does), grows, returns to earlier values.  Bound: the maximum of
		// all caps involved, raised before the first reload and never lowered.  A shrink issued
		// while at least as many connections are served as the cap before it cannot be applied
		// before a connection closes, and none closes until the last reload has been handled.
		maxc := cs.Cap
		for _, c := range cs.Seq {
			if c > maxc {
				maxc = c
			}
		}
		m.setCtx("b2b-reloads:before-any-shrink", maxc)
		cur, shrinkUnapplied, sameOverS, prevSameOverS := cs.Cap, false, false, false
		for _, c := range cs.Seq {
			wasSame := false
			switch {
			case c < cur:
				if !shrinkUnapplied {
					// an applied grow may still be filling up: saturate first (clients > every cap)
					at := cur
					if !m.waitUntil("the listener to be full again before a shrinking reload", func() bool { return m.open() >= at }) {
						return
					}
					shrinkUnapplied = true
					m.setCtx("b2b-reloads:shrink-unapplied", 0)
					r.Count("http_shrink_reload_at_saturation", 1)
				}
			case c == cur:
				if shrinkUnapplied {
					sameOverS, wasSame = true, true
					r.Count("http_identical_reload_over_unapplied_shrink", 1)
				}
			default:
				if shrinkUnapplied && sameOverS {
					m.setCtx("overlap:grow-issued-after-identical-repeat-over-unapplied-shrink", 0)
					if prevSameOverS {
						r.Count("http_grow_reload_right_after_identical_over_unapplied_shrink", 1)
					}
				} else if shrinkUnapplied {
					m.setCtx("overlap:grow-issued-over-unapplied-shrink", 0)
				}
			}
			prevSameOverS = wasSame
			reload(c)
			cur = c
		}
		if !m.waitUntil("the reload events to be taken by the runtime", func() bool { return len(rt.eventChan) == 0 }) {
			return
		}
		time.Sleep(100 * time.Millisecond) // lower bound only: an over-admission shows here
		for _, c := range wave[:len(wave)/2] {
			c.free()
		}
		for _, c := range wave[:len(wave)/2] {
			<-c.done
		}
		time.Sleep(50 * time.Millisecond)
	case "shrink":
		// the oracle's bound stays at the old cap (sound); the new cap is then observed
		m.setCtx("after-shrink-reload-unconfirmed", cs.Cap)
		reload(cs.NewCap)
		inForce := false
		for try := 0; try < 40 && !inForce; try++ {
			c17FreeAll(wave)
			if !m.waitUntil("all connections of the previous wave closed", func() bool { return m.open() == 0 }) {
				return
			}
			time.Sleep(time.Duration(20*(try+1)) * time.Millisecond)
			wave = m.spawn(addr, cs.Clients, 1000*(try+1))
			all = append(all, wave...)
			w := wave
			if !m.waitUntil("new cap clients of a fresh wave to be served", func() bool { return c17ServedCount(w) >= cs.NewCap }) {
				return
			}
			time.Sleep(150 * time.Millisecond)
			if c17ServedCount(w) == cs.NewCap {
				inForce = true
			}
		}
		if !inForce {
			m.inconclusive("shrink through reload never observed in force (40 fresh waves were all served beyond the new cap)")
			return
		}
		r.Count("shrink_through_reload_observed_in_force", 1)
	}
}

func TestVerif_C17_HTTPRuntime(t *testing.T) {
	r := kit.Start(t, "C17")
	defer r.Finish()
	r.Rule("a real httpserver runtime (fsm + http.Server + gnet.Listen + LimitListener) per case on a loopback port with maxConnections = cap in 2..6 and cap+4..cap+8 raw keep-alive HTTP clients that hold their connection; kinds: steady + reuse of released capacity | grow through a reload event | shrink through a reload event (observed in force on fresh waves) | shrink-then-grow in two back-to-back reloads at saturation | repeated identical reloads | 3-6 back-to-back reloads at saturation mixing shrinks below the usage, reloads that keep maxConnections (also over a shrink that cannot have been applied), grows and returns to earlier values, nothing closing in between (bound = max of all caps involved); oracle: clients that got a response and have not closed <= cap in force at every response; a held connection still answers a second request before it is closed; distinct = (kind, cap, new cap, max served)")
	r.Assume("the completion of a shrinking reload is not observable through the runtime, so after it the bound of the oracle stays at the old cap and the new cap is only observed (progress)")
	kinds := []string{"steady-reuse", "grow", "shrink", "shrink-then-grow-b2b", "repeated-identical", "b2b-reload-mix"}
	n := r.N(48, 1200)
	for i := 0; i < n; i++ {
		if !r.Mine(i) {
			continue
		}
		rng := r.CaseRand(i)
		cs := &c17HCase{Kind: kinds[i%len(kinds)], Cap: 2 + rng.Intn(5)}
		cs.Clients = cs.Cap + 4 + rng.Intn(5)
		switch cs.Kind {
		case "grow":
			cs.NewCap = cs.Cap + 1 + rng.Intn(4)
		case "shrink", "shrink-then-grow-b2b":
			cs.NewCap = 1 + rng.Intn(cs.Cap-1)
		case "b2b-reload-mix":
			// every other case of this kind must contain 'shrink ... identical repeat, grow'
			cs.Seq = c17HSeq(rng, cs.Cap, (i/len(kinds))%2 == 0)
			maxc := cs.Cap
			for _, c := range cs.Seq {
				if c > maxc {
					maxc = c
				}
			}
			cs.Clients = maxc + 3 + rng.Intn(4)
		}
		r.Case(i, cs)
		if i < 2 {
			r.Sample(cs)
		}
		c17HRun(r, cs, rng)
	}
	for _, k := range []string{"served_reaching_cap", "held_back_clients_seen_at_cap", "released_capacity_reused", "grow_through_reload_observed", "shrink_through_reload_observed_in_force", "second_request_on_held_connection_ok", "reloads",
		"http_shrink_reload_at_saturation", "http_identical_reload_over_unapplied_shrink", "http_grow_reload_right_after_identical_over_unapplied_shrink"} {
		r.Require(k, 1)
	}
}
