//go:build verif

package httpserver

// C17 (HTTP half, through the real httpserver runtime): a real runtime (fsm, http.Server,
// gnet.Listen, LimitListener) on a loopback port with maxConnections = cap, raw keep-alive HTTP
// clients over TCP, and cap changes through the real reload event.
//
// gauge = clients that have received a response on their connection and have not closed it yet
// (incremented when the response arrives, decremented before the socket is closed), so
// gauge <= connections the server holds at every instant.  Bound: the cap of the spec; raised
// BEFORE a reload that grows it; never lowered after a shrinking reload because the runtime
// discards the completion signal of SetMaxConnection (the shrink is then only *observed* to be
// in force: exactly the new cap of a fresh wave of clients is served - bounded progress,
// watchdog => inconclusive).
//
// Listener re-creation (kind "listener-recreated"): the cap in force must survive every way the
// runtime replaces its listener after maxConnections was changed at run time: a reload that needs
// a restart (closeServer + startServer), and the runtime's own restart of a failed server
// (stateFailed -> checkFailed ticker -> startServer) after a serve failure (the accept of the
// underlying listener fails) or after a failed listen (port taken at a restart).  A re-created
// listener has a fresh semaphore, so once every connection of the old listener is closed the bound
// is exactly the maxConnections configured last.  The automatic restart waits for the runtime's
// real 10 s ticker: those cases are prepared first, wait while the other cases run, and are
// decided at the end (the wait is never a verdict: restart not observed => inconclusive).

import (
	"bufio"
	"fmt"
	"io"
	"math/rand"
	"net"
	"net/http"
	"os"
	"sync"
	"sync/atomic"
	"testing"
	"time"

	"github.com/megaease/easegress/pkg/context"
	"github.com/megaease/easegress/pkg/logger"
	"github.com/megaease/easegress/pkg/protocols/httpprot"
	"github.com/megaease/easegress/pkg/supervisor"
	"verif.local/kit"
)

func init() { logger.InitNop() }

var c17Watchdog = func() time.Duration {
	if v, err := time.ParseDuration(os.Getenv("C17_WATCHDOG")); err == nil && v > 0 {
		return v
	}
	return 120 * time.Second
}()

var c17Stalls int32

func c17WD() time.Duration {
	if atomic.LoadInt32(&c17Stalls) > 0 {
		return 10 * time.Second
	}
	return c17Watchdog
}

type c17Mapper struct{}
type c17Handler struct{}

// c17Handled counts handler invocations.  A handler runs in a goroutine started (transitively) by
// the fsm's startServer, after r.limitListener was assigned; loading the counter after a response
// was seen orders the controller behind that assignment before it touches rt.limitListener.
var c17Handled int64

func (c17Mapper) GetHandler(name string) (context.Handler, bool) { return c17Handler{}, true }
func (c17Handler) Handle(ctx *context.Context) string {
	atomic.AddInt64(&c17Handled, 1)
	resp, _ := httpprot.NewResponse(nil)
	resp.SetStatusCode(200)
	ctx.SetResponse(context.DefaultNamespace, resp)
	return ""
}

type c17HCase struct {
	Kind    string `json:"kind"`
	Cap     int    `json:"cap"`
	NewCap  int    `json:"newCap,omitempty"`
	Seq     []int  `json:"seq,omitempty"` // b2b-reload-mix: maxConnections of the reloads, in order
	Clients int    `json:"clients"`

	// listener-recreated
	Way       string `json:"way,omitempty"`       // restart-reload | auto-restart-after-serve-failure | auto-restart-after-listen-failure
	When      string `json:"when,omitempty"`      // where the run-time changes of maxConnections sit relative to the restart / failure
	Hot       []int  `json:"hot,omitempty"`       // hot reloads (no restart needed) while the first listener is serving
	HotFailed []int  `json:"hotFailed,omitempty"` // hot reloads while the runtime is in state failed
	Carried   int    `json:"carried,omitempty"`   // maxConnections carried by the reload that needs a restart
	Final     int    `json:"final,omitempty"`     // maxConnections configured last = the cap of the re-created listener
}

type c17HMon struct {
	r  *kit.Run
	cs *c17HCase

	mu       sync.Mutex
	gauge    int
	bound    int
	ctx      string
	maxGauge int
	history  []string

	events   int64
	aborted  int32
	teardown int32
	rt       *runtime
}

type c17HClient struct {
	id        int
	conn      net.Conn
	servedCh  chan struct{}
	release   chan struct{}
	done      chan struct{}
	cancelled int32
	counted   bool // under c17HMon.mu
	mon       *c17HMon
	relOnce   sync.Once
}

func c17Yaml(port, maxConn int) string { return c17YamlKA(port, maxConn, 3600) }

// c17YamlKA: keepAliveTimeout is a field whose change needs a restart of the server.
func c17YamlKA(port, maxConn, keepAliveSec int) string {
	return fmt.Sprintf("kind: HTTPServer\nname: c17\nport: %d\nkeepAlive: true\nkeepAliveTimeout: %ds\nhttps: false\nmaxConnections: %d\nrules:\n- paths:\n  - pathPrefix: /\n    backend: be\n", port, keepAliveSec, maxConn)
}

func (m *c17HMon) inconclusive(why string) {
	atomic.AddInt32(&c17Stalls, 1)
	if atomic.CompareAndSwapInt32(&m.aborted, 0, 1) {
		st := ""
		if m.rt != nil {
			st = fmt.Sprintf(" runtime state=%s err=%v", m.rt.getState(), m.rt.getError())
		}
		m.mu.Lock()
		g := m.gauge
		m.mu.Unlock()
		if m.cs.Way != "" {
			st = fmt.Sprintf(" way=%s order=%s final=%d", m.cs.Way, m.cs.When, m.cs.Final) + st
		}
		m.r.Inconclusive(why + fmt.Sprintf(" [kind=%s cap=%d new=%d open=%d%s]", m.cs.Kind, m.cs.Cap, m.cs.NewCap, g, st))
	}
}

func (m *c17HMon) waitUntil(what string, cond func() bool) bool {
	last := atomic.LoadInt64(&m.events)
	lastT := time.Now()
	for {
		if cond() {
			return true
		}
		if atomic.LoadInt32(&m.aborted) != 0 {
			return false
		}
		time.Sleep(500 * time.Microsecond)
		if e := atomic.LoadInt64(&m.events); e != last {
			last, lastT = e, time.Now()
		} else if wd := c17WD(); time.Since(lastT) > wd {
			atomic.AddInt32(&c17Stalls, 1)
			m.inconclusive("watchdog: no progress for " + wd.String() + " while waiting for " + what)
			return false
		}
	}
}

// served counts the connection unless the harness has already closed its socket; the decision
// and the one in free() are taken under the same lock, so the socket of a counted connection
// is only ever closed by its own goroutine, after closing().
func (m *c17HMon) served(c *c17HClient) bool {
	m.mu.Lock()
	if atomic.LoadInt32(&c.cancelled) != 0 {
		m.mu.Unlock()
		return false
	}
	c.counted = true
	m.gauge++
	if m.gauge > m.maxGauge {
		m.maxGauge = m.gauge
	}
	if len(m.history) < 80 {
		m.history = append(m.history, fmt.Sprintf("served client %d -> open %d (cap in force %d, %s)", c.id, m.gauge, m.bound, m.ctx))
	}
	if m.gauge > m.bound {
		m.r.Violation("httpserver:served-over-cap:"+m.ctx, map[string]interface{}{
			"served_open_connections": m.gauge, "cap_in_force": m.bound, "context": m.ctx, "case": m.cs, "history": append([]string{}, m.history...),
		})
	}
	if m.gauge == m.bound {
		m.r.Count("served_reaching_cap", 1)
	}
	m.mu.Unlock()
	atomic.AddInt64(&m.events, 1)
	return true
}

func (m *c17HMon) closing(c *c17HClient) {
	m.mu.Lock()
	m.gauge--
	m.mu.Unlock()
	atomic.AddInt64(&m.events, 1)
}

func (m *c17HMon) setCtx(ctx string, raiseTo int) {
	m.mu.Lock()
	m.ctx = ctx
	if raiseTo > m.bound {
		m.bound = raiseTo
	}
	if len(m.history) < 80 {
		m.history = append(m.history, fmt.Sprintf("-- %s (cap in force for the oracle %d, open %d)", ctx, m.bound, m.gauge))
	}
	m.mu.Unlock()
}

func (m *c17HMon) open() int {
	m.mu.Lock()
	defer m.mu.Unlock()
	return m.gauge
}

func c17Request(conn net.Conn, br *bufio.Reader) error {
	if _, err := io.WriteString(conn, "GET /c17 HTTP/1.1\r\nHost: c17\r\n\r\n"); err != nil {
		return err
	}
	resp, err := http.ReadResponse(br, nil)
	if err != nil {
		return err
	}
	io.Copy(io.Discard, resp.Body)
	resp.Body.Close()
	if resp.StatusCode != 200 {
		return fmt.Errorf("status %d", resp.StatusCode)
	}
	return nil
}

func (m *c17HMon) spawn(addr string, n int, idBase int) []*c17HClient {
	var out []*c17HClient
	for i := 0; i < n; i++ {
		c := &c17HClient{mon: m, id: idBase + i, servedCh: make(chan struct{}), release: make(chan struct{}), done: make(chan struct{})}
		conn, err := net.DialTimeout("tcp", addr, 60*time.Second)
		if err != nil {
			m.inconclusive("dial failed: " + err.Error())
			close(c.done)
			continue
		}
		c.conn = conn
		out = append(out, c)
		go func() {
			defer close(c.done)
			defer c.conn.Close()
			br := bufio.NewReader(c.conn)
			if err := c17Request(c.conn, br); err != nil {
				// held back until released (socket closed by the controller) or torn down
				if atomic.LoadInt32(&c.cancelled) == 0 && atomic.LoadInt32(&m.teardown) == 0 {
					m.inconclusive("request failed on a connection nobody closed: " + err.Error())
				}
				return
			}
			if !m.served(c) {
				return
			}
			close(c.servedCh)
			<-c.release
			// still established?  a second request on the same connection must be answered
			if atomic.LoadInt32(&m.teardown) == 0 && atomic.LoadInt32(&c.cancelled) == 0 {
				if err := c17Request(c.conn, br); err != nil {
					if atomic.LoadInt32(&m.teardown) != 0 || atomic.LoadInt32(&c.cancelled) != 0 {
						m.closing(c)
						return // the server was shut down (or the harness closed the socket) under the request: not a verdict
					}
					m.mu.Lock()
					ctx := m.ctx
					m.mu.Unlock()
					m.r.Violation("httpserver:established-connection-dropped:"+ctx, map[string]interface{}{"err": err.Error(), "client": c.id, "case": m.cs})
				} else {
					m.r.Count("second_request_on_held_connection_ok", 1)
				}
			}
			m.closing(c)
		}()
	}
	return out
}

func (c *c17HClient) isServed() bool {
	select {
	case <-c.servedCh:
		return true
	default:
		return false
	}
}

// free lets the client go: a served client checks its connection and closes, a held-back one
// has its socket closed.
func (c *c17HClient) free() {
	c.relOnce.Do(func() {
		c.mon.mu.Lock()
		if c.counted {
			c.mon.mu.Unlock()
			close(c.release)
			return
		}
		atomic.StoreInt32(&c.cancelled, 1)
		c.mon.mu.Unlock()
		c.conn.Close()
		close(c.release)
	})
}

func c17FreeAll(cs []*c17HClient) {
	for _, c := range cs {
		c.free()
	}
	for _, c := range cs {
		<-c.done
	}
}

func c17ServedCount(cs []*c17HClient) int {
	n := 0
	for _, c := range cs {
		if c.isServed() {
			n++
		}
	}
	return n
}

// c17FreePort picks a port below the ephemeral range (so that no outgoing connection of a
// neighbouring process can take it as its source port in the meantime) that can be bound on all
// interfaces right now.
func c17FreePort(rng *rand.Rand) int {
	for try := 0; try < 200; try++ {
		p := 10000 + rng.Intn(20000)
		l, err := net.Listen("tcp", fmt.Sprintf(":%d", p))
		if err != nil {
			continue
		}
		l.Close()
		return p
	}
	return 0
}

// c17HSeq draws the caps of 3-6 back-to-back reloads: each a shrink, an identical repeat, a grow
// or a return to a value used earlier (1..12).  With mustRepeat the draw is repeated until the
// sequence contains a shrink followed (not necessarily at once) by an identical repeat and a grow
// right after it.
func c17HSeq(rng *rand.Rand, cap0 int, mustRepeat bool) []int {
	for {
		n := 3 + rng.Intn(4)
		cur := cap0
		seen := []int{cap0}
		var out []int
		shrunk, same, ok := false, false, false
		for k := 0; k < n; k++ {
			c := cur
			switch x := rng.Intn(10); {
			case x < 4:
				if cur > 1 {
					c = 1 + rng.Intn(cur-1)
				}
			case x < 7:
			case x < 9:
				c = cur + 1 + rng.Intn(4)
			default:
				c = seen[rng.Intn(len(seen))]
			}
			if c > 12 {
				c = 12
			}
			switch {
			case c < cur:
				shrunk, same = true, false
			case c == cur:
				same = shrunk
			default:
				if same {
					ok = true
				}
				same = false
			}
			out = append(out, c)
			seen = append(seen, c)
			cur = c
		}
		if ok || !mustRepeat {
			return out
		}
	}
}

// c17HStart creates a runtime on a free loopback port and waits until it accepts connections.
func c17HStart(r *kit.Run, m *c17HMon, maxConn int) (*runtime, int) {
	var rt *runtime
	var port int
	lastErr := ""
	prng := rand.New(rand.NewSource(time.Now().UnixNano() ^ int64(os.Getpid())<<20)) // port choice only; not part of the case
	for try := 0; try < 8 && rt == nil; try++ {
		port = c17FreePort(prng)
		ss, err := supervisor.NewSpec(c17Yaml(port, maxConn))
		if err != nil {
			r.Inconclusive("spec rejected: " + err.Error())
			return nil, 0
		}
		x := newRuntime(ss, c17Mapper{})
		x.eventChan <- &eventReload{nextSuperSpec: ss, muxMapper: c17Mapper{}}
		// stateRunning is published before the listener exists: wait until a connection gets through
		ok := m.waitUntil("runtime to listen", func() bool {
			if x.getState() == stateFailed {
				return true
			}
			if x.getState() != stateRunning {
				return false
			}
			c, err := net.DialTimeout("tcp", fmt.Sprintf("127.0.0.1:%d", port), time.Second)
			if err != nil {
				time.Sleep(2 * time.Millisecond)
				return false
			}
			c.Close()
			return true
		})
		if ok && x.getState() == stateRunning {
			rt = x
		} else {
			lastErr = fmt.Sprintf("state=%s err=%v port=%d", x.getState(), x.getError(), port)
			x.Close()
			if !ok {
				return nil, 0
			}
		}
	}
	if rt == nil {
		r.Inconclusive("runtime could not listen: " + lastErr)
		return nil, 0
	}
	m.rt = rt
	return rt, port
}

func c17HRun(r *kit.Run, cs *c17HCase, rng *rand.Rand) {
	m := &c17HMon{r: r, cs: cs, bound: cs.Cap, ctx: "steady:initial"}
	rt, port := c17HStart(r, m, cs.Cap)
	if rt == nil {
		return
	}
	addr := fmt.Sprintf("127.0.0.1:%d", port)
	reload := func(n int) {
		ss, err := supervisor.NewSpec(c17Yaml(port, n))
		if err != nil {
			m.inconclusive("spec rejected: " + err.Error())
			return
		}
		rt.eventChan <- &eventReload{nextSuperSpec: ss, muxMapper: c17Mapper{}}
		r.Count("reloads", 1)
	}
	var all []*c17HClient
	defer func() {
		atomic.StoreInt32(&m.teardown, 1)
		for _, c := range all {
			c.free()
		}
		rt.Close()
		for _, c := range all {
			<-c.done
		}
		m.mu.Lock()
		r.Max("max:served_open_connections", int64(m.maxGauge))
		r.Cover(fmt.Sprintf("%s/cap=%d/new=%d/max=%d", cs.Kind, cs.Cap, cs.NewCap, m.maxGauge))
		m.mu.Unlock()
	}()

	// every kind starts saturated: more clients than the cap
	wave := m.spawn(addr, cs.Clients, 0)
	all = append(all, wave...)
	if !m.waitUntil("cap clients to be served", func() bool { return m.open() >= cs.Cap }) {
		return
	}
	time.Sleep(30 * time.Millisecond) // give an over-admission the chance to show (lower bound only)
	if c17ServedCount(wave) < len(wave) {
		r.Count("held_back_clients_seen_at_cap", 1)
	}

	switch cs.Kind {
	case "steady-reuse":
		k := 1 + rng.Intn(cs.Cap)
		if k > 4 {
			k = 4
		}
		freed := 0
		for _, c := range wave {
			if freed < k && c.isServed() {
				c.free()
				<-c.done
				freed++
			}
		}
		if !m.waitUntil("released capacity to be reused", func() bool { return c17ServedCount(wave) >= cs.Cap+k }) {
			return
		}
		r.Count("released_capacity_reused", 1)
		time.Sleep(20 * time.Millisecond)
	case "grow":
		m.setCtx("after-grow-reload", cs.NewCap)
		reload(cs.NewCap)
		want := cs.NewCap
		if want > cs.Clients {
			want = cs.Clients
		}
		if !m.waitUntil("grown capacity to be used", func() bool { return m.open() >= want }) {
			return
		}
		r.Count("grow_through_reload_observed", 1)
		time.Sleep(30 * time.Millisecond)
	case "repeated-identical":
		m.setCtx("repeated-identical-reloads", cs.Cap)
		for k := 0; k < 3; k++ {
			reload(cs.Cap)
		}
		time.Sleep(50 * time.Millisecond)
		// free one, one more must get in; the cap is still the cap
		for _, c := range wave {
			if c.isServed() {
				c.free()
				<-c.done
				break
			}
		}
		if !m.waitUntil("released capacity to be reused after identical reloads", func() bool { return c17ServedCount(wave) >= cs.Cap+1 }) {
			return
		}
		r.Count("released_capacity_reused", 1)
		time.Sleep(20 * time.Millisecond)
	case "shrink-then-grow-b2b":
		// cap -> lo -> cap in two reloads back to back: every cap involved is <= cap
		m.setCtx("overlap:grow-issued-over-unapplied-shrink", cs.Cap)
		reload(cs.NewCap)
		reload(cs.Cap)
		time.Sleep(100 * time.Millisecond)
		for _, c := range wave[:len(wave)/2] {
			c.free()
		}
		for _, c := range wave[:len(wave)/2] {
			<-c.done
		}
		time.Sleep(50 * time.Millisecond)
	case "b2b-reload-mix":
		// 3-6 reloads back to back while every served connection is held: shrinks below the
		// usage, reloads that keep maxConnections (what every reload of an HTTPServer whose
		// other fields changed does), grows, returns to earlier values.  Bound: the maximum of
		// all caps involved, raised before the first reload and never lowered.  A shrink issued
		// while at least as many connections are served as the cap before it cannot be applied
		// before a connection closes, and none closes until the last reload has been handled.
		maxc := cs.Cap
		for _, c := range cs.Seq {
			if c > maxc {
				maxc = c
			}
		}
		m.setCtx("b2b-reloads:before-any-shrink", maxc)
		cur, shrinkUnapplied, sameOverS, prevSameOverS := cs.Cap, false, false, false
		for _, c := range cs.Seq {
			wasSame := false
			switch {
			case c < cur:
				if !shrinkUnapplied {
					// an applied grow may still be filling up: saturate first (clients > every cap)
					at := cur
					if !m.waitUntil("the listener to be full again before a shrinking reload", func() bool { return m.open() >= at }) {
						return
					}
					shrinkUnapplied = true
					m.setCtx("b2b-reloads:shrink-unapplied", 0)
					r.Count("http_shrink_reload_at_saturation", 1)
				}
			case c == cur:
				if shrinkUnapplied {
					sameOverS, wasSame = true, true
					r.Count("http_identical_reload_over_unapplied_shrink", 1)
				}
			default:
				if shrinkUnapplied && sameOverS {
					m.setCtx("overlap:grow-issued-after-identical-repeat-over-unapplied-shrink", 0)
					if prevSameOverS {
						r.Count("http_grow_reload_right_after_identical_over_unapplied_shrink", 1)
					}
				} else if shrinkUnapplied {
					m.setCtx("overlap:grow-issued-over-unapplied-shrink", 0)
				}
			}
			prevSameOverS = wasSame
			reload(c)
			cur = c
		}
		if !m.waitUntil("the reload events to be taken by the runtime", func() bool { return len(rt.eventChan) == 0 }) {
			return
		}
		time.Sleep(100 * time.Millisecond) // lower bound only: an over-admission shows here
		for _, c := range wave[:len(wave)/2] {
			c.free()
		}
		for _, c := range wave[:len(wave)/2] {
			<-c.done
		}
		time.Sleep(50 * time.Millisecond)
	case "shrink":
		// the oracle's bound stays at the old cap (sound); the new cap is then observed
		m.setCtx("after-shrink-reload-unconfirmed", cs.Cap)
		reload(cs.NewCap)
		inForce := false
		for try := 0; try < 40 && !inForce; try++ {
			c17FreeAll(wave)
			if !m.waitUntil("all connections of the previous wave closed", func() bool { return m.open() == 0 }) {
				return
			}
			time.Sleep(time.Duration(20*(try+1)) * time.Millisecond)
			wave = m.spawn(addr, cs.Clients, 1000*(try+1))
			all = append(all, wave...)
			w := wave
			if !m.waitUntil("new cap clients of a fresh wave to be served", func() bool { return c17ServedCount(w) >= cs.NewCap }) {
				return
			}
			time.Sleep(150 * time.Millisecond)
			if c17ServedCount(w) == cs.NewCap {
				inForce = true
			}
		}
		if !inForce {
			m.inconclusive("shrink through reload never observed in force (40 fresh waves were all served beyond the new cap)")
			return
		}
		r.Count("shrink_through_reload_observed_in_force", 1)
	}
}

// ---- listener re-creation after a run-time change of maxConnections ----

const (
	c17WayRestartReload = "restart-reload"
	c17WayServeFailure  = "auto-restart-after-serve-failure"
	c17WayListenFailure = "auto-restart-after-listen-failure"
)

// c17HRecreateCase draws case j of the class: way and order cycle (so that every shard gets a
// mix), three of four groups end below the cap of the first listener, one above.
func c17HRecreateCase(rng *rand.Rand, j int) *c17HCase {
	cs := &c17HCase{Kind: "listener-recreated", Cap: 3 + rng.Intn(4)}
	cs.Way = []string{c17WayRestartReload, c17WayServeFailure, c17WayListenFailure}[(j+j/3)%3]
	order := (j / 3) % 3
	other := func(not ...int) int { // a cap in 1..10 different from all of not
		for {
			c := 1 + rng.Intn(10)
			ok := true
			for _, x := range not {
				ok = ok && c != x
			}
			if ok {
				return c
			}
		}
	}
	if (j/3)%4 == 3 {
		cs.Final = cs.Cap + 1 + rng.Intn(4)
	} else {
		cs.Final = 1 + rng.Intn(cs.Cap-1)
	}
	// 1-3 hot changes ending in last; the ones before it are arbitrary (1..10)
	hotSeq := func(last int) []int {
		var out []int
		for k := rng.Intn(3); k > 0; k-- {
			out = append(out, 1+rng.Intn(10))
		}
		return append(out, last)
	}
	if cs.Way == c17WayRestartReload {
		switch order {
		case 0:
			cs.When = "hot-change-then-restart-reload-with-the-same-maxConnections"
			cs.Hot, cs.Carried = hotSeq(cs.Final), cs.Final
		case 1:
			cs.When = "maxConnections-changed-by-the-restart-reload-itself"
			cs.Carried = cs.Final
		default:
			cs.When = "hot-change-then-restart-reload-with-another-maxConnections"
			cs.Hot, cs.Carried = hotSeq(other(cs.Final, cs.Cap)), cs.Final
		}
	} else {
		switch order {
		case 0:
			cs.When = "hot-change-before-the-failure"
			cs.Hot = hotSeq(cs.Final)
		case 1:
			cs.When = "hot-change-while-failed"
			cs.HotFailed = hotSeq(cs.Final)
		default:
			cs.When = "hot-changes-before-the-failure-and-while-failed"
			cs.Hot, cs.HotFailed = hotSeq(other(cs.Final, cs.Cap)), hotSeq(cs.Final)
		}
		if cs.Way == c17WayListenFailure {
			// the reload that moves the server to the (taken) port carries the cap configured so far
			cs.Carried = cs.Cap
			if len(cs.Hot) > 0 {
				cs.Carried = cs.Hot[len(cs.Hot)-1]
			}
		}
	}
	maxc := cs.Cap
	for _, c := range append(append([]int{cs.Final, cs.Carried}, cs.Hot...), cs.HotFailed...) {
		if c > maxc {
			maxc = c
		}
	}
	cs.Clients = maxc + 2 + rng.Intn(3)
	return cs
}

// c17HPend is a listener-recreated case between its preparation and its verdict.
type c17HPend struct {
	idx     int
	r       *kit.Run
	m       *c17HMon
	cs      *c17HCase
	rt      *runtime
	port    int
	ka      int
	all     []*c17HClient
	blocker net.Listener
	since   time.Time // when the failure was observed
}

func (p *c17HPend) teardown() {
	m := p.m
	atomic.StoreInt32(&m.teardown, 1)
	if p.blocker != nil {
		p.blocker.Close()
	}
	for _, c := range p.all {
		c.free()
	}
	p.rt.Close()
	for _, c := range p.all {
		<-c.done
	}
	m.mu.Lock()
	p.r.Max("max:served_open_connections", int64(m.maxGauge))
	p.r.Cover(fmt.Sprintf("%s/%s/%s/cap=%d/final=%d/max=%d", p.cs.Kind, p.cs.Way, p.cs.When, p.cs.Cap, p.cs.Final, m.maxGauge))
	m.mu.Unlock()
}

func (p *c17HPend) reload(port, maxConn, ka int) bool {
	ss, err := supervisor.NewSpec(c17YamlKA(port, maxConn, ka))
	if err != nil {
		p.m.inconclusive("spec rejected: " + err.Error())
		return false
	}
	p.rt.eventChan <- &eventReload{nextSuperSpec: ss, muxMapper: c17Mapper{}}
	p.r.Count("reloads", 1)
	return true
}

// barrier returns when the fsm has finished every event queued so far: a stale serve-failed event
// (startNum 0 < the current one: ignored by the runtime) is queued behind them and the fsm, which
// handles one event at a time, has taken it.
func (p *c17HPend) barrier(what string) bool {
	p.rt.eventChan <- &eventServeFailed{err: fmt.Errorf("c17 barrier"), startNum: 0}
	return p.m.waitUntil(what, func() bool { return len(p.rt.eventChan) == 0 })
}

// c17HoldPort binds a free port below the ephemeral range on all interfaces and keeps it.
func c17HoldPort(rng *rand.Rand) (net.Listener, int) {
	for try := 0; try < 200; try++ {
		q := 10000 + rng.Intn(20000)
		l, err := net.Listen("tcp", fmt.Sprintf(":%d", q))
		if err == nil {
			return l, q
		}
	}
	return nil, 0
}

// c17HRecreatePrepare runs the case up to the point where the listener is about to be re-created:
// saturated first listener, hot changes, every connection closed, restart reload or injected
// failure (+ hot changes while failed).  nil: the case was given up (inconclusive recorded).
func c17HRecreatePrepare(r *kit.Run, cs *c17HCase) *c17HPend {
	m := &c17HMon{r: r, cs: cs, bound: cs.Cap, ctx: "steady:initial"}
	rt, port := c17HStart(r, m, cs.Cap)
	if rt == nil {
		return nil
	}
	p := &c17HPend{r: r, m: m, cs: cs, rt: rt, port: port, ka: 3600}
	ok := false
	defer func() {
		if !ok {
			p.teardown()
		}
	}()
	wave := m.spawn(fmt.Sprintf("127.0.0.1:%d", port), cs.Clients, 0)
	p.all = append(p.all, wave...)
	if !m.waitUntil("cap clients to be served", func() bool { return m.open() >= cs.Cap }) {
		return nil
	}
	time.Sleep(30 * time.Millisecond)
	if c17ServedCount(wave) < len(wave) {
		r.Count("held_back_clients_seen_at_cap", 1)
	}
	// hot changes on the serving listener; the bound covers every cap involved, never lowered
	// while this listener exists
	maxc := cs.Cap
	for _, c := range cs.Hot {
		if c > maxc {
			maxc = c
		}
	}
	if len(cs.Hot) > 0 {
		m.setCtx("hot-changes-before-listener-recreation", maxc)
		for _, c := range cs.Hot {
			if !p.reload(port, c, p.ka) {
				return nil
			}
		}
		if !p.barrier("the hot reloads to be handled") {
			return nil
		}
		if st := rt.getState(); st != stateRunning {
			m.inconclusive("runtime left state running on a reload that changes maxConnections only")
			return nil
		}
		r.Count("http_hot_change_before_listener_recreation", 1)
		time.Sleep(20 * time.Millisecond)
	}
	// Every connection of the first listener is closed before the listener is replaced (what
	// happens to them at a restart / failure is not the subject); served ones answer a second
	// request first: the hot changes dropped nothing.
	c17FreeAll(wave)
	if m.open() != 0 {
		m.inconclusive("harness: connections still counted after all clients were released")
		return nil
	}
	if atomic.LoadInt64(&c17Handled) == 0 { // also the happens-before edge for rt.limitListener below
		m.inconclusive("harness: no handler invocation seen")
		return nil
	}

	hotWhileFailed := func() bool {
		if len(cs.HotFailed) == 0 {
			return true
		}
		for _, c := range cs.HotFailed {
			if !p.reload(p.port, c, p.ka) {
				return false
			}
		}
		if !p.barrier("the reloads in state failed to be handled") {
			return false
		}
		r.Count("http_hot_change_while_failed", 1)
		return true
	}
	switch cs.Way {
	case c17WayRestartReload:
		p.ka = 3601
		if !p.reload(port, cs.Carried, p.ka) {
			return nil
		}
		if !p.barrier("the restart reload to be handled") {
			return nil
		}
	case c17WayServeFailure:
		// the accept of the underlying listener fails for good: Serve returns, the runtime is told
		ll := rt.limitListener
		ll.Listener.Close()
		if !m.waitUntil("state failed after the serve failure", func() bool { return rt.getState() == stateFailed }) {
			return nil
		}
		p.since = time.Now()
		r.Count("http_serve_failure_injected", 1)
		if !hotWhileFailed() {
			return nil
		}
	case c17WayListenFailure:
		// the server is moved to a port that somebody else holds: the restart cannot listen
		prng := rand.New(rand.NewSource(time.Now().UnixNano() ^ int64(os.Getpid())<<20))
		bl, q := c17HoldPort(prng)
		if bl == nil {
			m.inconclusive("harness: no port to hold")
			return nil
		}
		p.blocker, p.port = bl, q
		if !p.reload(q, cs.Carried, p.ka) {
			return nil
		}
		if !p.barrier("the reload to the taken port to be handled") {
			return nil
		}
		if st := rt.getState(); st != stateFailed {
			m.inconclusive("listen failure not injected: state " + string(st) + " after a restart on a taken port")
			return nil
		}
		p.since = time.Now()
		r.Count("http_listen_failure_injected", 1)
		if !hotWhileFailed() {
			return nil
		}
		bl.Close() // the port is free again: the next automatic restart can listen
		p.blocker = nil
	}
	ok = true
	return p
}

// finish waits for the re-created listener and decides: with maxConnections = Final configured
// last and no connection of the old listener left, never more than Final clients hold an answered
// connection; Final of them are served (progress, watchdog => inconclusive) and a released
// connection is replaced.
func (p *c17HPend) finish() {
	defer p.teardown()
	m, cs, r, rt := p.m, p.cs, p.r, p.rt
	if atomic.LoadInt32(&m.aborted) != 0 {
		return
	}
	wd := c17Watchdog
	if least := 6 * checkFailedTimeout; wd < least {
		wd = least
	}
	deadline := time.Now().Add(wd)
	for {
		if rt.getState() == stateRunning {
			// stateRunning is published before the listener exists and is taken back when the
			// listen fails: look again once startServer has returned
			if !p.barrier("the restart to be completed") {
				return
			}
			if rt.getState() == stateRunning {
				break
			}
		}
		if time.Now().After(deadline) {
			m.inconclusive("listener re-creation not observed within " + wd.String() + " (" + cs.Way + ")")
			return
		}
		time.Sleep(5 * time.Millisecond)
	}
	if cs.Way != c17WayRestartReload {
		// lower bound only, for the evidence: the restart came from the runtime's own ticker
		r.Max("max:ms_between_failure_and_observed_auto_restart", time.Since(p.since).Milliseconds())
	}
	ctx := "after-listener-recreated:" + cs.Way + ":" + cs.When
	m.mu.Lock()
	if m.gauge != 0 {
		m.mu.Unlock()
		m.inconclusive("harness: connections of the old listener still counted")
		return
	}
	m.bound, m.ctx = cs.Final, ctx // fresh listener, fresh semaphore: exactly the cap configured last
	m.history = append(m.history, fmt.Sprintf("-- %s (cap in force for the oracle %d, open 0)", ctx, m.bound))
	m.mu.Unlock()

	wave := m.spawn(fmt.Sprintf("127.0.0.1:%d", p.port), cs.Clients, 5000)
	p.all = append(p.all, wave...)
	if !m.waitUntil("Final clients to be served by the re-created listener", func() bool { return c17ServedCount(wave) >= cs.Final }) {
		return
	}
	time.Sleep(50 * time.Millisecond) // lower bound only: an over-admission shows here
	for _, c := range wave {
		if c.isServed() {
			c.free()
			<-c.done
			break
		}
	}
	if !m.waitUntil("released capacity to be reused on the re-created listener", func() bool { return c17ServedCount(wave) >= cs.Final+1 }) {
		return
	}
	time.Sleep(20 * time.Millisecond)
	r.Count("http_cap_observed_after_listener_recreated:"+cs.Way, 1)
	if cs.Final < cs.Cap {
		r.Count("http_lower_cap_survives_listener_recreation", 1)
	} else {
		r.Count("http_higher_cap_survives_listener_recreation", 1)
	}
}

func TestVerif_C17_HTTPRuntime(t *testing.T) {
	r := kit.Start(t, "C17")
	defer r.Finish()
	r.Rule("a real httpserver runtime (fsm + http.Server + gnet.Listen + LimitListener) per case on a loopback port with maxConnections = cap in 2..6 and cap+4..cap+8 raw keep-alive HTTP clients that hold their connection; kinds: steady + reuse of released capacity | grow through a reload event | shrink through a reload event (observed in force on fresh waves) | shrink-then-grow in two back-to-back reloads at saturation | repeated identical reloads | 3-6 back-to-back reloads at saturation mixing shrinks below the usage, reloads that keep maxConnections (also over a shrink that cannot have been applied), grows and returns to earlier values, nothing closing in between (bound = max of all caps involved) | listener-recreated (extra case indices after the others): maxConnections is changed at run time by 1-3 reloads that need no restart (3 of 4 groups end below the first cap, 1 above), every connection is closed, and the listener is then re-created in one of three ways - a reload that needs a restart (keepAliveTimeout changed; carrying the same cap, another cap, or being itself the only cap change), the runtime's own restart (stateFailed -> 10 s checkFailed ticker -> startServer) after a serve failure (underlying listener closed under the accept loop) or after a failed listen (reload to a port the harness holds, released later) - with the hot changes before the failure, while the runtime is failed, or both; a fresh wave of more clients than every cap involved then meets the re-created listener (bound = exactly the maxConnections configured last; that many are served and a released connection is replaced: progress); the ticker cases are prepared first and decided after the other cases ran, a restart that is not observed is inconclusive; oracle: clients that got a response and have not closed <= cap in force at every response; a held connection still answers a second request before it is closed; distinct = (kind, cap, new cap, max served) resp. (kind, way, order, cap, final cap, max served)")
	r.Assume("the completion of a shrinking reload is not observable through the runtime, so after it the bound of the oracle stays at the old cap and the new cap is only observed (progress)")
	r.Assume("a re-created listener (restart reload, automatic restart of a failed server) starts with a fresh semaphore: once every connection of the previous listener is closed, the cap in force is exactly the maxConnections configured last; what a restart or a serve failure does to connections that are still open is not judged (they are closed before)")
	kinds := []string{"steady-reuse", "grow", "shrink", "shrink-then-grow-b2b", "repeated-identical", "b2b-reload-mix"}
	n := r.N(48, 1200)
	// listener-recreated cases have the indices n..n+nr-1.  They are prepared first; the ones that
	// wait for the runtime's 10 s checkFailed ticker are decided after the other cases have run
	// (Case(i) is logged again before the verdict phase).
	nr := r.N(12, 180)
	var pend []*c17HPend
	for j := 0; j < nr; j++ {
		i := n + j
		if !r.Mine(i) {
			continue
		}
		cs := c17HRecreateCase(r.CaseRand(i), j)
		r.Case(i, cs)
		if j < 1 {
			r.Sample(cs)
		}
		p := c17HRecreatePrepare(r, cs)
		if p == nil {
			continue
		}
		p.idx = i
		if cs.Way == c17WayRestartReload {
			p.finish()
		} else {
			pend = append(pend, p)
		}
	}
	for i := 0; i < n; i++ {
		if !r.Mine(i) {
			continue
		}
		rng := r.CaseRand(i)
		cs := &c17HCase{Kind: kinds[i%len(kinds)], Cap: 2 + rng.Intn(5)}
		cs.Clients = cs.Cap + 4 + rng.Intn(5)
		switch cs.Kind {
		case "grow":
			cs.NewCap = cs.Cap + 1 + rng.Intn(4)
		case "shrink", "shrink-then-grow-b2b":
			cs.NewCap = 1 + rng.Intn(cs.Cap-1)
		case "b2b-reload-mix":
			// every other case of this kind must contain 'shrink ... identical repeat, grow'
			cs.Seq = c17HSeq(rng, cs.Cap, (i/len(kinds))%2 == 0)
			maxc := cs.Cap
			for _, c := range cs.Seq {
				if c > maxc {
					maxc = c
				}
			}
			cs.Clients = maxc + 3 + rng.Intn(4)
		}
		r.Case(i, cs)
		if i < 2 {
			r.Sample(cs)
		}
		c17HRun(r, cs, rng)
	}
	for _, p := range pend {
		r.Case(p.idx, p.cs)
		p.finish()
	}
	for _, k := range []string{"served_reaching_cap", "held_back_clients_seen_at_cap", "released_capacity_reused", "grow_through_reload_observed", "shrink_through_reload_observed_in_force", "second_request_on_held_connection_ok", "reloads",
		"http_shrink_reload_at_saturation", "http_identical_reload_over_unapplied_shrink", "http_grow_reload_right_after_identical_over_unapplied_shrink",
		"http_hot_change_before_listener_recreation", "http_hot_change_while_failed", "http_serve_failure_injected", "http_listen_failure_injected",
		"http_cap_observed_after_listener_recreated:" + c17WayRestartReload, "http_cap_observed_after_listener_recreated:" + c17WayServeFailure, "http_cap_observed_after_listener_recreated:" + c17WayListenFailure,
		"http_lower_cap_survives_listener_recreation", "http_higher_cap_survives_listener_recreation"} {
		r.Require(k, 1)
	}
}
