//go:build verif

package httpserver

import (
	"fmt"
	goruntime "runtime"
	"strconv"
	"strings"
	"sync"
	"sync/atomic"
	"testing"

	"github.com/megaease/easegress/pkg/supervisor"
	"verif.local/kit"
)

// c11Gen returns the self-identifying spec of generation k: the only route goes to
// backend be-<k>, rewrites the prefix to /g-<k>, and X-Forwarded-For is appended iff k
// is even.  The route shape (host / prefix / exact+regexp) varies with k as well.
func c11Gen(k int, cache bool) *gSpec {
	s := &gSpec{XFF: k%2 == 0}
	if cache {
		s.CacheSize = 8
	}
	p := gPath{Prefix: "/p", Rewrite: fmt.Sprintf("/g-%d", k), Backend: fmt.Sprintf("be-%d", k)}
	if k%3 == 1 {
		p = gPath{Regexp: "^/p(/.*)?$", Rewrite: fmt.Sprintf("/g-%d$1", k), Backend: fmt.Sprintf("be-%d", k)}
	}
	rule := gRule{Host: "h.test", Paths: []gPath{p}}
	if k%4 == 3 {
		// an extra, never-matching rule in front
		s.Rules = append(s.Rules, gRule{Host: "nobody.test", Paths: []gPath{{Prefix: "/", Backend: "be-none"}}})
	}
	s.Rules = append(s.Rules, rule)
	return s
}

func c11ParseGen(out gOut) (bk, pk int, ok bool) {
	if !strings.HasPrefix(out.Backend, "be-") || !strings.HasPrefix(out.Path, "/g-") {
		return 0, 0, false
	}
	bk, e1 := strconv.Atoi(out.Backend[3:])
	rest := out.Path[3:]
	if i := strings.IndexByte(rest, '/'); i >= 0 {
		rest = rest[:i]
	}
	pk, e2 := strconv.Atoi(rest)
	return bk, pk, e1 == nil && e2 == nil
}

// TestVerif_C11_MuxReload: clients hammer mux.ServeHTTP while one goroutine reloads
// through self-identifying generations.
func TestVerif_C11_MuxReload(t *testing.T) {
	r := kit.Start(t, "C11")
	defer r.Finish()
	r.Rule("rig 1: 8-16 client goroutines call mux.ServeHTTP while one goroutine calls mux.reload through generations g0..gN whose backend name, rewrite target and xForwardedFor flag all encode the generation number; each response must name ONE generation k in all three, with lastReloadReturnedBeforeRequestStart <= k <= lastReloadStartedBeforeRequestEnd, and status 200; distinct = (generation lag class, route shape, cache on/off, overlap with a reload in progress)")
	r.Assume("a reload has 'been applied' when mux.reload returned; requests are tagged with the generation counters read immediately before and after ServeHTTP")
	rounds := r.N(12, 400)
	for i := 0; i < rounds; i++ {
		if !r.Mine(i) {
			continue
		}
		rng := r.CaseRand(i)
		cache := rng.Intn(2) == 0
		clients := 8 + rng.Intn(9)
		gens := 40 + rng.Intn(60)
		r.Case(i, map[string]interface{}{"clients": clients, "generations": gens, "cache": cache})
		mapper := &recMapper{}
		ss := make([]*supervisor.Spec, gens)
		for k := 0; k < gens; k++ {
			sp, err := supervisor.NewSpec(c11Gen(k, cache).YAML("verif"))
			if err != nil {
				t.Fatalf("generation spec rejected: %v", err)
			}
			ss[k] = sp
		}
		m, err := buildMux(c11Gen(0, cache), mapper)
		if err != nil {
			t.Fatal(err)
		}
		var started, done int64 // generation whose reload has started / returned
		var stop int32
		var wg sync.WaitGroup
		var served, overlapped int64
		for c := 0; c < clients; c++ {
			wg.Add(1)
			go func(c int) {
				defer wg.Done()
				q := gReq{Method: "GET", Host: "h.test", Path: fmt.Sprintf("/p/c%d", c%3), RemoteAddr: "9.9.9.9:1000"}
				for atomic.LoadInt32(&stop) == 0 {
					lo := atomic.LoadInt64(&done)
					s0 := atomic.LoadInt64(&started)
					var out gOut
					if r.Guard("C11:mux", map[string]interface{}{"req": q}, func() { out = serve(m, &q) }) {
						continue
					}
					hi := atomic.LoadInt64(&started)
					atomic.AddInt64(&served, 1)
					if s0 != lo || hi != lo {
						atomic.AddInt64(&overlapped, 1)
					}
					bad := ""
					bk, pk, ok := c11ParseGen(out)
					switch {
					case out.Status != 200:
						bad = fmt.Sprintf("request-failed-during-update:status%d", out.Status)
					case !ok:
						bad = "unparsable-observation"
					case bk != pk:
						bad = "mixed-generation:backend-vs-rewrite"
					case (out.XFF != "") != (bk%2 == 0):
						bad = "mixed-generation:xff-option-vs-route"
					case int64(bk) < lo:
						bad = "stale-generation-after-update-applied"
					case int64(bk) > hi:
						bad = "generation-from-the-future"
					}
					if bad != "" {
						r.Violation("mux-hot-update:"+bad, map[string]interface{}{"observed": out, "applied_before_start": lo, "started_before_end": hi, "cache": cache})
						continue
					}
					r.Cover(fmt.Sprintf("mux/lag=%d/shape=%d/cache=%v/overlap=%v", minIntC11(int(hi)-bk, 2), bk%3, cache, hi != lo))
				}
			}(c)
		}
		for k := 1; k < gens; k++ {
			atomic.StoreInt64(&started, int64(k))
			m.reload(ss[k], mapper)
			atomic.StoreInt64(&done, int64(k))
			// let clients observe this generation at rest every now and then
			if k%8 == 0 {
				n0 := atomic.LoadInt64(&served)
				for atomic.LoadInt64(&served) < n0+int64(clients) {
					// logical wait: until every client has plausibly made one more request
					goruntime.Gosched()
				}
			}
		}
		atomic.StoreInt32(&stop, 1)
		wg.Wait()
		r.Eval(int(served))
		r.Count("mux_requests", served)
		r.Count("mux_requests_overlapping_a_reload", overlapped)
		r.Count("mux_reloads", int64(gens-1))
		if i < 2 {
			r.Sample(map[string]interface{}{"rig": "mux", "clients": clients, "generations": gens, "requests": served, "overlapping": overlapped, "spec_gen_1": c11Gen(1, cache).YAML("verif")})
		}
		m.close()
	}
	r.Require("mux_requests_overlapping_a_reload", 1)
}

func minIntC11(a, b int) int {
	if a < b {
		return a
	}
	return b
}
