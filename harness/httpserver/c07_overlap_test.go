//go:build verif

package httpserver

// C07, request side under overlap: "a body of exactly the limit passes intact" (and every
// body below it), "whether its length is declared or chunked", while OTHER requests are
// being read by the same gateway.  Several raw clients send bodies at / just below / well
// below the effective clientMaxBodySize at the same time; every body names its exchange
// and the offset all the way through (e2ePatternBody), so bytes of request B inside what
// the backend got for request A are visible and attributable.
//
// A request stays "in forwarding" for a while after the gateway has read it because
//   - the pool has a Retry policy and the backend fails the first attempt(s) (failure
//     status or dropped connection): the body is sent again after the back-off, or
//   - the backend is slow to read the body and slow to answer.
// Meanwhile the other clients' requests are fetched.  Every body the backend receives -
// on every attempt - must be byte-identical to what THAT client sent.

import (
	"bytes"
	"fmt"
	"sort"
	"sync"
	"testing"
	"time"

	"verif.local/kit"
)

// c07oItem is one exchange of an overlap case.
type c07oItem struct {
	ID      string
	Route   string
	Rel     string // at | below | small | above
	Req     *e2eReq
	Script  *e2eScript
	Want    []byte // response body
	Eff     int64
	Src     string
	sent    time.Time
	done    time.Time
	times   []time.Time // backend contacts
	chunked bool
	passed  bool
}

const c07oFailStatus = 502

func TestVerif_C07_Overlap(t *testing.T) {
	r := kit.Start(t, "C07")
	defer r.Finish()
	if e2eNotReplayed(r) {
		return
	}
	r.Rule("overlapping requests: 12 raw clients x one gateway send POST/PUT bodies concurrently, each on its own kept-alive connection; server-level clientMaxBodySize {unset (4 MiB), 4096, 65536, random 1000..70000} x path-level {unset, random 1000..70000} (two routes, one with and one without the path-level value); body sizes exactly the limit, limit-1, random below, small, 100-300 KB under the default, and limit+1 (must be 413, unforwarded); 3 of 4 bodies chunked (chunk sizes 100..70000), the rest length-declared; every body is '<exchange id>@<offset>;' repeated. Even cases: the pool has a Retry policy (3 attempts, wait 8-25 ms, randomization 0..1) and failureCodes [502], the backend fails the first 0/1/2 attempts of an exchange with 502 or by dropping the connection, so the body is sent again after a back-off during which other requests are fetched; odd cases: no retry, the backend waits 0-15 ms before reading the body and 0-20 ms before answering. Every attempt's body at the backend is compared byte for byte with what that client sent. distinct = (retry or slow backend, limit source, limit class, size relation, framing, failed attempts, outcome)")
	r.Assume("with a Retry policy and a failure status listed in failureCodes (or a dropped backend connection) on the first attempts, the request is sent again and the client gets the answer of the last attempt; the property's 'passes intact' is demanded of every attempt the backend receives")
	be, err := e2eNewBackend()
	if err != nil {
		r.Inconclusive("cannot start backend: " + err.Error())
		return
	}
	defer be.Close()
	const workers = 12
	perWorker := r.N(8, 14)
	var ddMu sync.Mutex
	dd := &c07Dedupe{}
	record := func(sig string, detail interface{}) {
		ddMu.Lock()
		dd.record(r, sig, detail)
		ddMu.Unlock()
	}
	n := r.N(4, 96)
	for i := 0; i < n; i++ {
		if !r.Mine(i) {
			continue
		}
		rng := r.CaseRand(i)
		cfg := &e2eCfg{}
		cfg.ServerClientMax = []int64{0, 4096, 65536, int64(1000 + rng.Intn(69000))}[(i/2)%4]
		if i%4 == 1 || i%4 == 2 {
			cfg.PathClientMax = int64(1000 + rng.Intn(69000))
		}
		if i%4 >= 2 {
			cfg.CacheSize = 64
		}
		mode := "slow-backend"
		if i%2 == 0 {
			mode = "retry"
			cfg.Retry = &e2eRetry{MaxAttempts: 3, WaitMs: 8 + rng.Intn(18), Random: []float64{0, 0.5, 1}[rng.Intn(3)]}
			cfg.FailureCodes = []int{c07oFailStatus}
		}
		// plan (deterministic), then run
		plan := make([][]*c07oItem, workers)
		for w := range plan {
			wr := r.Rand(fmt.Sprintf("case/%d/worker/%d", i, w))
			for k := 0; k < perWorker; k++ {
				it := &c07oItem{ID: fmt.Sprintf("c07o-%d-%d-%d-%d", r.Seed(), i, w, k)}
				it.Route = []string{"/lim/upload", "/upload"}[wr.Intn(2)]
				levels, names := []int64{cfg.PathClientMax, cfg.ServerClientMax}, []string{"path", "server"}
				if it.Route == "/upload" {
					levels, names = levels[1:], names[1:]
				}
				it.Eff, it.Src = c07Eff(levels, names)
				e := int(it.Eff)
				size := 0
				switch x := wr.Intn(20); {
				case it.Eff == c07Default:
					it.Rel = "below"
					size = 100000 + wr.Intn(200000)
					if x < 8 {
						it.Rel, size = "small", 1+wr.Intn(3000)
					}
				case x < 7:
					it.Rel, size = "at", e
				case x < 10:
					it.Rel, size = "below", e-1
				case x < 14:
					it.Rel, size = "below", 1+wr.Intn(e)
				case x < 18:
					it.Rel, size = "small", 1+wr.Intn(300)
					if size > e {
						size = e
					}
				default:
					it.Rel, size = "above", e+1
				}
				body := e2ePatternBody(it.ID, size)
				fr := "chunked"
				if wr.Intn(4) == 0 {
					fr = "cl"
				}
				it.chunked = fr == "chunked"
				chunk := []int{100, 1000, 4096, 70000}[wr.Intn(4)]
				if size > 100000 && chunk < 4096 {
					chunk = 16384
				}
				hdrs := [][2]string{{"Host", "limits.example"}, {e2eIDHeader, it.ID}, {"Content-Type", "application/octet-stream"}}
				if k == perWorker-1 {
					hdrs = append(hdrs, [2]string{"Connection", "close"})
				}
				it.Req = &e2eReq{Method: []string{"POST", "PUT"}[wr.Intn(2)], Target: it.Route + "?k=" + it.ID, Headers: hdrs, Body: body, Framing: fr, Chunk: chunk}
				it.Want = e2ePatternBody("resp-of-"+it.ID, 10+wr.Intn(50))
				it.Script = &e2eScript{Status: 200, Headers: [][2]string{{"Content-Type", "application/octet-stream"}}, Body: it.Want, Mode: "cl"}
				if mode == "retry" {
					it.Script.FailFirst = []int{0, 1, 1, 1, 2}[wr.Intn(5)]
					it.Script.FailStatus = []int{c07oFailStatus, c07oFailStatus, 0}[wr.Intn(3)]
					it.Script.RespDelayMs = wr.Intn(4)
				} else {
					it.Script.ReadDelayMs = wr.Intn(16)
					it.Script.RespDelayMs = wr.Intn(21)
				}
				plan[w] = append(plan[w], it)
			}
		}
		r.Case(i, map[string]interface{}{"cfg": cfg, "mode": mode, "workers": workers, "perWorker": perWorker})
		gw, err := e2eStart(cfg, be)
		if err != nil {
			r.Inconclusive("gateway did not start: " + err.Error())
			continue
		}
		var wg sync.WaitGroup
		for w := 0; w < workers; w++ {
			wg.Add(1)
			go func(w int) {
				defer wg.Done()
				cl := &e2eClient{addr: gw.addr}
				defer cl.Close()
				for _, it := range plan[w] {
					c07oRun(r, record, be, cl, cfg, mode, it)
				}
			}(w)
		}
		wg.Wait()
		c07Panics(r, dd, gw, map[string]interface{}{"cfg": cfg, "mode": mode})
		c07oWitness(r, mode, plan)
		gw.Close()
		be.CloseIdle()
	}
	for _, k := range []string{"overlap_exchanges", "overlap_passed_intact_chunked", "overlap_passed_intact_cl", "overlap_exactly_limit_passed_chunked",
		"overlap_retried_body_intact_chunked", "overlap_over_limit_413", "overlap_chunked_fetched_during_retry_backoff", "overlap_chunked_fetched_while_backend_slow",
		"overlap_limit_from_path", "overlap_limit_from_server", "overlap_limit_from_default"} {
		r.Require(k, 1)
	}
}

func c07oRun(r *kit.Run, record func(string, interface{}), be *e2eBackend, cl *e2eClient, cfg *e2eCfg, mode string, it *c07oItem) {
	be.Script(it.ID, it.Script)
	before := time.Now()
	res := cl.Do(it.Req, func() bool { return be.Contacted(it.ID) })
	it.sent, it.done = before, time.Now()
	seen := be.Take(it.ID)
	r.Eval(1)
	q := it.Req
	desc := map[string]interface{}{"cfg": cfg, "mode": mode, "id": it.ID, "route": it.Route, "effectiveLimit": it.Eff, "limitFrom": it.Src, "bodySize": len(q.Body),
		"framing": q.Framing, "chunk": q.Chunk, "relation": it.Rel, "script": it.Script, "response": res.Resp, "ioErr": res.IOErr, "backendContacted": seen != nil}
	if seen != nil {
		desc["backendContacts"] = seen.Contacts
		it.times = seen.Times
	}
	if res.Watchdog {
		r.Inconclusive("socket watchdog fired: " + res.IOErr + " " + res.WriteErr)
		return
	}
	resp := res.Resp
	tag := fmt.Sprintf("%s:limit-from-%s", q.Framing, it.Src)
	outcome := fmt.Sprintf("%d", resp.Status)
	r.Count("overlap_exchanges", 1)
	r.Count("overlap_limit_from_"+it.Src, 1)
	switch {
	case resp.FramingErr != "":
		kind := resp.FramingErr
		for j := 0; j < len(kind); j++ {
			if kind[j] == '(' {
				kind = kind[:j]
				break
			}
		}
		record("C07:req-overlap:"+it.Rel+":framing:"+kind+":"+tag, desc)
		outcome = "framing-error"
	case it.Rel == "above":
		if resp.Status != 413 {
			record(fmt.Sprintf("C07:req-overlap:above:status-got%d-want413:%s", resp.Status, tag), desc)
		} else {
			r.Count("overlap_over_limit_413", 1)
		}
		if seen != nil {
			record("C07:req-overlap:above:oversized-request-reached-backend:"+tag, desc)
		}
	default: // must pass intact, on every attempt
		if resp.Status != 200 {
			record(fmt.Sprintf("C07:req-overlap:%s:status-got%d-want200:%s", it.Rel, resp.Status, tag), desc)
		} else if !bytes.Equal(resp.Body, it.Want) {
			desc["responseBodyDiff"] = e2eBodyDiff(it.Want, resp.Body)
			record("C07:req-overlap:"+it.Rel+":response-body-differs:"+tag, desc)
		}
		if seen == nil {
			if resp.Status == 200 {
				record("C07:req-overlap:"+it.Rel+":backend-not-contacted:"+tag, desc)
			}
			break
		}
		intact := true
		for a, b := range seen.Bodies {
			if seen.BodyErrs[a] == "" && bytes.Equal(b, q.Body) {
				continue
			}
			intact = false
			which := "first-attempt"
			if a > 0 {
				which = "repeated-attempt"
			}
			d := e2eBodyDiff(q.Body, b)
			d["attempt"] = a + 1
			d["attempts"] = len(seen.Bodies)
			d["readError"] = seen.BodyErrs[a]
			desc["backendBodyDiff"] = d
			record("C07:req-overlap:"+it.Rel+":backend-body-differs("+which+"):"+tag, desc)
			break
		}
		if intact && resp.Status == 200 {
			it.passed = true
			r.Count("overlap_passed_intact_"+q.Framing, 1)
			if it.Rel == "at" {
				r.Count("overlap_exactly_limit_passed_"+q.Framing, 1)
			}
			if len(seen.Bodies) > 1 {
				r.Count("overlap_retried_body_intact_"+q.Framing, 1)
			}
		}
	}
	fails := 0
	if seen != nil {
		fails = len(seen.Bodies) - 1
	}
	r.Cover(fmt.Sprintf("req-overlap/%s/%s/%s/%s/%s/attempts+%d/%s", mode, it.Src, c07EffClass(it.Eff), it.Rel, q.Framing, fails, outcome))
}

// c07oWitness counts, for the evidence and the Require()s, how often a chunked request was
// fetched by the gateway while another admitted chunked request had not been forwarded
// for the last time yet.  "B was fetched" is bracketed by the arrival of B's first
// attempt at the backend (the fetch ended shortly before).  Observation only.
func c07oWitness(r *kit.Run, mode string, plan [][]*c07oItem) {
	type window struct{ from, to time.Time }
	var wins []window
	var fetches []time.Time
	for _, items := range plan {
		for _, it := range items {
			if !it.chunked || len(it.times) == 0 {
				continue
			}
			fetches = append(fetches, it.times[0])
			if mode == "retry" {
				if len(it.times) > 1 {
					wins = append(wins, window{it.times[0], it.times[len(it.times)-1]})
				}
			} else {
				wins = append(wins, window{it.times[0], it.done})
			}
		}
	}
	sort.Slice(fetches, func(a, b int) bool { return fetches[a].Before(fetches[b]) })
	hits := 0
	for _, w := range wins {
		j := sort.Search(len(fetches), func(k int) bool { return fetches[k].After(w.from) })
		if j < len(fetches) && fetches[j].Before(w.to) {
			hits++
		}
	}
	if mode == "retry" {
		r.Count("overlap_chunked_fetched_during_retry_backoff", int64(hits))
	} else {
		r.Count("overlap_chunked_fetched_while_backend_slow", int64(hits))
	}
}
