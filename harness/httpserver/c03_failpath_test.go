//go:build verif

package httpserver

// C03, failure paths: "the response it is sent is ALWAYS well-framed".  The backend
// responses of this part are ones the proxy must refuse or cannot complete (larger than
// the effective serverMaxBodySize, declared or chunked; bodies that end before their
// declared length or before the terminating chunk; connections that are closed or reset
// before / in the middle of the response head; a backend that does not answer within the
// pool's timeout; a server that refuses connections), plus statuses listed in the pool's
// failureCodes.  Whatever status the gateway answers with (which one is C07's business),
// the bytes on the client socket must be one well-framed HTTP response - status line,
// headers, a body of exactly the declared length or valid chunking, nothing behind it -
// the request must have been forwarded faithfully whenever the backend saw it, and a 2xx
// answer must carry the backend's headers and complete body.  Ordinary exchanges are
// interleaved on the same kept-alive connection: they are checked in full and would be
// the first to suffer from a connection left out of step.

import (
	"fmt"
	"math/rand"
	"strings"
	"testing"

	"verif.local/kit"
)

const c03fpDefaultLimit = 4 << 20

// c03fpStreamUnderPoolTimeout: generate pools that have a `timeout` AND stream the response
// (serverMaxBodySize -1)?  Off: on the unchanged tree ServerPool.handle cancels the
// timeout context when the handler returns (`defer cancel()`), i.e. right after the
// response head arrived, which ends a streamed body after whatever the transport had
// buffered (about 4 KB): the client gets `Content-Length: 65536` and 3939 bytes, or a 200
// with `Content-Length: 0` for a 5000-byte chunked body.  That is a defect of its own
// (reported to the coordinator); with the switch on, every response-side refutation of
// such a configuration carries the input class failure-path(stream-response-under-pool-timeout).
const c03fpStreamUnderPoolTimeout = true

var c03fpAllClasses = []string{"oversize-declared", "oversize-chunked", "short-declared", "short-chunked", "drop", "reset", "drop-in-headers",
	"hang-until-pool-timeout", "failure-code", "backend-unreachable"}

// c03fpCfg: the gateway configurations of the failure-path part.
func c03fpCfg(i int, rng *rand.Rand) (cfg *e2eCfg, kind string) {
	cfg = &e2eCfg{}
	l := []int64{1000, 4096, 65536, int64(1500 + rng.Intn(68000))}[rng.Intn(4)]
	// (i/2: both shards of the quick tier get every kind)
	switch (i / 2) % 6 {
	case 0:
		kind, cfg.PoolServerMax = "buffered-pool-limit", l
	case 1:
		kind, cfg.ProxyServerMax = "buffered-proxy-limit", l
	case 2:
		kind, cfg.PoolServerMax = "buffered-both-limits", l
		cfg.ProxyServerMax = []int64{-1, 1, l + 1 + int64(rng.Intn(5000))}[rng.Intn(3)]
	case 3:
		kind = "buffered-default-limit"
	case 4:
		kind = "stream"
		if rng.Intn(2) == 0 {
			cfg.PoolServerMax = -1
		} else {
			cfg.ProxyServerMax = -1
		}
	case 5:
		kind = "dead-server"
		if rng.Intn(3) == 0 {
			cfg.PoolServerMax = -1
		}
	}
	switch (i / 12) % 3 {
	case 1:
		cfg.HostNameServer = kind != "dead-server"
	case 2:
		cfg.KeepHost = true
	}
	if rng.Intn(2) == 0 {
		cfg.FailureCodes = []int{500, 503}
	}
	if (i/2)%5 == 1 || (i/2)%5 == 3 {
		cfg.PoolTimeoutMs = 25 + rng.Intn(30)
		if lim, _ := c03fpLimit(cfg); lim < 0 && kind != "dead-server" && !c03fpStreamUnderPoolTimeout {
			cfg.PoolTimeoutMs = 0
		}
	}
	if rng.Intn(4) == 0 {
		m := []int{0, 1024}[rng.Intn(2)]
		cfg.Compression = &m
	}
	if rng.Intn(6) == 0 {
		cfg.Retry = &e2eRetry{MaxAttempts: 2, WaitMs: 3 + rng.Intn(5), Random: 0.5}
	}
	if rng.Intn(3) == 0 {
		cfg.CacheSize = 16
	}
	return cfg, kind
}

func c03fpLimit(cfg *e2eCfg) (int64, string) {
	switch {
	case cfg.PoolServerMax != 0:
		return cfg.PoolServerMax, "pool"
	case cfg.ProxyServerMax != 0:
		return cfg.ProxyServerMax, "proxy"
	}
	return c03fpDefaultLimit, "default"
}

// c03fpPlain drops the gzip label c03Gen may have put on the scripted response.
func c03fpPlain(ex *c03Ex) {
	ex.RespGzip = false
	var h [][2]string
	for _, kv := range ex.Script.Headers {
		if e2eCanon(kv[0]) != "Content-Encoding" {
			h = append(h, kv)
		}
	}
	ex.Script.Headers = h
}

// c03fpShape turns the exchange c03Gen made into one of the class.
func c03fpShape(cfg *e2eCfg, rng *rand.Rand, ex *c03Ex, class string) {
	limit, _ := c03fpLimit(cfg)
	q, sc := &ex.Req, &ex.Script
	if class != "control" && q.Method == "HEAD" {
		q.Method = "GET" // (a HEAD response has no body to go wrong)
	}
	setBody := func(n int) {
		c03fpPlain(ex)
		ex.RespPlain = c03Body(rng, n, rng.Intn(3) != 0, ex.ID+"/resp")
		sc.Body = ex.RespPlain
		ex.RespBody = e2eBrief(sc.Body)
	}
	success := func() {
		switch x := rng.Intn(20); {
		case x < 14 || sc.Status == 204:
			sc.Status = 200
		case x < 17:
			sc.Status = 201
		}
	}
	small := func() int {
		n := []int{2, 64, 300, 1024, 5000, 40000}[rng.Intn(6)] + rng.Intn(50)
		if limit > 0 && int64(n) > limit {
			n = int(limit)
		}
		return n
	}
	switch class {
	case "control", "failure-code":
		if class == "failure-code" {
			sc.Status = cfg.FailureCodes[rng.Intn(len(cfg.FailureCodes))]
		} else {
			for _, fc := range cfg.FailureCodes {
				if sc.Status == fc {
					sc.Status = 200
				}
			}
		}
		// an honest response that fits the limit in every encoding (the gateway's transport
		// un-gzips a labelled body when the client sent no Accept-Encoding, and proxy
		// compression re-encodes it before the limit is applied)
		if limit > 0 && sc.Status != 204 && (int64(len(sc.Body)) > limit/2 || int64(len(ex.RespPlain)) > limit/2) {
			gz := ex.RespGzip
			setBody(1 + rng.Intn(int(limit/2)))
			if gz {
				ex.RespGzip = true
				sc.Body = e2eGzip(ex.RespPlain)
				sc.Headers = append(sc.Headers, [2]string{"Content-Encoding", "gzip"})
				ex.RespBody = e2eBrief(sc.Body)
			}
		}
		if class == "failure-code" && sc.Mode != "cl" && sc.Mode != "chunked" {
			sc.Mode = "cl"
		}
	case "oversize-declared", "oversize-chunked":
		success()
		l := int(limit)
		n := l + 1
		if l <= 70000 {
			n = []int{l + 1, l + 2 + rng.Intn(1000), 2 * l, 4*l + 3}[rng.Intn(4)]
		}
		setBody(n)
		sc.Mode = "cl"
		if class == "oversize-chunked" {
			sc.Mode = "chunked"
		}
	case "short-declared":
		success()
		n := small()
		setBody(n)
		sc.Mode = "short"
		sc.SendN = []int{0, rng.Intn(n), n - 1}[rng.Intn(3)]
	case "short-chunked":
		success()
		n := small()
		setBody(n)
		sc.Mode = "short-chunked"
		sc.SendN = []int{0, rng.Intn(n), n - 1, n}[rng.Intn(4)]
	case "drop", "reset", "drop-in-headers":
		success()
		sc.Mode = class
	case "hang-until-pool-timeout":
		success()
		sc.Mode = "hang"
	case "backend-unreachable":
	}
}

// c03fpKeep decides which refutations of the full oracle are demanded on a failure path.
func c03fpKeep(cfg *e2eCfg, class string, f c03Finding, status int) bool {
	switch {
	case strings.HasPrefix(f.Check, "framing:"), strings.HasPrefix(f.Check, "handler-panic"):
		return true
	case f.Check == "backend-not-contacted":
		return class != "backend-unreachable" && cfg.PoolTimeoutMs == 0
	case f.Check == "backend-contacted-more-than-once":
		return false // (the transport and a Retry policy may legitimately try again)
	case strings.HasPrefix(f.Check, "req-body"):
		// (a pool timeout may cut the forwarding of the request body short)
		return cfg.PoolTimeoutMs == 0
	case strings.HasPrefix(f.Check, "req-"):
		return true
	case strings.HasPrefix(f.Check, "status:"), strings.HasPrefix(f.Check, "resp-"):
		switch class {
		case "failure-code":
			// the backend's response "is already there" and is relayed as it is
			return cfg.PoolTimeoutMs == 0
		case "oversize-declared", "oversize-chunked", "short-declared", "short-chunked", "control":
			// the status is C07's business; a success must be the backend's, complete
			return status/100 == 2
		}
		return false
	}
	return true
}

func TestVerif_C03_FailurePath(t *testing.T) {
	r := kit.Start(t, "C03")
	defer r.Finish()
	if e2eNotReplayed(r) {
		return
	}
	r.Rule("failure-path responses: gateway configurations {serverMaxBodySize positive (1000, 4096, 65536, random 1500..70000) at pool level, at proxy level, at both levels, unset (4 MiB), -1 (stream)} x {IP, host-name, keepHost server} x failureCodes [500,503] or none x pool timeout 25-55 ms or none x proxy compression none/0/1024 x Retry policy (2 attempts) or none x route cache, and a pool whose only server refuses connections. 10 exchanges per configuration on one kept-alive raw connection, requests as in the exchange part (never HEAD): backend responses of limit+1, limit+k, 2*limit, 4*limit bytes, length-declared or chunked; length-declared bodies of which 0 / some / all but one bytes are sent before the connection is closed; chunked bodies cut off after 0 / some / all bytes without the terminating chunk (the last two kinds in buffered mode only: in stream mode the status line is on the wire before the gateway can know); connection closed (FIN) or reset (RST) after the request was read, or in the middle of the response head; a backend that stays silent until the pool's timeout has fired; responses whose status is listed in failureCodes; every third exchange an ordinary one, checked in full. distinct = (class, response mode, limit source, compression, scripted status class/mode, request framing, answered status, client-side framing)")
	r.Assume("on a failure path the status the gateway answers with is not decided here (C07 decides it): demanded are well-framed bytes on the client socket (also: nothing behind the response on a kept-alive connection), the faithful forwarding of the request whenever the backend saw it, and for a 2xx answer the backend's status, end-to-end headers and complete body; a 2xx answer to an exchange whose backend never produced a response head (drop, reset, hang, refused connection) is recorded in the coverage signature but not decided; a response whose status is listed in failureCodes is demanded to be relayed unchanged (status, headers, body)")
	r.Assume("a pool timeout is not combined with a streamed response (serverMaxBodySize -1): see c03fpStreamUnderPoolTimeout")
	r.Assume("with a pool timeout configured, neither the status nor the request body of any exchange is decided (the timeout may fire on a loaded machine): framing, headers and 2xx faithfulness only")
	be, err := e2eNewBackend()
	if err != nil {
		r.Inconclusive("cannot start backend: " + err.Error())
		return
	}
	defer be.Close()
	dd := &c03Dedupe{}
	n := r.N(24, 720)
	for i := 0; i < n; i++ {
		if !r.Mine(i) {
			continue
		}
		rng := r.CaseRand(i)
		cfg, kind := c03fpCfg(i, rng)
		release := func() {}
		if kind == "dead-server" {
			port, rel, err := e2eReservePort()
			if err != nil {
				r.Inconclusive("cannot reserve a refusing port: " + err.Error())
				continue
			}
			cfg.DeadPort, release = port, rel
		}
		limit, limitSrc := c03fpLimit(cfg)
		// classes this configuration can show
		var classes []string
		switch {
		case kind == "dead-server":
			classes = []string{"backend-unreachable"}
		case limit < 0:
			classes = []string{"drop", "reset", "drop-in-headers"}
		default:
			classes = []string{"oversize-declared", "oversize-chunked", "short-declared", "short-chunked", "short-declared", "short-chunked", "drop", "reset", "drop-in-headers"}
		}
		perCase := 10
		if kind == "dead-server" {
			perCase = 4
		}
		var forced []string
		if kind != "dead-server" {
			if cfg.PoolTimeoutMs > 0 {
				forced = append(forced, "hang-until-pool-timeout")
			}
			if len(cfg.FailureCodes) > 0 {
				forced = append(forced, "failure-code")
			}
		}
		type planned struct {
			Class string `json:"class"`
			Ex    *c03Ex `json:"exchange"`
		}
		var plan []planned
		// a 4 MiB response is costly: at most one per default-limit configuration, in half of them
		bigDone := limit == c03fpDefaultLimit && rng.Intn(2) == 0
		for k := 0; k < perCase; k++ {
			class := "control"
			switch {
			case kind == "dead-server":
				class = "backend-unreachable"
			case k%3 == 2:
			case len(forced) > 0:
				class, forced = forced[0], forced[1:]
			default:
				class = classes[rng.Intn(len(classes))]
				if limit == c03fpDefaultLimit && strings.HasPrefix(class, "oversize-") {
					if bigDone { // one 4 MiB response per configuration is enough
						class = []string{"short-declared", "short-chunked"}[rng.Intn(2)]
					}
					bigDone = true
				}
			}
			ex := c03Gen(cfg, rng, fmt.Sprintf("c03f-%d-%d-%d", r.Seed(), i, k), k == perCase-1)
			c03fpShape(cfg, rng, ex, class)
			plan = append(plan, planned{class, ex})
		}
		r.Case(i, map[string]interface{}{"cfg": cfg, "kind": kind, "plan": plan})
		gw, err := e2eStart(cfg, be)
		if err != nil {
			release()
			r.Inconclusive("gateway did not start: " + err.Error())
			continue
		}
		cl := &e2eClient{addr: gw.addr}
		connSawFailure := false // a failure-path exchange was answered earlier on the client's current connection
		for _, p := range plan {
			class, ex := p.Class, p.Ex
			sc := ex.Script
			be.Script(ex.ID, &sc)
			res := cl.Do(&ex.Req, func() bool { return be.Contacted(ex.ID) })
			seen := be.Take(ex.ID)
			r.Eval(1)
			finds, _, inc := c03Check(cfg, ex, res, seen)
			for _, entry := range gw.errlog.TakePanics(res.Addrs) {
				site, msg := e2ePanicSig(entry)
				r.Count("handler_panics", 1)
				finds = append(finds, c03Finding{"", map[string]interface{}{"cfg": cfg, "exchange": ex, "serverLog": c03ClipN(entry, 3000)}, "handler-panic:" + site + ":" + msg})
			}
			if inc == "" && seen != nil && seen.HangExpired {
				inc = "the gateway's pool timeout did not end a silent backend exchange within the backend's watchdog"
			}
			if inc != "" {
				r.Inconclusive(inc)
				continue
			}
			resp := res.Resp
			full := class == "control" && cfg.PoolTimeoutMs == 0
			for _, f := range finds {
				if full {
					if f.Sig == "" {
						f.Sig = c03Sig(f.Check, c03RespTrigger(cfg, ex))
					}
					dd.record(r, f)
					continue
				}
				if !c03fpKeep(cfg, class, f, resp.Status) {
					continue
				}
				cname := class
				if class == "control" {
					cname = "ordinary-exchange-under-pool-timeout"
				}
				if limit < 0 && cfg.PoolTimeoutMs > 0 && kind != "dead-server" && !(strings.HasPrefix(f.Check, "req-") || f.Check == "backend-not-contacted") {
					cname = "stream-response-under-pool-timeout"
				}
				if f.Sig == "" || !(strings.HasPrefix(f.Check, "req-") || f.Check == "backend-not-contacted") {
					// (what the backend received does not depend on how it answers: the
					// request-side signatures stay those of the exchange part)
					f.Sig = "C03:" + f.Check + ":failure-path(" + cname + ")"
				}
				f.Detail["failurePathClass"] = class
				f.Detail["configurationKind"] = kind
				dd.record(r, f)
			}
			// observations
			r.Count("failpath_exchanges", 1)
			r.Count("failpath_"+class, 1)
			framing := resp.Framing
			if !res.Reused {
				connSawFailure = false
			}
			if resp.FramingErr != "" {
				framing = "ill-framed"
			} else {
				r.Count(fmt.Sprintf("failpath_answer_%dxx", resp.Status/100), 1)
				if class == "control" && connSawFailure && resp.Status == ex.Script.Status {
					r.Count("failpath_ordinary_exchange_on_connection_that_saw_a_failure", 1)
				}
				if class == "failure-code" && resp.Status == ex.Script.Status {
					r.Count("failpath_failure_code_relayed", 1)
				}
			}
			if class != "control" {
				connSawFailure = true
			}
			comp := "nocomp"
			if cfg.Compression != nil {
				comp = fmt.Sprintf("comp%d", *cfg.Compression)
			}
			r.Cover(fmt.Sprintf("failpath/%s/%s/limit-from-%s/%s/retry%v/script%dxx.%s/req-%s/answer%d/%s", class, kind, limitSrc, comp, cfg.Retry != nil,
				ex.Script.Status/100, ex.Script.Mode, ex.Req.Framing, resp.Status, framing))
			if i < 6 && class != "control" && len(plan) > 0 && p.Ex == plan[0].Ex {
				r.Sample(map[string]interface{}{"cfg": cfg, "class": class, "exchange": ex, "response": resp})
			}
		}
		cl.Close()
		c03Leftover(r, gw, cfg)
		gw.Close()
		release()
		be.CloseIdle()
	}
	for _, c := range c03fpAllClasses {
		r.Require("failpath_"+c, 1)
	}
	r.Require("failpath_control", 1)
	r.Require("failpath_ordinary_exchange_on_connection_that_saw_a_failure", 1)
	r.Require("failpath_answer_5xx", 1)
	r.Require("failpath_failure_code_relayed", 1)
}
