//go:build verif

package httpserver

// C03, failure paths: "the response it is sent is ALWAYS well-framed".  The backend
// responses of this part are ones the proxy must refuse or cannot complete (larger than
// the effective serverMaxBodySize, declared or chunked; bodies that end before their
// declared length or before the terminating chunk; connections that are closed or reset
// before / in the middle of the response head; a backend that does not answer within the
// pool's timeout; a server that refuses connections), plus statuses listed in the pool's
// failureCodes.  Whatever status the gateway answers with (which one is C07's business),
// the bytes on the client socket must be one well-framed HTTP response - status line,
// headers, a body of exactly the declared length or valid chunking, nothing behind it -
// the request must have been forwarded faithfully whenever the backend saw it, and a 2xx
// answer must carry the backend's headers and complete body.  Ordinary exchanges are
// interleaved on the same kept-alive connection: they are checked in full and would be
// the first to suffer from a connection left out of step.

import (
	"fmt"
	"math/rand"
	"strings"
	"testing"
	"time"

	"verif.local/kit"
)

const c03fpDefaultLimit = 4 << 20

// Pools that have a `timeout` AND stream the response (serverMaxBodySize -1) are a
// configuration kind of their own ("stream-under-pool-timeout"): the timeout is long
// (300-800 ms) and the backend honest and fast, so the deadline has no business firing; an
// exchange that nevertheless lasted as long as the timeout (client clock, from the first
// request byte to the last response byte - the deadline cannot have been set earlier than
// the former) is not judged.  Before commit 4bdcc7b of /repo ServerPool.handle cancelled
// the timeout context when the handler returned (`defer cancel()`), i.e. right after the
// response head had arrived, which ended a streamed body after whatever the transport had
// buffered (about 4 KB): `Content-Length: 65536` followed by 3939 bytes, or a 200 with
// `Content-Length: 0` for a 5000-byte chunked body.  Response-side refutations of this
// kind carry the input class failure-path(stream-response-under-pool-timeout).
const c03fpStreamTimeoutKind = "stream-under-pool-timeout"

var c03fpAllClasses = []string{"oversize-declared", "oversize-chunked", "short-declared", "short-chunked", "drop", "reset", "drop-in-headers",
	"hang-until-pool-timeout", "failure-code", "backend-unreachable", "streamed-honest"}

// c03fpCfg: the gateway configurations of the failure-path part.
func c03fpCfg(i int, rng *rand.Rand) (cfg *e2eCfg, kind string) {
	cfg = &e2eCfg{}
	l := []int64{1000, 4096, 65536, int64(1500 + rng.Intn(68000))}[rng.Intn(4)]
	// (i/2: both shards of the quick tier get every kind)
	switch (i / 2) % 7 {
	case 0:
		kind, cfg.PoolServerMax = "buffered-pool-limit", l
	case 1:
		kind, cfg.ProxyServerMax = "buffered-proxy-limit", l
	case 2:
		kind, cfg.PoolServerMax = "buffered-both-limits", l
		cfg.ProxyServerMax = []int64{-1, 1, l + 1 + int64(rng.Intn(5000))}[rng.Intn(3)]
	case 3:
		kind = "buffered-default-limit"
	case 4:
		kind = "stream"
		if rng.Intn(2) == 0 {
			cfg.PoolServerMax = -1
		} else {
			cfg.ProxyServerMax = -1
		}
	case 5:
		kind = "dead-server"
		if rng.Intn(3) == 0 {
			cfg.PoolServerMax = -1
		}
	case 6:
		kind = c03fpStreamTimeoutKind
		switch rng.Intn(3) {
		case 0:
			cfg.PoolServerMax = -1
		case 1:
			cfg.ProxyServerMax = -1
		default:
			cfg.PoolServerMax, cfg.ProxyServerMax = -1, l
		}
	}
	switch (i / 14) % 3 {
	case 1:
		cfg.HostNameServer = kind != "dead-server"
	case 2:
		cfg.KeepHost = true
	}
	if rng.Intn(2) == 0 {
		cfg.FailureCodes = []int{500, 503}
	}
	if lim, _ := c03fpLimit(cfg); ((i/2)%5 == 1 || (i/2)%5 == 3) && (lim >= 0 || kind == "dead-server") {
		// (short: the deadline is meant to fire; buffered responses only, where a deadline
		// that fires while the body is being read still leaves the gateway free to answer)
		cfg.PoolTimeoutMs = 25 + rng.Intn(30)
	}
	if rng.Intn(4) == 0 {
		m := []int{0, 1024}[rng.Intn(2)]
		cfg.Compression = &m
	}
	if kind == c03fpStreamTimeoutKind {
		cfg.PoolTimeoutMs = 300 + rng.Intn(501)
		cfg.Compression = nil
		if i%2 == 0 { // (i%2 is the shard of the quick tier: both variants in every run)
			m := []int{0, 1024}[rng.Intn(2)]
			cfg.Compression = &m
		}
	}
	if rng.Intn(6) == 0 {
		cfg.Retry = &e2eRetry{MaxAttempts: 2, WaitMs: 3 + rng.Intn(5), Random: 0.5}
	}
	if rng.Intn(3) == 0 {
		cfg.CacheSize = 16
	}
	return cfg, kind
}

func c03fpLimit(cfg *e2eCfg) (int64, string) {
	switch {
	case cfg.PoolServerMax != 0:
		return cfg.PoolServerMax, "pool"
	case cfg.ProxyServerMax != 0:
		return cfg.ProxyServerMax, "proxy"
	}
	return c03fpDefaultLimit, "default"
}

// c03fpPlain drops the gzip label c03Gen may have put on the scripted response.
func c03fpPlain(ex *c03Ex) {
	ex.RespGzip = false
	var h [][2]string
	for _, kv := range ex.Script.Headers {
		if e2eCanon(kv[0]) != "Content-Encoding" {
			h = append(h, kv)
		}
	}
	ex.Script.Headers = h
}

// c03fpShape turns the exchange c03Gen made into one of the class.
func c03fpShape(cfg *e2eCfg, rng *rand.Rand, ex *c03Ex, class string) {
	limit, _ := c03fpLimit(cfg)
	q, sc := &ex.Req, &ex.Script
	if class != "control" && q.Method == "HEAD" {
		q.Method = "GET" // (a HEAD response has no body to go wrong)
	}
	setBody := func(n int) {
		c03fpPlain(ex)
		ex.RespPlain = c03Body(rng, n, rng.Intn(3) != 0, ex.ID+"/resp")
		sc.Body = ex.RespPlain
		ex.RespBody = e2eBrief(sc.Body)
	}
	success := func() {
		switch x := rng.Intn(20); {
		case x < 14 || sc.Status == 204:
			sc.Status = 200
		case x < 17:
			sc.Status = 201
		}
	}
	small := func() int {
		n := []int{2, 64, 300, 1024, 5000, 40000}[rng.Intn(6)] + rng.Intn(50)
		if limit > 0 && int64(n) > limit {
			n = int(limit)
		}
		return n
	}
	switch class {
	case "control", "failure-code":
		if class == "failure-code" {
			sc.Status = cfg.FailureCodes[rng.Intn(len(cfg.FailureCodes))]
		} else {
			for _, fc := range cfg.FailureCodes {
				if sc.Status == fc {
					sc.Status = 200
				}
			}
		}
		// an honest response that fits the limit in every encoding (the gateway's transport
		// un-gzips a labelled body when the client sent no Accept-Encoding, and proxy
		// compression re-encodes it before the limit is applied)
		if limit > 0 && sc.Status != 204 && (int64(len(sc.Body)) > limit/2 || int64(len(ex.RespPlain)) > limit/2) {
			gz := ex.RespGzip
			setBody(1 + rng.Intn(int(limit/2)))
			if gz {
				ex.RespGzip = true
				sc.Body = e2eGzip(ex.RespPlain)
				sc.Headers = append(sc.Headers, [2]string{"Content-Encoding", "gzip"})
				ex.RespBody = e2eBrief(sc.Body)
			}
		}
		if class == "failure-code" && sc.Mode != "cl" && sc.Mode != "chunked" {
			sc.Mode = "cl"
		}
	case "oversize-declared", "oversize-chunked":
		success()
		l := int(limit)
		n := l + 1
		if l <= 70000 {
			n = []int{l + 1, l + 2 + rng.Intn(1000), 2 * l, 4*l + 3}[rng.Intn(4)]
		}
		setBody(n)
		sc.Mode = "cl"
		if class == "oversize-chunked" {
			sc.Mode = "chunked"
		}
	case "short-declared":
		success()
		n := small()
		setBody(n)
		sc.Mode = "short"
		sc.SendN = []int{0, rng.Intn(n), n - 1}[rng.Intn(3)]
	case "short-chunked":
		success()
		n := small()
		setBody(n)
		sc.Mode = "short-chunked"
		sc.SendN = []int{0, rng.Intn(n), n - 1, n}[rng.Intn(4)]
	case "streamed-honest":
		// an honest body, long enough that a stream cut off behind the transport's first
		// buffer-full shows
		success()
		for _, fc := range cfg.FailureCodes { // (a failure-coded response is the class failure-code, and is retried under a Retry policy)
			if sc.Status == fc {
				sc.Status = 200
			}
		}
		setBody([]int{3000 + rng.Intn(6000), 20000 + rng.Intn(10000), 65536, 100000 + rng.Intn(100001)}[rng.Intn(4)])
		sc.Mode = []string{"cl", "chunked"}[rng.Intn(2)]
	case "drop", "reset", "drop-in-headers":
		success()
		sc.Mode = class
	case "hang-until-pool-timeout":
		success()
		sc.Mode = "hang"
	case "backend-unreachable":
	}
}

// c03fpKeep decides which refutations of the full oracle are demanded on a failure path.
func c03fpKeep(cfg *e2eCfg, class string, f c03Finding, status int) bool {
	switch {
	case strings.HasPrefix(f.Check, "framing:"), strings.HasPrefix(f.Check, "handler-panic"):
		return true
	case f.Check == "backend-not-contacted":
		return class != "backend-unreachable" && cfg.PoolTimeoutMs == 0
	case f.Check == "backend-contacted-more-than-once":
		return false // (the transport and a Retry policy may legitimately try again)
	case strings.HasPrefix(f.Check, "req-body"):
		// (a pool timeout may cut the forwarding of the request body short)
		return cfg.PoolTimeoutMs == 0
	case strings.HasPrefix(f.Check, "req-"):
		return true
	case strings.HasPrefix(f.Check, "status:"), strings.HasPrefix(f.Check, "resp-"):
		switch class {
		case "failure-code":
			// the backend's response "is already there" and is relayed as it is
			return cfg.PoolTimeoutMs == 0
		case "oversize-declared", "oversize-chunked", "short-declared", "short-chunked", "control":
			// the status is C07's business; a success must be the backend's, complete
			return status/100 == 2
		}
		return false
	}
	return true
}

func TestVerif_C03_FailurePath(t *testing.T) {
	r := kit.Start(t, "C03")
	defer r.Finish()
	if e2eNotReplayed(r) {
		return
	}
	r.Rule("failure-path responses: gateway configurations {serverMaxBodySize positive (1000, 4096, 65536, random 1500..70000) at pool level, at proxy level, at both levels, unset (4 MiB), -1 (stream)} x {IP, host-name, keepHost server} x failureCodes [500,503] or none x pool timeout 25-55 ms or none (buffered responses), 300-800 ms with streamed responses (every 7th pair of configurations: honest bodies of 3-200 KB, length-declared and chunked alternating, proxy compression on in one shard and off in the other, plus drop/reset/failure-code and ordinary exchanges) x proxy compression none/0/1024 x Retry policy (2 attempts) or none x route cache, and a pool whose only server refuses connections. 10 exchanges per configuration on one kept-alive raw connection, requests as in the exchange part (never HEAD): backend responses of limit+1, limit+k, 2*limit, 4*limit bytes, length-declared or chunked; length-declared bodies of which 0 / some / all but one bytes are sent before the connection is closed; chunked bodies cut off after 0 / some / all bytes without the terminating chunk (the last two kinds in buffered mode only: in stream mode the status line is on the wire before the gateway can know); connection closed (FIN) or reset (RST) after the request was read, or in the middle of the response head; a backend that stays silent until the pool's timeout has fired; responses whose status is listed in failureCodes; every third exchange an ordinary one, checked in full. distinct = (class, response mode, limit source, compression, scripted status class/mode, request framing, answered status, client-side framing)")
	r.Assume("on a failure path the status the gateway answers with is not decided here (C07 decides it): demanded are well-framed bytes on the client socket (also: nothing behind the response on a kept-alive connection), the faithful forwarding of the request whenever the backend saw it, and for a 2xx answer the backend's status, end-to-end headers and complete body; a 2xx answer to an exchange whose backend never produced a response head (drop, reset, hang, refused connection) is recorded in the coverage signature but not decided; a response whose status is listed in failureCodes is demanded to be relayed unchanged (status, headers, body)")
	r.Assume("a pool timeout combined with a streamed response (serverMaxBodySize -1) is a configuration kind of its own: timeout 300-800 ms, honest and fast backend, bodies of 3-200 KB, length-declared and chunked, with and without proxy compression; an exchange is judged (in full: status, headers, body, framing) only if it was over on the client side before the timeout had passed since the client began to write the request - the deadline cannot have fired then; otherwise it is not judged at all (a deadline that fires inside a streamed body can only cut it off). The short timeouts (25-55 ms) that are meant to fire are combined with buffered responses only")
	r.Assume("with a pool timeout configured, neither the status nor the request body of any exchange is decided (the timeout may fire on a loaded machine): framing, headers and 2xx faithfulness only")
	be, err := e2eNewBackend()
	if err != nil {
		r.Inconclusive("cannot start backend: " + err.Error())
		return
	}
	defer be.Close()
	dd := &c03Dedupe{}
	n := r.N(28, 728)
	for i := 0; i < n; i++ {
		if !r.Mine(i) {
			continue
		}
		rng := r.CaseRand(i)
		cfg, kind := c03fpCfg(i, rng)
		release := func() {}
		if kind == "dead-server" {
			port, rel, err := e2eReservePort()
			if err != nil {
				r.Inconclusive("cannot reserve a refusing port: " + err.Error())
				continue
			}
			cfg.DeadPort, release = port, rel
		}
		limit, limitSrc := c03fpLimit(cfg)
		// classes this configuration can show
		var classes []string
		switch {
		case kind == "dead-server":
			classes = []string{"backend-unreachable"}
		case kind == c03fpStreamTimeoutKind:
			classes = []string{"streamed-honest", "streamed-honest", "streamed-honest", "streamed-honest", "drop", "reset", "drop-in-headers"}
		case limit < 0:
			classes = []string{"drop", "reset", "drop-in-headers"}
		default:
			classes = []string{"oversize-declared", "oversize-chunked", "short-declared", "short-chunked", "short-declared", "short-chunked", "drop", "reset", "drop-in-headers"}
		}
		perCase := 10
		if kind == "dead-server" {
			perCase = 4
		}
		var forced []string
		if kind != "dead-server" {
			if kind == c03fpStreamTimeoutKind {
				forced = append(forced, "streamed-honest", "streamed-honest")
			} else if cfg.PoolTimeoutMs > 0 {
				forced = append(forced, "hang-until-pool-timeout")
			}
			if len(cfg.FailureCodes) > 0 {
				forced = append(forced, "failure-code")
			}
		}
		type planned struct {
			Class string `json:"class"`
			Ex    *c03Ex `json:"exchange"`
		}
		var plan []planned
		// a 4 MiB response is costly: at most one per default-limit configuration, in half of them
		bigDone := limit == c03fpDefaultLimit && rng.Intn(2) == 0
		streamed := 0
		for k := 0; k < perCase; k++ {
			class := "control"
			switch {
			case kind == "dead-server":
				class = "backend-unreachable"
			case k%3 == 2:
			case len(forced) > 0:
				class, forced = forced[0], forced[1:]
			default:
				class = classes[rng.Intn(len(classes))]
				if limit == c03fpDefaultLimit && strings.HasPrefix(class, "oversize-") {
					if bigDone { // one 4 MiB response per configuration is enough
						class = []string{"short-declared", "short-chunked"}[rng.Intn(2)]
					}
					bigDone = true
				}
			}
			ex := c03Gen(cfg, rng, fmt.Sprintf("c03f-%d-%d-%d", r.Seed(), i, k), k == perCase-1)
			c03fpShape(cfg, rng, ex, class)
			if class == "streamed-honest" {
				ex.Script.Mode = []string{"cl", "chunked"}[streamed%2] // (both framings in every such configuration)
				streamed++
			}
			plan = append(plan, planned{class, ex})
		}
		r.Case(i, map[string]interface{}{"cfg": cfg, "kind": kind, "plan": plan})
		gw, err := e2eStart(cfg, be)
		if err != nil {
			release()
			r.Inconclusive("gateway did not start: " + err.Error())
			continue
		}
		cl := &e2eClient{addr: gw.addr}
		connSawFailure := false // a failure-path exchange was answered earlier on the client's current connection
		for _, p := range plan {
			class, ex := p.Class, p.Ex
			sc := ex.Script
			be.Script(ex.ID, &sc)
			began := time.Now()
			res := cl.Do(&ex.Req, func() bool { return be.Contacted(ex.ID) })
			elapsed := time.Since(began)
			seen := be.Take(ex.ID)
			r.Eval(1)
			finds, _, inc := c03Check(cfg, ex, res, seen)
			for _, entry := range gw.errlog.TakePanics(res.Addrs) {
				site, msg := e2ePanicSig(entry)
				r.Count("handler_panics", 1)
				finds = append(finds, c03Finding{"", map[string]interface{}{"cfg": cfg, "exchange": ex, "serverLog": c03ClipN(entry, 3000)}, "handler-panic:" + site + ":" + msg})
			}
			if inc == "" && seen != nil && seen.HangExpired {
				inc = "the gateway's pool timeout did not end a silent backend exchange within the backend's watchdog"
			}
			if inc != "" {
				r.Inconclusive(inc)
				continue
			}
			resp := res.Resp
			full := class == "control" && cfg.PoolTimeoutMs == 0
			// streamed response under a (long) pool timeout: the deadline is set when the proxy
			// starts on the request, i.e. not before the client began to write it; an exchange
			// that was over on the client side before `timeout` had passed was not touched by it
			// and is judged in full (honest exchanges) - any other is not judged at all, because
			// a deadline that fires in the middle of a streamed body can only cut it off
			streamTimeout := kind == c03fpStreamTimeoutKind
			beforeDeadline := elapsed < time.Duration(cfg.PoolTimeoutMs)*time.Millisecond
			if streamTimeout && !beforeDeadline {
				r.Count("failpath_streamed_response_pool_timeout_may_have_fired_not_judged", 1)
				finds = nil
			}
			judgeAll := streamTimeout && beforeDeadline && (class == "control" || class == "streamed-honest" || class == "failure-code")
			for _, f := range finds {
				if full {
					if f.Sig == "" {
						f.Sig = c03Sig(f.Check, c03RespTrigger(cfg, ex))
					}
					dd.record(r, f)
					continue
				}
				if !judgeAll && !c03fpKeep(cfg, class, f, resp.Status) {
					continue
				}
				reqSide := strings.HasPrefix(f.Check, "req-") || f.Check == "backend-not-contacted" || f.Check == "backend-contacted-more-than-once"
				if judgeAll && f.Check == "backend-contacted-more-than-once" && cfg.Retry != nil && class == "failure-code" {
					continue // (a failure-coded response is retried)
				}
				cname := class
				if class == "control" {
					cname = "ordinary-exchange-under-pool-timeout"
				}
				if streamTimeout {
					cname = "stream-response-under-pool-timeout"
				}
				if f.Sig == "" || !reqSide {
					// (what the backend received does not depend on how it answers: the
					// request-side signatures stay those of the exchange part)
					f.Sig = "C03:" + f.Check + ":failure-path(" + cname + ")"
				}
				f.Detail["failurePathClass"] = class
				f.Detail["configurationKind"] = kind
				f.Detail["elapsedMs"] = elapsed.Milliseconds()
				dd.record(r, f)
			}
			if judgeAll && class == "streamed-honest" && len(finds) == 0 && resp.FramingErr == "" && resp.Status == ex.Script.Status {
				r.Count("failpath_streamed_response_under_pool_timeout_delivered_intact", 1)
				r.Count("failpath_streamed_response_under_pool_timeout_delivered_intact_"+ex.Script.Mode, 1)
				if cfg.Compression != nil {
					r.Count("failpath_streamed_response_under_pool_timeout_delivered_intact_with_proxy_compression", 1)
				} else {
					r.Count("failpath_streamed_response_under_pool_timeout_delivered_intact_without_compression", 1)
				}
				if len(ex.Script.Body) >= 65536 {
					r.Count("failpath_streamed_response_under_pool_timeout_delivered_intact_64k_or_more", 1)
				}
			}
			if judgeAll && class == "control" && len(finds) == 0 && resp.FramingErr == "" {
				r.Count("failpath_ordinary_exchange_streamed_under_pool_timeout_intact", 1)
			}
			// observations
			r.Count("failpath_exchanges", 1)
			r.Count("failpath_"+class, 1)
			framing := resp.Framing
			if !res.Reused {
				connSawFailure = false
			}
			if resp.FramingErr != "" {
				framing = "ill-framed"
			} else {
				r.Count(fmt.Sprintf("failpath_answer_%dxx", resp.Status/100), 1)
				if class == "control" && connSawFailure && resp.Status == ex.Script.Status {
					r.Count("failpath_ordinary_exchange_on_connection_that_saw_a_failure", 1)
				}
				if class == "failure-code" && resp.Status == ex.Script.Status {
					r.Count("failpath_failure_code_relayed", 1)
				}
			}
			if class != "control" {
				connSawFailure = true
			}
			comp := "nocomp"
			if cfg.Compression != nil {
				comp = fmt.Sprintf("comp%d", *cfg.Compression)
			}
			r.Cover(fmt.Sprintf("failpath/%s/%s/limit-from-%s/%s/retry%v/script%dxx.%s/req-%s/answer%d/%s", class, kind, limitSrc, comp, cfg.Retry != nil,
				ex.Script.Status/100, ex.Script.Mode, ex.Req.Framing, resp.Status, framing))
			if i < 6 && class != "control" && len(plan) > 0 && p.Ex == plan[0].Ex {
				r.Sample(map[string]interface{}{"cfg": cfg, "class": class, "exchange": ex, "response": resp})
			}
		}
		cl.Close()
		c03Leftover(r, gw, cfg)
		gw.Close()
		release()
		be.CloseIdle()
	}
	for _, c := range c03fpAllClasses {
		r.Require("failpath_"+c, 1)
	}
	r.Require("failpath_control", 1)
	r.Require("failpath_ordinary_exchange_on_connection_that_saw_a_failure", 1)
	r.Require("failpath_answer_5xx", 1)
	r.Require("failpath_failure_code_relayed", 1)
	for _, k := range []string{"", "_cl", "_chunked", "_with_proxy_compression", "_without_compression", "_64k_or_more"} {
		r.Require("failpath_streamed_response_under_pool_timeout_delivered_intact"+k, 1)
	}
	r.Require("failpath_ordinary_exchange_streamed_under_pool_timeout_intact", 1)
}
