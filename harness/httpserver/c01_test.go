//go:build verif

package httpserver

import (
	"fmt"
	"sort"
	"strings"
	"testing"

	"verif.local/kit"
)

// TestVerif_C01_Router: real mux (cache off, no IP filters) in lock-step with the
// reference router written from the property sentence.
func TestVerif_C01_Router(t *testing.T) {
	r := kit.Start(t, "C01")
	defer r.Finish()
	r.Rule("seeded rule sets (1-4 rules x 1-4 paths over small alphabets: host/hostRegexp, exact/prefix/regexp paths, method lists, header matchers carrying values, a regexp or both on the same key, with and without matchAllHeader, rewrite targets incl. $n groups, shadowing duplicates, unknown backends) x 40 requests each (host with/without port, absent headers, unlisted methods); plus 25% further rule sets of the same kind that have IP literals in their host vocabulary: about half of their rules carry an exact host and/or a hostRegexp written for literals (bracketed and bare IPv6, IPv4, regexps accepting either form / one form / a whole family) and three fifths of their requests address the server by literal (IPv4 or bracketed IPv6, half of them with a port); every request is served by the real mux.ServeHTTP and by an independent reference router; a run must contain requests whose value satisfies exactly one of the two conditions of a values+regexp matcher in a way that decides the entry, under matchAllHeader and without, and requests of every host form (name+port, v4, v4+port, bracketed v6, bracketed v6+port) dispatched through an exact/regexp host condition that had to accept them, and literals turned away by one; plus 27% further rule sets of the same kind whose method lists range over the FULL set of methods the validation accepts (GET HEAD POST PUT PATCH DELETE CONNECT OPTIONS TRACE): three quarters of their entries carry a list: a single method, all nine, all but one, or an arbitrary subset; each such rule set has one of the nine as focus method (the rule sets walk through the alphabet) which its single-method lists, its all-but-one lists and a third of its requests prefer, and contains one entry naming the focus method alone that copies another entry's path condition and stands right in front of or behind it; their requests carry each of the nine methods and one unknown method (PROPFIND); for EACH of the nine methods a run must contain a request with that method dispatched through a list naming it, through a list naming it alone, and through a list of all nine, a request with that method turned away by a list not naming it, and a request with another method turned away by the list naming it alone; distinct = (status, decision reason, winning rule/path index, host matcher kind, rewrite mode, deciding values+regexp matcher, request host form; in the full-method class also request method and the kind of method list that decided)")
	r.Assume("a header matcher that carries both values and a regexp holds under matchAllHeader iff every configured condition holds (value listed AND regexp matches) and without matchAllHeader iff any does (the reading of \"all\"/\"any\" over the configured conditions, which is also what spec.go/mux.go document and do); request headers are single-valued; an entry may carry several path matchers; its rewritten path is judged when exactly one of them matches the request (when several match, the governing one is left open); no /.well-known/acme-challenge/ paths")
	r.Assume("the host with the port ignored: name:port -> name and v4:port -> v4; a bracketed IPv6 literal WITHOUT a port has no port to ignore and is taken as sent, brackets included (\"[2001:db8::1]\" is matched by host \"[2001:db8::1]\" and by regexps over that text); for a bracketed literal WITH a port the reference follows net.SplitHostPort (\"[2001:db8::1]:8080\" -> \"2001:db8::1\", brackets go with the port), but since the sentence does not say whether the brackets belong to the host, such a request is judged only when reading the host as \"[2001:db8::1]\" yields the same status, backend and rewritten path (otherwise it is served, counted and not compared); unbracketed IPv6 text is not a legal Host and is not generated")
	nSets := r.N(400, 20000)
	const reqPerSet = 40
	missing := map[string]bool{"gone": true}
	// further rule sets that have IP literals in their host vocabulary
	nLit := r.N(100, 5000)
	// further rule sets whose method lists and requests range over all nine methods
	nMeth := r.N(135, 6750)
	for i := 0; i < nSets+nLit+nMeth; i++ {
		if !r.Mine(i) {
			continue
		}
		rng := r.CaseRand(i)
		opts := genOpts{headers: true, maxRules: 4, maxPaths: 4, ipHosts: i >= nSets && i < nSets+nLit}
		if i >= nSets+nLit {
			opts.allMethods, opts.focusMethod = true, genAllMethods[(i-nSets-nLit)%len(genAllMethods)]
		}
		spec := genSpec(rng, opts)
		r.Case(i, spec)
		mapper := &recMapper{missing: missing}
		m, err := buildMux(spec, mapper)
		if err != nil {
			r.Count("spec_rejected", 1)
			r.Note("generated spec rejected by validation: %v", err)
			continue
		}
		r.Count("specs_accepted", 1)
		for k := 0; k < reqPerSet; k++ {
			q := genReq(rng, spec, false)
			want := refRoute(spec, &q, missing)
			before := mapper.Calls()
			var got gOut
			if r.Guard("C01", map[string]interface{}{"spec": spec, "req": q}, func() { got = serve(m, &q) }) {
				continue
			}
			called := mapper.Calls() - before
			r.Eval(1)
			hc := reqHostClass(q.Host)
			if alt, ok := refBracketReading(q.Host); ok {
				// "[v6]:port": the reference reads the host as the bare address (brackets
				// dropped with the port); if reading it as the bracketed literal routes the
				// request differently, the property does not decide and the request is not judged
				q2 := q
				q2.Host = alt
				w2 := refRoute(spec, &q2, missing)
				if w2.Out.Status != want.Out.Status || w2.Out.Backend != want.Out.Backend || w2.Rewrite != want.Rewrite || w2.Out.Path != want.Out.Path {
					r.Count("reqhost_v6+port_not_judged_bracket_reading_routes_differently", 1)
					r.Cover("open/reqhost=" + hc + "/bracket-reading-differs")
					continue
				}
			}
			methTag := ""
			if spec.AllMethods {
				methTag = c01MethodClass(r, spec, &q, &want)
				r.Cover(fmt.Sprintf("%d/%s/r%d.p%d/method=%s/%s", want.Out.Status, want.Why, want.Rule, want.PathIdx, q.Method, methTag))
			}
			r.Cover(fmt.Sprintf("%d/%s/r%d.p%d/%s/%s/both=%s/reqhost=%s", want.Out.Status, want.Why, want.Rule, want.PathIdx, want.HostKind, want.Rewrite, want.HdrBoth, hc))
			r.Count("reqhost_"+hc, 1)
			if want.Rule >= 0 && (want.HostKind == "exact" || want.HostKind == "regexp") {
				// dispatched through a rule whose host condition had to accept this host
				r.Count("reqhost_"+hc+"_accepted_by_host_"+want.HostKind, 1)
			}
			if hc != "name" && hc != "name+port" && want.Rule != 0 {
				for ri := range spec.Rules {
					if want.Rule >= 0 && ri >= want.Rule {
						break
					}
					if ru := &spec.Rules[ri]; ru.Host != "" || ru.HostRegexp != "" {
						if ok, _ := refHostMatch(ru, q.Host); !ok {
							// a host condition in front of the deciding rule had to reject the literal
							r.Count("reqhost_literal_rejected_by_an_earlier_host_condition", 1)
							break
						}
					}
				}
			}
			if want.HdrBoth != "" {
				// "all", "any" or "all+any": a values+regexp matcher of which the request satisfies
				// exactly one condition decided an entry consulted for this request
				for _, mode := range strings.Split(want.HdrBoth, "+") {
					r.Count("hdr_values_and_regexp_split_decides_matchall_"+map[string]string{"all": "true", "any": "false"}[mode], 1)
					r.Count(fmt.Sprintf("hdr_values_and_regexp_split_decides_matchall_%s_status_%d", map[string]string{"all": "true", "any": "false"}[mode], want.Out.Status), 1)
				}
			}
			r.Count(fmt.Sprintf("status_%d", want.Out.Status), 1)
			r.Count("rewrite_"+want.Rewrite, 1)
			bad := ""
			switch {
			case got.Status != want.Out.Status:
				bad = fmt.Sprintf("status:got%d-want%d", got.Status, want.Out.Status)
			case want.Out.Status == 200 && got.Backend != want.Out.Backend:
				bad = "backend"
			case want.Out.Status == 200 && want.Rewrite != "ambiguous" && got.Path != want.Out.Path:
				bad = "rewritten-path:" + want.Rewrite
			case want.Out.Status == 200 && got.Host != want.Out.Host:
				bad = "host-seen-by-backend"
			case want.Out.Status != 200 && called != 0:
				bad = "handler-invoked-on-failure"
			case want.Out.Status == 200 && called != 1:
				bad = "handler-call-count"
			}
			if bad != "" && want.HdrBoth != "" {
				// label only: the real router behaves exactly as if values+regexp matchers were
				// read the other way round (one condition enough under matchAllHeader / both needed
				// without it)
				alt := refRouteAs(spec, &q, missing, true)
				if got.Status == alt.Out.Status && (alt.Out.Status != 200 || (got.Backend == alt.Out.Backend && (alt.Rewrite == "ambiguous" || got.Path == alt.Out.Path))) {
					bad += ":values+regexp-header-matcher-half-satisfied-read-the-other-way:matchAllHeader=" + map[string]string{"all": "true", "any": "false", "all+any": "both-kinds"}[want.HdrBoth]
				}
			}
			if bad != "" && hc != "name" && hc != "name+port" {
				// the Host is an IP literal: say which kind (names keep the plain signature)
				bad += ":reqhost=" + hc
			}
			if bad != "" && methTag != "" && methTag != "no-list-consulted" {
				// full-method class, a method list was consulted: which method the request
				// carried (other classes keep the plain signature); the kinds of lists that
				// accepted it / turned it away go into the detail
				bad += ":method=" + q.Method
			}
			if bad != "" {
				r.Violation("router-vs-reference:"+bad+":"+want.Why, map[string]interface{}{
					"method_lists_consulted_by_reference": methTag,
					"spec": spec, "yaml": spec.YAML("verif"), "request": q, "real": got, "reference": want,
				})
			}
			if i < 2 && k < 2 {
				r.Sample(map[string]interface{}{"spec": spec, "request": q, "real": got, "reference": want.Out})
			}
		}
		m.close()
	}
	for _, k := range []string{"status_200", "status_400", "status_404", "status_405", "status_503", "rewrite_exact", "rewrite_prefix", "rewrite_regexp", "rewrite_ambiguous",
		"hdr_values_and_regexp_split_decides_matchall_true", "hdr_values_and_regexp_split_decides_matchall_false",
		"hdr_values_and_regexp_split_decides_matchall_true_status_200", "hdr_values_and_regexp_split_decides_matchall_true_status_400",
		// IP-literal hosts: each form must have been dispatched through a host condition that
		// had to accept it ("[v6]:port" is judged through regexps accepting both readings; an
		// exact host for it is always open), and must have been turned away by one
		"reqhost_v6_accepted_by_host_exact", "reqhost_v6_accepted_by_host_regexp", "reqhost_v6+port_accepted_by_host_regexp",
		"reqhost_v4_accepted_by_host_exact", "reqhost_v4_accepted_by_host_regexp",
		"reqhost_v4+port_accepted_by_host_exact", "reqhost_v4+port_accepted_by_host_regexp",
		"reqhost_name+port_accepted_by_host_exact", "reqhost_name+port_accepted_by_host_regexp",
		"reqhost_literal_rejected_by_an_earlier_host_condition"} {
		r.Require(k, 1)
	}
	// the full method alphabet: every method both as the request's method and as the method a
	// list names
	for _, m := range genAllMethods {
		r.Require("method_"+m+"_dispatched_through_list_naming_it", 1)
		r.Require("method_"+m+"_dispatched_through_list_naming_it_alone", 1)
		r.Require("method_"+m+"_dispatched_through_list_of_all_nine", 1)
		r.Require("method_"+m+"_turned_away_by_list_not_naming_it", 1)
		r.Require("list_naming_"+m+"_alone_turned_away_another_method", 1)
	}
	r.Require("unknown_method_turned_away_by_list", 1)
}

func c01ListKind(l []string) string {
	switch len(l) {
	case 1:
		return "single[" + l[0] + "]"
	case len(genAllMethods):
		return "all-nine"
	case len(genAllMethods) - 1:
		return "all-but-one"
	}
	return "subset"
}

// c01MethodClass (full-method class only, coverage accounting and signature label, never a
// verdict): walks the entries the reference consults for this request up to the deciding
// one, counts which method lists accepted / turned away the request's method, and returns a
// label for the lists that were consulted: "method-accepted-by-list=<kinds>" and/or
// "method-turned-away-by-list=<kinds>" (kinds: single[M], all-nine, all-but-one, subset).
func c01MethodClass(r *kit.Run, spec *gSpec, q *gReq, want *refDecision) string {
	known := false
	for _, m := range genAllMethods {
		known = known || m == q.Method
	}
	away, acc := map[string]bool{}, map[string]bool{}
walk:
	for ri := range spec.Rules {
		if ok, _ := refHostMatch(&spec.Rules[ri], q.Host); !ok {
			continue
		}
		for pi := range spec.Rules[ri].Paths {
			p := &spec.Rules[ri].Paths[pi]
			if ok, _ := refPathMatch(p, q.Path); !ok {
				continue
			}
			decides := ri == want.Rule && pi == want.PathIdx
			if len(p.Methods) > 0 {
				if refMethodMatch(p, q.Method) {
					acc[c01ListKind(p.Methods)] = true
					if decides {
						r.Count("method_"+q.Method+"_dispatched_through_list_naming_it", 1)
						if len(p.Methods) == 1 {
							r.Count("method_"+q.Method+"_dispatched_through_list_naming_it_alone", 1)
						}
						if len(p.Methods) == len(genAllMethods) {
							r.Count("method_"+q.Method+"_dispatched_through_list_of_all_nine", 1)
						}
					}
				} else {
					away[c01ListKind(p.Methods)] = true
					if known {
						r.Count("method_"+q.Method+"_turned_away_by_list_not_naming_it", 1)
					} else {
						r.Count("unknown_method_turned_away_by_list", 1)
					}
					if len(p.Methods) == 1 {
						r.Count("list_naming_"+p.Methods[0]+"_alone_turned_away_another_method", 1)
					}
				}
			}
			if decides {
				break walk
			}
		}
	}
	var parts []string
	for _, x := range []struct {
		name string
		set  map[string]bool
	}{{"method-accepted-by-list=", acc}, {"method-turned-away-by-list=", away}} {
		if len(x.set) == 0 {
			continue
		}
		var ks []string
		for k := range x.set {
			ks = append(ks, k)
		}
		sort.Strings(ks)
		if len(ks) > 2 {
			ks = append(ks[:2], "...")
		}
		parts = append(parts, x.name+strings.Join(ks, ","))
	}
	if len(parts) == 0 {
		return "no-list-consulted"
	}
	return strings.Join(parts, "/")
}
