//go:build verif

package httpserver

import (
	"fmt"
	"strings"
	"testing"

	"verif.local/kit"
)

// TestVerif_C01_Router: real mux (cache off, no IP filters) in lock-step with the
// reference router written from the property sentence.
func TestVerif_C01_Router(t *testing.T) {
	r := kit.Start(t, "C01")
	defer r.Finish()
	r.Rule("seeded rule sets (1-4 rules x 1-4 paths over small alphabets: host/hostRegexp, exact/prefix/regexp paths, method lists, header matchers carrying values, a regexp or both on the same key, with and without matchAllHeader, rewrite targets incl. $n groups, shadowing duplicates, unknown backends) x 40 requests each (host with/without port, absent headers, unlisted methods); plus 25% further rule sets of the same kind that have IP literals in their host vocabulary: about half of their rules carry an exact host and/or a hostRegexp written for literals (bracketed and bare IPv6, IPv4, regexps accepting either form / one form / a whole family) and three fifths of their requests address the server by literal (IPv4 or bracketed IPv6, half of them with a port); every request is served by the real mux.ServeHTTP and by an independent reference router; a run must contain requests whose value satisfies exactly one of the two conditions of a values+regexp matcher in a way that decides the entry, under matchAllHeader and without, and requests of every host form (name+port, v4, v4+port, bracketed v6, bracketed v6+port) dispatched through an exact/regexp host condition that had to accept them, and literals turned away by one; distinct = (status, decision reason, winning rule/path index, host matcher kind, rewrite mode, deciding values+regexp matcher, request host form)")
	r.Assume("a header matcher that carries both values and a regexp holds under matchAllHeader iff every configured condition holds (value listed AND regexp matches) and without matchAllHeader iff any does (the reading of \"all\"/\"any\" over the configured conditions, which is also what spec.go/mux.go document and do); request headers are single-valued; an entry may carry several path matchers; its rewritten path is judged when exactly one of them matches the request (when several match, the governing one is left open); no /.well-known/acme-challenge/ paths")
	r.Assume("the host with the port ignored: name:port -> name and v4:port -> v4; a bracketed IPv6 literal WITHOUT a port has no port to ignore and is taken as sent, brackets included (\"[2001:db8::1]\" is matched by host \"[2001:db8::1]\" and by regexps over that text); for a bracketed literal WITH a port the reference follows net.SplitHostPort (\"[2001:db8::1]:8080\" -> \"2001:db8::1\", brackets go with the port), but since the sentence does not say whether the brackets belong to the host, such a request is judged only when reading the host as \"[2001:db8::1]\" yields the same status, backend and rewritten path (otherwise it is served, counted and not compared); unbracketed IPv6 text is not a legal Host and is not generated")
	nSets := r.N(400, 20000)
	const reqPerSet = 40
	missing := map[string]bool{"gone": true}
	// further rule sets that have IP literals in their host vocabulary
	nLit := r.N(100, 5000)
	for i := 0; i < nSets+nLit; i++ {
		if !r.Mine(i) {
			continue
		}
		rng := r.CaseRand(i)
		spec := genSpec(rng, genOpts{headers: true, maxRules: 4, maxPaths: 4, ipHosts: i >= nSets})
		r.Case(i, spec)
		mapper := &recMapper{missing: missing}
		m, err := buildMux(spec, mapper)
		if err != nil {
			r.Count("spec_rejected", 1)
			r.Note("generated spec rejected by validation: %v", err)
			continue
		}
		r.Count("specs_accepted", 1)
		for k := 0; k < reqPerSet; k++ {
			q := genReq(rng, spec, false)
			want := refRoute(spec, &q, missing)
			before := mapper.Calls()
			var got gOut
			if r.Guard("C01", map[string]interface{}{"spec": spec, "req": q}, func() { got = serve(m, &q) }) {
				continue
			}
			called := mapper.Calls() - before
			r.Eval(1)
			hc := reqHostClass(q.Host)
			if alt, ok := refBracketReading(q.Host); ok {
				// "[v6]:port": the reference reads the host as the bare address (brackets
				// dropped with the port); if reading it as the bracketed literal routes the
				// request differently, the property does not decide and the request is not judged
				q2 := q
				q2.Host = alt
				w2 := refRoute(spec, &q2, missing)
				if w2.Out.Status != want.Out.Status || w2.Out.Backend != want.Out.Backend || w2.Rewrite != want.Rewrite || w2.Out.Path != want.Out.Path {
					r.Count("reqhost_v6+port_not_judged_bracket_reading_routes_differently", 1)
					r.Cover("open/reqhost=" + hc + "/bracket-reading-differs")
					continue
				}
			}
			r.Cover(fmt.Sprintf("%d/%s/r%d.p%d/%s/%s/both=%s/reqhost=%s", want.Out.Status, want.Why, want.Rule, want.PathIdx, want.HostKind, want.Rewrite, want.HdrBoth, hc))
			r.Count("reqhost_"+hc, 1)
			if want.Rule >= 0 && (want.HostKind == "exact" || want.HostKind == "regexp") {
				// dispatched through a rule whose host condition had to accept this host
				r.Count("reqhost_"+hc+"_accepted_by_host_"+want.HostKind, 1)
			}
			if hc != "name" && hc != "name+port" && want.Rule != 0 {
				for ri := range spec.Rules {
					if want.Rule >= 0 && ri >= want.Rule {
						break
					}
					if ru := &spec.Rules[ri]; ru.Host != "" || ru.HostRegexp != "" {
						if ok, _ := refHostMatch(ru, q.Host); !ok {
							// a host condition in front of the deciding rule had to reject the literal
							r.Count("reqhost_literal_rejected_by_an_earlier_host_condition", 1)
							break
						}
					}
				}
			}
			if want.HdrBoth != "" {
				// "all", "any" or "all+any": a values+regexp matcher of which the request satisfies
				// exactly one condition decided an entry consulted for this request
				for _, mode := range strings.Split(want.HdrBoth, "+") {
					r.Count("hdr_values_and_regexp_split_decides_matchall_"+map[string]string{"all": "true", "any": "false"}[mode], 1)
					r.Count(fmt.Sprintf("hdr_values_and_regexp_split_decides_matchall_%s_status_%d", map[string]string{"all": "true", "any": "false"}[mode], want.Out.Status), 1)
				}
			}
			r.Count(fmt.Sprintf("status_%d", want.Out.Status), 1)
			r.Count("rewrite_"+want.Rewrite, 1)
			bad := ""
			switch {
			case got.Status != want.Out.Status:
				bad = fmt.Sprintf("status:got%d-want%d", got.Status, want.Out.Status)
			case want.Out.Status == 200 && got.Backend != want.Out.Backend:
				bad = "backend"
			case want.Out.Status == 200 && want.Rewrite != "ambiguous" && got.Path != want.Out.Path:
				bad = "rewritten-path:" + want.Rewrite
			case want.Out.Status == 200 && got.Host != want.Out.Host:
				bad = "host-seen-by-backend"
			case want.Out.Status != 200 && called != 0:
				bad = "handler-invoked-on-failure"
			case want.Out.Status == 200 && called != 1:
				bad = "handler-call-count"
			}
			if bad != "" && want.HdrBoth != "" {
				// label only: the real router behaves exactly as if values+regexp matchers were
				// read the other way round (one condition enough under matchAllHeader / both needed
				// without it)
				alt := refRouteAs(spec, &q, missing, true)
				if got.Status == alt.Out.Status && (alt.Out.Status != 200 || (got.Backend == alt.Out.Backend && (alt.Rewrite == "ambiguous" || got.Path == alt.Out.Path))) {
					bad += ":values+regexp-header-matcher-half-satisfied-read-the-other-way:matchAllHeader=" + map[string]string{"all": "true", "any": "false", "all+any": "both-kinds"}[want.HdrBoth]
				}
			}
			if bad != "" && hc != "name" && hc != "name+port" {
				// the Host is an IP literal: say which kind (names keep the plain signature)
				bad += ":reqhost=" + hc
			}
			if bad != "" {
				r.Violation("router-vs-reference:"+bad+":"+want.Why, map[string]interface{}{
					"spec": spec, "yaml": spec.YAML("verif"), "request": q, "real": got, "reference": want,
				})
			}
			if i < 2 && k < 2 {
				r.Sample(map[string]interface{}{"spec": spec, "request": q, "real": got, "reference": want.Out})
			}
		}
		m.close()
	}
	for _, k := range []string{"status_200", "status_400", "status_404", "status_405", "status_503", "rewrite_exact", "rewrite_prefix", "rewrite_regexp", "rewrite_ambiguous",
		"hdr_values_and_regexp_split_decides_matchall_true", "hdr_values_and_regexp_split_decides_matchall_false",
		"hdr_values_and_regexp_split_decides_matchall_true_status_200", "hdr_values_and_regexp_split_decides_matchall_true_status_400",
		// IP-literal hosts: each form must have been dispatched through a host condition that
		// had to accept it ("[v6]:port" is judged through regexps accepting both readings; an
		// exact host for it is always open), and must have been turned away by one
		"reqhost_v6_accepted_by_host_exact", "reqhost_v6_accepted_by_host_regexp", "reqhost_v6+port_accepted_by_host_regexp",
		"reqhost_v4_accepted_by_host_exact", "reqhost_v4_accepted_by_host_regexp",
		"reqhost_v4+port_accepted_by_host_exact", "reqhost_v4+port_accepted_by_host_regexp",
		"reqhost_name+port_accepted_by_host_exact", "reqhost_name+port_accepted_by_host_regexp",
		"reqhost_literal_rejected_by_an_earlier_host_condition"} {
		r.Require(k, 1)
	}
}
