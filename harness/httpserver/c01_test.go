//go:build verif

package httpserver

import (
	"fmt"
	"strings"
	"testing"

	"verif.local/kit"
)

// TestVerif_C01_Router: real mux (cache off, no IP filters) in lock-step with the
// reference router written from the property sentence.
func TestVerif_C01_Router(t *testing.T) {
	r := kit.Start(t, "C01")
	defer r.Finish()
	r.Rule("seeded rule sets (1-4 rules x 1-4 paths over small alphabets: host/hostRegexp, exact/prefix/regexp paths, method lists, header matchers carrying values, a regexp or both on the same key, with and without matchAllHeader, rewrite targets incl. $n groups, shadowing duplicates, unknown backends) x 40 requests each (host with/without port, absent headers, unlisted methods); every request is served by the real mux.ServeHTTP and by an independent reference router; a run must contain requests whose value satisfies exactly one of the two conditions of a values+regexp matcher in a way that decides the entry, under matchAllHeader and without; distinct = (status, decision reason, winning rule/path index, host matcher kind, rewrite mode, deciding values+regexp matcher)")
	r.Assume("a header matcher that carries both values and a regexp holds under matchAllHeader iff every configured condition holds (value listed AND regexp matches) and without matchAllHeader iff any does (the reading of \"all\"/\"any\" over the configured conditions, which is also what spec.go/mux.go document and do); request headers are single-valued; an entry may carry several path matchers; its rewritten path is judged when exactly one of them matches the request (when several match, the governing one is left open); no IPv6 literal hosts; no /.well-known/acme-challenge/ paths")
	nSets := r.N(400, 20000)
	const reqPerSet = 40
	missing := map[string]bool{"gone": true}
	for i := 0; i < nSets; i++ {
		if !r.Mine(i) {
			continue
		}
		rng := r.CaseRand(i)
		spec := genSpec(rng, genOpts{headers: true, maxRules: 4, maxPaths: 4})
		r.Case(i, spec)
		mapper := &recMapper{missing: missing}
		m, err := buildMux(spec, mapper)
		if err != nil {
			r.Count("spec_rejected", 1)
			r.Note("generated spec rejected by validation: %v", err)
			continue
		}
		r.Count("specs_accepted", 1)
		for k := 0; k < reqPerSet; k++ {
			q := genReq(rng, spec, false)
			want := refRoute(spec, &q, missing)
			before := mapper.Calls()
			var got gOut
			if r.Guard("C01", map[string]interface{}{"spec": spec, "req": q}, func() { got = serve(m, &q) }) {
				continue
			}
			called := mapper.Calls() - before
			r.Eval(1)
			r.Cover(fmt.Sprintf("%d/%s/r%d.p%d/%s/%s/both=%s", want.Out.Status, want.Why, want.Rule, want.PathIdx, want.HostKind, want.Rewrite, want.HdrBoth))
			if want.HdrBoth != "" {
				// "all", "any" or "all+any": a values+regexp matcher of which the request satisfies
				// exactly one condition decided an entry consulted for this request
				for _, mode := range strings.Split(want.HdrBoth, "+") {
					r.Count("hdr_values_and_regexp_split_decides_matchall_"+map[string]string{"all": "true", "any": "false"}[mode], 1)
					r.Count(fmt.Sprintf("hdr_values_and_regexp_split_decides_matchall_%s_status_%d", map[string]string{"all": "true", "any": "false"}[mode], want.Out.Status), 1)
				}
			}
			r.Count(fmt.Sprintf("status_%d", want.Out.Status), 1)
			r.Count("rewrite_"+want.Rewrite, 1)
			bad := ""
			switch {
			case got.Status != want.Out.Status:
				bad = fmt.Sprintf("status:got%d-want%d", got.Status, want.Out.Status)
			case want.Out.Status == 200 && got.Backend != want.Out.Backend:
				bad = "backend"
			case want.Out.Status == 200 && want.Rewrite != "ambiguous" && got.Path != want.Out.Path:
				bad = "rewritten-path:" + want.Rewrite
			case want.Out.Status == 200 && got.Host != want.Out.Host:
				bad = "host-seen-by-backend"
			case want.Out.Status != 200 && called != 0:
				bad = "handler-invoked-on-failure"
			case want.Out.Status == 200 && called != 1:
				bad = "handler-call-count"
			}
			if bad != "" && want.HdrBoth != "" {
				// label only: the real router behaves exactly as if values+regexp matchers were
				// read the other way round (one condition enough under matchAllHeader / both needed
				// without it)
				alt := refRouteAs(spec, &q, missing, true)
				if got.Status == alt.Out.Status && (alt.Out.Status != 200 || (got.Backend == alt.Out.Backend && (alt.Rewrite == "ambiguous" || got.Path == alt.Out.Path))) {
					bad += ":values+regexp-header-matcher-half-satisfied-read-the-other-way:matchAllHeader=" + map[string]string{"all": "true", "any": "false", "all+any": "both-kinds"}[want.HdrBoth]
				}
			}
			if bad != "" {
				r.Violation("router-vs-reference:"+bad+":"+want.Why, map[string]interface{}{
					"spec": spec, "yaml": spec.YAML("verif"), "request": q, "real": got, "reference": want,
				})
			}
			if i < 2 && k < 2 {
				r.Sample(map[string]interface{}{"spec": spec, "request": q, "real": got, "reference": want.Out})
			}
		}
		m.close()
	}
	for _, k := range []string{"status_200", "status_400", "status_404", "status_405", "status_503", "rewrite_exact", "rewrite_prefix", "rewrite_regexp", "rewrite_ambiguous",
		"hdr_values_and_regexp_split_decides_matchall_true", "hdr_values_and_regexp_split_decides_matchall_false",
		"hdr_values_and_regexp_split_decides_matchall_true_status_200", "hdr_values_and_regexp_split_decides_matchall_true_status_400"} {
		r.Require(k, 1)
	}
}
