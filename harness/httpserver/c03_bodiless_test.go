//go:build verif

package httpserver

// C03, bodiless exchanges whose head still declares a body size.
//
// Three kinds of backend response have no body by definition and yet carry a
// Content-Length: the answer to a HEAD request (the length is the one a GET would have
// delivered, i.e. the size of the RESOURCE), a 204 and a 304 (length of the representation
// that was not sent).  The proxy has nothing to buffer, nothing to stream and nothing to
// measure against serverMaxBodySize in these exchanges, but the declared number travels
// through the same code that decides "too large / read N bytes / read until EOF" for
// responses that do have a body.  So this part takes the declared size through every
// class relative to the serverMaxBodySize in force:
//
//	limit in force     unset (4 MiB default) | positive at pool level | positive at proxy
//	                   level | both (pool wins) | -1 at pool level (streamed; proxy unset or
//	                   positive) | -1 at proxy level (streamed)
//	declared size      0 | small (1 .. limit/2) | limit-1 | limit | limit+1 | 2*limit .. 4*limit |
//	                   far above (50 MiB, 2 GiB+7, 5 GiB) | none declared
//	                   (streamed configurations: relative to the masked proxy value, else 4 MiB)
//	kind               HEAD request, statuses 200 206 404 403 301 500 | 204 | 304 (any method)
//
// interleaved with ordinary exchanges (any method but HEAD, response body <= limit) on the
// same kept-alive raw connection.
//
// Oracle = the full reference of the exchange part (c03Check: the request the backend got;
// status, end-to-end headers, no body bytes, framing, nothing behind the response on the
// kept-alive connection) and, for HEAD requests, the declared length itself: the
// Content-Length of a HEAD response is not the gateway's framing of anything (no body is
// written), it is the backend's statement about the resource, an end-to-end header like
// ETag, and must reach the client as the same number.  For 204 / 304 the Content-Length
// (and the Content-Type of a 304) is not demanded: net/http's server, which writes the
// gateway's response, removes them from such responses.

import (
	"fmt"
	"math/rand"
	"strconv"
	"strings"
	"testing"

	"verif.local/kit"
)

var c03blHeadClasses = []string{"zero", "small", "below-limit", "at-limit", "limit-plus-1", "above-limit", "far-above-limit", "undeclared"}

// c03blCfg: configuration i of the bodiless part; i mod 6 is the source of the limit.
func c03blCfg(i int, rng *rand.Rand) (cfg *e2eCfg, kind string) {
	cfg = &e2eCfg{}
	pos := func() int64 {
		return []int64{1000, 4096, 65536, int64(1500 + rng.Intn(68501))}[rng.Intn(4)]
	}
	switch i % 6 {
	case 0:
		kind = "limit-unset"
	case 1:
		kind = "limit-pool"
		cfg.PoolServerMax = pos()
	case 2:
		kind = "limit-proxy"
		cfg.ProxyServerMax = pos()
	case 3:
		kind = "limit-pool-over-proxy"
		cfg.PoolServerMax = pos()
		cfg.ProxyServerMax = cfg.PoolServerMax*2 + 1
		if rng.Intn(2) == 0 {
			cfg.ProxyServerMax = cfg.PoolServerMax/2 + 1
		}
	case 4:
		kind = "stream-pool"
		cfg.PoolServerMax = -1
		if rng.Intn(2) == 0 {
			cfg.ProxyServerMax = pos()
		}
	default:
		kind = "stream-proxy"
		cfg.ProxyServerMax = -1
	}
	switch rng.Intn(3) {
	case 1:
		cfg.HostNameServer = true
	case 2:
		cfg.KeepHost = true
	}
	if rng.Intn(3) == 0 {
		cfg.CacheSize = 16
	}
	if rng.Intn(3) == 0 {
		cfg.FailureCodes = []int{503}
	}
	return cfg, kind
}

// c03blNominal is the number the declared sizes are placed around: the limit in force, or
// for a streamed configuration the value that -1 masks (the proxy's positive value, else
// the 4 MiB default).
func c03blNominal(cfg *e2eCfg) int64 {
	if l, _ := c03fpLimit(cfg); l > 0 {
		return l
	}
	if cfg.PoolServerMax < 0 && cfg.ProxyServerMax > 0 {
		return cfg.ProxyServerMax
	}
	return c03fpDefaultLimit
}

func c03blDeclared(rng *rand.Rand, class string, nominal int64) int64 {
	switch class {
	case "zero":
		return 0
	case "small":
		return 1 + rng.Int63n(nominal/2)
	case "below-limit":
		return nominal - 1
	case "at-limit":
		return nominal
	case "limit-plus-1":
		return nominal + 1
	case "above-limit":
		return 2*nominal + rng.Int63n(2*nominal+1)
	case "far-above-limit":
		return []int64{50 << 20, 1<<31 + 7, 5 << 30}[rng.Intn(3)]
	}
	return -1 // undeclared
}

// c03blShape turns the exchange c03Gen made into a bodiless one of the given kind
// (head | status204 | status304) and declared-size class.
func c03blShape(rng *rand.Rand, ex *c03Ex, kind, class string, nominal int64) {
	q, sc := &ex.Req, &ex.Script
	c03fpPlain(ex)
	switch kind {
	case "head":
		q.Method = "HEAD"
		// (a HEAD request carries no body here)
		q.Body, q.Framing, ex.ReqPlain, ex.ReqGzip = nil, "none", nil, false
		var h [][2]string
		for _, kv := range q.Headers {
			if n := e2eCanon(kv[0]); n != "Content-Encoding" && n != "Content-Type" {
				h = append(h, kv)
			}
		}
		q.Headers = h
		ex.ReqBody = e2eBrief(nil)
		sc.Status = []int{200, 200, 200, 206, 404, 403, 301, 500}[rng.Intn(8)]
	case "status204":
		sc.Status = 204
	default:
		sc.Status = 304
		// (net/http's server drops the Content-Type of a 304 it writes: not generated)
		var h [][2]string
		for _, kv := range sc.Headers {
			if e2eCanon(kv[0]) != "Content-Type" {
				h = append(h, kv)
			}
		}
		sc.Headers = h
	}
	if sc.Status == 301 && len(e2eValues(sc.Headers, "Location")) == 0 {
		sc.Headers = append(sc.Headers, [2]string{"Location", "http://elsewhere.example/x?y=1"})
	}
	if sc.Status == 206 {
		sc.Headers = append(sc.Headers, [2]string{"Content-Range", "bytes 0-9/*"})
	}
	sc.Mode, sc.Body, ex.RespPlain = "bodiless", nil, nil
	sc.Declared = c03blDeclared(rng, class, nominal)
	ex.RespBody = "none (bodiless); declared " + strconv.FormatInt(sc.Declared, 10)
}

// c03blControl: an ordinary exchange (never HEAD) whose response body fits the limit.
func c03blControl(rng *rand.Rand, ex *c03Ex, nominal int64) {
	q, sc := &ex.Req, &ex.Script
	c03fpPlain(ex)
	if q.Method == "HEAD" {
		q.Method = "GET"
	}
	sc.Status = []int{200, 200, 404}[rng.Intn(3)]
	n := int64(rng.Intn(900))
	if rng.Intn(2) == 0 && nominal <= 70000 {
		n = nominal - int64(rng.Intn(2)) // at the limit, one below
	}
	ex.RespPlain = c03Body(rng, int(n), rng.Intn(2) == 0, ex.ID+"/resp")
	sc.Body = ex.RespPlain
	sc.Mode = []string{"cl", "chunked"}[rng.Intn(2)]
	ex.RespBody = e2eBrief(sc.Body)
}

func TestVerif_C03_Bodiless(t *testing.T) {
	r := kit.Start(t, "C03")
	defer r.Finish()
	if e2eNotReplayed(r) {
		return
	}
	r.Rule("bodiless exchanges whose head declares a body size: gateway configurations by source of the response limit (case number mod 6: serverMaxBodySize unset = 4 MiB default | positive at pool level | positive at proxy level | positive at both levels, pool wins | -1 at pool level over an unset or positive proxy value | -1 at proxy level; positive values 1000, 4096, 65536, random 1500..70000) x {IP, host-name, keepHost server} x route cache x failureCodes [503] or none; 17 exchanges per configuration in random order on one kept-alive raw connection, requests as in the exchange part (hop-by-hop and Connection-listed headers, odd paths and queries): 8 HEAD requests, one per declared-size class {Content-Length 0 | 1..limit/2 | limit-1 | limit | limit+1 | 2..4 x limit | far above: 50 MiB, 2 GiB+7, 5 GiB | no Content-Length} (in a streamed configuration relative to the value that -1 masks), backend status 200/206/404/403/301/500, answered by net/http's server without a body; 2 more HEAD requests of random classes; two 204 and two 304 responses (any method, also with request bodies) written raw by the backend with a Content-Length line of a random class; 3 ordinary exchanges (any method but HEAD, status 200/404) with response bodies that fit the limit (0-900 bytes, limit, limit-1; length-declared or chunked). distinct = (limit source, kind, declared-size class, scripted status, request method/framing, answered status, client-side framing, declared length seen by the client)")
	r.Assume("the Content-Length of a response to a HEAD request is the backend's statement about the resource (no body is framed by it): it must reach the client as the same number, like any end-to-end header; when the backend declares none, what the client gets in its place is not decided")
	r.Assume("for 204 and 304 responses the Content-Length the backend declared (and the Content-Type of a 304) is not demanded at the client: net/http's server, which writes the gateway's response, removes these headers from such responses; status, the other end-to-end headers, absence of body bytes and framing are demanded")
	for _, a := range c03Assumptions {
		r.Assume(a)
	}
	be, err := e2eNewBackend()
	if err != nil {
		r.Inconclusive("cannot start backend: " + err.Error())
		return
	}
	defer be.Close()
	dd := &c03Dedupe{}
	n := r.N(12, 360)
	for i := 0; i < n; i++ {
		if !r.Mine(i) {
			continue
		}
		rng := r.CaseRand(i)
		cfg, cfgKind := c03blCfg(i, rng)
		nominal := c03blNominal(cfg)
		mode := "buffered"
		if c03dvStreamed(cfg) {
			mode = "streamed"
		}
		type planned struct {
			Kind  string `json:"kind"` // head | status204 | status304 | control
			Class string `json:"declaredSizeClass,omitempty"`
			Ex    *c03Ex `json:"exchange"`
		}
		var plan []planned
		for _, c := range c03blHeadClasses {
			plan = append(plan, planned{Kind: "head", Class: c})
		}
		for k := 0; k < 2; k++ {
			plan = append(plan, planned{Kind: "head", Class: c03blHeadClasses[rng.Intn(len(c03blHeadClasses))]})
		}
		for _, kind := range []string{"status204", "status304", "status204", "status304"} {
			plan = append(plan, planned{Kind: kind, Class: c03blHeadClasses[rng.Intn(len(c03blHeadClasses)-1)]})
		}
		for k := 0; k < 3; k++ {
			plan = append(plan, planned{Kind: "control"})
		}
		rng.Shuffle(len(plan), func(a, b int) { plan[a], plan[b] = plan[b], plan[a] })
		for k := range plan {
			p := &plan[k]
			p.Ex = c03Gen(cfg, rng, fmt.Sprintf("c03b-%d-%d-%d", r.Seed(), i, k), k == len(plan)-1)
			if p.Kind == "control" {
				c03blControl(rng, p.Ex, nominal)
			} else {
				c03blShape(rng, p.Ex, p.Kind, p.Class, nominal)
			}
		}
		r.Case(i, map[string]interface{}{"cfg": cfg, "limitSource": cfgKind, "nominalLimit": nominal, "plan": plan})
		gw, err := e2eStart(cfg, be)
		if err != nil {
			r.Inconclusive("gateway did not start: " + err.Error())
			continue
		}
		cl := &e2eClient{addr: gw.addr}
		for k, p := range plan {
			ex := p.Ex
			sc := ex.Script
			be.Script(ex.ID, &sc)
			res := cl.Do(&ex.Req, func() bool { return be.Contacted(ex.ID) })
			seen := be.Take(ex.ID)
			r.Eval(1)
			finds, _, inc := c03Check(cfg, ex, res, seen)
			for _, entry := range gw.errlog.TakePanics(res.Addrs) {
				site, msg := e2ePanicSig(entry)
				r.Count("handler_panics", 1)
				finds = append(finds, c03Finding{"", map[string]interface{}{"cfg": cfg, "exchange": ex, "serverLog": c03ClipN(entry, 3000)}, "handler-panic:" + site + ":" + msg})
			}
			if inc != "" {
				r.Inconclusive(inc)
				continue
			}
			resp := res.Resp
			r.Count("bodiless_part_exchanges", 1)
			class := "control"
			if p.Kind != "control" {
				class = fmt.Sprintf("bodiless(%s,declared-%s,%s-response)", map[string]string{"head": "head-request", "status204": "status-204", "status304": "status-304"}[p.Kind], p.Class, mode)
			}
			relayed := resp.FramingErr == "" && resp.Status == ex.Script.Status && seen != nil
			gotCL := e2eValues(resp.Headers, "Content-Length")
			clSeen := "cl-absent"
			if len(gotCL) > 0 {
				clSeen = "cl-other"
				if ex.Script.Declared >= 0 && len(gotCL) == 1 && gotCL[0] == strconv.FormatInt(ex.Script.Declared, 10) {
					clSeen = "cl-as-declared"
				}
			}
			// the declared length of a HEAD response is the backend's, not the gateway's
			if p.Kind == "head" && relayed && ex.Script.Declared >= 0 && clSeen != "cl-as-declared" {
				finds = append(finds, c03Finding{"", map[string]interface{}{"cfg": cfg, "exchange": ex, "response": resp,
					"wantContentLength": ex.Script.Declared, "gotContentLength": gotCL}, "resp-declared-length:" + clSeen})
			}
			refuted := false
			for _, f := range finds {
				refuted = true
				reqSide := strings.HasPrefix(f.Check, "req-") || f.Check == "backend-not-contacted" || f.Check == "backend-contacted-more-than-once"
				if p.Kind == "control" {
					if f.Sig == "" {
						f.Sig = c03Sig(f.Check, c03RespTrigger(cfg, ex))
					}
				} else if f.Sig == "" || (!reqSide && seen != nil) {
					// (request-side signatures stay those of the exchange part)
					f.Sig = "C03:" + f.Check + ":" + class
				}
				f.Detail["limitSource"] = cfgKind
				f.Detail["nominalLimit"] = nominal
				dd.record(r, f)
			}
			if !refuted && relayed {
				switch p.Kind {
				case "head":
					r.Count("bodiless_intact_head_"+p.Class+"_"+mode, 1)
					if mode == "buffered" && (p.Class == "limit-plus-1" || p.Class == "above-limit" || p.Class == "far-above-limit") {
						r.Count("bodiless_intact_head_declared_above_"+cfgKind, 1)
					}
					if ex.Script.Declared >= 0 {
						r.Count("bodiless_head_declared_length_reached_client", 1)
					}
				case "control":
					r.Count("bodiless_part_control_intact_"+mode, 1)
				default:
					r.Count("bodiless_intact_"+p.Kind+"_"+mode, 1)
					if ex.Script.Declared > 0 {
						r.Count("bodiless_intact_"+p.Kind+"_with_declared_length", 1)
					}
					if ex.Script.Declared > nominal && mode == "buffered" {
						r.Count("bodiless_intact_"+p.Kind+"_declared_above_limit_buffered", 1)
					}
				}
				if res.Reused {
					r.Count("bodiless_intact_on_reused_connection", 1)
				}
			}
			framing := resp.Framing
			if resp.FramingErr != "" {
				framing = "ill-framed"
			}
			r.Cover(fmt.Sprintf("bodiless/%s/%s/%s/script%d/%s.%s/answer%d/%s/%s", cfgKind, p.Kind, p.Class, ex.Script.Status, ex.Req.Method, ex.Req.Framing, resp.Status, framing, clSeen))
			if i < 6 && k == 0 {
				r.Sample(map[string]interface{}{"cfg": cfg, "kind": p.Kind, "class": p.Class, "exchange": ex, "response": resp})
			}
		}
		cl.Close()
		c03Leftover(r, gw, cfg)
		gw.Close()
		be.CloseIdle()
	}
	// every declared-size class of a HEAD response must have been seen relayed intact in both
	// delivery modes, the classes above the limit for every source of the limit
	for _, mode := range []string{"buffered", "streamed"} {
		for _, c := range c03blHeadClasses {
			r.Require("bodiless_intact_head_"+c+"_"+mode, 1)
		}
		r.Require("bodiless_intact_status204_"+mode, 1)
		r.Require("bodiless_intact_status304_"+mode, 1)
		r.Require("bodiless_part_control_intact_"+mode, 1)
	}
	for _, src := range []string{"limit-unset", "limit-pool", "limit-proxy", "limit-pool-over-proxy"} {
		r.Require("bodiless_intact_head_declared_above_"+src, 1)
	}
	r.Require("bodiless_head_declared_length_reached_client", 1)
	r.Require("bodiless_intact_status204_with_declared_length", 1)
	r.Require("bodiless_intact_status304_with_declared_length", 1)
	r.Require("bodiless_intact_status204_declared_above_limit_buffered", 1)
	r.Require("bodiless_intact_status304_declared_above_limit_buffered", 1)
	r.Require("bodiless_intact_on_reused_connection", 1)
}
