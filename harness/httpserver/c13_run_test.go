//go:build verif

package httpserver

// TestVerif_C13_AcceptedSpecs: panic monitor over seed + mutated specs of every
// registered filter kind, Pipeline, HTTPServer, GlobalFilter, MQTTProxy and both
// resilience kinds.  Oracle: a spec accepted by filters.NewSpec / supervisor.NewSpec /
// resilience.NewPolicy must survive Create+Init, a set of varied requests, Status,
// Inherit and Close without panicking.

import (
	"bytes"
	"compress/gzip"
	stdcontext "context"
	"crypto/tls"
	"crypto/x509"
	"encoding/base64"
	"encoding/json"
	"encoding/pem"
	"errors"
	"fmt"
	"io"
	"math/rand"
	"net"
	"net/http"
	"net/http/httptest"
	"os"
	"path/filepath"
	"regexp"
	"runtime/debug"
	"strings"
	"sync"
	"testing"
	"time"

	"github.com/Shopify/sarama"
	"github.com/eclipse/paho.mqtt.golang/packets"

	"github.com/megaease/easegress/pkg/context"
	"github.com/megaease/easegress/pkg/filters"
	"github.com/megaease/easegress/pkg/object/globalfilter"
	"github.com/megaease/easegress/pkg/object/mqttproxy"
	"github.com/megaease/easegress/pkg/object/pipeline"
	"github.com/megaease/easegress/pkg/protocols/httpprot"
	"github.com/megaease/easegress/pkg/protocols/httpprot/httpstat"
	"github.com/megaease/easegress/pkg/protocols/mqttprot"
	"github.com/megaease/easegress/pkg/resilience"
	"github.com/megaease/easegress/pkg/supervisor"
	"github.com/megaease/easegress/pkg/tracing"
	"github.com/megaease/easegress/pkg/util/signer"

	"verif.local/kit"
	yaml "gopkg.in/yaml.v2"
)

type x13Reporter struct{}

func (x13Reporter) Error(...interface{})          {}
func (x13Reporter) Errorf(string, ...interface{}) {}
func (x13Reporter) Fatal(...interface{})          {}
func (x13Reporter) Fatalf(string, ...interface{}) {}

type x13H struct {
	r    *kit.Run
	env  *x13Env
	peer *x509.Certificate
	kind string // kind of the running case
	seen map[string]bool
	desc map[string]interface{}

	// request class of the running request ("" = the ordinary request set, "boundary/<dimension>/<shape>"
	// = a boundary-shaped request, see c13_bound_test.go, otherwise the client-gone mode, see
	// c13_gone_test.go) and the panic signatures ordinary requests of the running case produced already
	reqClass string
	caseSigs map[string]bool

	// boundary-shaped requests (c13_bound_test.go): index of the running case (selects the
	// window of shapes), whether the case gets the full set, and the memoised set
	caseIdx   int
	boundFull bool
	bounds    []x13BReq
}

func (h *x13H) count(what string) { h.r.Count(what+"/"+h.kind, 1) }

// guard runs one phase under recover(); a panic is a violation with signature
// (kind, first easegress frame, message class).
func (h *x13H) guard(phase string, f func()) (panicked bool) {
	msg, site, p := x13Recover(f)
	if !p {
		return false
	}
	h.report(phase, msg, site)
	return true
}

// x13Recover runs f and returns the panic (if any) with the easegress site of the
// ORIGINAL panic: when a deferred function panics again while the first panic unwinds
// (e.g. a metrics collector that dereferences the missing result), the stack holds
// both, and the cause is the oldest one.
func x13Recover(f func()) (msg, site string, panicked bool) {
	defer func() {
		if e := recover(); e != nil {
			panicked = true
			msg = fmt.Sprint(e)
			site = x13OriginSite(string(debug.Stack()))
		}
	}()
	f()
	return
}

func x13OriginSite(stack string) string {
	lines := strings.Split(stack, "\n")
	last := -1
	for i, l := range lines {
		if strings.HasPrefix(l, "panic(") || strings.HasPrefix(l, "runtime.sigpanic") || strings.HasPrefix(l, "runtime.panic") || strings.HasPrefix(l, "runtime.goPanic") {
			last = i
		}
	}
	for i := last + 1; i >= 1 && i+1 < len(lines); i++ {
		l := lines[i]
		if !strings.HasPrefix(l, "github.com/megaease/easegress/") {
			continue
		}
		if strings.Contains(lines[i+1], "zz_verif") {
			continue
		}
		fn := l
		if j := strings.LastIndex(fn, "("); j > 0 {
			fn = fn[:j]
		}
		return strings.TrimPrefix(fn, "github.com/megaease/easegress/")
	}
	return "unknown"
}

// x13MsgNorm reduces messages that embed spec values (names, template positions) to
// their class, so that one panic site with one cause has one signature.
var x13MsgNorm = []struct {
	re  *regexp.Regexp
	rep string
}{
	{regexp.MustCompile(`policy \S* ?not found`), "policy <name> not found"},
	{regexp.MustCompile(`policy \S* ?is not a`), "policy <name> is not a"},
	{regexp.MustCompile(`^template: .*`), "template: <parse error>"},
	{regexp.MustCompile(`^create pipeline map failed, pipeline packet type .* not found.*`), "create pipeline map failed, pipeline packet type <t> not found"},
	{regexp.MustCompile(`^create pipeline map failed, pipeline packet type .* show more than once.*`), "create pipeline map failed, pipeline packet type <t> show more than once"},
	{regexp.MustCompile(`^broker \S* ?start failed`), "broker <name> start failed"},
	{regexp.MustCompile(`^regexp: Compile\(.*`), "regexp: Compile(<expr>): <error>"},
	{regexp.MustCompile(`(?s)^create (before|after) pipeline failed: .*`), "create $1 pipeline failed: <error of the pipeline's validation>"},
}

func x13Class(msg string) string {
	c := kit.MsgClass(msg)
	for _, n := range x13MsgNorm {
		c = n.re.ReplaceAllString(c, n.rep)
	}
	return c
}

// logPanic appends every panic (not only the first per signature) to a triage file
// next to the summaries: <VERIF_OUT>/c13_panics.<shard>.jsonl
func (h *x13H) logPanic(sig, phase string) {
	dir := os.Getenv("VERIF_OUT")
	if dir == "" {
		return
	}
	f, err := os.OpenFile(filepath.Join(dir, "c13_panics."+os.Getenv("VERIF_SHARD")+".jsonl"), os.O_CREATE|os.O_APPEND|os.O_WRONLY, 0o644)
	if err != nil {
		return
	}
	defer f.Close()
	b, _ := json.Marshal(map[string]interface{}{"sig": sig, "phase": phase, "seed": h.desc["seed"], "mutations": h.desc["mutations"]})
	f.Write(append(b, '\n'))
}

func (h *x13H) report(phase, msg, site string) {
	h.count("panics")
	sig := fmt.Sprintf("C13/%s:panic:%s:%s", h.kind, site, x13Class(msg))
	if strings.Contains(msg, "protocols.Request is nil") {
		if y, ok := h.desc["yaml"].(string); ok && x13OrphanNamespace(y) {
			// a flow node runs its filter in a namespace that holds no request
			sig += ":flow-node-in-namespace-without-request"
		}
	}
	if h.reqClass == "" {
		if h.caseSigs != nil {
			h.caseSigs[sig] = true
		}
	} else if dim := x13BoundDim(h.reqClass); dim != "" {
		// a panic that the ordinary requests of this case did not produce and a boundary-shaped
		// request does: the signature names the dimension of the request that is at a boundary.
		// (Not for the flow-node-without-request class: its cause is the configuration, every
		// request that reaches the node panics, whatever its shape.)
		if !h.caseSigs[sig] && !strings.HasSuffix(sig, ":flow-node-in-namespace-without-request") {
			sig += ":on=boundary-request/" + dim
			h.count("panics_boundary_request")
		}
	} else if !h.caseSigs[sig] {
		// a panic that the ordinary requests of this case did not produce: it needs a
		// request whose client goes away, and says so in its signature
		sig += ":on=client-gone"
		h.count("panics_client_gone")
	}
	h.r.Cover("panic:" + h.kind + ":" + site)
	h.r.Count("panic_sig/"+sig, 1)
	h.logPanic(sig, phase)
	if h.seen[sig] {
		return
	}
	h.seen[sig] = true
	if len(h.seen) > 36 {
		// the kit keeps at most 40 violation records per part: never let a new
		// signature be dropped silently
		h.r.Inconclusive("more distinct panic signatures in one part than the kit can carry; split the part")
	}
	d := map[string]interface{}{"phase": phase, "panic": msg, "site": site}
	if x13BoundDim(h.reqClass) != "" {
		d["request"] = h.reqClass
	} else if h.reqClass != "" {
		d["request"] = "client-gone/" + h.reqClass
	}
	for k, v := range h.desc {
		d[k] = v
	}
	h.r.Violation(sig, d)
}

// x13OrphanNamespace: does the (Pipeline) spec have a flow node that is not a RequestBuilder
// and names a namespace other than DEFAULT which no RequestBuilder node earlier in the flow
// writes its request to?  Only used to name a panic signature, never for a verdict.
func x13OrphanNamespace(y string) bool {
	var doc struct {
		Flow []struct {
			Filter    string `yaml:"filter"`
			Namespace string `yaml:"namespace"`
		} `yaml:"flow"`
		Filters []struct {
			Name string `yaml:"name"`
			Kind string `yaml:"kind"`
		} `yaml:"filters"`
	}
	if yaml.Unmarshal([]byte(y), &doc) != nil {
		return false
	}
	kind := map[string]string{}
	for _, f := range doc.Filters {
		kind[f.Name] = f.Kind
	}
	built := map[string]bool{"": true, "DEFAULT": true}
	for _, n := range doc.Flow {
		if kind[n.Filter] == "RequestBuilder" {
			built[n.Namespace] = true
			continue
		}
		if !built[n.Namespace] {
			return true
		}
	}
	return false
}

// ---------------------------------------------------------------- HTTP requests

type x13Req struct {
	name    string
	method  string
	path    string
	host    string
	hdr     [][2]string
	rawHdr  [][2]string // set without canonicalisation
	body    string
	stream  bool
	tls     bool
	sign    bool
	remote  string
	resp    int // 0 none, 1 plain, 2 gzip-labelled, 3 streaming, 4 really gzipped
	noLimit bool
	target  string // request target as written on the request line when it is not host+path ("*", authority form)
}

func x13Gzip(s string) string {
	var b bytes.Buffer
	w := gzip.NewWriter(&b)
	w.Write([]byte(s))
	w.Close()
	return b.String()
}

func (h *x13H) httpReqs() []x13Req {
	e := h.env
	basicOK := base64.StdEncoding.EncodeToString([]byte("verif:secret"))
	basicColon := base64.StdEncoding.EncodeToString([]byte("verif:sec:ret"))
	basicNoColon := base64.StdEncoding.EncodeToString([]byte("verif"))
	return []x13Req{
		{name: "empty-get", method: "GET", path: "/"},
		{name: "rich-get", method: "GET", path: "/exact", host: "a.com", hdr: [][2]string{
			{"X-Verif-Id", "alice"}, {"X-Env", "staging"}, {"X-Build", "b12"}, {"X-Trace", "abc-1"}, {"X-Canary", "yes"},
			{"Authorization", "Bearer " + e.jwtHS256}, {"Cookie", "auth=" + e.jwtHS256}, {"X-User", "u1"}}},
		{name: "json-post", method: "POST", path: "/api/bananas/33?x=1&y=%zz", host: "x.a.com:8080", body: `{"a":1,"b":[1,2]}`, resp: 1, hdr: [][2]string{
			{"Content-Type", "application/json"}, {"X-Verif-Id", "alice"}, {"X-Env", "staging"}, {"Origin", "http://a.com"}, {"X-Del", "gone"},
			{"Authorization", "Basic " + basicOK}}},
		{name: "json-array-null", method: "POST", path: "/api", body: `[null,{"a":1}]`, resp: 2, hdr: [][2]string{
			{"X-Verif-Id", "bob"}, {"X-Env", "prod"}, {"Authorization", "Basic " + basicColon}}},
		{name: "preflight", method: "OPTIONS", path: "/api", hdr: [][2]string{
			{"Origin", "http://a.com"}, {"Access-Control-Request-Method", "POST"}, {"Access-Control-Request-Headers", "X-Verif-Id"}}},
		{name: "stream-put", method: "PUT", path: "/r/abc/def", body: "plain text that is labelled gzip", stream: true, resp: 3, hdr: [][2]string{
			{"Content-Encoding", "gzip"}, {"X-Kafka-Topic", "t2"}, {"X-Verif-Id", "alice"}, {"Authorization", "Basic " + basicNoColon}}},
		{name: "backend-fail", method: "GET", path: "/fail/x", hdr: [][2]string{
			{"Authorization", "Bearer " + e.jwtHS512}, {"X-Forwarded-For", "10.1.2.3, 8.8.8.8"}, {"Cache-Control", "no-cache"}}},
		{name: "signed-big", method: "GET", path: "/big", sign: true, hdr: [][2]string{{"Accept-Encoding", "gzip"}, {"X-User", "u2"}}},
		{name: "odd-headers", method: "DELETE", path: "/noresp/a%20b/%2F", host: "a.com:8080", remote: "[2001:db8::1]:999", hdr: [][2]string{
			{"X-Empty", ""}, {"X-Long", strings.Repeat("v", 8192)}, {"X-Verif-Id", "alice"}, {"X-Verif-Id", "bob"},
			{"Authorization", "Bearer "}, {"Cookie", "auth; =; auth=\"x"}, {"X-Real-Ip", "not-an-ip"}, {"Accept-Encoding", "identity"}},
			rawHdr: [][2]string{{"x-lower-case", "1"}, {"X-Trace", "UPPER not matching"}}},
		{name: "admit-1", method: "GET", path: "/admit"},
		{name: "admit-2", method: "GET", path: "/admit", resp: 1},
		{name: "admit-3", method: "POST", path: "/admit"},
		{name: "tls-head", method: "HEAD", path: "/chunked", tls: true, resp: 1, hdr: [][2]string{{"Authorization", "Basic %%%"}, {"X-Trace", "t"}}},
		{name: "gzip-post", method: "POST", path: "/exact", host: "a.com", body: x13Gzip(`{"z":true}`), resp: 4, hdr: [][2]string{
			{"Content-Encoding", "gzip"}, {"X-Verif-Id", "alice"}, {"Authorization", "Bearer a.b.c"}}},
		{name: "gone-patch", method: "PATCH", path: "/gone/x", body: "x=1", noLimit: true, hdr: [][2]string{
			{"Content-Type", "application/x-www-form-urlencoded"}, {"Authorization", "Bearer " + e.jwtHS256}, {"X-Env", "prod"}}},
	}
}

func (h *x13H) stdReq(q *x13Req, ctx stdcontext.Context) *http.Request {
	host := q.host
	if host == "" {
		host = "verif.local"
	}
	var body io.Reader = http.NoBody
	if q.body != "" {
		body = strings.NewReader(q.body)
	}
	target := "http://" + host + q.path
	if q.target != "" {
		target = q.target
	}
	// (httptest.NewRequest reads the request with net/http's own server-side parser: what it
	// returns is a request net/http hands to a handler)
	r := httptest.NewRequest(q.method, target, body).WithContext(ctx)
	r.Host = host
	for _, kv := range q.hdr {
		r.Header.Add(kv[0], kv[1])
	}
	for _, kv := range q.rawHdr {
		r.Header[kv[0]] = append(r.Header[kv[0]], kv[1])
	}
	if q.remote != "" {
		r.RemoteAddr = q.remote
	} else {
		r.RemoteAddr = "127.0.0.1:4711"
	}
	if q.tls {
		r.TLS = &tls.ConnectionState{PeerCertificates: []*x509.Certificate{h.peer}, ServerName: "verif.local"}
	}
	if q.sign {
		s := signer.New().SetCredential("verif-ak", "verif-secret")
		s.NewContext(time.Now(), "verif-scope").Sign(r)
	}
	return r
}

// newCtx builds the context a filter sees inside a pipeline behind an HTTPServer.
func (h *x13H) newCtx(q *x13Req, withResp bool) (*context.Context, stdcontext.CancelFunc) {
	sctx, cancel := stdcontext.WithTimeout(stdcontext.Background(), 400*time.Millisecond)
	return h.newCtxOn(q, withResp, sctx), cancel
}

// newCtxOn: the same for a request that lives on the given (cancellable) context.
func (h *x13H) newCtxOn(q *x13Req, withResp bool, sctx stdcontext.Context) *context.Context {
	stdr := h.stdReq(q, sctx)
	req, _ := httpprot.NewRequest(stdr)
	if q.stream {
		req.FetchPayload(-1)
	} else {
		req.FetchPayload(0)
	}
	ctx := context.New(tracing.NoopSpan)
	ctx.SetRequest(context.DefaultNamespace, req)
	if withResp && q.resp != 0 {
		resp, _ := httpprot.NewResponse(nil)
		resp.SetStatusCode(200)
		resp.HTTPHeader().Set("X-Del", "1")
		resp.HTTPHeader().Set("Content-Type", "text/plain")
		switch q.resp {
		case 1:
			resp.SetPayload([]byte("upstream body"))
		case 2:
			resp.HTTPHeader().Set("Content-Encoding", "gzip")
			resp.SetPayload([]byte("not really gzip"))
		case 3:
			resp.SetPayload(strings.NewReader("streaming upstream body"))
		case 4:
			resp.HTTPHeader().Set("Content-Encoding", "gzip")
			resp.SetPayload([]byte(x13Gzip("really gzipped")))
		}
		ctx.SetResponse(context.DefaultNamespace, resp)
	}
	return ctx
}

// ---------------------------------------------------------------- filters

// policiesFor returns resilience policies for every policy name the (mutated) filter
// spec refers to, of the kind the referring field expects: a filter spec cannot know
// the pipeline's policies, so dangling names are exercised in Pipeline cases only.
func x13PoliciesFor(tree interface{}) map[string]resilience.Policy {
	out := map[string]resilience.Policy{}
	var walk func(n interface{})
	walk = func(n interface{}) {
		switch t := n.(type) {
		case map[string]interface{}:
			for k, val := range t {
				if s, ok := val.(string); ok && s != "" {
					switch k {
					case "retryPolicy":
						p, err := resilience.NewPolicy(map[string]interface{}{"kind": "Retry", "name": "verif-r", "maxAttempts": 2, "waitDuration": x13RetryWait})
						if err == nil {
							out[s] = p
						}
					case "circuitBreakerPolicy":
						p, err := resilience.NewPolicy(map[string]interface{}{"kind": "CircuitBreaker", "name": "verif-cb", "slidingWindowSize": 4, "minimumNumberOfCalls": 2, "waitDurationInOpenState": "5ms"})
						if err == nil {
							out[s] = p
						}
					}
				}
				walk(val)
			}
		case []interface{}:
			for _, c := range t {
				walk(c)
			}
		}
	}
	walk(tree)
	return out
}

func (h *x13H) runFilter(seed *x13Seed, tree map[string]interface{}) (accepted bool) {
	spec, err := filters.NewSpec(h.env.super, "verif-pipeline", x13Export(tree))
	if err != nil {
		return false
	}
	h.count("accepted")
	external := seed.Kind == "Kafka" || seed.Kind == "KafkaMQTT"
	mk := func(prev filters.Filter, sp filters.Spec) filters.Filter {
		var f filters.Filter
		bad := false
		msg, site, p := x13Recover(func() {
			f = filters.Create(sp)
			if prev == nil {
				f.Init()
			} else {
				f.Inherit(prev)
			}
		})
		if p {
			if external && strings.Contains(msg, "start sarama producer") {
				// the (mutated) broker address is not reachable: the external system is
				// missing, which validation cannot know; not instantiable offline.
				h.count("external_unavailable")
				return nil
			}
			bad = true
			h.report(map[bool]string{true: "init", false: "inherit"}[prev == nil], msg, site)
		}
		if bad || f == nil {
			return nil
		}
		if rs, ok := f.(filters.Resiliencer); ok {
			if h.guard("injectResilience", func() { rs.InjectResiliencePolicy(x13PoliciesFor(tree)) }) {
				return nil
			}
		}
		return f
	}
	f := mk(nil, spec)
	if f == nil {
		return true
	}
	h.count("instantiated")
	handled := 0
	handle := func(f filters.Filter, n int) {
		if seed.Cat == x13FilterMQTT {
			for i, mk := range h.mqttCtxs() {
				if n > 0 && i >= n {
					break
				}
				ctx := mk()
				if !h.guard("handle", func() { f.Handle(ctx) }) {
					handled++
				}
				h.guard("ctx.finish", func() { ctx.Finish() })
			}
			return
		}
		reqs := h.httpReqs()
		for i := range reqs {
			if n > 0 && i >= n {
				break
			}
			for _, withResp := range []bool{false, true} {
				if withResp && reqs[i].resp == 0 {
					continue
				}
				ctx, cancel := h.newCtx(&reqs[i], withResp)
				if !h.guard("handle", func() { f.Handle(ctx) }) {
					handled++
				}
				// what the HTTP server does afterwards: read the response, finish the context
				h.guard("consume", func() {
					if r, ok := ctx.GetResponse(context.DefaultNamespace).(*httpprot.Response); ok && r != nil {
						io.Copy(io.Discard, r.GetPayload())
					}
					ctx.Finish()
				})
				cancel()
			}
		}
	}
	handle(f, 0)
	if seed.Cat == x13FilterHTTP {
		handled += h.clientGone(func(q *x13Req, sctx stdcontext.Context) bool {
			ctx := h.newCtxOn(q, false, sctx)
			p := h.guard("handle", func() { f.Handle(ctx) })
			h.guard("consume", func() { x13Consume(ctx) })
			return p
		})
		handled += h.boundary(func(q *x13Req, sctx stdcontext.Context) bool {
			ctx := h.newCtxOn(q, false, sctx)
			p := h.guard("handle", func() { f.Handle(ctx) })
			h.guard("consume", func() { x13Consume(ctx) })
			return p
		})
	}
	h.guard("status", func() { f.Status() })
	// update with an unchanged spec, the way Pipeline.reload does it
	spec2, err := filters.NewSpec(h.env.super, "verif-pipeline", x13Export(tree))
	if err == nil {
		if f2 := mk(f, spec2); f2 != nil {
			h.guard("close", func() { f.Close() })
			handle(f2, 4)
			h.guard("status", func() { f2.Status() })
			h.guard("close", func() { f2.Close() })
		} else {
			h.guard("close", func() { f.Close() })
		}
	} else {
		h.r.Violation("C13/"+h.kind+":second-validation-differs", map[string]interface{}{"err": err.Error(), "case": h.desc})
		h.guard("close", func() { f.Close() })
	}
	h.r.Count("handled/"+h.kind, int64(handled))
	h.r.Eval(handled)
	return true
}

// ---------------------------------------------------------------- MQTT contexts

func (h *x13H) mqttCtxs() []func() *context.Context {
	client := func(id, user string) *mqttprot.MockClient {
		return &mqttprot.MockClient{MockClientID: id, MockUserName: user}
	}
	mk := func(p packets.ControlPacket, c *mqttprot.MockClient, data map[string]interface{}) func() *context.Context {
		return func() *context.Context {
			ctx := context.New(tracing.NoopSpan)
			ctx.SetRequest(context.DefaultNamespace, mqttprot.NewRequest(p, c))
			ctx.SetResponse(context.DefaultNamespace, mqttprot.NewResponse())
			for k, v := range data {
				ctx.SetData(k, v)
			}
			return ctx
		}
	}
	connect := func(id, user, pass string) packets.ControlPacket {
		p := packets.NewControlPacket(packets.Connect).(*packets.ConnectPacket)
		p.ClientIdentifier, p.Username, p.Password = id, user, []byte(pass)
		p.UsernameFlag, p.PasswordFlag = user != "", pass != ""
		p.ProtocolName, p.ProtocolVersion, p.CleanSession, p.Keepalive = "MQTT", 4, true, 30
		return p
	}
	publish := func(topic string, payload []byte, qos byte) packets.ControlPacket {
		p := packets.NewControlPacket(packets.Publish).(*packets.PublishPacket)
		p.TopicName, p.Payload, p.Qos, p.MessageID = topic, payload, qos, 7
		return p
	}
	sub := packets.NewControlPacket(packets.Subscribe).(*packets.SubscribePacket)
	sub.Topics, sub.Qoss, sub.MessageID = []string{"a/b", "x/#"}, []byte{1, 0}, 3
	unsub := packets.NewControlPacket(packets.Unsubscribe).(*packets.UnsubscribePacket)
	unsub.Topics, unsub.MessageID = []string{"a/b"}, 4
	kv := map[string]interface{}{"topic": "mapped-topic", "headers": map[string]string{"d2s": "d2s", "type": "bar"}, "payload": []byte("from-kv")}
	kvBad := map[string]interface{}{"topic": 42, "headers": "nope", "payload": "string-not-bytes"}
	return []func() *context.Context{
		mk(connect("c1", "verif", "secret"), client("c1", "verif"), nil),
		mk(connect("", "verif", "wrong"), client("", "verif"), nil),
		mk(connect("banned", "", ""), client("banned", ""), nil),
		mk(publish("d2s/bar/dev1", []byte("payload"), 0), client("c1", "verif"), nil),
		mk(publish("g2s/gw/x/y/tar", []byte("p"), 1), client("c1", "verif"), kv),
		mk(publish("g2s/short", nil, 1), client("c1", "verif"), nil),
		mk(publish("", []byte{}, 0), client("banned-7", "verif"), kvBad),
		mk(publish("/leading/slash/d2s", []byte("x"), 0), client("c2", ""), kv),
		mk(publish("banned/topic", []byte("x"), 0), client("c2", ""), nil),
		mk(publish("secret/x", []byte("x"), 2), client("c2", ""), map[string]interface{}{"topic": "", "headers": map[string]string{}, "payload": []byte{}}),
		mk(sub, client("c1", "verif"), nil),
		mk(unsub, client("c1", "verif"), nil),
		mk(packets.NewControlPacket(packets.Disconnect), client("c1", "verif"), nil),
		mk(packets.NewControlPacket(packets.Pingreq), client("c1", "verif"), nil),
	}
}

// ---------------------------------------------------------------- Pipeline / GlobalFilter

func (h *x13H) pipelineHandle(handle func(ctx *context.Context), n int) int {
	handled := 0
	reqs := h.httpReqs()
	for i := range reqs {
		if n > 0 && i >= n {
			break
		}
		ctx, cancel := h.newCtx(&reqs[i], false)
		if !h.guard("handle", func() { handle(ctx) }) {
			handled++
		}
		h.guard("consume", func() {
			if r, ok := ctx.GetResponse(context.DefaultNamespace).(*httpprot.Response); ok && r != nil {
				io.Copy(io.Discard, r.GetPayload())
			}
			ctx.Finish()
		})
		cancel()
	}
	return handled
}

func (h *x13H) runPipeline(seed *x13Seed, tree map[string]interface{}) bool {
	y := x13ToYAML(tree)
	ss, err := supervisor.NewSpec(y)
	if err != nil {
		return false
	}
	h.count("accepted")
	p := &pipeline.Pipeline{}
	if h.guard("init", func() { p.Init(ss, nil) }) {
		return true
	}
	h.count("instantiated")
	handled := h.pipelineHandle(func(ctx *context.Context) { p.Handle(ctx) }, 0)
	handled += h.clientGone(func(q *x13Req, sctx stdcontext.Context) bool {
		ctx := h.newCtxOn(q, false, sctx)
		pn := h.guard("handle", func() { p.Handle(ctx) })
		h.guard("consume", func() { x13Consume(ctx) })
		return pn
	})
	handled += h.boundary(func(q *x13Req, sctx stdcontext.Context) bool {
		ctx := h.newCtxOn(q, false, sctx)
		pn := h.guard("handle", func() { p.Handle(ctx) })
		h.guard("consume", func() { x13Consume(ctx) })
		return pn
	})
	h.guard("status", func() { p.Status() })
	ss2, err := supervisor.NewSpec(y)
	if err == nil {
		p2 := &pipeline.Pipeline{}
		if !h.guard("inherit", func() { p2.Inherit(ss2, p, nil) }) { // Inherit closes p
			handled += h.pipelineHandle(func(ctx *context.Context) { p2.Handle(ctx) }, 4)
			h.guard("status", func() { p2.Status() })
			h.guard("close", func() { p2.Close() })
		}
	}
	h.r.Count("handled/"+h.kind, int64(handled))
	h.r.Eval(handled)
	return true
}

func (h *x13H) runGlobalFilter(seed *x13Seed, tree map[string]interface{}) bool {
	y := x13ToYAML(tree)
	ss, err := supervisor.NewSpec(y)
	if err != nil {
		return false
	}
	h.count("accepted")
	gf := &globalfilter.GlobalFilter{}
	if h.guard("init", func() { gf.Init(ss) }) {
		return true
	}
	h.count("instantiated")
	handled := 0
	for _, name := range []string{"be-ok", "be-proxy", "be-noresp"} {
		pl := h.env.mapper.pipes[name]
		handled += h.pipelineHandle(func(ctx *context.Context) { gf.Handle(ctx, pl) }, 8)
	}
	// the client goes away while the pipeline between the two halves waits for its backend
	handled += h.clientGone(func(q *x13Req, sctx stdcontext.Context) bool {
		ctx := h.newCtxOn(q, false, sctx)
		pn := h.guard("handle", func() { gf.Handle(ctx, h.env.mapper.pipes["be-proxy"]) })
		h.guard("consume", func() { x13Consume(ctx) })
		return pn
	})
	// boundary-shaped requests, through the two halves around each kind of routed pipeline in turn
	handled += h.boundary(func(q *x13Req, sctx stdcontext.Context) bool {
		ctx := h.newCtxOn(q, false, sctx)
		pl := h.env.mapper.pipes[[]string{"be-ok", "be-proxy", "be-noresp"}[len(q.name)%3]]
		pn := h.guard("handle", func() { gf.Handle(ctx, pl) })
		h.guard("consume", func() { x13Consume(ctx) })
		return pn
	})
	h.guard("status", func() { gf.Status() })
	ss2, err := supervisor.NewSpec(y)
	if err == nil {
		gf2 := &globalfilter.GlobalFilter{}
		if !h.guard("inherit", func() { gf2.Inherit(ss2, gf) }) {
			handled += h.pipelineHandle(func(ctx *context.Context) { gf2.Handle(ctx, h.env.mapper.pipes["be-ok"]) }, 4)
			h.guard("close", func() { gf2.Close() })
		}
	}
	h.guard("close", func() { gf.Close() })
	h.r.Count("handled/"+h.kind, int64(handled))
	h.r.Eval(handled)
	return true
}

// ---------------------------------------------------------------- HTTPServer

func (h *x13H) runHTTPServer(seed *x13Seed, tree map[string]interface{}) bool {
	port := x13FreePort()
	tree["port"] = port
	y := x13ToYAML(tree)
	ss, err := supervisor.NewSpec(y)
	if err != nil {
		return false
	}
	h.count("accepted")
	mapper := h.env.mapper
	// (1) the routing state is built synchronously first: the real object does this on its
	// FSM goroutine, where a panic would be fatal for the process and not attributable
	m := newMux(httpstat.New(), httpstat.NewTopN(10), mapper)
	if h.guard("mux.reload", func() { m.reload(ss, mapper) }) {
		return true
	}
	handled := 0
	reqs := h.httpReqs()
	for i := range reqs {
		sctx, cancel := stdcontext.WithTimeout(stdcontext.Background(), 400*time.Millisecond)
		stdr := h.stdReq(&reqs[i], sctx)
		w := httptest.NewRecorder()
		if !h.guard("serve", func() { m.ServeHTTP(w, stdr) }) {
			handled++
		}
		cancel()
	}
	// the client goes away while the routed pipeline waits for its backend (net/http
	// cancels the request's context when the connection is lost)
	handled += h.clientGone(func(q *x13Req, sctx stdcontext.Context) bool {
		stdr := h.stdReq(q, sctx)
		w := httptest.NewRecorder()
		return h.guard("serve", func() { m.ServeHTTP(w, stdr) })
	})
	// boundary-shaped requests through the real mux (every shape for every accepted HTTPServer spec)
	handled += h.boundary(func(q *x13Req, sctx stdcontext.Context) bool {
		stdr := h.stdReq(q, sctx)
		w := httptest.NewRecorder()
		return h.guard("serve", func() { m.ServeHTTP(w, stdr) })
	})
	h.guard("mux.reload-again", func() { m.reload(ss, mapper) })
	h.guard("mux.close", func() { m.close() })

	// (2) the real object life cycle on a free port
	hs := &HTTPServer{}
	if h.guard("init", func() { hs.Init(ss, mapper) }) {
		return true
	}
	h.count("instantiated")
	deadline := time.Now().Add(20 * time.Second)
	for hs.runtime.getState() == stateNil && time.Now().Before(deadline) {
		time.Sleep(time.Millisecond)
	}
	spec := ss.ObjectSpec().(*Spec)
	if hs.runtime.getState() == stateRunning && !spec.HTTP3 {
		h.count("listening")
		h.socketRequests(port, spec.HTTPS)
		handled += 2
	}
	h.guard("status", func() { hs.Status() })
	ss2, err := supervisor.NewSpec(y)
	last := hs
	if err == nil {
		hs2 := &HTTPServer{}
		if !h.guard("inherit", func() { hs2.Inherit(ss2, hs, mapper) }) {
			last = hs2
			h.guard("status", func() { hs2.Status() })
		}
	}
	h.guard("close", func() { last.Close() })
	h.r.Count("handled/"+h.kind, int64(handled))
	h.r.Eval(handled)
	return true
}

// socketRequests sends two requests over a real connection (panics inside net/http's
// serving goroutines are recovered by net/http; the in-process calls above are the
// deciding ones, this covers listener/TLS set-up).
func (h *x13H) socketRequests(port int, https bool) {
	for _, raw := range []string{"GET /exact HTTP/1.1\r\nHost: a.com\r\nConnection: close\r\n\r\n", "POST /api HTTP/1.1\r\nHost: x\r\nContent-Length: 3\r\nConnection: close\r\n\r\nabc"} {
		var c net.Conn
		var err error
		addr := fmt.Sprintf("127.0.0.1:%d", port)
		if https {
			cert, _ := tls.X509KeyPair([]byte(h.env.certPEM), []byte(h.env.keyPEM))
			c, err = tls.DialWithDialer(&net.Dialer{Timeout: 2 * time.Second}, "tcp", addr, &tls.Config{InsecureSkipVerify: true, Certificates: []tls.Certificate{cert}})
		} else {
			c, err = net.DialTimeout("tcp", addr, 2*time.Second)
		}
		if err != nil {
			h.r.Count("socket_dial_failed", 1)
			continue
		}
		c.SetDeadline(time.Now().Add(2 * time.Second))
		c.Write([]byte(raw))
		b, _ := io.ReadAll(c)
		if bytes.HasPrefix(b, []byte("HTTP/1.1 ")) {
			h.r.Count("socket_responses", 1)
		}
		c.Close()
	}
}

// ---------------------------------------------------------------- MQTTProxy

func (h *x13H) runMQTTProxy(seed *x13Seed, tree map[string]interface{}) bool {
	port := x13FreePort()
	tree["port"] = port
	y := x13ToYAML(tree)
	ss, err := supervisor.NewSpec(y)
	if err != nil {
		return false
	}
	h.count("accepted")
	mp := &mqttproxy.MQTTProxy{}
	if h.guard("init", func() { mp.Init(ss, h.env.mapper) }) {
		return true
	}
	h.count("instantiated")
	useTLS, _ := tree["useTLS"].(bool)
	handled := h.mqttConversation(port, useTLS)
	h.guard("status", func() { mp.Status() })
	ss2, err := supervisor.NewSpec(y)
	last := mp
	if err == nil {
		mp2 := &mqttproxy.MQTTProxy{}
		if !h.guard("inherit", func() { mp2.Inherit(ss2, mp, h.env.mapper) }) { // closes mp, re-listens on the port
			last = mp2
			handled += h.mqttShort(port, useTLS)
		} else {
			last = nil
		}
	}
	if last != nil {
		h.guard("close", func() { last.Close() })
	}
	h.r.Count("handled/"+h.kind, int64(handled))
	h.r.Eval(handled)
	return true
}

func (h *x13H) mqttDial(port int, useTLS bool) net.Conn {
	addr := fmt.Sprintf("127.0.0.1:%d", port)
	var c net.Conn
	var err error
	if useTLS {
		c, err = tls.DialWithDialer(&net.Dialer{Timeout: 2 * time.Second}, "tcp", addr, &tls.Config{InsecureSkipVerify: true})
	} else {
		c, err = net.DialTimeout("tcp", addr, 2*time.Second)
	}
	if err != nil {
		h.r.Count("mqtt_dial_failed", 1)
		return nil
	}
	return c
}

// expect reads packets until one of the wanted type arrives (others, e.g. forwarded
// publishes, are skipped); a timeout only loses an observation.
func x13Expect(c net.Conn, typ byte) bool {
	for i := 0; i < 6; i++ {
		c.SetReadDeadline(time.Now().Add(1500 * time.Millisecond))
		p, err := packets.ReadPacket(c)
		if err != nil {
			return false
		}
		switch p.(type) {
		case *packets.ConnackPacket:
			if typ == packets.Connack {
				return true
			}
		case *packets.SubackPacket:
			if typ == packets.Suback {
				return true
			}
		case *packets.UnsubackPacket:
			if typ == packets.Unsuback {
				return true
			}
		case *packets.PubackPacket:
			if typ == packets.Puback {
				return true
			}
		case *packets.PingrespPacket:
			if typ == packets.Pingresp {
				return true
			}
		}
	}
	return false
}

func x13Connect(id, user, pass string, clean bool) *packets.ConnectPacket {
	p := packets.NewControlPacket(packets.Connect).(*packets.ConnectPacket)
	p.ClientIdentifier, p.Username, p.Password = id, user, []byte(pass)
	p.UsernameFlag, p.PasswordFlag = user != "", pass != ""
	p.ProtocolName, p.ProtocolVersion, p.CleanSession, p.Keepalive = "MQTT", 4, clean, 30
	return p
}

func (h *x13H) mqttConversation(port int, useTLS bool) (handled int) {
	ok := func(b bool) {
		if b {
			handled++
			h.r.Count("mqtt_acks", 1)
		}
	}
	// client 1: full conversation
	if c := h.mqttDial(port, useTLS); c != nil {
		c.SetWriteDeadline(time.Now().Add(3 * time.Second))
		x13Connect("c1", "verif", "secret", false).Write(c)
		if x13Expect(c, packets.Connack) {
			handled++
			h.r.Count("mqtt_acks", 1)
			sub := packets.NewControlPacket(packets.Subscribe).(*packets.SubscribePacket)
			sub.Topics, sub.Qoss, sub.MessageID = []string{"a/b", "x/#", "+/+/c"}, []byte{1, 0, 1}, 3
			sub.Write(c)
			ok(x13Expect(c, packets.Suback))
			pub := packets.NewControlPacket(packets.Publish).(*packets.PublishPacket)
			pub.TopicName, pub.Payload, pub.Qos = "a/b", []byte("q0"), 0
			pub.Write(c)
			pub1 := packets.NewControlPacket(packets.Publish).(*packets.PublishPacket)
			pub1.TopicName, pub1.Payload, pub1.Qos, pub1.MessageID = "a/b", []byte(strings.Repeat("q1", 40)), 1, 9
			pub1.Write(c)
			ok(x13Expect(c, packets.Puback))
			pubB := packets.NewControlPacket(packets.Publish).(*packets.PublishPacket)
			pubB.TopicName, pubB.Payload, pubB.Qos, pubB.MessageID = "banned/topic", []byte("x"), 1, 10
			pubB.Write(c)
			ping := packets.NewControlPacket(packets.Pingreq)
			ping.Write(c)
			x13Expect(c, packets.Pingresp)
			unsub := packets.NewControlPacket(packets.Unsubscribe).(*packets.UnsubscribePacket)
			unsub.Topics, unsub.MessageID = []string{"a/b"}, 4
			unsub.Write(c)
			x13Expect(c, packets.Unsuback)
			packets.NewControlPacket(packets.Disconnect).Write(c)
		}
		c.Close()
	}
	// client 2: wrong password; client 3: first packet is not CONNECT; client 4: empty id
	if c := h.mqttDial(port, useTLS); c != nil {
		c.SetWriteDeadline(time.Now().Add(3 * time.Second))
		x13Connect("c2", "verif", "wrong", true).Write(c)
		ok(x13Expect(c, packets.Connack))
		c.Close()
	}
	if c := h.mqttDial(port, useTLS); c != nil {
		c.SetWriteDeadline(time.Now().Add(3 * time.Second))
		pub := packets.NewControlPacket(packets.Publish).(*packets.PublishPacket)
		pub.TopicName, pub.Payload = "a/b", []byte("x")
		pub.Write(c)
		c.SetReadDeadline(time.Now().Add(300 * time.Millisecond))
		io.ReadAll(c)
		c.Close()
	}
	// takeover: two connections with one client id, second one with will message
	c5 := h.mqttDial(port, useTLS)
	c6 := h.mqttDial(port, useTLS)
	if c5 != nil && c6 != nil {
		c5.SetWriteDeadline(time.Now().Add(3 * time.Second))
		c6.SetWriteDeadline(time.Now().Add(3 * time.Second))
		x13Connect("dup", "verif", "secret", false).Write(c5)
		ok(x13Expect(c5, packets.Connack))
		p := x13Connect("dup", "verif", "secret", false)
		p.WillFlag, p.WillTopic, p.WillMessage, p.WillQos = true, "x/will", []byte("bye"), 1
		p.Write(c6)
		ok(x13Expect(c6, packets.Connack))
	}
	if c5 != nil {
		c5.Close()
	}
	if c6 != nil {
		c6.Close()
	}
	return handled
}

func (h *x13H) mqttShort(port int, useTLS bool) (handled int) {
	if c := h.mqttDial(port, useTLS); c != nil {
		c.SetWriteDeadline(time.Now().Add(3 * time.Second))
		x13Connect("c1", "verif", "secret", true).Write(c)
		if x13Expect(c, packets.Connack) {
			handled++
		}
		packets.NewControlPacket(packets.Disconnect).Write(c)
		c.Close()
	}
	return
}

// ---------------------------------------------------------------- resilience

func (h *x13H) runResilience(seed *x13Seed, tree map[string]interface{}) bool {
	pol, err := resilience.NewPolicy(x13Export(tree))
	if err != nil {
		return false
	}
	h.count("accepted")
	var w resilience.Wrapper
	if h.guard("createWrapper", func() { w = pol.CreateWrapper() }) || w == nil {
		return true
	}
	h.count("instantiated")
	handled := 0
	errBackend := errors.New("backend failed")
	outcomes := []func(ctx stdcontext.Context) error{
		func(stdcontext.Context) error { return nil },
		func(stdcontext.Context) error { return errBackend },
		func(stdcontext.Context) error { return errBackend },
		func(stdcontext.Context) error { time.Sleep(2 * time.Millisecond); return nil },
		func(stdcontext.Context) error { return errBackend },
		func(stdcontext.Context) error { return errBackend },
		func(stdcontext.Context) error { return nil },
		func(stdcontext.Context) error { time.Sleep(2 * time.Millisecond); return errBackend },
		func(stdcontext.Context) error { return nil },
		func(stdcontext.Context) error { return nil },
	}
	for round := 0; round < 2; round++ {
		for _, o := range outcomes {
			o := o
			ctx, cancel := stdcontext.WithTimeout(stdcontext.Background(), 25*time.Millisecond)
			if !h.guard("handle", func() { w.Wrap(o)(ctx) }) {
				handled++
			}
			cancel()
		}
		time.Sleep(7 * time.Millisecond) // lets a short waitDurationInOpenState elapse
	}
	handled += h.resilienceClientGone(w)
	// a second wrapper from the same policy (every server pool creates its own)
	h.guard("createWrapper", func() { pol.CreateWrapper().Wrap(outcomes[0])(stdcontext.Background()) })
	h.r.Count("handled/"+h.kind, int64(handled))
	h.r.Eval(handled)
	return true
}

// ---------------------------------------------------------------- driver

func x13StartKafka() string {
	var t x13Reporter
	b := sarama.NewMockBroker(t, 1)
	md := sarama.NewMockMetadataResponse(t).SetBroker(b.Addr(), b.BrokerID())
	for _, topic := range []string{"verif-topic", "t2", "mapped-topic", "to_cloud", "to_raw", "nope-verif", "%zz(", "a/b", "d2s/bar/dev1"} {
		md.SetLeader(topic, 0, b.BrokerID())
	}
	b.SetHandlerByMap(map[string]sarama.MockResponse{
		"MetadataRequest": md,
		"ProduceRequest":  sarama.NewMockProduceResponse(t),
	})
	return b.Addr()
}

type x13Case struct {
	seed *x13Seed
	muts []x13Mut

	prod  *x13Product // section product case (c13_prod_test.go): seed and muts unused
	tuple []int
}

// The monitor is split into parts by kind group: the kit carries at most 40 violation
// records per part, and every distinct panic signature must reach the driver.
var x13Parts = map[string][]string{
	"Proxy":       {"Proxy"},
	"Auth":        {"Validator", "RateLimiter"},
	"Adaptors":    {"RequestAdaptor", "ResponseAdaptor", "RequestBuilder", "ResponseBuilder", "CORSAdaptor", "Mock", "Fallback"},
	"MiscFilters": {"HeaderLookup", "HeaderToJSON", "CertExtractor", "RemoteFilter", "MeshAdaptor", "Kafka", "KafkaMQTT", "TopicMapper", "MQTTClientAuth", "ConnectControl"},
	"Pipeline":    {"Pipeline", "GlobalFilter"},
	"Gates":       {"HTTPServer", "MQTTProxy"},
	"Resilience":  {"Retry", "CircuitBreaker"},
}

func TestVerif_C13_Proxy(t *testing.T)       { x13RunPart(t, "Proxy") }
func TestVerif_C13_Auth(t *testing.T)        { x13RunPart(t, "Auth") }
func TestVerif_C13_Adaptors(t *testing.T)    { x13RunPart(t, "Adaptors") }
func TestVerif_C13_MiscFilters(t *testing.T) { x13RunPart(t, "MiscFilters") }
func TestVerif_C13_Pipeline(t *testing.T)    { x13RunPart(t, "Pipeline") }
func TestVerif_C13_Gates(t *testing.T)       { x13RunPart(t, "Gates") }
func TestVerif_C13_Resilience(t *testing.T)  { x13RunPart(t, "Resilience") }

var (
	x13SeedsOnce sync.Once
	x13AllSeeds  []*x13Seed
	x13ProdOnce  sync.Once
	x13AllProds  []*x13Product
)

func x13PrepareProducts(env *x13Env, thorough bool, seed int64) []*x13Product {
	x13ProdOnce.Do(func() {
		x13AllProds = x13Products(env)
		rep := x13ProdReplacer(env)
		for _, p := range x13AllProds {
			p.prepare(rep, thorough, rand.New(rand.NewSource(seed)))
		}
	})
	return x13AllProds
}

func x13PrepareSeeds(env *x13Env) []*x13Seed {
	x13SeedsOnce.Do(func() {
		// schema bounds of every kind (grammar guidance for numeric boundaries)
		filters.WalkKind(func(k *filters.Kind) bool { x13CollectBounds(k.DefaultSpec()); return true })
		for _, k := range []string{"Retry", "CircuitBreaker"} {
			if kd := resilience.GetKind(k); kd != nil {
				x13CollectBounds(kd.DefaultPolicy())
			}
		}
		x13CollectBounds(&Spec{})
		x13CollectBounds(&pipeline.Spec{})
		x13CollectBounds(&mqttproxy.Spec{})
		x13CollectBounds(&globalfilter.Spec{})
		x13AllSeeds = x13Seeds(env, x13StartKafka())
		for _, s := range x13AllSeeds {
			s.tree = x13ParseYAML(s.YAML)
			s.muts = append(x13Enumerate(s.tree), s.Extra...)
		}
	})
	return x13AllSeeds
}

func x13RunPart(t *testing.T, part string) {
	r := kit.Start(t, "C13")
	defer r.Finish()
	kinds := x13Parts[part]
	r.Rule("per kind 1-6 hand-written seed specs that validation accepts and that use every section of the kind; " +
		"YAML-tree mutation at every node of every seed: drop, null, empty/dangling/malformed string, duration 0s/-1s/1ns, " +
		"int 0/1/-1/large and the minimum/maximum (+-1) of easegress' own JSON schema for that property name, bool flip, empty map, map with a null value, " +
		"empty list, list with null element / duplicated element / first element only, plus hand-written cross-section inconsistencies per kind " +
		"(all-zero weights, policy of the wrong kind, dangling names, conflicting sections); case list per part = all seeds, then EVERY single mutation, " +
		"then SECTION PRODUCTS for kinds whose spec consists of several sub-specs (GlobalFilter: beforePipeline x afterPipeline, each absent/null/filters-only/empty-flow/4 valid shapes/10 invalid kinds of the pipeline grammar; " +
		"Pipeline: filters x flow x resilience; HTTPServer: tls x ipFilter x rules x rules[0].ipFilter x rules[0].paths; MQTTProxy: tls x rules x limits; Proxy: pools x mirrorPool x compression x mtls x bodySize; " +
		"the full cross product when it has <= 420 tuples, otherwise every pair of sections in every pair of variants with the other sections at a valid default, thorough: the full product or a seeded sample), " +
		"then seeded pairs/triples of mutations. " +
		"Accepted specs are instantiated in a real single-member cluster + supervisor and driven with 15 varied HTTP requests (with/without response, stream bodies, odd headers, signed, JWT, basic auth, TLS peer cert) " +
		"or 14 MQTT packets / a raw MQTT conversation / 20 resilience calls, " +
		"then (every kind with a request context) 4 CLIENT-GONE requests whose own context is cancelled (context.Canceled, not the deadline): when the filter's call has arrived at the local backend / introspection / remote end point and is kept unanswered (main pool GET, candidate pool POST with body), " +
		"3 ms after the backend answered 503 (falls into the 20 ms back-off of the retry policy), and before the filter runs; event driven by the backend, which answers once the filter returned or 60 ms after the cancellation; " +
		"resilience wrappers: 5 calls cancelled before / by the wrapped call (error, success) / when the failed attempt returns / 0.5 ms into the back-off; " +
		"then (every kind that serves HTTP requests) BOUNDARY-SHAPED requests, each accepted by net/http's own request parser and at a boundary in one dimension of its shape: " +
		"path-depth 1,2,127,128,255,256,257,512 segments; path-slashes 2,127,128,255,256,257,512 slashes only; long-segment 1 KiB / 64 KiB; query '?' alone / 1000 parameters / separators only; " +
		"header-count 0,1,100,1000 header lines and 1000 values under one name; header-size 8 KiB values in the headers the seeds look at, 8 KiB header name; method one letter / lower case / extension token / OPTIONS * / CONNECT authority-form " +
		"(all 32 shapes for every unmutated seed and through the real mux of EVERY accepted HTTPServer spec, a window of 4 shapes that moves with the case index for every other case); " +
		"then Status, Inherit(unchanged spec), Close. distinct = (kind, mutation point shape, mutation class, outcome) resp. (kind, section variant tuple, outcome) resp. (kind, client-gone mode, filter still waiting, outcome) resp. (kind, boundary shape, outcome); " +
		"a panic that only a client-gone request of a case produces carries the suffix :on=client-gone, one that only a boundary-shaped request produces the suffix :on=boundary-request/<dimension>")
	r.Assume("WasmHost is not registered in this build (build tag wasmhost) and is not covered; http3=true runs against the build stub of quic-go")
	r.Assume("HTTP filters get HTTP contexts, MQTT filters MQTT contexts (protocol mismatch between a traffic gate and its pipeline is not generated); listening ports are chosen by the harness")
	r.Assume("Kafka/KafkaMQTT run against sarama's in-process mock broker; a spec whose (mutated) broker address is unreachable is validated but not instantiated")

	env, envErr := x13GetEnv(r.TmpDir())
	if env == nil {
		r.Inconclusive("harness environment could not be built: " + envErr)
		return
	}
	h := &x13H{r: r, env: env, seen: map[string]bool{}}
	if blk, _ := pem.Decode([]byte(env.certPEM)); blk != nil {
		h.peer, _ = x509.ParseCertificate(blk.Bytes)
	}
	all := x13PrepareSeeds(env)
	inPart := map[string]bool{}
	for _, k := range kinds {
		inPart[k] = true
	}
	var seeds []*x13Seed
	allSingles, partSingles := 0, 0
	seeded := map[string]bool{}
	for _, s := range all {
		seeded[s.Kind] = true
		allSingles += len(s.muts)
		if inPart[s.Kind] {
			seeds = append(seeds, s)
			partSingles += len(s.muts)
		}
	}
	if part == "MiscFilters" {
		// a registered filter kind without a seed would silently shrink the quantifier
		filters.WalkKind(func(k *filters.Kind) bool {
			if !seeded[k.Name] {
				r.Inconclusive("registered filter kind without seed: " + k.Name)
			}
			return true
		})
	}
	for _, k := range kinds {
		if k != "Pipeline" && k != "GlobalFilter" && k != "HTTPServer" && k != "MQTTProxy" && k != "Retry" && k != "CircuitBreaker" && filters.GetKind(k) == nil {
			r.Inconclusive("filter kind not registered: " + k)
		}
	}

	var cases []x13Case
	for _, s := range seeds {
		cases = append(cases, x13Case{seed: s})
	}
	nSeeds := len(cases)
	for _, s := range seeds {
		for i := range s.muts {
			cases = append(cases, x13Case{seed: s, muts: []x13Mut{s.muts[i]}})
		}
	}
	// section products of the kinds of this part (both tiers)
	nProd := 0
	prodWant := map[string]int{}
	for _, p := range x13PrepareProducts(env, r.Thorough(), r.Seed()) {
		if !inPart[p.Kind] {
			continue
		}
		for _, t := range p.tuples {
			cases = append(cases, x13Case{prod: p, tuple: t})
		}
		nProd += len(p.tuples)
		prodWant[p.Kind] = len(p.tuples)
	}
	thorough := 60000*partSingles/(allSingles+1) + nProd
	total := r.N(len(cases)+partSingles/8, thorough)
	if total < len(cases) {
		total = len(cases)
	}
	r.Note("part %s: %d seeds, %d single mutations, %d section-product tuples, %d seeded pairs/triples", part, nSeeds, partSingles, nProd, total-len(cases))

	for i := 0; i < total; i++ {
		if !r.Mine(i) {
			continue
		}
		var c x13Case
		if i < len(cases) {
			c = cases[i]
		} else {
			rng := r.CaseRand(i)
			s := seeds[rng.Intn(len(seeds))]
			c = x13Case{seed: s, muts: x13PickCombo(rng, s.muts, func(k int) bool { return h.singleAccepted(s, k) })}
		}
		if c.prod != nil {
			h.runProduct(i, c)
			continue
		}
		h.runCase(i, c, i < nSeeds)
	}

	// ---- evidence and required observations
	var totalSpecs, totalAcc int64
	for _, k := range kinds {
		// the acceptance rate is a statement about the mutation generator: section products
		// (mostly invalid by construction) are not part of it
		tot, acc := r.Counter("specs/"+k), r.Counter("accepted/"+k)-r.Counter(x13ProdCounter(k, "accepted"))
		totalSpecs += tot
		totalAcc += acc
		r.Require("accepted/"+k, 1)
		r.Require("instantiated/"+k, 1)
		r.Require("handled/"+k, 6)
	}
	r.Count("specs_total", totalSpecs)
	r.Count("accepted_total", totalAcc)
	// the driver sums counters over parts and shards: the sum is >= 0 iff at least a third
	// of all generated specs was accepted (DESIGN: otherwise the generator needs work)
	r.Count("acceptance_margin(3*accepted-specs)", 3*totalAcc-totalSpecs)
	r.Require("acceptance_margin(3*accepted-specs)", 0)
	r.Require("seed_accepted", 1)
	// the client-gone request class (c13_gone_test.go) was exercised for every kind that has a request context
	x13GoneRequire(h, kinds)
	// the boundary-shaped request class (c13_bound_test.go): every shape of every dimension reached every kind that serves HTTP requests
	x13BoundRequire(h, kinds)
	// section products: every tuple of the list was run, and both verdicts of validation occurred
	for k, n := range prodWant {
		r.Count(x13ProdCounter(k, "total"), 0)
		r.Count(x13ProdCounter(k, "accepted"), 0)
		r.Count(x13ProdCounter(k, "rejected"), 0)
		r.Require(x13ProdCounter(k, "total"), int64(n))
		r.Require(x13ProdCounter(k, "accepted"), 1)
		r.Require(x13ProdCounter(k, "rejected"), 1)
	}
}

func (h *x13H) runCase(i int, c x13Case, isSeed bool) {
	r := h.r
	tree := x13Clone(c.seed.tree).(map[string]interface{})
	var descs, classes []string
	for k := range c.muts {
		if c.muts[k].apply(tree) {
			descs = append(descs, c.muts[k].Desc())
			classes = append(classes, c.muts[k].Class())
		}
	}
	h.kind = c.seed.Kind
	h.reqClass, h.caseSigs = "", map[string]bool{}
	h.caseIdx, h.boundFull = i, len(c.muts) == 0
	h.desc = map[string]interface{}{"kind": c.seed.Kind, "seed": c.seed.ID, "mutations": descs, "yaml": x13ToYAML(tree)}
	r.Case(i, h.desc)
	h.count("specs")
	before := r.Counter("panics/" + h.kind)
	t0 := time.Now()
	defer func() { r.Count("ms/"+h.kind, time.Since(t0).Milliseconds()) }()
	var accepted bool
	switch c.seed.Cat {
	case x13FilterHTTP, x13FilterMQTT:
		accepted = h.runFilter(c.seed, tree)
	case x13Pipeline:
		accepted = h.runPipeline(c.seed, tree)
	case x13GlobalFilter:
		accepted = h.runGlobalFilter(c.seed, tree)
	case x13HTTPServer:
		accepted = h.runHTTPServer(c.seed, tree)
	case x13MQTTProxy:
		accepted = h.runMQTTProxy(c.seed, tree)
	case x13Resilience:
		accepted = h.runResilience(c.seed, tree)
	}
	outcome := "rejected"
	if accepted {
		outcome = "ok"
		if r.Counter("panics/"+h.kind) > before {
			outcome = "panic"
		}
	}
	if isSeed {
		if accepted {
			r.Count("seed_accepted", 1)
		} else {
			r.Inconclusive("seed rejected by validation (harness seed outdated?): " + c.seed.ID + ": " + h.validationError(c.seed, tree))
		}
		if outcome == "panic" {
			r.Note("seed %s itself panics", c.seed.ID)
		}
	}
	if len(classes) == 0 {
		classes = []string{"seed"}
	}
	r.Cover(c.seed.Kind + ":" + strings.Join(classes, "+") + ":" + outcome)
	if i%97 == 0 {
		r.Sample(map[string]interface{}{"kind": c.seed.Kind, "mutations": descs, "outcome": outcome})
	}
}

// singleAccepted tells (memoised) whether validation accepts the seed with mutation k alone.
func (h *x13H) singleAccepted(s *x13Seed, k int) bool {
	if s.acc == nil {
		s.acc = map[int]bool{}
	}
	if v, ok := s.acc[k]; ok {
		return v
	}
	tree := x13Clone(s.tree).(map[string]interface{})
	s.muts[k].apply(tree)
	var err error
	switch s.Cat {
	case x13FilterHTTP, x13FilterMQTT:
		_, err = filters.NewSpec(h.env.super, "verif-pipeline", x13Export(tree))
	case x13Resilience:
		_, err = resilience.NewPolicy(x13Export(tree))
	default:
		_, err = supervisor.NewSpec(x13ToYAML(tree))
	}
	s.acc[k] = err == nil
	return err == nil
}

func (h *x13H) validationError(seed *x13Seed, tree map[string]interface{}) string {
	var err error
	switch seed.Cat {
	case x13FilterHTTP, x13FilterMQTT:
		_, err = filters.NewSpec(h.env.super, "verif-pipeline", x13Export(tree))
	case x13Resilience:
		_, err = resilience.NewPolicy(x13Export(tree))
	default:
		_, err = supervisor.NewSpec(x13ToYAML(tree))
	}
	if err == nil {
		return "<accepted on retry>"
	}
	e := err.Error()
	if len(e) > 400 {
		e = e[:400]
	}
	return e
}
