//go:build verif

package httpserver

// C13, request class "client goes away": "can then handle ANY request" includes the
// request whose own context is cancelled (net/http does that when the connection is
// lost) before the filter runs, while the filter waits for a backend, and while a
// resilience wrapper waits between two attempts.  The ordinary request set only ever
// let the 400 ms deadline of its contexts expire (context.DeadlineExceeded), and never
// while anything was in flight; a cancelled context (context.Canceled) takes different
// branches in every filter that does I/O on behalf of the request.
//
// The schedule is event driven: the local servers of the environment (proxy target,
// OAuth2 introspection, RemoteFilter endpoint) pass x13Env.holdPoint first; when a hold
// is armed they report the arrival of the filter's call and keep it unanswered, the
// harness cancels the request's context at that moment (or right after the server
// answered 503, for the back-off of a retry policy), and lets the server answer when
// the filter has returned (or after a grace period, for filters that legitimately
// ignore the cancellation).  The verdict is the panic monitor's, nothing is timed.

import (
	stdcontext "context"
	"errors"
	"fmt"
	"io"
	"net/http"
	"sync"
	"sync/atomic"
	"time"

	"github.com/megaease/easegress/pkg/context"
	"github.com/megaease/easegress/pkg/protocols/httpprot"
	"github.com/megaease/easegress/pkg/resilience"
)

const (
	x13HoldHeader = "X-Verif-Hold"
	// back-off of the retry policies the harness injects into filter specs (and of the
	// Pipeline seed): long enough that a cancellation issued right after a failed attempt
	// falls into the wait between two attempts
	x13RetryWait = "20ms"
	// how long after the backend's failure answer the client goes away (after-failed-attempt mode)
	x13AfterFailDelay = 3 * time.Millisecond
	// a filter that does not watch the request's context keeps waiting for its backend:
	// the held call is answered this long after the cancellation
	x13HoldGrace = 60 * time.Millisecond
)

type x13Hold struct {
	id        string
	afterFail bool
	arrived   chan struct{}
	release   chan struct{}
	once      sync.Once
	arrivals  int64
}

func (e *x13Env) arm(hd *x13Hold) {
	e.holdMu.Lock()
	e.hold = hd
	e.holdMu.Unlock()
}

func (e *x13Env) armed() *x13Hold {
	e.holdMu.Lock()
	defer e.holdMu.Unlock()
	return e.hold
}

func (hd *x13Hold) open() { hd.once.Do(func() { close(hd.release) }) }

// holdPoint is passed by every local server before it answers.  byHeader: only calls
// that carry the id of the armed hold are held (the proxy target also serves mirror
// traffic and late calls of earlier cases); the other two servers are only ever called
// on behalf of the running request.  Returns true when the call has been answered here.
func (e *x13Env) holdPoint(w http.ResponseWriter, r *http.Request, byHeader bool) bool {
	hd := e.armed()
	if hd == nil {
		return false
	}
	if byHeader && r.Header.Get(x13HoldHeader) != hd.id {
		return false
	}
	atomic.AddInt64(&hd.arrivals, 1)
	signal := func() {
		select {
		case hd.arrived <- struct{}{}:
		default:
		}
	}
	if hd.afterFail {
		io.Copy(io.Discard, r.Body)
		w.WriteHeader(http.StatusServiceUnavailable)
		if f, ok := w.(http.Flusher); ok {
			f.Flush()
		}
		signal()
		return true
	}
	signal()
	select {
	case <-hd.release:
	case <-r.Context().Done():
	case <-time.After(5 * time.Second):
	}
	return false
}

var x13HoldSeq int64

const (
	x13GoneBefore    = iota // cancelled before the filter sees the request
	x13GoneInFlight         // cancelled when the filter's call has arrived at the backend
	x13GoneAfterFail        // cancelled right after the backend answered 503 (retry back-off)
)

type x13Gone struct {
	name string
	mode int
	req  x13Req
}

// goneReqs: requests that pass the validators / rate limiters / matchers of the seeds
// (so that they reach the filter that does I/O), to the main pool and to a candidate
// pool, without and with a body.
func (h *x13H) goneReqs(id string) []x13Gone {
	e := h.env
	hdr := func(extra ...[2]string) [][2]string {
		return append([][2]string{
			{x13HoldHeader, id}, {"X-Verif-Id", "alice"}, {"X-Env", "staging"}, {"X-Trace", "abc-1"},
			{"Authorization", "Bearer " + e.jwtHS256}, {"Cookie", "auth=" + e.jwtHS256}, {"X-User", "u1"}}, extra...)
	}
	path := "/api/gone/" + id
	return []x13Gone{
		{"in-flight", x13GoneInFlight, x13Req{name: "gone-in-flight", method: "GET", path: path, host: "a.com", hdr: hdr()}},
		// (second: a circuit breaker that counts the cancelled calls as failures is still closed)
		{"after-failed-attempt", x13GoneAfterFail, x13Req{name: "gone-after-failed-attempt", method: "GET", path: path, host: "a.com", hdr: hdr()}},
		{"in-flight-candidate", x13GoneInFlight, x13Req{name: "gone-in-flight-candidate", method: "POST", path: path + "?c=1", host: "a.com", body: `{"gone":true}`,
			hdr: hdr([2]string{"X-Canary", "yes"}, [2]string{"X-Build", "b12"}, [2]string{"Content-Type", "application/json"})}},
		{"before", x13GoneBefore, x13Req{name: "gone-before", method: "GET", path: path, host: "a.com", hdr: hdr()}},
	}
}

func x13Consume(ctx *context.Context) {
	if r, ok := ctx.GetResponse(context.DefaultNamespace).(*httpprot.Response); ok && r != nil {
		io.Copy(io.Discard, r.GetPayload())
	}
	ctx.Finish()
}

// clientGone drives one instantiated thing with the client-gone requests; do handles
// one request on the given context under the panic monitor and tells whether it panicked.
func (h *x13H) clientGone(do func(q *x13Req, sctx stdcontext.Context) (panicked bool)) (handled int) {
	e := h.env
	t0 := time.Now()
	defer func() {
		h.reqClass = ""
		h.r.Count("ms_client_gone/"+h.kind, time.Since(t0).Milliseconds())
	}()
	id := fmt.Sprintf("g%d", atomic.AddInt64(&x13HoldSeq, 1))
	for _, g := range h.goneReqs(id) {
		g := g
		h.reqClass = g.name
		// the watchdog of the ordinary requests stays: a filter stuck on something else
		// than the held backend call is released by the deadline
		base, stop := stdcontext.WithTimeout(stdcontext.Background(), 400*time.Millisecond)
		sctx, cancel := stdcontext.WithCancel(base)
		var hd *x13Hold
		if g.mode == x13GoneBefore {
			cancel()
		} else {
			hd = &x13Hold{id: id, afterFail: g.mode == x13GoneAfterFail, arrived: make(chan struct{}, 64), release: make(chan struct{})}
			e.arm(hd)
		}
		done, fin := make(chan struct{}), make(chan struct{})
		waiting := false // the filter had not returned when its client went away
		go func() {
			defer close(fin)
			if hd == nil {
				return
			}
			select {
			case <-hd.arrived:
			case <-done:
				return
			}
			if hd.afterFail {
				select {
				case <-time.After(x13AfterFailDelay):
				case <-done:
					return
				}
			}
			select {
			case <-done:
				return
			default:
			}
			waiting = true
			cancel()
			select {
			case <-done:
			case <-time.After(x13HoldGrace):
			}
			hd.open()
		}()
		panicked := do(&g.req, sctx)
		close(done)
		<-fin
		if hd != nil {
			e.arm(nil)
			hd.open()
		}
		cancel()
		stop()
		if !panicked {
			handled++
		}
		h.count("client_gone_requests")
		h.r.Cover(fmt.Sprintf("client-gone:%s:%s:waiting=%v:panic=%v", h.kind, g.name, waiting, panicked))
		switch {
		case g.mode == x13GoneInFlight && waiting:
			h.count("client_gone_in_flight")
		case g.mode == x13GoneAfterFail && waiting:
			h.count("client_gone_after_failed_attempt")
		}
	}
	return handled
}

// x13GoneRequire: the observations without which the class was not exercised.
func x13GoneRequire(h *x13H, kinds []string) {
	for _, k := range kinds {
		switch k {
		case "Retry", "CircuitBreaker":
			h.r.Require("client_gone_calls/"+k, 5)
			continue
		case "MQTTProxy", "KafkaMQTT", "TopicMapper", "MQTTClientAuth", "ConnectControl":
			continue // MQTT: no request context
		}
		h.r.Require("client_gone_requests/"+k, 4)
		switch k {
		case "Proxy", "Pipeline":
			// wait for the backend with the request's context, under a retry policy
			h.r.Require("client_gone_in_flight/"+k, 2)
			h.r.Require("client_gone_after_failed_attempt/"+k, 1)
		case "GlobalFilter", "HTTPServer", "Validator", "RemoteFilter":
			// reach a backend (through the be-proxy pipeline / the introspection end point / the remote end point)
			h.r.Require("client_gone_in_flight/"+k, 1)
		}
	}
}

// resilienceClientGone: the caller's context is cancelled before the call, by the wrapped
// call itself (the client goes away while the attempt is in flight), and between two
// attempts (the attempt fails, the context is cancelled when the wrapper starts waiting,
// resp. shortly after).
func (h *x13H) resilienceClientGone(w resilience.Wrapper) (handled int) {
	defer func() { h.reqClass = "" }()
	errBackend := errors.New("backend failed")
	type call struct {
		name string
		pre  bool
		fn   func(ctx stdcontext.Context, cancel stdcontext.CancelFunc) error
	}
	calls := []call{
		{"in-flight", false, func(ctx stdcontext.Context, cancel stdcontext.CancelFunc) error { cancel(); return ctx.Err() }},
		{"in-flight-but-answered", false, func(ctx stdcontext.Context, cancel stdcontext.CancelFunc) error { cancel(); return nil }},
		{"after-failed-attempt", false, func(ctx stdcontext.Context, cancel stdcontext.CancelFunc) error { cancel(); return errBackend }},
		{"in-back-off", false, func(ctx stdcontext.Context, cancel stdcontext.CancelFunc) error {
			time.AfterFunc(500*time.Microsecond, cancel)
			return errBackend
		}},
		{"before", true, func(ctx stdcontext.Context, cancel stdcontext.CancelFunc) error { return ctx.Err() }},
	}
	for _, c := range calls {
		c := c
		h.reqClass = c.name
		base, stop := stdcontext.WithTimeout(stdcontext.Background(), 25*time.Millisecond)
		ctx, cancel := stdcontext.WithCancel(base)
		if c.pre {
			cancel()
		}
		if !h.guard("handle", func() {
			w.Wrap(func(ctx stdcontext.Context) error { return c.fn(ctx, cancel) })(ctx)
		}) {
			handled++
		}
		cancel()
		stop()
		h.count("client_gone_calls")
	}
	return handled
}
