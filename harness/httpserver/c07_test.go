//go:build verif

package httpserver

// C07: body limits in both directions, on the end-to-end rig of c03rig_test.go.
//
// Request side: effective clientMaxBodySize = path value, else server value, else 4 MiB
// (negative: stream).  Response side: effective serverMaxBodySize = pool value, else
// proxy value, else 4 MiB.  The reference below is this sentence and nothing else.

import (
	"bytes"
	"fmt"
	"math/rand"
	"strings"
	"testing"

	"verif.local/kit"
)

const c07Default = 4 << 20

func c07Body(rng *rand.Rand, n int) []byte {
	b := make([]byte, n)
	// cheap, position dependent, not compressible to nothing
	x := uint32(rng.Int63())
	for i := range b {
		x = x*1664525 + 1013904223
		b[i] = byte(x >> 24)
	}
	return b
}

// c07Eff applies "first non-zero wins, else 4 MiB".
func c07Eff(levels []int64, names []string) (int64, string) {
	for i, v := range levels {
		if v != 0 {
			return v, names[i]
		}
	}
	return c07Default, "default"
}

func c07EffClass(eff int64) string {
	switch {
	case eff < 0:
		return "stream"
	case eff == c07Default:
		return "4MiB"
	case eff <= 16:
		return "tiny"
	case eff <= 4096:
		return "small"
	}
	return "64k"
}

type c07Size struct {
	N   int
	Rel string // below | at | above | far-above | zero | stream-small | stream-big
}

func c07Sizes(eff int64, rng *rand.Rand, thorough bool) []c07Size {
	if eff < 0 {
		out := []c07Size{{0, "zero"}, {1 + rng.Intn(3), "stream-small"}, {70000 + rng.Intn(5000), "stream-small"}}
		out = append(out, c07Size{8 << 20, "stream-big"})
		return out
	}
	e := int(eff)
	out := []c07Size{}
	if e-1 > 0 {
		out = append(out, c07Size{e - 1, "below"})
	} else if e-1 == 0 {
		out = append(out, c07Size{0, "zero"})
	}
	out = append(out, c07Size{e, "at"}, c07Size{e + 1, "above"})
	if eff != c07Default || (thorough && rng.Intn(6) == 0) {
		out = append(out, c07Size{4 * e, "far-above"})
	} else if rng.Intn(3) == 0 {
		out = append(out, c07Size{e + 70000, "far-above"})
	}
	return out
}

var c07Levels = []int64{0, -1, 1, 1000, 65536}
var c07Levels2 = []int64{0, -1, 1, 777, 8192, 70000}

func c07Pick(i int, rng *rand.Rand) (int64, int64) {
	// a permutation of the 30 combinations, so that a short prefix already mixes the levels
	j := (i * 7) % (len(c07Levels) * len(c07Levels2))
	a := c07Levels[j%len(c07Levels)]
	b := c07Levels2[(j/len(c07Levels))%len(c07Levels2)]
	if i >= len(c07Levels)*len(c07Levels2) {
		// random positive values keep the boundary moving
		if a > 0 {
			a = int64(1 + rng.Intn(70000))
		}
		if b > 0 {
			b = int64(1 + rng.Intn(70000))
		}
	}
	return a, b
}

type c07Dedupe struct{ n map[string]int }

func (d *c07Dedupe) record(r *kit.Run, sig string, detail interface{}) {
	if d.n == nil {
		d.n = map[string]int{}
	}
	d.n[sig]++
	r.Count("oracle_refutations", 1)
	if d.n[sig] <= 3 {
		r.Violation(sig, detail)
	}
}

func c07Panics(r *kit.Run, dd *c07Dedupe, gw *e2eGateway, what interface{}) {
	for _, entry := range gw.errlog.TakePanics(nil) {
		site, msg := e2ePanicSig(entry)
		dd.record(r, "C07:handler-panic:"+site+":"+msg, map[string]interface{}{"exchange": what, "serverLog": c03ClipLog(entry)})
	}
}

func c03ClipLog(s string) string {
	if len(s) > 3000 {
		return s[:3000]
	}
	return s
}

// TestVerif_C07_Request: request bodies around the effective clientMaxBodySize.
func TestVerif_C07_Request(t *testing.T) {
	r := kit.Start(t, "C07")
	defer r.Finish()
	if e2eNotReplayed(r) {
		return
	}
	r.Rule("every combination of server-level clientMaxBodySize {unset,-1,1,1000,65536} x path-level {unset,-1,1,777,8192,70000} (then random positive values), two routes per server (one with, one without the path-level value) x request bodies of limit-1, limit, limit+1, 4*limit (default 4 MiB: limit-1, limit, limit+1), streams up to 8 MiB x length-declared and chunked framing (chunk sizes 1..70000) + a lying Content-Length (declared > sent, then half-close), all written on a raw socket. distinct = (limit source, limit class, size relation, framing, outcome class)")
	r.Assume("a request body shorter than its declared length must not reach the backend as a complete body: buffered mode expects a 4xx and no backend contact; in stream mode only 'no 2xx for a cleanly ended truncated body' is demanded")
	be, err := e2eNewBackend()
	if err != nil {
		r.Inconclusive("cannot start backend: " + err.Error())
		return
	}
	defer be.Close()
	dd := &c07Dedupe{}
	n := r.N(30, 300)
	for i := 0; i < n; i++ {
		if !r.Mine(i) {
			continue
		}
		rng := r.CaseRand(i)
		cfg := &e2eCfg{}
		cfg.ServerClientMax, cfg.PathClientMax = c07Pick(i, rng)
		// the limits must hold for every request of a connection's history, also when the
		// route comes out of the route cache (all requests of a route share host+method+path)
		if i%2 == 1 {
			cfg.CacheSize = []int{1, 2, 64}[rng.Intn(3)]
			r.Count("req_cases_with_route_cache", 1)
		}
		r.Case(i, cfg)
		gw, err := e2eStart(cfg, be)
		if err != nil {
			r.Inconclusive("gateway did not start: " + err.Error())
			continue
		}
		cl := &e2eClient{addr: gw.addr}
		k := 0
		for _, route := range []string{"/lim/upload", "/upload"} {
			levels, names := []int64{cfg.PathClientMax, cfg.ServerClientMax}, []string{"path", "server"}
			if route == "/upload" {
				levels, names = levels[1:], names[1:]
			}
			eff, src := c07Eff(levels, names)
			type variant struct {
				sz      c07Size
				framing string
			}
			var vs []variant
			for _, sz := range c07Sizes(eff, rng, r.Thorough()) {
				frs := []string{"cl", "chunked"}
				if sz.N >= 1<<20 {
					frs = frs[rng.Intn(2):][:1] // one framing is enough for a multi-megabyte body
				}
				for _, fr := range frs {
					vs = append(vs, variant{sz, fr})
				}
			}
			// lying Content-Length: declared <= limit, fewer bytes sent
			if eff < 0 || eff >= 2 {
				d := 2 + rng.Intn(3000)
				if eff > 0 && int64(d) > eff {
					d = int(eff)
				}
				vs = append(vs, variant{c07Size{d, "short"}, "short-cl"})
			}
			for _, v := range vs {
				k++
				id := fmt.Sprintf("c07q-%d-%d-%d", r.Seed(), i, k)
				body := c07Body(rng, v.sz.N)
				q := &e2eReq{Method: []string{"POST", "PUT"}[rng.Intn(2)], Target: route + "?k=" + id,
					Headers: [][2]string{{"Host", "limits.example"}, {e2eIDHeader, id}, {"Content-Type", "application/octet-stream"}},
					Body:    body, Framing: v.framing, Chunk: []int{1, 100, 4096, 70000}[rng.Intn(4)]}
				if v.sz.N > 100000 && q.Chunk < 4096 {
					q.Chunk = 65536
				}
				if v.framing == "short-cl" {
					q.Declared = v.sz.N
					q.Body = body[:rng.Intn(v.sz.N)]
				}
				want := c07Body(rng, 10+rng.Intn(50))
				be.Script(id, &e2eScript{Status: 200, Headers: [][2]string{{"Content-Type", "application/octet-stream"}}, Body: want, Mode: "cl"})
				before := be.Total()
				res := cl.Do(q, func() bool { return be.Contacted(id) })
				seen := be.Take(id)
				contacts := be.Total() - before
				r.Eval(1)
				desc := map[string]interface{}{"cfg": cfg, "route": route, "effectiveLimit": eff, "limitFrom": src, "bodySize": len(q.Body),
					"declared": q.Declared, "framing": v.framing, "chunk": q.Chunk, "relation": v.sz.Rel, "response": res.Resp, "ioErr": res.IOErr,
					"backendContacted": seen != nil, "backendContacts": contacts}
				if seen != nil {
					desc["backendBody"] = e2eBrief(seen.Body)
					desc["backendBodyErr"] = seen.BodyErr
				}
				c07Panics(r, dd, gw, desc)
				if res.Watchdog {
					r.Inconclusive("socket watchdog fired: " + res.IOErr + " " + res.WriteErr)
					continue
				}
				resp := res.Resp
				tag := fmt.Sprintf("%s:limit-from-%s", v.framing, src)
				outcome := fmt.Sprintf("%d", resp.Status)
				if resp.FramingErr != "" {
					kind := resp.FramingErr
					if j := strings.IndexByte(kind, '('); j > 0 {
						kind = kind[:j]
					}
					dd.record(r, "C07:req:"+v.sz.Rel+":framing:"+kind+":"+tag, desc)
					outcome = "framing-error"
				} else {
					switch v.sz.Rel {
					case "above", "far-above":
						if resp.Status != 413 {
							dd.record(r, fmt.Sprintf("C07:req:%s:status-got%d-want413:%s", v.sz.Rel, resp.Status, tag), desc)
						}
						if seen != nil || contacts != 0 {
							dd.record(r, "C07:req:"+v.sz.Rel+":oversized-request-reached-backend:"+tag, desc)
						}
						r.Count("req_over_limit_"+v.framing, 1)
						if resp.Status == 413 {
							r.Count("req_413", 1)
						}
					case "short":
						if eff >= 0 {
							if resp.Status < 400 || resp.Status > 499 {
								dd.record(r, fmt.Sprintf("C07:req:short:status-got%d-want4xx:%s", resp.Status, tag), desc)
							}
							if seen != nil {
								dd.record(r, "C07:req:short:truncated-request-reached-backend:"+tag, desc)
							}
						} else if resp.Status/100 == 2 && seen != nil && seen.BodyErr == "" {
							dd.record(r, "C07:req:short:truncated-success-in-stream-mode:"+tag, desc)
						}
						r.Count("req_short", 1)
					default: // must pass intact
						if resp.Status != 200 {
							dd.record(r, fmt.Sprintf("C07:req:%s:status-got%d-want200:%s", v.sz.Rel, resp.Status, tag), desc)
						} else if !bytes.Equal(resp.Body, want) {
							dd.record(r, "C07:req:"+v.sz.Rel+":response-body-differs:"+tag, desc)
						}
						if seen == nil {
							if resp.Status == 200 {
								dd.record(r, "C07:req:"+v.sz.Rel+":backend-not-contacted:"+tag, desc)
							}
						} else if seen.BodyErr != "" || !bytes.Equal(seen.Body, q.Body) {
							desc["wantBody"] = e2eBrief(q.Body)
							dd.record(r, "C07:req:"+v.sz.Rel+":backend-body-differs:"+tag, desc)
						} else {
							r.Count("req_passed_intact_"+v.framing, 1)
							if v.sz.Rel == "at" {
								r.Count("req_exactly_limit_passed_"+v.framing, 1)
							}
							if v.sz.Rel == "stream-big" {
								r.Count("req_streamed_8MiB", 1)
							}
						}
					}
				}
				r.Count("req_limit_from_"+src, 1)
				r.Cover(fmt.Sprintf("req/%s/%s/%s/%s/%s", src, c07EffClass(eff), v.sz.Rel, v.framing, outcome))
				if i < 1 && k < 3 {
					r.Sample(desc)
				}
			}
		}
		cl.Close()
		gw.Close()
		be.CloseIdle()
	}
	r.Require("req_cases_with_route_cache", 1)
	for _, k := range []string{"req_over_limit_cl", "req_over_limit_chunked", "req_413", "req_short", "req_passed_intact_cl", "req_passed_intact_chunked",
		"req_exactly_limit_passed_cl", "req_exactly_limit_passed_chunked", "req_streamed_8MiB", "req_limit_from_path", "req_limit_from_server", "req_limit_from_default"} {
		r.Require(k, 1)
	}
}

// TestVerif_C07_Response: backend bodies around the effective serverMaxBodySize.
func TestVerif_C07_Response(t *testing.T) {
	r := kit.Start(t, "C07")
	defer r.Finish()
	if e2eNotReplayed(r) {
		return
	}
	r.Rule("every combination of proxy-level serverMaxBodySize {unset,-1,1,1000,65536} x pool-level {unset,-1,1,777,8192,70000} (then random positive values) x backend bodies of limit-1, limit, limit+1, 4*limit (default 4 MiB: limit-1, limit, limit+1), streams up to 8 MiB x length-declared and chunked x a backend that declares more than it sends and closes. distinct = (limit source, limit class, size relation, backend framing, outcome class)")
	r.Assume("a short (declared > sent) backend body is only generated in buffered mode: in stream mode the status line is on the wire before the gateway can know")
	be, err := e2eNewBackend()
	if err != nil {
		r.Inconclusive("cannot start backend: " + err.Error())
		return
	}
	defer be.Close()
	dd := &c07Dedupe{}
	n := r.N(30, 300)
	for i := 0; i < n; i++ {
		if !r.Mine(i) {
			continue
		}
		rng := r.CaseRand(i)
		cfg := &e2eCfg{HostNameServer: i%2 == 1}
		cfg.ProxyServerMax, cfg.PoolServerMax = c07Pick(i, rng)
		r.Case(i, cfg)
		gw, err := e2eStart(cfg, be)
		if err != nil {
			r.Inconclusive("gateway did not start: " + err.Error())
			continue
		}
		cl := &e2eClient{addr: gw.addr}
		eff, src := c07Eff([]int64{cfg.PoolServerMax, cfg.ProxyServerMax}, []string{"pool", "proxy"})
		type variant struct {
			sz   c07Size
			mode string
		}
		var vs []variant
		for _, sz := range c07Sizes(eff, rng, r.Thorough()) {
			ms := []string{"cl", "chunked"}
			if sz.N >= 1<<20 {
				ms = ms[rng.Intn(2):][:1]
			}
			for _, m := range ms {
				vs = append(vs, variant{sz, m})
			}
		}
		if eff >= 2 {
			d := 2 + rng.Intn(3000)
			if int64(d) > eff {
				d = int(eff)
			}
			vs = append(vs, variant{c07Size{d, "short"}, "short"})
		}
		for k, v := range vs {
			id := fmt.Sprintf("c07p-%d-%d-%d", r.Seed(), i, k)
			body := c07Body(rng, v.sz.N)
			sc := &e2eScript{Status: 200, Headers: [][2]string{{"Content-Type", "application/octet-stream"}, {"X-Resp-Id", id}}, Body: body, Mode: v.mode}
			if v.mode == "short" {
				sc.SendN = rng.Intn(v.sz.N)
			}
			be.Script(id, sc)
			q := &e2eReq{Method: "GET", Target: "/download?k=" + id, Framing: "none",
				Headers: [][2]string{{"Host", "limits.example"}, {e2eIDHeader, id}, {"Accept-Encoding", "identity"}}}
			res := cl.Do(q, func() bool { return be.Contacted(id) })
			seen := be.Take(id)
			r.Eval(1)
			desc := map[string]interface{}{"cfg": cfg, "effectiveLimit": eff, "limitFrom": src, "backendBody": e2eBrief(body), "backendMode": v.mode,
				"backendSent": sc.SendN, "relation": v.sz.Rel, "response": res.Resp, "ioErr": res.IOErr, "backendContacted": seen != nil}
			c07Panics(r, dd, gw, desc)
			if res.Watchdog {
				r.Inconclusive("socket watchdog fired: " + res.IOErr + " " + res.WriteErr)
				continue
			}
			resp := res.Resp
			tag := fmt.Sprintf("%s:limit-from-%s", v.mode, src)
			outcome := fmt.Sprintf("%d", resp.Status)
			switch {
			case resp.FramingErr != "":
				kind := resp.FramingErr
				if j := strings.IndexByte(kind, '('); j > 0 {
					kind = kind[:j]
				}
				dd.record(r, "C07:resp:"+v.sz.Rel+":framing:"+kind+":"+tag, desc)
				outcome = "framing-error"
			case v.sz.Rel == "above" || v.sz.Rel == "far-above":
				if resp.Status < 500 || resp.Status > 599 {
					what := "status-got" + outcome + "-want5xx"
					if resp.Status/100 == 2 {
						what = "oversized-body-delivered"
						if len(resp.Body) < len(body) {
							what = "truncated-body-delivered"
						}
					}
					dd.record(r, "C07:resp:"+v.sz.Rel+":"+what+":"+tag, desc)
				} else {
					r.Count("resp_over_limit_withheld_"+v.mode, 1)
				}
			case v.sz.Rel == "short":
				if resp.Status < 500 || resp.Status > 599 {
					what := "status-got" + outcome + "-want5xx"
					if resp.Status/100 == 2 {
						what = "truncated-success"
					}
					dd.record(r, "C07:resp:short:"+what+":"+tag, desc)
				} else {
					r.Count("resp_short_withheld", 1)
				}
			default:
				if resp.Status != 200 {
					dd.record(r, fmt.Sprintf("C07:resp:%s:status-got%d-want200:%s", v.sz.Rel, resp.Status, tag), desc)
				} else if !bytes.Equal(resp.Body, body) {
					dd.record(r, "C07:resp:"+v.sz.Rel+":body-differs:"+tag, desc)
				} else {
					r.Count("resp_passed_intact_"+v.mode, 1)
					if v.sz.Rel == "at" {
						r.Count("resp_exactly_limit_passed_"+v.mode, 1)
					}
					if v.sz.Rel == "stream-big" {
						r.Count("resp_streamed_8MiB", 1)
					}
				}
			}
			r.Count("resp_limit_from_"+src, 1)
			r.Cover(fmt.Sprintf("resp/%s/%s/%s/%s/%s", src, c07EffClass(eff), v.sz.Rel, v.mode, outcome))
			if i < 1 && k < 2 {
				r.Sample(desc)
			}
		}
		cl.Close()
		gw.Close()
		be.CloseIdle()
	}
	for _, k := range []string{"resp_over_limit_withheld_cl", "resp_over_limit_withheld_chunked", "resp_short_withheld", "resp_passed_intact_cl", "resp_passed_intact_chunked",
		"resp_exactly_limit_passed_cl", "resp_exactly_limit_passed_chunked", "resp_streamed_8MiB", "resp_limit_from_pool", "resp_limit_from_proxy", "resp_limit_from_default"} {
		r.Require(k, 1)
	}
}

// ---------------------------------------------------------------------------------------
// Response-side clauses with the body transformations of C03 switched on.
//
// The limit and short-body clauses of the property do not mention an encoding, so they
// have to hold when the gateway re-encodes the body on its way to the client: Proxy
// `compression` (minLength below / at / above the body size, client accepting gzip in
// several spellings, or not at all), ResponseAdaptor compress / decompress, in buffered
// (positive and default limit) and stream (-1) mode.  What the client receives is decoded
// (gzip) before it is compared with what the backend was scripted to send.

// c07Text is a compressible, position dependent body (a truncation or a shift changes it).
func c07Text(rng *rand.Rand, n int) []byte {
	tag := fmt.Sprintf("%06x", rng.Intn(1<<24))
	var b bytes.Buffer
	b.Grow(n + 32)
	for b.Len() < n {
		fmt.Fprintf(&b, "%08d line of body %s;\n", b.Len(), tag)
	}
	return b.Bytes()[:n]
}

func c07AcceptsGzip(ae []string) bool {
	// the sentence of the Proxy documentation: no Accept-Encoding at all, or one that
	// names gzip
	if len(ae) == 0 {
		return true
	}
	for _, v := range ae {
		if strings.Contains(v, "gzip") {
			return true
		}
	}
	return false
}

type c07TxVariant struct {
	Rel     string // honest (classified against the limit later) | short (declared > sent)
	Plain   []byte // content
	Mode    string // cl | chunked | short
	SendN   int    // short: wire bytes sent
	AE      string // Accept-Encoding of the client ("-" = header absent)
	Note    string
	Control bool // the transformation is expected not to apply (identity client / below minLength)
}

const c07FlushSize = 32768 // one pull of the gateway's gzip reader; bodies beyond it need several

// TestVerif_C07_ResponseTransformed: the response-side clauses with proxy compression or a
// ResponseAdaptor re-encoding the body.
func TestVerif_C07_ResponseTransformed(t *testing.T) {
	r := kit.Start(t, "C07")
	defer r.Finish()
	if e2eNotReplayed(r) {
		return
	}
	r.Rule("body transformation {Proxy compression with minLength 0/1/64/1000/5000, ResponseAdaptor compress, ResponseAdaptor decompress (backend body gzip-labelled)} x response mode {buffered with a positive serverMaxBodySize 3000..63000 at pool or proxy level, stream (-1), default 4 MiB} x client Accept-Encoding {gzip | 'gzip, deflate' | 'br, gzip;q=0.5' | absent | identity} x honest backend bodies (compressible text of minLength-1, minLength, minLength+1, ~2.5 KB, limit, 40-70 KB = several flushes of the gateway's gzip reader; incompressible bytes of limit, limit+1, 4*limit), length-declared or chunked x backends that declare more than they send and close (sent 0, random, declared-1, and more than one 32 KiB flush; declared above and below minLength; gzip-accepting and identity clients). The client-visible body is gzip-decoded before it is compared. distinct = (transformation, whether it applies, response mode, limit relation, backend framing, client Accept-Encoding class, outcome class)")
	r.Assume("with a transformation on, the limit clause is decided only when the backend body, its content and the re-encoded form are all on the same side of the limit (all larger: 5xx demanded; all within: intact 200 demanded); in between, both a 5xx and an intact 200 are accepted, a 2xx with other content never")
	r.Assume("stream mode, short backend body: the status line is on the wire before the gateway can know, so only 'no complete-looking success' is demanded: a well-framed 2xx whose body (after gzip decoding, where the gateway gzip-encoded it) ends cleanly with fewer bytes than the backend declared is a truncated success; an aborted connection, a framing error or a gzip stream that does not decode are accepted. Not decided in stream mode: ResponseAdaptor decompress (the plain chunked body has no completeness signal left) and a backend that sends no body byte at all (an empty gzip-labelled body is complete-looking by convention)")
	be, err := e2eNewBackend()
	if err != nil {
		r.Inconclusive("cannot start backend: " + err.Error())
		return
	}
	defer be.Close()
	dd := &c07Dedupe{}
	txNames := []string{"proxy-compression", "respad-compress", "proxy-compression", "respad-decompress"}
	lmNames := []string{"buffered", "stream", "default"}
	n := r.N(24, 360)
	for i := 0; i < n; i++ {
		if !r.Mine(i) {
			continue
		}
		rng := r.CaseRand(i)
		tx := txNames[(i/2)%4]
		lm := lmNames[(i/8)%3]
		cfg := &e2eCfg{HostNameServer: rng.Intn(2) == 1}
		switch lm {
		case "buffered":
			l := int64(3000 + rng.Intn(60000))
			switch rng.Intn(3) {
			case 0:
				cfg.PoolServerMax = l
			case 1:
				cfg.ProxyServerMax = l
			default:
				cfg.PoolServerMax = l
				cfg.ProxyServerMax = []int64{-1, 1, l + 1 + int64(rng.Intn(5000))}[rng.Intn(3)]
			}
		case "stream":
			switch rng.Intn(3) {
			case 0:
				cfg.PoolServerMax = -1
			case 1:
				cfg.ProxyServerMax = -1
			default:
				cfg.PoolServerMax = -1
				cfg.ProxyServerMax = int64(1 + rng.Intn(5000))
			}
		}
		minLen := 0
		switch tx {
		case "proxy-compression":
			minLen = []int{0, 1, 64, 1000, 5000}[(i/4+rng.Intn(2))%5]
			cfg.Compression = &minLen
		case "respad-compress":
			cfg.RespAd = &e2eAdaptor{Compress: true}
		case "respad-decompress":
			cfg.RespAd = &e2eAdaptor{Decompress: true}
		}
		eff, src := c07Eff([]int64{cfg.PoolServerMax, cfg.ProxyServerMax}, []string{"pool", "proxy"})
		r.Case(i, map[string]interface{}{"cfg": cfg, "transformation": tx, "mode": lm})
		gw, err := e2eStart(cfg, be)
		if err != nil {
			r.Inconclusive("gateway did not start: " + err.Error())
			continue
		}
		cl := &e2eClient{addr: gw.addr}

		// ---- the exchanges of this case
		gzipAEs := []string{"gzip", "gzip, deflate", "br, gzip;q=0.5", "-"}
		pickAE := func() string {
			ae := gzipAEs[rng.Intn(len(gzipAEs))]
			if ae == "-" && tx == "respad-decompress" {
				// without the header the gateway's own transport would un-gzip the
				// labelled backend body before the pipeline sees it
				ae = "gzip"
			}
			return ae
		}
		pickMode := func() string { return []string{"cl", "chunked"}[rng.Intn(2)] }
		var vs []c07TxVariant
		honest := func(plain []byte, note string) {
			vs = append(vs, c07TxVariant{Rel: "honest", Plain: plain, Mode: pickMode(), AE: pickAE(), Note: note})
		}
		if minLen >= 2 {
			for _, d := range []int{-1, 0, 1} {
				honest(c07Text(rng, minLen+d), "around-minlength")
			}
		}
		honest(c07Text(rng, 2000+rng.Intn(1000)), "small-text")
		honest(c07Text(rng, 40000+rng.Intn(30000)), "multi-flush-text")
		if eff > 0 && eff != c07Default {
			honest(c07Text(rng, int(eff)), "text-of-limit")
			honest(c07Body(rng, int(eff)), "bytes-of-limit")
			honest(c07Body(rng, int(eff)+1), "bytes-of-limit+1")
			honest(c07Body(rng, 4*int(eff)), "bytes-of-4*limit")
		}
		if tx == "proxy-compression" {
			vs = append(vs, c07TxVariant{Rel: "honest", Plain: c07Text(rng, 3000+rng.Intn(500)), Mode: pickMode(), AE: "identity", Note: "identity-client", Control: true})
		}
		// short bodies: the declared length stays within the limit, so that the short body
		// is the only thing wrong with the response
		capD := func(d int) int {
			if eff > 0 && int64(d) > eff {
				d = int(eff)
			}
			return d
		}
		short := func(plain []byte, sendN int, ae, note string, control bool) {
			vs = append(vs, c07TxVariant{Rel: "short", Plain: plain, Mode: "short", SendN: sendN, AE: ae, Note: note, Control: control})
		}
		base := minLen
		if base < 2 {
			base = 2
		}
		d1 := capD(base + rng.Intn(1500))
		short(c07Text(rng, d1), 1+rng.Intn(d1-1), "gzip", "short-random", false)
		d2 := capD(base + rng.Intn(1500))
		if tx == "respad-decompress" {
			// (incompressible bytes would push the gzip-labelled wire form over the limit)
			short(c07Text(rng, d2), d2-1, pickAE(), "short-by-one", false)
		} else {
			short(c07Body(rng, d2), d2-1, pickAE(), "short-by-one", false)
		}
		d3 := capD(c07FlushSize + 3000 + rng.Intn(30000))
		if d3 > c07FlushSize+100 {
			short(c07Text(rng, d3), c07FlushSize+1+rng.Intn(d3-c07FlushSize-1), pickAE(), "short-after-a-full-flush", false)
			short(c07Text(rng, d3), c07FlushSize, "gzip", "short-at-flush-boundary", false)
		} else {
			short(c07Text(rng, d3), d3/2, pickAE(), "short-half", false)
		}
		d4 := capD(base + rng.Intn(300))
		short(c07Text(rng, d4), 0, "gzip", "short-nothing-sent", false)
		if tx == "proxy-compression" {
			d5 := capD(base + 100 + rng.Intn(1500))
			short(c07Text(rng, d5), 1+rng.Intn(d5-1), "identity", "short-identity-client", true)
			if minLen >= 3 {
				d6 := capD(2 + rng.Intn(minLen-2))
				if d6 < minLen {
					short(c07Text(rng, d6), 1+rng.Intn(d6-1), "gzip", "short-below-minlength", true)
				}
			}
		}

		for k, v := range vs {
			id := fmt.Sprintf("c07t-%d-%d-%d", r.Seed(), i, k)
			wire := v.Plain
			hdrs := [][2]string{{"Content-Type", "text/plain"}, {"X-Resp-Id", id}}
			if tx == "respad-decompress" {
				wire = e2eGzip(v.Plain)
				hdrs = append(hdrs, [2]string{"Content-Encoding", "gzip"})
			}
			sc := &e2eScript{Status: 200, Headers: hdrs, Body: wire, Mode: v.Mode}
			if v.Mode == "short" {
				// SendN was chosen on the content; scale it onto the wire form
				sc.SendN = v.SendN
				if sc.SendN >= len(wire) {
					sc.SendN = len(wire) - 1
				}
			}
			be.Script(id, sc)
			qh := [][2]string{{"Host", "limits.example"}, {e2eIDHeader, id}}
			var aeVals []string
			if v.AE != "-" {
				qh = append(qh, [2]string{"Accept-Encoding", v.AE})
				aeVals = []string{v.AE}
			}
			q := &e2eReq{Method: "GET", Target: "/download?k=" + id, Framing: "none", Headers: qh}
			res := cl.Do(q, func() bool { return be.Contacted(id) })
			seen := be.Take(id)
			r.Eval(1)

			// does the configured transformation apply to this exchange (input only)?
			declared := -1
			if v.Mode != "chunked" {
				declared = len(wire)
			}
			applies := true
			if tx == "proxy-compression" {
				applies = c07AcceptsGzip(aeVals) && (declared < 0 || declared >= minLen)
			}
			txTag := tx
			if !applies {
				txTag = tx + "-not-applied"
			}
			if v.Control && applies {
				// the generator meant this input as one the transformation leaves alone
				r.Inconclusive(fmt.Sprintf("harness: control variant %s: the transformation applies", v.Note))
				continue
			}
			desc := map[string]interface{}{"cfg": cfg, "transformation": tx, "applies": applies, "effectiveLimit": eff, "limitFrom": src,
				"content": e2eBrief(v.Plain), "backendWire": e2eBrief(wire), "backendMode": v.Mode, "backendSent": sc.SendN, "variant": v.Note,
				"acceptEncoding": v.AE, "response": res.Resp, "ioErr": res.IOErr, "backendContacted": seen != nil}
			c07Panics(r, dd, gw, desc)
			if res.Watchdog {
				r.Inconclusive("socket watchdog fired: " + res.IOErr + " " + res.WriteErr)
				continue
			}
			resp := res.Resp
			tag := fmt.Sprintf("%s:%s:limit-from-%s", v.Mode, txTag, src)
			outcome := fmt.Sprintf("%d", resp.Status)
			// decode what the client got
			ce := strings.Join(e2eValues(resp.Headers, "Content-Encoding"), ",")
			var content []byte
			decodeErr := ""
			wellFramed := resp.FramingErr == ""
			if wellFramed {
				switch ce {
				case "":
					content = resp.Body
				case "gzip":
					dec, err := e2eGunzip(resp.Body)
					content = dec
					if err != nil {
						decodeErr = err.Error()
					}
				default:
					decodeErr = "unexpected Content-Encoding " + ce
				}
				desc["decodedBody"] = e2eBrief(content)
				desc["decodeErr"] = decodeErr
			}
			framingKind := resp.FramingErr
			if j := strings.IndexByte(framingKind, '('); j > 0 {
				framingKind = framingKind[:j]
			}
			rel := v.Rel

			if v.Rel == "short" {
				if applies && tx == "proxy-compression" {
					r.Count("resptx_short_with_proxy_compression_applicable", 1)
				}
				if sc.SendN > c07FlushSize {
					r.Count("resptx_short_after_full_flush", 1)
				}
				if eff >= 0 {
					// buffered: an error status, nothing else
					r.Count("resptx_short_"+txTag, 1)
					r.Count("resptx_short_"+lm, 1)
					switch {
					case !wellFramed:
						dd.record(r, "C07:resp:short:framing:"+framingKind+":"+tag, desc)
						outcome = "framing-error"
					case resp.Status < 500 || resp.Status > 599:
						what := "status-got" + outcome + "-want5xx"
						if resp.Status/100 == 2 {
							what = "truncated-success"
						}
						dd.record(r, "C07:resp:short:"+what+":"+tag, desc)
					default:
						r.Count("resptx_short_withheld_"+txTag, 1)
						r.Count("resptx_short_withheld_"+lm, 1)
					}
				} else {
					// stream: no complete-looking success
					deciding := tx != "respad-decompress" && sc.SendN > 0
					switch {
					case !wellFramed:
						outcome = "aborted"
					case resp.Status/100 != 2:
					case decodeErr != "":
						outcome = "2xx-undecodable"
					default:
						outcome = "2xx-clean-end"
					}
					if !deciding {
						outcome += "(not decided)"
						r.Count("resptx_short_stream_not_decided", 1)
					} else {
						r.Count("resptx_short_stream_decided_"+txTag, 1)
						if outcome == "2xx-clean-end" {
							dd.record(r, "C07:resp:short:truncated-success-in-stream-mode:"+tag, desc)
						} else {
							r.Count("resptx_short_stream_not_a_success_"+txTag, 1)
						}
					}
				}
			} else {
				// honest backend: classify by the limit
				sizes := []int{len(wire), len(v.Plain)}
				if applies && tx != "respad-decompress" {
					sizes = append(sizes, len(e2eGzip(v.Plain)))
				}
				over, within := eff >= 0, eff >= 0
				for j, s := range sizes {
					m := 0
					if j == 2 {
						m = 16 // the gateway's gzip writer may frame a few bytes differently
					}
					if int64(s-m) <= eff {
						over = false
					}
					if int64(s+m) > eff {
						within = false
					}
				}
				switch {
				case eff < 0:
					rel = "stream"
				case over:
					rel = "over"
				case within:
					rel = "within"
				default:
					rel = "between"
				}
				intact := wellFramed && resp.Status == 200 && decodeErr == "" && bytes.Equal(content, v.Plain)
				withheld := wellFramed && resp.Status >= 500 && resp.Status <= 599
				bad := func(what string) { dd.record(r, "C07:resp:"+rel+":"+what+":"+tag, desc) }
				delivered := func() string {
					switch {
					case decodeErr != "":
						return "undecodable-body-delivered"
					case len(content) < len(v.Plain):
						return "truncated-body-delivered"
					}
					return "body-differs"
				}
				switch {
				case !wellFramed:
					bad("framing:" + framingKind)
					outcome = "framing-error"
				case rel == "over":
					if !withheld {
						what := "status-got" + outcome + "-want5xx"
						if resp.Status/100 == 2 {
							what = "oversized-body-delivered"
							if !intact {
								what = delivered()
							}
						}
						bad(what)
					} else {
						r.Count("resptx_over_limit_withheld_"+txTag, 1)
					}
				case rel == "between":
					if !withheld && !intact {
						what := "status-got" + outcome + "-want200-or-5xx"
						if resp.Status/100 == 2 {
							what = delivered()
						}
						bad(what)
					} else {
						r.Count("resptx_between_sizes_"+map[bool]string{true: "withheld", false: "passed"}[withheld], 1)
					}
				default: // within, stream
					if resp.Status != 200 {
						bad("status-got" + outcome + "-want200")
					} else if !intact {
						bad(delivered())
					} else {
						r.Count("resptx_passed_intact_"+txTag, 1)
						r.Count("resptx_passed_intact_"+lm, 1)
						if len(v.Plain) > c07FlushSize {
							r.Count("resptx_passed_intact_multi_flush", 1)
						}
					}
				}
				if intact {
					gwCompressed := ce == "gzip" && tx != "respad-decompress"
					gwDecompressed := ce == "" && tx == "respad-decompress"
					if gwCompressed {
						r.Count("resptx_gateway_compressed_"+tx, 1)
						r.Count("resptx_gateway_compressed_"+lm, 1)
						if v.AE == "-" {
							r.Count("resptx_gateway_compressed_no_accept_encoding", 1)
						}
					}
					if gwDecompressed {
						r.Count("resptx_gateway_decompressed_"+lm, 1)
					}
					if !applies && ce == "" {
						r.Count("resptx_compression_declined", 1)
					}
					outcome += "/ce=" + ce
				}
			}
			r.Cover(fmt.Sprintf("resptx/%s/%s/%s/%s/%s/ae=%s/%s", txTag, lm, rel, v.Note, v.Mode, v.AE, outcome))
			if i < 2 && (k == 0 || v.Note == "short-random") {
				r.Sample(desc)
			}
		}
		cl.Close()
		gw.Close()
		be.CloseIdle()
	}
	for _, k := range []string{
		"resptx_short_with_proxy_compression_applicable", "resptx_short_after_full_flush",
		"resptx_short_proxy-compression", "resptx_short_proxy-compression-not-applied", "resptx_short_respad-compress", "resptx_short_respad-decompress",
		"resptx_short_buffered", "resptx_short_default",
		"resptx_short_stream_decided_proxy-compression", "resptx_short_stream_decided_proxy-compression-not-applied", "resptx_short_stream_decided_respad-compress",
		"resptx_over_limit_withheld_proxy-compression", "resptx_over_limit_withheld_respad-compress", "resptx_over_limit_withheld_respad-decompress",
		"resptx_passed_intact_proxy-compression", "resptx_passed_intact_proxy-compression-not-applied", "resptx_passed_intact_respad-compress", "resptx_passed_intact_respad-decompress",
		"resptx_passed_intact_buffered", "resptx_passed_intact_stream", "resptx_passed_intact_default", "resptx_passed_intact_multi_flush",
		"resptx_gateway_compressed_proxy-compression", "resptx_gateway_compressed_respad-compress",
		"resptx_gateway_compressed_buffered", "resptx_gateway_compressed_stream", "resptx_gateway_compressed_default",
		"resptx_gateway_decompressed_buffered", "resptx_gateway_decompressed_stream",
		"resptx_compression_declined",
	} {
		r.Require(k, 1)
	}
}
