//go:build verif

package httpserver

// C07: body limits in both directions, on the end-to-end rig of c03rig_test.go.
//
// Request side: effective clientMaxBodySize = path value, else server value, else 4 MiB
// (negative: stream).  Response side: effective serverMaxBodySize = pool value, else
// proxy value, else 4 MiB.  The reference below is this sentence and nothing else.

import (
	"bytes"
	"fmt"
	"math/rand"
	"strings"
	"testing"

	"verif.local/kit"
)

const c07Default = 4 << 20

func c07Body(rng *rand.Rand, n int) []byte {
	b := make([]byte, n)
	// cheap, position dependent, not compressible to nothing
	x := uint32(rng.Int63())
	for i := range b {
		x = x*1664525 + 1013904223
		b[i] = byte(x >> 24)
	}
	return b
}

// c07Eff applies "first non-zero wins, else 4 MiB".
func c07Eff(levels []int64, names []string) (int64, string) {
	for i, v := range levels {
		if v != 0 {
			return v, names[i]
		}
	}
	return c07Default, "default"
}

func c07EffClass(eff int64) string {
	switch {
	case eff < 0:
		return "stream"
	case eff == c07Default:
		return "4MiB"
	case eff <= 16:
		return "tiny"
	case eff <= 4096:
		return "small"
	}
	return "64k"
}

type c07Size struct {
	N   int
	Rel string // below | at | above | far-above | zero | stream-small | stream-big
}

func c07Sizes(eff int64, rng *rand.Rand, thorough bool) []c07Size {
	if eff < 0 {
		out := []c07Size{{0, "zero"}, {1 + rng.Intn(3), "stream-small"}, {70000 + rng.Intn(5000), "stream-small"}}
		out = append(out, c07Size{8 << 20, "stream-big"})
		return out
	}
	e := int(eff)
	out := []c07Size{}
	if e-1 > 0 {
		out = append(out, c07Size{e - 1, "below"})
	} else if e-1 == 0 {
		out = append(out, c07Size{0, "zero"})
	}
	out = append(out, c07Size{e, "at"}, c07Size{e + 1, "above"})
	if eff != c07Default || (thorough && rng.Intn(6) == 0) {
		out = append(out, c07Size{4 * e, "far-above"})
	} else if rng.Intn(3) == 0 {
		out = append(out, c07Size{e + 70000, "far-above"})
	}
	return out
}

var c07Levels = []int64{0, -1, 1, 1000, 65536}
var c07Levels2 = []int64{0, -1, 1, 777, 8192, 70000}

func c07Pick(i int, rng *rand.Rand) (int64, int64) {
	// a permutation of the 30 combinations, so that a short prefix already mixes the levels
	j := (i * 7) % (len(c07Levels) * len(c07Levels2))
	a := c07Levels[j%len(c07Levels)]
	b := c07Levels2[(j/len(c07Levels))%len(c07Levels2)]
	if i >= len(c07Levels)*len(c07Levels2) {
		// random positive values keep the boundary moving
		if a > 0 {
			a = int64(1 + rng.Intn(70000))
		}
		if b > 0 {
			b = int64(1 + rng.Intn(70000))
		}
	}
	return a, b
}

type c07Dedupe struct{ n map[string]int }

func (d *c07Dedupe) record(r *kit.Run, sig string, detail interface{}) {
	if d.n == nil {
		d.n = map[string]int{}
	}
	d.n[sig]++
	r.Count("oracle_refutations", 1)
	if d.n[sig] <= 3 {
		r.Violation(sig, detail)
	}
}

func c07Panics(r *kit.Run, dd *c07Dedupe, gw *e2eGateway, what interface{}) {
	for _, entry := range gw.errlog.TakePanics(nil) {
		site, msg := e2ePanicSig(entry)
		dd.record(r, "C07:handler-panic:"+site+":"+msg, map[string]interface{}{"exchange": what, "serverLog": c03ClipLog(entry)})
	}
}

func c03ClipLog(s string) string {
	if len(s) > 3000 {
		return s[:3000]
	}
	return s
}

// TestVerif_C07_Request: request bodies around the effective clientMaxBodySize.
func TestVerif_C07_Request(t *testing.T) {
	r := kit.Start(t, "C07")
	defer r.Finish()
	if e2eNotReplayed(r) {
		return
	}
	r.Rule("every combination of server-level clientMaxBodySize {unset,-1,1,1000,65536} x path-level {unset,-1,1,777,8192,70000} (then random positive values), two routes per server (one with, one without the path-level value) x request bodies of limit-1, limit, limit+1, 4*limit (default 4 MiB: limit-1, limit, limit+1), streams up to 8 MiB x length-declared and chunked framing (chunk sizes 1..70000) + a lying Content-Length (declared > sent, then half-close), all written on a raw socket. distinct = (limit source, limit class, size relation, framing, outcome class)")
	r.Assume("a request body shorter than its declared length must not reach the backend as a complete body: buffered mode expects a 4xx and no backend contact; in stream mode only 'no 2xx for a cleanly ended truncated body' is demanded")
	be, err := e2eNewBackend()
	if err != nil {
		r.Inconclusive("cannot start backend: " + err.Error())
		return
	}
	defer be.Close()
	dd := &c07Dedupe{}
	n := r.N(30, 300)
	for i := 0; i < n; i++ {
		if !r.Mine(i) {
			continue
		}
		rng := r.CaseRand(i)
		cfg := &e2eCfg{}
		cfg.ServerClientMax, cfg.PathClientMax = c07Pick(i, rng)
		// the limits must hold for every request of a connection's history, also when the
		// route comes out of the route cache (all requests of a route share host+method+path)
		if i%2 == 1 {
			cfg.CacheSize = []int{1, 2, 64}[rng.Intn(3)]
			r.Count("req_cases_with_route_cache", 1)
		}
		r.Case(i, cfg)
		gw, err := e2eStart(cfg, be)
		if err != nil {
			r.Inconclusive("gateway did not start: " + err.Error())
			continue
		}
		cl := &e2eClient{addr: gw.addr}
		k := 0
		for _, route := range []string{"/lim/upload", "/upload"} {
			levels, names := []int64{cfg.PathClientMax, cfg.ServerClientMax}, []string{"path", "server"}
			if route == "/upload" {
				levels, names = levels[1:], names[1:]
			}
			eff, src := c07Eff(levels, names)
			type variant struct {
				sz      c07Size
				framing string
			}
			var vs []variant
			for _, sz := range c07Sizes(eff, rng, r.Thorough()) {
				frs := []string{"cl", "chunked"}
				if sz.N >= 1<<20 {
					frs = frs[rng.Intn(2):][:1] // one framing is enough for a multi-megabyte body
				}
				for _, fr := range frs {
					vs = append(vs, variant{sz, fr})
				}
			}
			// lying Content-Length: declared <= limit, fewer bytes sent
			if eff < 0 || eff >= 2 {
				d := 2 + rng.Intn(3000)
				if eff > 0 && int64(d) > eff {
					d = int(eff)
				}
				vs = append(vs, variant{c07Size{d, "short"}, "short-cl"})
			}
			for _, v := range vs {
				k++
				id := fmt.Sprintf("c07q-%d-%d-%d", r.Seed(), i, k)
				body := c07Body(rng, v.sz.N)
				q := &e2eReq{Method: []string{"POST", "PUT"}[rng.Intn(2)], Target: route + "?k=" + id,
					Headers: [][2]string{{"Host", "limits.example"}, {e2eIDHeader, id}, {"Content-Type", "application/octet-stream"}},
					Body:    body, Framing: v.framing, Chunk: []int{1, 100, 4096, 70000}[rng.Intn(4)]}
				if v.sz.N > 100000 && q.Chunk < 4096 {
					q.Chunk = 65536
				}
				if v.framing == "short-cl" {
					q.Declared = v.sz.N
					q.Body = body[:rng.Intn(v.sz.N)]
				}
				want := c07Body(rng, 10+rng.Intn(50))
				be.Script(id, &e2eScript{Status: 200, Headers: [][2]string{{"Content-Type", "application/octet-stream"}}, Body: want, Mode: "cl"})
				before := be.Total()
				res := cl.Do(q, func() bool { return be.Contacted(id) })
				seen := be.Take(id)
				contacts := be.Total() - before
				r.Eval(1)
				desc := map[string]interface{}{"cfg": cfg, "route": route, "effectiveLimit": eff, "limitFrom": src, "bodySize": len(q.Body),
					"declared": q.Declared, "framing": v.framing, "chunk": q.Chunk, "relation": v.sz.Rel, "response": res.Resp, "ioErr": res.IOErr,
					"backendContacted": seen != nil, "backendContacts": contacts}
				if seen != nil {
					desc["backendBody"] = e2eBrief(seen.Body)
					desc["backendBodyErr"] = seen.BodyErr
				}
				c07Panics(r, dd, gw, desc)
				if res.Watchdog {
					r.Inconclusive("socket watchdog fired: " + res.IOErr + " " + res.WriteErr)
					continue
				}
				resp := res.Resp
				tag := fmt.Sprintf("%s:limit-from-%s", v.framing, src)
				outcome := fmt.Sprintf("%d", resp.Status)
				if resp.FramingErr != "" {
					kind := resp.FramingErr
					if j := strings.IndexByte(kind, '('); j > 0 {
						kind = kind[:j]
					}
					dd.record(r, "C07:req:"+v.sz.Rel+":framing:"+kind+":"+tag, desc)
					outcome = "framing-error"
				} else {
					switch v.sz.Rel {
					case "above", "far-above":
						if resp.Status != 413 {
							dd.record(r, fmt.Sprintf("C07:req:%s:status-got%d-want413:%s", v.sz.Rel, resp.Status, tag), desc)
						}
						if seen != nil || contacts != 0 {
							dd.record(r, "C07:req:"+v.sz.Rel+":oversized-request-reached-backend:"+tag, desc)
						}
						r.Count("req_over_limit_"+v.framing, 1)
						if resp.Status == 413 {
							r.Count("req_413", 1)
						}
					case "short":
						if eff >= 0 {
							if resp.Status < 400 || resp.Status > 499 {
								dd.record(r, fmt.Sprintf("C07:req:short:status-got%d-want4xx:%s", resp.Status, tag), desc)
							}
							if seen != nil {
								dd.record(r, "C07:req:short:truncated-request-reached-backend:"+tag, desc)
							}
						} else if resp.Status/100 == 2 && seen != nil && seen.BodyErr == "" {
							dd.record(r, "C07:req:short:truncated-success-in-stream-mode:"+tag, desc)
						}
						r.Count("req_short", 1)
					default: // must pass intact
						if resp.Status != 200 {
							dd.record(r, fmt.Sprintf("C07:req:%s:status-got%d-want200:%s", v.sz.Rel, resp.Status, tag), desc)
						} else if !bytes.Equal(resp.Body, want) {
							dd.record(r, "C07:req:"+v.sz.Rel+":response-body-differs:"+tag, desc)
						}
						if seen == nil {
							if resp.Status == 200 {
								dd.record(r, "C07:req:"+v.sz.Rel+":backend-not-contacted:"+tag, desc)
							}
						} else if seen.BodyErr != "" || !bytes.Equal(seen.Body, q.Body) {
							desc["wantBody"] = e2eBrief(q.Body)
							dd.record(r, "C07:req:"+v.sz.Rel+":backend-body-differs:"+tag, desc)
						} else {
							r.Count("req_passed_intact_"+v.framing, 1)
							if v.sz.Rel == "at" {
								r.Count("req_exactly_limit_passed_"+v.framing, 1)
							}
							if v.sz.Rel == "stream-big" {
								r.Count("req_streamed_8MiB", 1)
							}
						}
					}
				}
				r.Count("req_limit_from_"+src, 1)
				r.Cover(fmt.Sprintf("req/%s/%s/%s/%s/%s", src, c07EffClass(eff), v.sz.Rel, v.framing, outcome))
				if i < 1 && k < 3 {
					r.Sample(desc)
				}
			}
		}
		cl.Close()
		gw.Close()
		be.CloseIdle()
	}
	r.Require("req_cases_with_route_cache", 1)
	for _, k := range []string{"req_over_limit_cl", "req_over_limit_chunked", "req_413", "req_short", "req_passed_intact_cl", "req_passed_intact_chunked",
		"req_exactly_limit_passed_cl", "req_exactly_limit_passed_chunked", "req_streamed_8MiB", "req_limit_from_path", "req_limit_from_server", "req_limit_from_default"} {
		r.Require(k, 1)
	}
}

// TestVerif_C07_Response: backend bodies around the effective serverMaxBodySize.
func TestVerif_C07_Response(t *testing.T) {
	r := kit.Start(t, "C07")
	defer r.Finish()
	if e2eNotReplayed(r) {
		return
	}
	r.Rule("every combination of proxy-level serverMaxBodySize {unset,-1,1,1000,65536} x pool-level {unset,-1,1,777,8192,70000} (then random positive values) x backend bodies of limit-1, limit, limit+1, 4*limit (default 4 MiB: limit-1, limit, limit+1), streams up to 8 MiB x length-declared and chunked x a backend that declares more than it sends and closes. distinct = (limit source, limit class, size relation, backend framing, outcome class)")
	r.Assume("a short (declared > sent) backend body is only generated in buffered mode: in stream mode the status line is on the wire before the gateway can know")
	be, err := e2eNewBackend()
	if err != nil {
		r.Inconclusive("cannot start backend: " + err.Error())
		return
	}
	defer be.Close()
	dd := &c07Dedupe{}
	n := r.N(30, 300)
	for i := 0; i < n; i++ {
		if !r.Mine(i) {
			continue
		}
		rng := r.CaseRand(i)
		cfg := &e2eCfg{HostNameServer: i%2 == 1}
		cfg.ProxyServerMax, cfg.PoolServerMax = c07Pick(i, rng)
		r.Case(i, cfg)
		gw, err := e2eStart(cfg, be)
		if err != nil {
			r.Inconclusive("gateway did not start: " + err.Error())
			continue
		}
		cl := &e2eClient{addr: gw.addr}
		eff, src := c07Eff([]int64{cfg.PoolServerMax, cfg.ProxyServerMax}, []string{"pool", "proxy"})
		type variant struct {
			sz   c07Size
			mode string
		}
		var vs []variant
		for _, sz := range c07Sizes(eff, rng, r.Thorough()) {
			ms := []string{"cl", "chunked"}
			if sz.N >= 1<<20 {
				ms = ms[rng.Intn(2):][:1]
			}
			for _, m := range ms {
				vs = append(vs, variant{sz, m})
			}
		}
		if eff >= 2 {
			d := 2 + rng.Intn(3000)
			if int64(d) > eff {
				d = int(eff)
			}
			vs = append(vs, variant{c07Size{d, "short"}, "short"})
		}
		for k, v := range vs {
			id := fmt.Sprintf("c07p-%d-%d-%d", r.Seed(), i, k)
			body := c07Body(rng, v.sz.N)
			sc := &e2eScript{Status: 200, Headers: [][2]string{{"Content-Type", "application/octet-stream"}, {"X-Resp-Id", id}}, Body: body, Mode: v.mode}
			if v.mode == "short" {
				sc.SendN = rng.Intn(v.sz.N)
			}
			be.Script(id, sc)
			q := &e2eReq{Method: "GET", Target: "/download?k=" + id, Framing: "none",
				Headers: [][2]string{{"Host", "limits.example"}, {e2eIDHeader, id}, {"Accept-Encoding", "identity"}}}
			res := cl.Do(q, func() bool { return be.Contacted(id) })
			seen := be.Take(id)
			r.Eval(1)
			desc := map[string]interface{}{"cfg": cfg, "effectiveLimit": eff, "limitFrom": src, "backendBody": e2eBrief(body), "backendMode": v.mode,
				"backendSent": sc.SendN, "relation": v.sz.Rel, "response": res.Resp, "ioErr": res.IOErr, "backendContacted": seen != nil}
			c07Panics(r, dd, gw, desc)
			if res.Watchdog {
				r.Inconclusive("socket watchdog fired: " + res.IOErr + " " + res.WriteErr)
				continue
			}
			resp := res.Resp
			tag := fmt.Sprintf("%s:limit-from-%s", v.mode, src)
			outcome := fmt.Sprintf("%d", resp.Status)
			switch {
			case resp.FramingErr != "":
				kind := resp.FramingErr
				if j := strings.IndexByte(kind, '('); j > 0 {
					kind = kind[:j]
				}
				dd.record(r, "C07:resp:"+v.sz.Rel+":framing:"+kind+":"+tag, desc)
				outcome = "framing-error"
			case v.sz.Rel == "above" || v.sz.Rel == "far-above":
				if resp.Status < 500 || resp.Status > 599 {
					what := "status-got" + outcome + "-want5xx"
					if resp.Status/100 == 2 {
						what = "oversized-body-delivered"
						if len(resp.Body) < len(body) {
							what = "truncated-body-delivered"
						}
					}
					dd.record(r, "C07:resp:"+v.sz.Rel+":"+what+":"+tag, desc)
				} else {
					r.Count("resp_over_limit_withheld_"+v.mode, 1)
				}
			case v.sz.Rel == "short":
				if resp.Status < 500 || resp.Status > 599 {
					what := "status-got" + outcome + "-want5xx"
					if resp.Status/100 == 2 {
						what = "truncated-success"
					}
					dd.record(r, "C07:resp:short:"+what+":"+tag, desc)
				} else {
					r.Count("resp_short_withheld", 1)
				}
			default:
				if resp.Status != 200 {
					dd.record(r, fmt.Sprintf("C07:resp:%s:status-got%d-want200:%s", v.sz.Rel, resp.Status, tag), desc)
				} else if !bytes.Equal(resp.Body, body) {
					dd.record(r, "C07:resp:"+v.sz.Rel+":body-differs:"+tag, desc)
				} else {
					r.Count("resp_passed_intact_"+v.mode, 1)
					if v.sz.Rel == "at" {
						r.Count("resp_exactly_limit_passed_"+v.mode, 1)
					}
					if v.sz.Rel == "stream-big" {
						r.Count("resp_streamed_8MiB", 1)
					}
				}
			}
			r.Count("resp_limit_from_"+src, 1)
			r.Cover(fmt.Sprintf("resp/%s/%s/%s/%s/%s", src, c07EffClass(eff), v.sz.Rel, v.mode, outcome))
			if i < 1 && k < 2 {
				r.Sample(desc)
			}
		}
		cl.Close()
		gw.Close()
		be.CloseIdle()
	}
	for _, k := range []string{"resp_over_limit_withheld_cl", "resp_over_limit_withheld_chunked", "resp_short_withheld", "resp_passed_intact_cl", "resp_passed_intact_chunked",
		"resp_exactly_limit_passed_cl", "resp_exactly_limit_passed_chunked", "resp_streamed_8MiB", "resp_limit_from_pool", "resp_limit_from_proxy", "resp_limit_from_default"} {
		r.Require(k, 1)
	}
}
