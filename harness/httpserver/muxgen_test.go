//go:build verif

package httpserver

// Shared generator, recording MuxMapper and reference router for the mux monitors
// (C01, C05, C11, C12).  Nothing here shares code with mux.go: the reference router is
// written from the sentence of property C01.

import (
	"fmt"
	"math/rand"
	"net"
	"net/http"
	"net/http/httptest"
	"regexp"
	"strings"
	"sync"

	"github.com/megaease/easegress/pkg/context"
	"github.com/megaease/easegress/pkg/logger"
	"github.com/megaease/easegress/pkg/protocols/httpprot"
	"github.com/megaease/easegress/pkg/protocols/httpprot/httpstat"
	"github.com/megaease/easegress/pkg/supervisor"
)

func init() { logger.InitNop() }

type (
	gHeader struct {
		Key    string   `json:"key"`
		Values []string `json:"values,omitempty"`
		Regexp string   `json:"regexp,omitempty"`
	}
	gIPF struct {
		BlockByDefault bool     `json:"blockByDefault"`
		Allow          []string `json:"allow,omitempty"`
		Block          []string `json:"block,omitempty"`
	}
	gPath struct {
		Path     string    `json:"path,omitempty"`
		Prefix   string    `json:"prefix,omitempty"`
		Regexp   string    `json:"regexp,omitempty"`
		Rewrite  string    `json:"rewrite,omitempty"`
		Methods  []string  `json:"methods,omitempty"`
		Backend  string    `json:"backend"`
		Headers  []gHeader `json:"headers,omitempty"`
		MatchAll bool      `json:"matchAll,omitempty"`
		IPF      *gIPF     `json:"ipf,omitempty"`
	}
	gRule struct {
		Host       string  `json:"host,omitempty"`
		HostRegexp string  `json:"hostRegexp,omitempty"`
		IPF        *gIPF   `json:"ipf,omitempty"`
		Paths      []gPath `json:"paths"`
	}
	gSpec struct {
		CacheSize int     `json:"cacheSize,omitempty"`
		XFF       bool    `json:"xff,omitempty"`
		IPF       *gIPF   `json:"ipf,omitempty"`
		Rules     []gRule `json:"rules"`
		// IPHosts: the spec was generated with IP-literal host conditions in its vocabulary
		// (genOpts.ipHosts); genReq then also draws request hosts that are IP literals.  Not
		// part of the rendered YAML.
		IPHosts bool `json:"ipHosts,omitempty"`
		// AllMethods: the spec was generated with the full set of methods the validation accepts
		// in its method lists (genOpts.allMethods); genReq then draws request methods from that
		// full set too (plus one unknown method), preferring FocusMethod and the methods the
		// spec lists.  Not part of the rendered YAML.
		AllMethods  bool   `json:"allMethods,omitempty"`
		FocusMethod string `json:"focusMethod,omitempty"`
	}
	gReq struct {
		Method     string      `json:"m"`
		Host       string      `json:"h"`
		Path       string      `json:"p"`
		Headers    [][2]string `json:"hdr,omitempty"`
		RemoteAddr string      `json:"ra,omitempty"`
	}
	// gOut is what a client observes for one request.
	gOut struct {
		Status  int    `json:"status"`
		Backend string `json:"backend,omitempty"`
		Path    string `json:"path,omitempty"`
		Host    string `json:"host,omitempty"`
		XFF     string `json:"xff,omitempty"`
	}
)

func yq(s string) string { return fmt.Sprintf("%q", s) }

func yList(ss []string) string {
	q := make([]string, len(ss))
	for i, s := range ss {
		q[i] = yq(s)
	}
	return "[" + strings.Join(q, ", ") + "]"
}

func (f *gIPF) yaml(ind string) string {
	if f == nil {
		return ""
	}
	var b strings.Builder
	fmt.Fprintf(&b, "%sipFilter:\n%s  blockByDefault: %v\n", ind, ind, f.BlockByDefault)
	if len(f.Allow) > 0 {
		fmt.Fprintf(&b, "%s  allowIPs: %s\n", ind, yList(f.Allow))
	}
	if len(f.Block) > 0 {
		fmt.Fprintf(&b, "%s  blockIPs: %s\n", ind, yList(f.Block))
	}
	return b.String()
}

// YAML renders the spec the way a user would write it.
func (s *gSpec) YAML(name string) string {
	var b strings.Builder
	fmt.Fprintf(&b, "kind: HTTPServer\nname: %s\nport: 18080\nkeepAlive: true\nhttps: false\n", name)
	if s.CacheSize > 0 {
		fmt.Fprintf(&b, "cacheSize: %d\n", s.CacheSize)
	}
	if s.XFF {
		b.WriteString("xForwardedFor: true\n")
	}
	b.WriteString(s.IPF.yaml(""))
	if len(s.Rules) == 0 {
		return b.String()
	}
	b.WriteString("rules:\n")
	for _, r := range s.Rules {
		first := true
		item := func(l string) {
			if first {
				b.WriteString("- " + l + "\n")
				first = false
			} else {
				b.WriteString("  " + l + "\n")
			}
		}
		if r.Host != "" {
			item("host: " + yq(r.Host))
		}
		if r.HostRegexp != "" {
			item("hostRegexp: " + yq(r.HostRegexp))
		}
		if r.IPF != nil {
			lines := strings.Split(strings.TrimRight(r.IPF.yaml(""), "\n"), "\n")
			for _, l := range lines {
				item(l)
			}
		}
		item("paths:")
		for _, p := range r.Paths {
			b.WriteString("  - backend: " + yq(p.Backend) + "\n")
			if p.Path != "" {
				b.WriteString("    path: " + yq(p.Path) + "\n")
			}
			if p.Prefix != "" {
				b.WriteString("    pathPrefix: " + yq(p.Prefix) + "\n")
			}
			if p.Regexp != "" {
				b.WriteString("    pathRegexp: " + yq(p.Regexp) + "\n")
			}
			if p.Rewrite != "" {
				b.WriteString("    rewriteTarget: " + yq(p.Rewrite) + "\n")
			}
			if len(p.Methods) > 0 {
				b.WriteString("    methods: " + yList(p.Methods) + "\n")
			}
			if p.MatchAll {
				b.WriteString("    matchAllHeader: true\n")
			}
			if len(p.Headers) > 0 {
				b.WriteString("    headers:\n")
				for _, h := range p.Headers {
					b.WriteString("    - key: " + yq(h.Key) + "\n")
					if len(h.Values) > 0 {
						b.WriteString("      values: " + yList(h.Values) + "\n")
					}
					if h.Regexp != "" {
						b.WriteString("      regexp: " + yq(h.Regexp) + "\n")
					}
				}
			}
			b.WriteString(p.IPF.yaml("    "))
		}
	}
	return b.String()
}

// ---------------------------------------------------------------- recording mapper

const (
	hdrBackend = "X-Verif-Backend"
	hdrPath    = "X-Verif-Path"
	hdrHost    = "X-Verif-Host"
	hdrXFF     = "X-Verif-Xff"
)

// recMapper hands out handlers that echo what they saw into the response, so that an
// observation travels with its own request (thread-safe, no shared slot).
type recMapper struct {
	mu      sync.Mutex
	missing map[string]bool
	calls   int64
}

type recHandler struct {
	name string
	m    *recMapper
}

func (m *recMapper) GetHandler(name string) (context.Handler, bool) {
	if m.missing[name] {
		return nil, false
	}
	return &recHandler{name: name, m: m}, true
}

func (h *recHandler) Handle(ctx *context.Context) string {
	h.m.mu.Lock()
	h.m.calls++
	h.m.mu.Unlock()
	req := ctx.GetInputRequest().(*httpprot.Request)
	resp, _ := httpprot.NewResponse(nil)
	resp.SetStatusCode(200)
	resp.HTTPHeader().Set(hdrBackend, h.name)
	resp.HTTPHeader().Set(hdrPath, req.Path())
	resp.HTTPHeader().Set(hdrHost, req.Host())
	resp.HTTPHeader().Set(hdrXFF, req.HTTPHeader().Get("X-Forwarded-For"))
	ctx.SetResponse(context.DefaultNamespace, resp)
	return ""
}

func (m *recMapper) Calls() int64 {
	m.mu.Lock()
	defer m.mu.Unlock()
	return m.calls
}

// buildMux builds a real mux for the spec; ok=false if validation rejects the spec.
func buildMux(s *gSpec, mapper context.MuxMapper) (*mux, error) {
	ss, err := supervisor.NewSpec(s.YAML("verif"))
	if err != nil {
		return nil, err
	}
	m := newMux(httpstat.New(), httpstat.NewTopN(10), mapper)
	m.reload(ss, mapper)
	return m, nil
}

func (q *gReq) std() *http.Request {
	// (httptest.NewRequest reads a CONNECT target as an authority; the generated CONNECT
	// requests carry an ordinary path like every other request, so the method is set afterwards)
	r := httptest.NewRequest("GET", "http://placeholder"+q.Path, http.NoBody)
	r.Method = q.Method
	r.Host = q.Host
	for _, kv := range q.Headers {
		r.Header.Add(kv[0], kv[1])
	}
	if q.RemoteAddr != "" {
		r.RemoteAddr = q.RemoteAddr
	}
	return r
}

// serve sends one request through the real mux and returns the client's observation.
func serve(m *mux, q *gReq) gOut {
	w := httptest.NewRecorder()
	m.ServeHTTP(w, q.std())
	return gOut{
		Status:  w.Code,
		Backend: w.Header().Get(hdrBackend),
		Path:    w.Header().Get(hdrPath),
		Host:    w.Header().Get(hdrHost),
		XFF:     w.Header().Get(hdrXFF),
	}
}

// ---------------------------------------------------------------- reference router (C01)

type refDecision struct {
	Out      gOut
	Rule     int    // winning rule index, -1 if none
	PathIdx  int    // winning path index
	Why      string // what decided: win / hdr400 / method405 / none404 / nobackend503
	Rewrite  string // none / exact / prefix / regexp
	HostKind string
	// HdrBoth: some entry whose header condition was evaluated carries a matcher with both
	// values and regexp, and the request's value satisfies exactly one of the two in a way
	// that decides the entry's header verdict ("all": under matchAllHeader, "any": without,
	// "all+any", or "" when no such entry was consulted).
	HdrBoth string
}

func stripPort(host string) string {
	if h, _, err := net.SplitHostPort(host); err == nil {
		return h
	}
	return host
}

// refBracketReading: for a Host that is a bracketed IPv6 literal WITH a port
// ("[2001:db8::1]:8080") the property's "port ignored" can be read in two ways: the host is
// the bare address (what net.SplitHostPort returns, and what stripPort / the reference use)
// or the bracketed literal as it would have been sent without a port ("[2001:db8::1]").  The
// second reading is returned here (as a Host value without port, which stripPort leaves
// untouched), so that a monitor can tell whether both readings route the request alike.
// ok=false for every other host (names, IPv4 literals, bracketed literals without a port),
// where the host with the port ignored is not in doubt.
func refBracketReading(host string) (alt string, ok bool) {
	if !strings.HasPrefix(host, "[") {
		return "", false
	}
	h, _, err := net.SplitHostPort(host)
	if err != nil {
		return "", false
	}
	return "[" + h + "]", true
}

// reqHostClass: name / v4 / v6 (bracketed literal), "+port" when the Host carries a port.
func reqHostClass(host string) string {
	h, port := host, ""
	if x, _, err := net.SplitHostPort(host); err == nil {
		h, port = x, "+port"
	}
	h = strings.TrimSuffix(strings.TrimPrefix(h, "["), "]")
	switch ip := net.ParseIP(h); {
	case ip == nil:
		return "name" + port
	case ip.To4() != nil:
		return "v4" + port
	}
	return "v6" + port
}

func refHostMatch(r *gRule, host string) (bool, string) {
	if r.Host == "" && r.HostRegexp == "" {
		return true, "any"
	}
	h := stripPort(host)
	if r.Host != "" && r.Host == h {
		return true, "exact"
	}
	if r.HostRegexp != "" && regexp.MustCompile(r.HostRegexp).MatchString(h) {
		return true, "regexp"
	}
	return false, ""
}

func refPathMatch(p *gPath, path string) (bool, string) {
	if p.Path == "" && p.Prefix == "" && p.Regexp == "" {
		return true, "any"
	}
	if p.Path != "" && p.Path == path {
		return true, "exact"
	}
	if p.Prefix != "" && strings.HasPrefix(path, p.Prefix) {
		return true, "prefix"
	}
	if p.Regexp != "" && regexp.MustCompile(p.Regexp).MatchString(path) {
		return true, "regexp"
	}
	return false, ""
}

// refMatchKinds lists which of the entry's path matchers match the path.
func refMatchKinds(p *gPath, path string) []string {
	var k []string
	if p.Path != "" && p.Path == path {
		k = append(k, "exact")
	}
	if p.Prefix != "" && strings.HasPrefix(path, p.Prefix) {
		k = append(k, "prefix")
	}
	if p.Regexp != "" && regexp.MustCompile(p.Regexp).MatchString(path) {
		k = append(k, "regexp")
	}
	return k
}

func refHeaderGet(q *gReq, key string) string {
	ck := http.CanonicalHeaderKey(key)
	for _, kv := range q.Headers {
		if http.CanonicalHeaderKey(kv[0]) == ck {
			return kv[1]
		}
	}
	return ""
}

// refOneHeader: one header matcher against the request's value for its key.  A matcher
// carries values, a regexp, or both.  Every configured condition of the matcher must hold
// when the entry says matchAllHeader ("all" ranges over every configured condition); without
// matchAllHeader any configured condition is enough.  For a matcher that carries only one of
// the two, both readings coincide.
func refOneHeader(h *gHeader, v string, all bool) bool {
	inValues := false
	for _, x := range h.Values {
		if x == v {
			inValues = true
		}
	}
	reOK := h.Regexp != "" && regexp.MustCompile(h.Regexp).MatchString(v)
	if all {
		return (len(h.Values) == 0 || inValues) && (h.Regexp == "" || reOK)
	}
	return inValues || reOK
}

func refHeadersMatchAs(p *gPath, q *gReq, swapBoth bool) bool {
	if len(p.Headers) == 0 {
		return true
	}
	one := func(h *gHeader) bool {
		all := p.MatchAll
		if swapBoth && len(h.Values) > 0 && h.Regexp != "" {
			all = !all
		}
		return refOneHeader(h, refHeaderGet(q, h.Key), all)
	}
	if p.MatchAll {
		for i := range p.Headers {
			if !one(&p.Headers[i]) {
				return false
			}
		}
		return true
	}
	for i := range p.Headers {
		if one(&p.Headers[i]) {
			return true
		}
	}
	return false
}

func refHeadersMatch(p *gPath, q *gReq) bool { return refHeadersMatchAs(p, q, false) }

// refHdrBothDecides: the entry's header verdict hinges on a both-carrying matcher of which
// the request satisfies exactly one condition (the verdict flips if such matchers are read
// the other way round).  Only used for coverage accounting, never for a verdict.
func refHdrBothDecides(p *gPath, q *gReq) bool {
	return refHeadersMatchAs(p, q, false) != refHeadersMatchAs(p, q, true)
}

func refMethodMatch(p *gPath, m string) bool {
	if len(p.Methods) == 0 {
		return true
	}
	for _, x := range p.Methods {
		if x == m {
			return true
		}
	}
	return false
}

// refRoute is the C01 sentence, IP filters ignored.
func refRoute(s *gSpec, q *gReq, missing map[string]bool) refDecision {
	return refRouteAs(s, q, missing, false)
}

// refRouteAs with swapBoth=true routes as if matchers carrying both values and regexp were
// read the other way round (any-of under matchAllHeader, all-of without).  That variant is
// never an oracle: it only serves to label a disagreement that has already been found.
func refRouteAs(s *gSpec, q *gReq, missing map[string]bool, swapBoth bool) refDecision {
	hdrMis, methMis := false, false
	bothAll, bothAny := false, false
	hdrBoth := func() string {
		switch {
		case bothAll && bothAny:
			return "all+any"
		case bothAll:
			return "all"
		case bothAny:
			return "any"
		}
		return ""
	}
	for ri := range s.Rules {
		r := &s.Rules[ri]
		ok, hk := refHostMatch(r, q.Host)
		if !ok {
			continue
		}
		for pi := range r.Paths {
			p := &r.Paths[pi]
			ok, pk := refPathMatch(p, q.Path)
			if !ok {
				continue
			}
			if !refMethodMatch(p, q.Method) {
				methMis = true
				continue
			}
			if refHdrBothDecides(p, q) {
				if p.MatchAll {
					bothAll = true
				} else {
					bothAny = true
				}
			}
			if !refHeadersMatchAs(p, q, swapBoth) {
				hdrMis = true
				continue
			}
			d := refDecision{Rule: ri, PathIdx: pi, Why: "win", Rewrite: "none", HostKind: hk, HdrBoth: hdrBoth()}
			if missing[p.Backend] {
				d.Out = gOut{Status: 503}
				d.Why = "nobackend503"
				return d
			}
			path := q.Path
			if p.Rewrite != "" {
				// an entry may carry several path matchers: the rewrite follows the matcher that
				// matched; when several match at once the property does not say which one
				// governs, so the rewritten path is then not judged ("ambiguous")
				kinds := refMatchKinds(p, q.Path)
				if len(kinds) == 1 {
					pk = kinds[0]
				} else {
					pk = "ambiguous"
				}
				switch pk {
				case "exact":
					path = p.Rewrite
				case "prefix":
					path = p.Rewrite + q.Path[len(p.Prefix):]
				case "regexp":
					path = regexp.MustCompile(p.Regexp).ReplaceAllString(q.Path, p.Rewrite)
				}
				d.Rewrite = pk
			}
			d.Out = gOut{Status: 200, Backend: p.Backend, Path: path, Host: q.Host}
			return d
		}
	}
	d := refDecision{Rule: -1, PathIdx: -1, HdrBoth: hdrBoth()}
	switch {
	case hdrMis:
		d.Out, d.Why = gOut{Status: 400}, "hdr400"
	case methMis:
		d.Out, d.Why = gOut{Status: 405}, "method405"
	default:
		d.Out, d.Why = gOut{Status: 404}, "none404"
	}
	return d
}

// ---------------------------------------------------------------- generators

var (
	genHosts       = []string{"a.com", "b.com", "a.co", "x.a.com"}
	genHostRegexps = []string{`^a\.`, `\.com$`, `^[a-z]+\.a\.com$`, `^(a|b)\.com$`}
	genPaths       = []string{"/a", "/a/b", "/ab", "/b", "/a/b/c", "/", "/b/a"}
	genPrefixes    = []string{"/a", "/a/", "/", "/b", "/a/b"}
	genPathRegexps = []string{`^/a`, `/b$`, `^/(a|b)/(.*)$`, `^/[a-z]+$`, `^/a/([a-z])/?(.*)$`}
	genMethods     = []string{"GET", "POST", "PUT", "DELETE"}
	// every method the spec validation accepts in a path's method list (genOpts.allMethods)
	genAllMethods = []string{"GET", "HEAD", "POST", "PUT", "PATCH", "DELETE", "CONNECT", "OPTIONS", "TRACE"}
	genHdrKeys     = []string{"X-V", "X-Env", "User-Kind"}
	genHdrVals     = []string{"canary", "prod", "v1"}
	// the last two also accept the empty value, i.e. an absent header
	genHdrRegexps = []string{`^can`, `^v[0-9]+$`, `prod|v1`, `^(|v1)$`, `.*`}
	genBackends   = []string{"be-0", "be-1", "be-2", "be-3", "be-4", "be-5", "gone"}

	// IP-literal hosts (genOpts.ipHosts).  Request side: what a client puts into Host when it
	// addresses the server by address: an IPv4 address or a bracketed IPv6 literal, each with
	// or without a port.  Rule side: exact hosts and regexps an operator writes for such
	// literals: the bracketed form (what arrives when there is no port), the bare address,
	// regexps accepting either form, one form only, any literal of a family.
	genIPReqHosts    = []string{"[2001:db8::1]", "[2001:db8::2]", "[::1]", "10.0.0.1", "10.0.0.2", "127.0.0.1"}
	genIPHosts       = []string{"[2001:db8::1]", "2001:db8::1", "[2001:db8::2]", "[::1]", "::1", "10.0.0.1", "127.0.0.1"}
	genIPHostRegexps = []string{`^\[?2001:db8::[0-9a-f]+\]?$`, `^\[2001:db8::1\]$`, `^\[?::1\]?$`, `^\[.*\]$`, `^\[?[0-9a-f:]+\]?$`, `^10\.0\.0\.[0-9]+$`, `^[0-9.]+$`, `^(10\.0\.0\.1|\[?2001:db8::1\]?)$`}
)

func pick(rng *rand.Rand, ss []string) string { return ss[rng.Intn(len(ss))] }

func subset(rng *rand.Rand, ss []string, min int) []string {
	var out []string
	for _, s := range ss {
		if rng.Intn(2) == 0 {
			out = append(out, s)
		}
	}
	for len(out) < min {
		s := pick(rng, ss)
		dup := false
		for _, o := range out {
			dup = dup || o == s
		}
		if !dup {
			out = append(out, s)
		}
	}
	return out
}

type genOpts struct {
	headers  bool
	ipf      bool
	maxRules int
	maxPaths int
	// ipHosts: about half of the rules get a host condition written for IP literals (see
	// genIPHosts / genIPHostRegexps) and requests are drawn with IP-literal hosts too.
	ipHosts bool
	// allMethods: method lists are drawn from the full set of methods the validation accepts
	// (genAllMethods): single-method lists, lists with all nine, all but one, arbitrary
	// subsets; focusMethod (one of the nine, may be empty) is the method this spec's lists and
	// requests prefer, so that a run walks through the whole alphabet.
	allMethods  bool
	focusMethod string
}

// genMethodList: a method list over the full alphabet.
func genMethodList(rng *rand.Rand, focus string) []string {
	other := func() string { return pick(rng, genAllMethods) }
	pref := func() string {
		if focus != "" && rng.Intn(2) == 0 {
			return focus
		}
		return other()
	}
	switch rng.Intn(6) {
	case 0, 1: // a single method
		return []string{pref()}
	case 2: // all of them
		l := append([]string{}, genAllMethods...)
		rng.Shuffle(len(l), func(i, j int) { l[i], l[j] = l[j], l[i] })
		return l
	case 3: // all but one
		drop := pref()
		var l []string
		for _, m := range genAllMethods {
			if m != drop {
				l = append(l, m)
			}
		}
		return l
	default:
		l := subset(rng, genAllMethods, 1)
		if focus != "" && rng.Intn(2) == 0 {
			l = appendUniq(l, focus)
		}
		return l
	}
}

func genHeader(rng *rand.Rand) gHeader {
	h := gHeader{Key: pick(rng, genHdrKeys)}
	if rng.Intn(4) == 0 {
		h.Key = strings.ToLower(h.Key) // header names are case-insensitive
	}
	// a header matcher carries values, a regexp, or both (both: every configured condition
	// must hold under matchAllHeader, any of them otherwise)
	switch rng.Intn(4) {
	case 0:
		h.Regexp = pick(rng, genHdrRegexps)
	case 1:
		h.Regexp = pick(rng, genHdrRegexps)
		h.Values = subset(rng, genHdrVals, 1)
	default:
		h.Values = subset(rng, genHdrVals, 1)
	}
	return h
}

func genPath(rng *rand.Rand, o genOpts, n *int) gPath {
	p := gPath{Backend: fmt.Sprintf("be-%d", *n)}
	*n++
	if rng.Intn(12) == 0 {
		p.Backend = "gone"
	}
	k := rng.Intn(10)
	switch {
	case k < 3:
		p.Path = pick(rng, genPaths)
	case k < 6:
		p.Prefix = pick(rng, genPrefixes)
	case k < 9:
		p.Regexp = pick(rng, genPathRegexps)
	default: // matches every path
	}
	if k < 9 && rng.Intn(3) == 0 {
		switch {
		case p.Regexp != "":
			p.Rewrite = pick(rng, []string{"/r", "/r/$1", "/r/$2/$1", "$0/x"})
		default:
			p.Rewrite = pick(rng, []string{"/r", "/r/", "/"})
		}
	}
	if k < 9 && rng.Intn(6) == 0 {
		// a second (and sometimes third) matcher on the same entry, with or without rewrite
		if p.Path == "" {
			p.Path = pick(rng, genPaths)
		} else {
			p.Prefix = pick(rng, genPrefixes)
		}
		if p.Regexp == "" && rng.Intn(2) == 0 {
			p.Regexp = pick(rng, genPathRegexps)
		}
	}
	if o.allMethods {
		if rng.Intn(4) != 0 {
			p.Methods = genMethodList(rng, o.focusMethod)
		}
	} else if rng.Intn(2) == 0 {
		p.Methods = subset(rng, genMethods, 1)
	}
	if o.headers && rng.Intn(3) == 0 {
		nh := 1 + rng.Intn(2)
		for i := 0; i < nh; i++ {
			p.Headers = append(p.Headers, genHeader(rng))
		}
		p.MatchAll = rng.Intn(2) == 0
	}
	if o.ipf && rng.Intn(4) == 0 {
		p.IPF = genIPF(rng)
	}
	return p
}

var genNets = []string{"10.0.0.0/8", "10.1.0.0/16", "10.1.2.0/24", "10.1.2.3", "192.168.0.0/16", "172.16.5.0/24", "8.8.8.8", "8.8.0.0/16", "2001:db8::/32", "2001:db8::1", "0.0.0.0/0"}
var genClients = []string{"10.1.2.3", "10.1.2.4", "10.2.0.1", "192.168.1.1", "8.8.8.8", "8.8.4.4", "172.16.5.9", "1.2.3.4", "2001:db8::1", "2001:db9::1"}

func genIPF(rng *rand.Rand) *gIPF {
	f := &gIPF{BlockByDefault: rng.Intn(2) == 0}
	for i := rng.Intn(3); i > 0; i-- {
		f.Allow = appendUniq(f.Allow, pick(rng, genNets))
	}
	for i := rng.Intn(3); i > 0; i-- {
		f.Block = appendUniq(f.Block, pick(rng, genNets))
	}
	return f
}

func appendUniq(ss []string, s string) []string {
	for _, x := range ss {
		if x == s {
			return ss
		}
	}
	return append(ss, s)
}

// genHostMatcher gives the rule a random host condition (exact, regexp, both or none).
func genHostMatcher(rng *rand.Rand, r *gRule) {
	switch rng.Intn(6) {
	case 0, 1:
		r.Host = pick(rng, genHosts)
	case 2:
		r.HostRegexp = pick(rng, genHostRegexps)
	case 3:
		r.Host = pick(rng, genHosts)
		r.HostRegexp = pick(rng, genHostRegexps)
	}
}

// genIPHostMatcher gives the rule a host condition (exact, regexp or both) naming IP
// literals.
func genIPHostMatcher(rng *rand.Rand, r *gRule) {
	r.Host, r.HostRegexp = "", ""
	switch rng.Intn(5) {
	case 0, 1:
		r.Host = pick(rng, genIPHosts)
	case 2, 3:
		r.HostRegexp = pick(rng, genIPHostRegexps)
	case 4:
		r.Host = pick(rng, genIPHosts)
		r.HostRegexp = pick(rng, genIPHostRegexps)
	}
}

// genRule: one rule; n numbers the backends over the whole spec.
func genRule(rng *rand.Rand, o genOpts, n *int) gRule {
	r := gRule{}
	genHostMatcher(rng, &r)
	if o.ipHosts && rng.Intn(2) == 0 {
		genIPHostMatcher(rng, &r)
	}
	np := 1 + rng.Intn(o.maxPaths)
	for j := 0; j < np; j++ {
		r.Paths = append(r.Paths, genPath(rng, o, n))
	}
	// shadowing / duplicate entries: repeat an entry with another backend
	if rng.Intn(4) == 0 {
		d := r.Paths[rng.Intn(len(r.Paths))]
		d.Backend = fmt.Sprintf("be-%d", *n)
		*n++
		if rng.Intn(2) == 0 {
			d.Headers = nil
		}
		r.Paths = append(r.Paths, d)
	}
	if o.ipf && rng.Intn(4) == 0 {
		r.IPF = genIPF(rng)
	}
	return r
}

func genSpec(rng *rand.Rand, o genOpts) *gSpec {
	s := &gSpec{IPHosts: o.ipHosts, AllMethods: o.allMethods, FocusMethod: o.focusMethod}
	n := 0
	nr := 1 + rng.Intn(o.maxRules)
	for i := 0; i < nr; i++ {
		s.Rules = append(s.Rules, genRule(rng, o, &n))
	}
	if o.ipf && rng.Intn(3) == 0 {
		s.IPF = genIPF(rng)
	}
	if o.allMethods && o.focusMethod != "" {
		// one entry naming the focus method alone: a copy of some entry (same path condition,
		// own backend, headers kept or dropped) right in front of it or right behind it
		r := &s.Rules[rng.Intn(len(s.Rules))]
		pi := rng.Intn(len(r.Paths))
		d := r.Paths[pi]
		d.Backend = fmt.Sprintf("be-%d", n)
		d.Methods = []string{o.focusMethod}
		if rng.Intn(2) == 0 {
			d.Headers, d.MatchAll = nil, false
		}
		at := pi + rng.Intn(2)
		paths := append([]gPath{}, r.Paths[:at]...)
		paths = append(paths, d)
		r.Paths = append(paths, r.Paths[at:]...)
	}
	return s
}

// Host conditions that all accept the host "a.com" (with or without a port).
var genStackHostConds = []gRule{
	{}, {Host: "a.com"}, {HostRegexp: `^a\.`}, {HostRegexp: `\.com$`}, {HostRegexp: `^(a|b)\.com$`}, {Host: "b.com", HostRegexp: `^a\.`},
}

// genStackedSpec: 2-3 rules whose host conditions ALL accept "a.com" (catch-all, exact,
// regexps), so that a search for that host walks through several rules: an earlier rule may
// carry its own IP filter and header-conditioned entries without owning the requested path,
// a later rule owns it.
func genStackedSpec(rng *rand.Rand, o genOpts) *gSpec {
	s := &gSpec{}
	n := 0
	nr := 2 + rng.Intn(2)
	for i := 0; i < nr; i++ {
		r := genRule(rng, o, &n)
		c := genStackHostConds[rng.Intn(len(genStackHostConds))]
		r.Host, r.HostRegexp = c.Host, c.HostRegexp
		if o.ipf && r.IPF == nil && rng.Intn(2) == 0 {
			r.IPF = genIPF(rng)
		}
		s.Rules = append(s.Rules, r)
	}
	if o.ipf && rng.Intn(6) == 0 {
		s.IPF = genIPF(rng)
	}
	return s
}

// muxCacheProbe tells, without touching recency or assuming the key representation, whether
// the live route cache of m holds an entry under the key a request with this host, method
// and path would look up, and what kind of entry it is ("route" or "code<status>").  Any
// cached key whose printed form, braces and blanks removed, equals host+method+path counts.
func muxCacheProbe(m *mux, q *gReq) (hit bool, kind string) {
	mi := m.inst.Load().(*muxInstance)
	if mi.cache == nil {
		return false, ""
	}
	want := q.Host + q.Method + q.Path
	norm := strings.NewReplacer("{", "", "}", "", " ", "", "\x00", "")
	for _, ck := range mi.cache.Keys() {
		if norm.Replace(fmt.Sprint(ck)) != want {
			continue
		}
		if v, ok := mi.cache.Peek(ck); ok {
			hit = true
			if rt := v.(*route); rt.code != 0 {
				kind = fmt.Sprintf("code%d", rt.code)
			} else {
				kind = "route"
			}
		}
	}
	return hit, kind
}

// genReq produces a request biased towards the spec's own vocabulary.
func genReq(rng *rand.Rand, s *gSpec, withClient bool) gReq {
	q := gReq{Method: pick(rng, append([]string{"PATCH"}, genMethods...))}
	if s != nil && s.AllMethods {
		// any of the nine methods a list may name, or one that no list can name; the spec's
		// focus method and the methods its lists name are preferred
		q.Method = pick(rng, append([]string{"PROPFIND"}, genAllMethods...))
		switch k := rng.Intn(3); {
		case k == 0 && s.FocusMethod != "":
			q.Method = s.FocusMethod
		case k == 1:
			var listed []string
			for ri := range s.Rules {
				for pi := range s.Rules[ri].Paths {
					listed = append(listed, s.Rules[ri].Paths[pi].Methods...)
				}
			}
			if len(listed) > 0 {
				q.Method = pick(rng, listed)
			}
		}
	}
	q.Host = pick(rng, append([]string{"c.org"}, genHosts...))
	if rng.Intn(3) == 0 {
		q.Host += pick(rng, []string{":80", ":8080"})
	}
	if s != nil && s.IPHosts && rng.Intn(5) < 3 {
		// the server is addressed by address: IPv4 or bracketed IPv6 literal, with or
		// without a port
		q.Host = pick(rng, genIPReqHosts)
		if rng.Intn(2) == 0 {
			q.Host += pick(rng, []string{":80", ":8080"})
		}
	}
	q.Path = pick(rng, append([]string{"/a/b/c/d", "/zz", "/a/x", "/a/x/yy", "/ab/c"}, genPaths...))
	nh := rng.Intn(3)
	used := map[string]bool{}
	for i := 0; i < nh; i++ {
		k := pick(rng, genHdrKeys)
		if used[k] {
			continue // single-valued request headers only
		}
		used[k] = true
		q.Headers = append(q.Headers, [2]string{k, pick(rng, append([]string{"other", "v22"}, genHdrVals...))})
	}
	if withClient {
		ip := pick(rng, genClients)
		switch rng.Intn(3) {
		case 0:
			q.RemoteAddr = net.JoinHostPort(ip, "4711")
		case 1:
			// a single public address in X-Forwarded-For is taken as the client address;
			// private ones are skipped by the realip library, so only use it for public ones
			if isPublic(ip) {
				q.Headers = append(q.Headers, [2]string{"X-Forwarded-For", ip})
				q.RemoteAddr = "127.0.0.1:1"
			} else {
				q.RemoteAddr = net.JoinHostPort(ip, "4711")
			}
		case 2:
			q.Headers = append(q.Headers, [2]string{"X-Real-Ip", ip})
			q.RemoteAddr = "127.0.0.1:1"
		}
	}
	return q
}

func isPublic(ip string) bool {
	p := net.ParseIP(ip)
	if p == nil {
		return false
	}
	for _, c := range []string{"10.0.0.0/8", "172.16.0.0/12", "192.168.0.0/16", "127.0.0.0/8", "169.254.0.0/16", "fc00::/7", "fe80::/10", "::1/128"} {
		_, n, _ := net.ParseCIDR(c)
		if n.Contains(p) {
			return false
		}
	}
	return true
}

// clientIP is the address the property speaks of for a generated request: the client address
// as the gateway derives it (realip.FromRequest of the unchanged tree, re-stated here): when
// neither X-Real-Ip nor X-Forwarded-For carries a value, the host of RemoteAddr; otherwise the
// first entry of the comma-separated X-Forwarded-For value (blanks trimmed) that parses as an
// IP address and is not loopback / private / link-local; when there is none, the X-Real-Ip
// value as sent (possibly empty, possibly not an address).  "" = no address derivable.  Only
// the first header line of each name counts (the generator sends one line per name).
func (q *gReq) clientIP() string {
	xri, xff := refHeaderGet(q, "X-Real-Ip"), refHeaderGet(q, "X-Forwarded-For")
	if xri == "" && xff == "" {
		if !strings.Contains(q.RemoteAddr, ":") {
			return q.RemoteAddr
		}
		h, _, _ := net.SplitHostPort(q.RemoteAddr)
		return h
	}
	for _, a := range strings.Split(xff, ",") {
		a = strings.TrimSpace(a)
		if net.ParseIP(a) != nil && isPublic(a) {
			return a
		}
	}
	return xri
}

// genFwdClient gives the request a client by way of forwarding headers in every shape a chain
// of proxies produces (one header line per name), and returns the name of the shape.  Shapes
// marked (none) are those from which NO client address can be derived.
func genFwdClient(rng *rand.Rand, q *gReq) string {
	kept := q.Headers[:0:0]
	for _, kv := range q.Headers {
		if ck := http.CanonicalHeaderKey(kv[0]); ck != "X-Forwarded-For" && ck != "X-Real-Ip" {
			kept = append(kept, kv)
		}
	}
	q.Headers = kept
	q.RemoteAddr = net.JoinHostPort(pick(rng, []string{"127.0.0.1", "10.0.0.9", "8.8.4.4"}), "1")
	var pub, priv []string
	for _, c := range genClients {
		if isPublic(c) {
			pub = append(pub, c)
		} else {
			priv = append(priv, c)
		}
	}
	priv = append(priv, "127.0.0.1", "169.254.1.1", "::1", "fd00::1")
	junk := []string{"unknown", "_hidden", "client.example", "10.1.2", "8.8.8.8:4711"}
	xff := func(v string) { q.Headers = append(q.Headers, [2]string{"X-Forwarded-For", v}) }
	xri := func(v string) { q.Headers = append(q.Headers, [2]string{"X-Real-Ip", v}) }
	sep := func() string { return pick(rng, []string{", ", ",", " , "}) }
	switch rng.Intn(12) {
	case 0:
		xff(pick(rng, pub))
		return "xff-one-public"
	case 1:
		xff(pick(rng, priv))
		return "xff-one-private(none)"
	case 2:
		xff(pick(rng, priv) + sep() + pick(rng, priv))
		return "xff-several-all-private(none)"
	case 3:
		xff(pick(rng, junk))
		return "xff-unparsable(none)"
	case 4:
		xff(pick(rng, junk) + sep() + pick(rng, priv))
		return "xff-unparsable-and-private(none)"
	case 5:
		xff(pick(rng, priv) + sep() + pick(rng, pub) + sep() + pick(rng, pub))
		return "xff-private-then-public"
	case 6:
		xff(pick(rng, pub) + sep() + pick(rng, priv))
		return "xff-public-then-private"
	case 7:
		xff(pick(rng, junk) + sep() + pick(rng, pub))
		return "xff-unparsable-then-public"
	case 8:
		xff(pick(rng, append(priv, junk...)))
		xri(pick(rng, genClients))
		return "xff-nothing-usable+x-real-ip"
	case 9:
		xri(pick(rng, genClients))
		return "x-real-ip-only"
	case 10:
		xri(pick(rng, junk))
		return "x-real-ip-unparsable"
	default:
		// the header is there but empty: as if absent
		xff("")
		if rng.Intn(2) == 0 {
			xri(pick(rng, genClients))
			return "xff-empty+x-real-ip"
		}
		q.RemoteAddr = net.JoinHostPort(pick(rng, genClients), "4711")
		return "xff-empty-remoteaddr"
	}
}
