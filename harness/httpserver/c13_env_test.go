//go:build verif

package httpserver

// C13 environment: everything an accepted spec may legitimately need at run time is
// provided here, so that a panic observed by the monitor cannot be caused by a missing
// piece of the harness: a real single-member cluster (embedded etcd) and a real
// supervisor (system controllers, object registry), a GlobalFilter business controller,
// real pipelines behind the MuxMapper, local HTTP backends (proxy target, OAuth2
// introspection, remote filter), a certificate/key pair, an htpasswd file, etcd
// custom data for HeaderLookup / BasicAuth(ETCD).

import (
	"crypto/ecdsa"
	"crypto/elliptic"
	crand "crypto/rand"
	"crypto/x509"
	"crypto/x509/pkix"
	"encoding/base64"
	"encoding/json"
	"encoding/pem"
	"fmt"
	"io"
	"math/big"
	"net"
	"net/http"
	"net/http/httptest"
	"os"
	"path/filepath"
	"strings"
	"sync"
	"time"

	"github.com/golang-jwt/jwt"

	"github.com/megaease/easegress/pkg/api"
	"github.com/megaease/easegress/pkg/cluster"
	"github.com/megaease/easegress/pkg/context"
	"github.com/megaease/easegress/pkg/logger"
	"github.com/megaease/easegress/pkg/object/pipeline"
	"github.com/megaease/easegress/pkg/supervisor"

	// every registered filter kind (the set pkg/registry registers, minus objects
	// that are not part of the property)
	_ "github.com/megaease/easegress/pkg/filters/builder"
	_ "github.com/megaease/easegress/pkg/filters/certextractor"
	_ "github.com/megaease/easegress/pkg/filters/connectcontrol"
	_ "github.com/megaease/easegress/pkg/filters/corsadaptor"
	_ "github.com/megaease/easegress/pkg/filters/fallback"
	_ "github.com/megaease/easegress/pkg/filters/headerlookup"
	_ "github.com/megaease/easegress/pkg/filters/headertojson"
	_ "github.com/megaease/easegress/pkg/filters/kafka"
	_ "github.com/megaease/easegress/pkg/filters/kafkabackend"
	_ "github.com/megaease/easegress/pkg/filters/meshadaptor"
	_ "github.com/megaease/easegress/pkg/filters/mock"
	_ "github.com/megaease/easegress/pkg/filters/mqttclientauth"
	_ "github.com/megaease/easegress/pkg/filters/proxy"
	_ "github.com/megaease/easegress/pkg/filters/ratelimiter"
	_ "github.com/megaease/easegress/pkg/filters/remotefilter"
	_ "github.com/megaease/easegress/pkg/filters/requestadaptor"
	_ "github.com/megaease/easegress/pkg/filters/responseadaptor"
	_ "github.com/megaease/easegress/pkg/filters/topicmapper"
	_ "github.com/megaease/easegress/pkg/filters/validator"
	_ "github.com/megaease/easegress/pkg/filters/wasmhost"

	_ "github.com/megaease/easegress/pkg/object/globalfilter"
	_ "github.com/megaease/easegress/pkg/object/mqttproxy"
	_ "github.com/megaease/easegress/pkg/object/rawconfigtrafficcontroller"
	_ "github.com/megaease/easegress/pkg/object/serviceregistry"
	_ "github.com/megaease/easegress/pkg/object/statussynccontroller"
	_ "github.com/megaease/easegress/pkg/object/trafficcontroller"
)

func init() { logger.InitNop() }

const (
	x13JWTSecretHex = "6d79736563726574" // "mysecret"
	x13GFName       = "verif-gf"
)

type x13Env struct {
	tmp   string
	cls   cluster.Cluster
	super *supervisor.Supervisor
	api   *api.Server

	backend    *httptest.Server // proxy target
	introspect *httptest.Server // OAuth2 token introspection endpoint
	remote     *httptest.Server // RemoteFilter endpoint (echoes the context entity)

	certB64, keyB64 string // one self-signed pair, base64(PEM)
	certPEM, keyPEM string
	htpasswd        string // path of an htpasswd file with user "verif" / "secret"
	jwtHS256        string // valid HS256 token signed with x13JWTSecretHex
	jwtHS512        string

	mapper *x13Mapper

	// the hold armed by a client-gone request (c13_gone_test.go): every local server
	// passes holdPoint first
	holdMu sync.Mutex
	hold   *x13Hold
}

// x13Mapper is the MuxMapper handed to traffic gates.  As in production (the
// TrafficController's mapper) every handler is a real *pipeline.Pipeline.
type x13Mapper struct {
	mu    sync.Mutex
	pipes map[string]*pipeline.Pipeline
	calls int64
}

func (m *x13Mapper) GetHandler(name string) (context.Handler, bool) {
	m.mu.Lock()
	defer m.mu.Unlock()
	m.calls++
	p, ok := m.pipes[name]
	if !ok {
		return nil, false
	}
	return p, true
}

func x13MustPipeline(yamlConfig string) *pipeline.Pipeline {
	spec, err := supervisor.NewSpec(yamlConfig)
	if err != nil {
		panic(fmt.Errorf("c13 harness: environment pipeline rejected: %v", err))
	}
	p := &pipeline.Pipeline{}
	p.Init(spec, nil)
	return p
}

func x13FreePort() int {
	l, err := net.Listen("tcp", "127.0.0.1:0")
	if err != nil {
		panic(err)
	}
	defer l.Close()
	return l.Addr().(*net.TCPAddr).Port
}

func x13SelfSigned() (certPEM, keyPEM string) {
	key, err := ecdsa.GenerateKey(elliptic.P256(), crand.Reader)
	if err != nil {
		panic(err)
	}
	tmpl := &x509.Certificate{
		SerialNumber:          big.NewInt(13),
		Subject:               pkix.Name{CommonName: "verif.local", Organization: []string{"verif"}, Country: []string{"XX"}},
		NotBefore:             time.Now().Add(-time.Hour),
		NotAfter:              time.Now().Add(240 * time.Hour),
		KeyUsage:              x509.KeyUsageDigitalSignature | x509.KeyUsageCertSign,
		ExtKeyUsage:           []x509.ExtKeyUsage{x509.ExtKeyUsageServerAuth, x509.ExtKeyUsageClientAuth},
		BasicConstraintsValid: true,
		IsCA:                  true,
		DNSNames:              []string{"verif.local", "localhost"},
	}
	der, err := x509.CreateCertificate(crand.Reader, tmpl, tmpl, &key.PublicKey, key)
	if err != nil {
		panic(err)
	}
	kb, err := x509.MarshalECPrivateKey(key)
	if err != nil {
		panic(err)
	}
	certPEM = string(pem.EncodeToMemory(&pem.Block{Type: "CERTIFICATE", Bytes: der}))
	keyPEM = string(pem.EncodeToMemory(&pem.Block{Type: "EC PRIVATE KEY", Bytes: kb}))
	return
}

var (
	x13EnvOnce sync.Once
	x13TheEnv  *x13Env
	x13EnvErr  string
)

// x13GetEnv builds the environment once per test process.  A failure to build it (port
// collision of the embedded etcd with a parallel shard, ...) is the harness' problem and
// makes the run inconclusive, never a violation.
func x13GetEnv(tmp string) (*x13Env, string) {
	x13EnvOnce.Do(func() {
		defer func() {
			if e := recover(); e != nil {
				x13EnvErr = fmt.Sprint(e)
			}
		}()
		x13TheEnv = x13NewEnv(tmp)
	})
	if x13EnvErr != "" {
		return nil, x13EnvErr
	}
	return x13TheEnv, ""
}

func x13NewEnv(tmp string) *x13Env {
	e := &x13Env{tmp: tmp}

	// ---- cluster + supervisor, the way cmd/server/main.go builds them
	saved := os.Args
	os.Args = os.Args[:1] // option.Parse reads os.Args; the go test flags are not its business
	opt := cluster.CreateOptionsForTest(filepath.Join(tmp, "eg"))
	os.Args = saved
	// the object registry mirrors the running config into <home>/running_objects.yaml:
	// keep that under the scratch directory (the default home is the working directory)
	opt.HomeDir = filepath.Join(tmp, "eg")
	opt.AbsHomeDir = opt.HomeDir
	cls, err := cluster.New(opt)
	if err != nil {
		panic(fmt.Errorf("c13 harness: cluster.New: %v", err))
	}
	e.cls = cls
	e.super = supervisor.MustNew(opt, cls)
	// the admin API server: objects register API groups (MQTTProxy) and the server's
	// dynamic mux is the consumer of those registrations
	e.api = api.MustNewServer(opt, cls, e.super, nil)

	// ---- local servers
	e.backend = httptest.NewServer(http.HandlerFunc(func(w http.ResponseWriter, r *http.Request) {
		if e.holdPoint(w, r, true) {
			return
		}
		body, _ := io.ReadAll(r.Body)
		switch {
		case strings.HasPrefix(r.URL.Path, "/fail"):
			w.WriteHeader(503)
		case strings.HasPrefix(r.URL.Path, "/big"):
			w.Header().Set("Content-Type", "text/plain")
			w.Write([]byte(strings.Repeat("0123456789abcdef", 4096)))
		case strings.HasPrefix(r.URL.Path, "/chunked"):
			w.Header().Set("Content-Type", "text/plain")
			for i := 0; i < 3; i++ {
				w.Write([]byte("chunk-of-data-"))
				if f, ok := w.(http.Flusher); ok {
					f.Flush()
				}
			}
		default:
			w.Header().Set("Content-Type", "application/json")
			w.Header().Set("X-Verif-Backend", "1")
			fmt.Fprintf(w, `{"path":%q,"len":%d}`, r.URL.Path, len(body))
		}
	}))
	e.introspect = httptest.NewServer(http.HandlerFunc(func(w http.ResponseWriter, r *http.Request) {
		if e.holdPoint(w, r, false) {
			return
		}
		io.Copy(io.Discard, r.Body)
		w.Header().Set("Content-Type", "application/json")
		w.Write([]byte(`{"active":true,"sub":"verif-user","scope":"read write","client_id":"c"}`))
	}))
	e.remote = httptest.NewServer(http.HandlerFunc(func(w http.ResponseWriter, r *http.Request) {
		if e.holdPoint(w, r, false) {
			return
		}
		body, _ := io.ReadAll(r.Body)
		var v map[string]interface{}
		if json.Unmarshal(body, &v) != nil {
			w.WriteHeader(400)
			return
		}
		w.Header().Set("Content-Type", "application/json")
		w.Write(body)
	}))

	// ---- key material and files
	e.certPEM, e.keyPEM = x13SelfSigned()
	e.certB64 = base64.StdEncoding.EncodeToString([]byte(e.certPEM))
	e.keyB64 = base64.StdEncoding.EncodeToString([]byte(e.keyPEM))
	e.htpasswd = filepath.Join(tmp, "htpasswd")
	// user verif / password secret ({SHA} scheme of htpasswd)
	if err := os.WriteFile(e.htpasswd, []byte("verif:{SHA}5en6G6MezRroT3XKqkdPOmY/BfQ=\n"), 0o644); err != nil {
		panic(err)
	}
	secret := []byte("mysecret")
	claims := jwt.MapClaims{"sub": "verif-user", "scope": "read", "exp": time.Now().Add(24 * time.Hour).Unix()}
	e.jwtHS256, _ = jwt.NewWithClaims(jwt.SigningMethodHS256, claims).SignedString(secret)
	e.jwtHS512, _ = jwt.NewWithClaims(jwt.SigningMethodHS512, claims).SignedString(secret)

	// ---- etcd custom data used by HeaderLookup and BasicAuth(ETCD) seeds
	must := func(err error) {
		if err != nil {
			panic(fmt.Errorf("c13 harness: cluster put: %v", err))
		}
	}
	must(cls.Put("/custom-data/verif-lookup/alice", "ext-id: \"123\"\nplan: gold\n"))
	must(cls.Put("/custom-data/verif-lookup/alice-bananas", "ext-id: \"124\"\n"))
	must(cls.Put("/custom-data/verif-credentials/verif", "key: verif\nusername: verif\npassword: \"{SHA}5en6G6MezRroT3XKqkdPOmY/BfQ=\"\n"))

	// ---- a GlobalFilter business controller, created the way the admin API does it:
	// config written under the object prefix, picked up by the object registry.
	gf := "kind: GlobalFilter\nname: " + x13GFName + "\n" +
		"beforePipeline:\n  flow:\n  - filter: gf-before\n  filters:\n  - name: gf-before\n    kind: RequestAdaptor\n    header:\n      set:\n        X-Gf-Before: \"1\"\n" +
		"afterPipeline:\n  flow:\n  - filter: gf-after\n  filters:\n  - name: gf-after\n    kind: ResponseAdaptor\n    header:\n      set:\n        X-Gf-After: \"1\"\n"
	gfSpec, err := supervisor.NewSpec(gf)
	if err != nil {
		panic(fmt.Errorf("c13 harness: environment GlobalFilter rejected: %v", err))
	}
	must(cls.Put(cls.Layout().ConfigObjectKey(x13GFName), gfSpec.YAMLConfig()))
	deadline := time.Now().Add(90 * time.Second)
	for {
		if _, ok := e.super.GetBusinessController(x13GFName); ok {
			break
		}
		if time.Now().After(deadline) {
			panic("c13 harness: GlobalFilter controller did not appear in the supervisor")
		}
		time.Sleep(20 * time.Millisecond)
	}

	// ---- real pipelines behind the MuxMapper
	e.mapper = &x13Mapper{pipes: map[string]*pipeline.Pipeline{}}
	e.mapper.pipes["be-ok"] = x13MustPipeline("kind: Pipeline\nname: be-ok\nfilters:\n- name: m\n  kind: Mock\n  rules:\n  - code: 200\n    body: ok\n    headers:\n      X-Verif-Pipe: be-ok\n")
	e.mapper.pipes["be-proxy"] = x13MustPipeline("kind: Pipeline\nname: be-proxy\nfilters:\n- name: p\n  kind: Proxy\n  pools:\n  - servers:\n    - url: " + e.backend.URL + "\n")
	e.mapper.pipes["be-noresp"] = x13MustPipeline("kind: Pipeline\nname: be-noresp\nfilters:\n- name: a\n  kind: RequestAdaptor\n  header:\n    set:\n      X-A: \"1\"\n")
	// MQTT pipelines (used by MQTTProxy rules)
	e.mapper.pipes["mqtt-connect"] = x13MustPipeline("kind: Pipeline\nname: mqtt-connect\nfilters:\n- name: auth\n  kind: MQTTClientAuth\n  salt: \"\"\n  auth:\n  - username: verif\n    saltedSha256Pass: 2bb80d537b1da3e38bd30361aa855686bde0eacd7162fef6a25fe97bf527a25b\n")
	e.mapper.pipes["mqtt-any"] = x13MustPipeline("kind: Pipeline\nname: mqtt-any\nfilters:\n- name: cc\n  kind: ConnectControl\n  bannedClients: [\"banned\"]\n  bannedTopics: [\"banned/topic\"]\n")
	return e
}
