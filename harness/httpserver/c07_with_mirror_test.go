//go:build verif

package httpserver

// C07, "-1 streams a body of any size" (the backend gets the whole body) when other
// features of the Proxy look at the same request.  A streamed request body has exactly ONE
// reader; a buffered one can be handed out any number of times.  Everything optional that
// the Proxy does with a request besides forwarding it through the main pool - a mirrorPool
// whose filter matches, candidate pools whose filters are evaluated first, response
// compression (reads the request's Accept-Encoding), a RequestAdaptor in front (wraps the
// stream in a gzip reader / writer) - must leave the body that reaches the FORWARDING
// backend complete and intact, for bodies that arrive in many reads.
//
// Three recording backends: main pool, candidate pool, mirror pool.  The buffered routes
// (positive / default limit) of the same gateways are the control: there the mirror gets a
// full copy and the limit clauses (413, no backend - the mirror is a backend too - sees
// it) hold as without a mirror.

import (
	"bytes"
	"fmt"
	"testing"
	"time"

	"verif.local/kit"
)

// c07rFeature is a gateway kind of this part.
type c07rFeature struct {
	Name      string
	Mirror    string // filter kind of the mirrorPool ("" = no mirrorPool)
	Candidate string // filter kind of the candidate pool ("" = none)
	Compress  bool   // Proxy compression configured
	ReqAd     string // "" | compress | decompress
}

// Two test functions: a second reader of a gzip-wrapped stream does not merely steal bytes,
// it can bring the process down (the readers of pkg/util/readers are not made for two
// callers); the plain kinds report before the adapted ones run.
var c07rPlain = []c07rFeature{
	{Name: "mirror", Mirror: "header"},
	{Name: "mirror+candidate", Mirror: "random-1000", Candidate: "header"},
	{Name: "candidate", Candidate: "header"},
	{Name: "mirror+compression", Mirror: "header-all", Compress: true},
}

var c07rAdapted = []c07rFeature{
	{Name: "mirror+reqadaptor-compress", Mirror: "header", ReqAd: "compress"},
	{Name: "mirror+candidate+reqadaptor-decompress", Mirror: "header", Candidate: "header-all", ReqAd: "decompress"},
}

const (
	c07rMirrorHeader = "X-E2e-Mirror"
	c07rCandHeader   = "X-E2e-Candidate"
	// c07rMirrorWait bounds the wait for the (asynchronous, best-effort: the mirror request
	// dies with the client request's context) mirror contact; its expiry is counted, never
	// judged
	c07rMirrorWait = 400 * time.Millisecond
)

func TestVerif_C07_StreamOneReader(t *testing.T) {
	c07rRun(t, c07rPlain, 8, 160, 1, "gateways {mirrorPool with a header filter; mirrorPool (policy random, permil 1000) + candidate pool with a header filter; candidate pool only; mirrorPool (matchAllHeaders) + Proxy compression (clients naming gzip, identity, no Accept-Encoding)}", []string{
		"one_stream_mirrored_passed_intact_small", "one_stream_mirrored_passed_intact_via_candidate",
		"one_stream_passed_intact_not-mirrored", "one_stream_passed_intact_via_candidate",
		"one_stream_passed_intact_with_compression",
		"one_buffered_above_413_no_backend_contacted", "one_buffered_above_413_mirror_untouched",
	}, 10)
}

func TestVerif_C07_StreamOneReaderAdapted(t *testing.T) {
	c07rRun(t, c07rAdapted, 4, 80, 4, "gateways {mirrorPool with a header filter + RequestAdaptor compress in front (the backend's bytes are gzip-decoded before the comparison); mirrorPool + candidate pool (matchAllHeaders) + RequestAdaptor decompress in front (the client sends the body gzip-labelled)}", []string{
		"one_stream_passed_intact_reqadaptor_compress", "one_stream_passed_intact_reqadaptor_decompress",
	}, 5)
}

// shrink divides the medium and big body sizes (gzip under the race detector is slow).
func c07rRun(t *testing.T, feats []c07rFeature, nQuick, nThorough, shrink int, gateways string, requires []string, minMirroredStreams int64) {
	r := kit.Start(t, "C07")
	defer r.Finish()
	if e2eNotReplayed(r) {
		return
	}
	r.Rule("streamed request bodies x the optional Proxy features that look at the same request: " + gateways + " x clientMaxBodySize -1 at server level, at path level over a buffered server-level limit (unset / 300000..900000), or at server level under a buffered path-level limit x route cache on/off; main, candidate and mirror pool each have a recording backend of their own; per gateway 12 sequential POST/PUT exchanges on a kept-alive raw connection, bodies '<exchange id>@<offset>;' of 1..3000, 70-200 KB, 0.5-1.2 MB (a quarter of that, gzip-labelled in front of a decompressing adaptor, in the gateways with a RequestAdaptor), length-declared or chunked, written at once or paced (pieces of 4-16 KB, 30-180 us apart: many reads), with / without the header the mirror filter wants (3 of 4 with) and the header the candidate filter wants (1 of 2); on buffered routes additionally limit+1 (413, no backend and no mirror contact). Every contact's body at every backend is recorded. distinct = (features, stream or buffered, limit source, size class, framing, paced, mirrored, forwarding pool, outcome)")
	r.Assume("the oracle is the property's '-1 streams a body of any size' / 'passes intact' read at the backend of the pool that forwards the request (main or candidate): (1) a 2xx seen by the client requires a contact of a forwarding backend that received exactly the client's bytes (gzip-decoded first when a RequestAdaptor compresses; the plain bytes when it decompresses); (2) every contact of a forwarding backend that saw the body end cleanly received exactly those bytes; (3) the exchange ends with the scripted 200; (4) above a buffered limit: 413 and none of the three backends is contacted. What the mirror backend receives (placeholder or copy), which of main / candidate forwards and how many contacts are made is observed for Require(), not judged")
	var bes [3]*e2eBackend // main, candidate, mirror
	for j := range bes {
		be, err := e2eNewBackend()
		if err != nil {
			r.Inconclusive("cannot start backend: " + err.Error())
			return
		}
		defer be.Close()
		bes[j] = be
	}
	beMain, beCand, beMirror := bes[0], bes[1], bes[2]
	dd := &c07Dedupe{}
	sigs := map[string]int{}
	const perCase = 12
	n := r.N(nQuick, nThorough)
	for i := 0; i < n; i++ {
		if !r.Mine(i) {
			continue
		}
		rng := r.CaseRand(i)
		cfg := &e2eCfg{}
		// every kind meets every limit layout: the layout walks with the kind and is shifted
		// once per round over the kinds
		ft := feats[i%len(feats)]
		layout := (i%len(feats) + i/len(feats)) % 3
		switch layout {
		case 0:
			cfg.ServerClientMax = -1
		case 1:
			cfg.PathClientMax = -1
			if rng.Intn(2) == 0 {
				cfg.ServerClientMax = int64(300000 + rng.Intn(600000))
			}
		default:
			cfg.ServerClientMax = -1
			cfg.PathClientMax = int64(300000 + rng.Intn(600000))
		}
		if rng.Intn(2) == 0 {
			cfg.CacheSize = 64
		}
		if ft.Mirror != "" {
			cfg.Mirror = &e2ePoolX{Port: beMirror.port, Filter: ft.Mirror, HeaderName: c07rMirrorHeader, HeaderValue: "yes"}
		}
		if ft.Candidate != "" {
			cfg.Candidate = &e2ePoolX{Port: beCand.port, Filter: ft.Candidate, HeaderName: c07rCandHeader, HeaderValue: "yes"}
		}
		if ft.Compress {
			m := []int{0, 20, 1000}[rng.Intn(3)]
			cfg.Compression = &m
		}
		switch ft.ReqAd {
		case "compress":
			cfg.ReqAd = &e2eAdaptor{Compress: true}
		case "decompress":
			cfg.ReqAd = &e2eAdaptor{Decompress: true}
		}
		r.Case(i, map[string]interface{}{"cfg": cfg, "features": ft.Name})
		gw, err := e2eStart(cfg, beMain)
		if err != nil {
			r.Inconclusive("gateway did not start: " + err.Error())
			continue
		}
		cl := &e2eClient{addr: gw.addr}
		var aboveIDs []string
		for k := 0; k < perCase; k++ {
			id := fmt.Sprintf("c07r-%d-%d-%d", r.Seed(), i, k)
			// streams first: 2 of 3 exchanges take the route that streams
			route := "/upload"
			streamRoute := "/upload"
			if layout == 1 {
				streamRoute = "/lim/upload"
			}
			if k%3 == 2 {
				route = map[string]string{"/upload": "/lim/upload", "/lim/upload": "/upload"}[streamRoute]
			} else {
				route = streamRoute
			}
			levels, names := []int64{cfg.PathClientMax, cfg.ServerClientMax}, []string{"path", "server"}
			if route == "/upload" {
				levels, names = levels[1:], names[1:]
			}
			eff, src := c07Eff(levels, names)
			class := "buffered"
			if eff < 0 {
				class = "stream"
			}
			size, sizeClass := 0, ""
			switch x := (k + i) % 6; {
			case x == 0:
				size, sizeClass = 1+rng.Intn(3000), "small"
			case x < 4:
				size, sizeClass = (70000+rng.Intn(130000))/shrink, "medium"
			default:
				size, sizeClass = (500000+rng.Intn(700000))/shrink, "big"
			}
			above := false
			if eff > 0 && eff != c07Default && k%6 == 5 {
				size, sizeClass, above = int(eff)+1, "above", true
			} else if eff > 0 && int64(size) > eff {
				size = int(eff)
			}
			body := e2ePatternBody(id, size)
			wire, atBackend := body, "plain"
			hdrs := [][2]string{{"Host", "limits.example"}, {e2eIDHeader, id}, {"Content-Type", "application/octet-stream"}}
			if ft.ReqAd == "decompress" && !above {
				wire = e2eGzip(body)
				hdrs = append(hdrs, [2]string{"Content-Encoding", "gzip"})
			}
			if ft.ReqAd == "compress" {
				atBackend = "gzip"
			}
			mirrored := false
			if cfg.Mirror != nil {
				mirrored = cfg.Mirror.Filter == "random-1000"
				if (k+i/2)%4 != 3 {
					hdrs = append(hdrs, [2]string{c07rMirrorHeader, "yes"})
					mirrored = true
				} else if rng.Intn(2) == 0 {
					hdrs = append(hdrs, [2]string{c07rMirrorHeader, "no"})
				}
			}
			wantPool := "main"
			if cfg.Candidate != nil && (k+i)%2 == 0 {
				hdrs = append(hdrs, [2]string{c07rCandHeader, "yes"})
				wantPool = "candidate"
			}
			if ft.Compress {
				// the Proxy compresses for clients that name gzip or send no Accept-Encoding
				if ae := []string{"gzip", "", "identity", "gzip, deflate"}[rng.Intn(4)]; ae != "" {
					hdrs = append(hdrs, [2]string{"Accept-Encoding", ae})
				}
			}
			fr := []string{"cl", "chunked"}[(k/2+i)%2]
			chunk := []int{4096, 16384, 70000}[rng.Intn(3)]
			pace := 0
			if (k+i)%3 != 0 {
				pace = 30 + rng.Intn(150)
				if chunk > 16384 {
					chunk = 8192
				}
				if len(wire) > 400000 {
					chunk = 16384
				}
			}
			q := &e2eReq{Method: []string{"POST", "PUT"}[rng.Intn(2)], Target: route + "?k=" + id, Body: wire, Framing: fr, Chunk: chunk, PaceUs: pace, Headers: hdrs}
			want := e2ePatternBody("resp-of-"+id, 30+rng.Intn(3000))
			sc := &e2eScript{Status: 200, Headers: [][2]string{{"Content-Type", "text/plain"}}, Body: want, Mode: "cl"}
			beMain.Script(id, sc)
			beCand.Script(id, sc)
			beMirror.Script(id, &e2eScript{Status: 200, Body: []byte("mirrored"), Mode: "cl"})
			res := cl.Do(q, func() bool { return beMain.Contacted(id) || beCand.Contacted(id) })
			// the mirror works on its own: give it time (no verdict depends on it)
			if mirrored && !above {
				for dl := time.Now().Add(c07rMirrorWait); !beMirror.Contacted(id) && time.Now().Before(dl); {
					time.Sleep(300 * time.Microsecond)
				}
			}
			seenMain, seenCand, seenMirror := beMain.Take(id), beCand.Take(id), beMirror.Take(id)
			r.Eval(1)
			desc := map[string]interface{}{"cfg": cfg, "features": ft.Name, "id": id, "route": route, "effectiveLimit": eff, "limitFrom": src, "bodySize": size, "wireSize": len(wire),
				"framing": fr, "chunk": chunk, "paceUs": pace, "requestHeaders": hdrs, "mirrorFilterMatches": mirrored, "candidateFilterMatches": wantPool == "candidate",
				"response": res.Resp, "ioErr": res.IOErr, "writeErr": res.WriteErr}
			contacts := func(name string, s *e2eSeen) {
				var got []string
				for a, b := range c07sBodies(s) {
					got = append(got, fmt.Sprintf("contact %d: %d bytes, read error %q, %s", a+1, len(b), s.BodyErrs[a], e2eBrief(b)))
				}
				desc[name+"BackendContacts"] = got
			}
			contacts("main", seenMain)
			contacts("candidate", seenCand)
			contacts("mirror", seenMirror)
			c07Panics(r, dd, gw, desc)
			if res.Watchdog {
				r.Inconclusive("socket watchdog fired: " + res.IOErr + " " + res.WriteErr)
				continue
			}
			resp := res.Resp
			mtag := "not-mirrored"
			if mirrored {
				mtag = "mirrored"
			}
			// the signature names what went wrong and the input class (stream or buffered,
			// features of the gateway, whether this request went to the mirror too);
			// framing, pacing, limit source and sizes are in the detail
			bad := func(what string) {
				sig := "C07:req-one-reader:" + class + ":" + what + ":" + ft.Name + ":" + mtag
				r.Count("oracle_refutations", 1)
				if sigs[sig]++; sigs[sig] <= 2 {
					r.Violation(sig, desc)
				}
			}
			r.Count("one_"+class+"_exchanges", 1)
			r.Count("one_"+class+"_limit_from_"+src, 1)
			outcome := fmt.Sprintf("%d", resp.Status)
			if resp.FramingErr != "" {
				outcome = "aborted"
			}

			if above {
				// (4) the limit clauses with a mirror in place
				switch {
				case resp.FramingErr != "":
					bad("above:framing")
				case resp.Status != 413:
					bad(fmt.Sprintf("above:status-got%d-want413", resp.Status))
				}
				if seenMain != nil || seenCand != nil {
					bad("above:oversized-request-reached-backend")
				}
				if seenMirror != nil {
					bad("above:oversized-request-reached-mirror-backend")
				}
				if resp.Status == 413 && seenMain == nil && seenCand == nil && seenMirror == nil {
					r.Count("one_buffered_above_413_no_backend_contacted", 1)
					if mirrored {
						r.Count("one_buffered_above_413_mirror_untouched", 1)
					}
				}
				r.Cover(fmt.Sprintf("req-one-reader/%s/%s/%s/above/%s/paced=%v/%s/%s", ft.Name, class, src, fr, pace > 0, mtag, outcome))
				aboveIDs = append(aboveIDs, id)
				continue
			}

			// (2) every forwarding contact that saw the body end cleanly got the client's bytes
			delivered, forwardedBy, nForward := false, "", 0
			for _, fw := range []struct {
				name string
				seen *e2eSeen
			}{{"main", seenMain}, {"candidate", seenCand}} {
				for a, b := range c07sBodies(fw.seen) {
					nForward++
					forwardedBy = fw.name
					if fw.seen.BodyErrs[a] != "" {
						continue // aborted transfer: the backend knows it has no complete body
					}
					got := b
					if atBackend == "gzip" {
						dec, derr := e2eGunzip(b)
						if derr != nil {
							desc["backendGunzipError"] = derr.Error()
							bad(fw.name + "-backend-got-undecodable-gzip-as-complete")
							continue
						}
						got = dec
					}
					if !bytes.Equal(got, body) {
						d := e2eBodyDiff(body, got)
						d["backend"], d["contact"] = fw.name, a+1
						desc["backendBodyDiff"] = d
						what := "other-body"
						switch {
						case len(got) == 0:
							what = "empty-body"
						case len(got) < len(body):
							what = "shorter-body"
						}
						bad(fw.name + "-backend-got-" + what + "-as-complete")
						continue
					}
					delivered = true
				}
			}
			// (1), (3)
			switch {
			case resp.FramingErr != "":
				fk := resp.FramingErr
				for j := 0; j < len(fk); j++ {
					if fk[j] == '(' {
						fk = fk[:j]
						break
					}
				}
				bad("framing:" + fk)
			case resp.Status/100 == 2:
				gotResp := resp.Body
				if ft.Compress && e2eHasToken(e2eValues(resp.Headers, "Content-Encoding"), "gzip") {
					dec, derr := e2eGunzip(resp.Body)
					if derr != nil {
						desc["responseGunzipError"] = derr.Error()
					}
					gotResp = dec
					r.Count("one_"+class+"_response_compressed", 1)
				}
				if !delivered {
					bad("client-got-2xx-but-no-forwarding-backend-received-the-body")
				} else if !bytes.Equal(gotResp, want) {
					desc["responseBodyDiff"] = e2eBodyDiff(want, gotResp)
					bad("response-body-differs")
				} else {
					r.Count("one_"+class+"_passed_intact", 1)
					r.Count("one_"+class+"_passed_intact_"+fr, 1)
					r.Count("one_"+class+"_passed_intact_"+mtag, 1)
					r.Count("one_"+class+"_passed_intact_via_"+forwardedBy, 1)
					if mirrored {
						r.Count("one_"+class+"_mirrored_passed_intact_"+sizeClass, 1)
						r.Count("one_"+class+"_mirrored_passed_intact_via_"+forwardedBy, 1)
						if pace > 0 {
							r.Count("one_"+class+"_mirrored_paced_passed_intact", 1)
						}
					}
					if ft.ReqAd != "" {
						r.Count("one_"+class+"_passed_intact_reqadaptor_"+ft.ReqAd, 1)
					}
					if ft.Compress {
						r.Count("one_"+class+"_passed_intact_with_compression", 1)
					}
				}
			default:
				bad(fmt.Sprintf("status-got%d-want200", resp.Status))
			}
			// observations about the input class (never verdicts)
			if forwardedBy != "" && forwardedBy != wantPool {
				r.Count("one_forwarded_by_other_pool_than_the_filters_say", 1)
			}
			if nForward > 1 {
				r.Count("one_"+class+"_forwarded_more_than_once", 1)
			}
			mirrorGot := "no-contact"
			if seenMirror != nil {
				mb := seenMirror.Bodies[0]
				full := bytes.Equal(mb, body)
				if atBackend == "gzip" {
					if dec, derr := e2eGunzip(mb); derr == nil && bytes.Equal(dec, body) && len(body) > 0 {
						full = true
					}
				}
				switch {
				case full:
					mirrorGot = "full-copy"
				case len(mb) < 200 && !bytes.Contains(mb, []byte(id)):
					mirrorGot = "placeholder"
				default:
					mirrorGot = "something-else"
				}
				if !mirrored {
					r.Count("one_mirror_contacted_though_filter_does_not_match", 1)
				} else {
					r.Count("one_"+class+"_mirror_contacted", 1)
				}
			} else if mirrored {
				r.Count("one_mirror_contact_not_seen", 1)
			}
			if mirrored {
				r.Count("one_"+class+"_mirror_got:"+mirrorGot, 1)
			}
			r.Cover(fmt.Sprintf("req-one-reader/%s/%s/%s/%s/%s/paced=%v/%s/via-%s/mirror-%s/%s", ft.Name, class, src, sizeClass, fr, pace > 0, mtag, forwardedBy, mirrorGot, outcome))
			if i < 2 && k < 2 {
				r.Sample(desc)
			}
		}
		cl.Close()
		// a refused request must not have reached any backend later either (the mirror works
		// asynchronously)
		for _, id := range aboveIDs {
			for j, be := range bes {
				if be.Contacted(id) {
					be.Take(id)
					dd.record(r, "C07:req-one-reader:buffered:above:oversized-request-reached-backend-after-the-413:"+ft.Name,
						map[string]interface{}{"cfg": cfg, "id": id, "backend": []string{"main", "candidate", "mirror"}[j]})
				}
			}
		}
		gw.Close()
		for _, be := range bes {
			be.CloseIdle()
		}
	}
	for _, k := range append([]string{
		"one_stream_exchanges", "one_buffered_exchanges", "one_stream_limit_from_path", "one_stream_limit_from_server",
		// the input class: streams that the mirror filter matched, in both framings, medium and
		// big, paced, and the mirror was live
		"one_stream_passed_intact_cl", "one_stream_passed_intact_chunked",
		"one_stream_mirrored_passed_intact_medium", "one_stream_mirrored_passed_intact_big",
		"one_stream_mirrored_paced_passed_intact", "one_stream_mirrored_passed_intact_via_main",
		"one_stream_mirror_contacted",
		// the control
		"one_buffered_passed_intact_mirrored", "one_buffered_mirror_contacted",
	}, requires...) {
		r.Require(k, 1)
	}
	r.Require("one_stream_passed_intact_mirrored", minMirroredStreams)
}
