//go:build verif

package httpserver

import (
	"fmt"
	"math/rand"
	"net"
	"strings"
	"sync"
	"sync/atomic"
	"testing"

	"verif.local/kit"
)

// c12Probe tells, just before a request is served, whether the route cache of the
// cached twin already holds an entry under the key this request will look up, and
// which (host, method, path) triple put it there (tracked by the harness).
type c12Probe struct {
	owner map[string][3]string
}

func c12Key(q *gReq) string { return q.Host + q.Method + q.Path }

// c12VirtualHosts: 2-4 rules with distinct exact hosts, each with its own rule-level IP
// filter (different networks), paths with method lists so that 200, 404 and 405 all occur.
func c12VirtualHosts(rng *rand.Rand) *gSpec {
	s := &gSpec{}
	n := 2 + rng.Intn(3)
	for i := 0; i < n; i++ {
		f := &gIPF{BlockByDefault: rng.Intn(2) == 0}
		f.Allow = []string{genNets[(i*3+rng.Intn(3))%len(genNets)]}
		f.Block = []string{genNets[(i*3+1+rng.Intn(3))%len(genNets)]}
		s.Rules = append(s.Rules, gRule{Host: genHosts[i%len(genHosts)], IPF: f, Paths: []gPath{
			{Path: "/a", Methods: []string{"GET", "POST"}, Backend: fmt.Sprintf("be-%d", i)},
			{Prefix: "/b", Backend: fmt.Sprintf("be-%d", i+10)},
		}})
	}
	return s
}

func c12Norm(s string) string {
	return strings.NewReplacer("{", "", "}", "", " ", "", "\x00", "").Replace(s)
}

func c12Collisions(rng *rand.Rand) (a, b gReq) {
	// two different (host, method, path) triples whose plain concatenations coincide
	switch rng.Intn(3) {
	case 0: // host "a.co"+"MGET" vs host "a.com"+"GET"
		return gReq{Method: "GET", Host: "a.com", Path: "/a"}, gReq{Method: "MGET", Host: "a.co", Path: "/a"}
	case 1: // method GET + path "/a" on host "b.comP"?  use host/method boundary again
		return gReq{Method: "PUT", Host: "a.co", Path: "/b"}, gReq{Method: "T", Host: "a.coPU", Path: "/b"}
	default:
		return gReq{Method: "POST", Host: "b.com", Path: "/a/b"}, gReq{Method: "MPOST", Host: "b.co", Path: "/a/b"}
	}
}

// c12RewriteHeavy gives most header-less entries of the spec a rewriteTarget (exact, prefix
// and regexp entries alike), with targets that land inside the request vocabulary of the
// generator as well as outside of it, so that the rewritten path of one request is a path
// that other entries of the same server route on their own.
func c12RewriteHeavy(rng *rand.Rand, s *gSpec) {
	for ri := range s.Rules {
		for pi := range s.Rules[ri].Paths {
			p := &s.Rules[ri].Paths[pi]
			if p.Path == "" && p.Prefix == "" && p.Regexp == "" {
				continue // rewriteTarget needs a path condition
			}
			if len(p.Headers) > 0 || rng.Intn(3) == 0 {
				continue
			}
			switch {
			case p.Regexp != "":
				p.Rewrite = pick(rng, []string{"/r", "/r/$1", "/b/$1", "/$2", "/a/$1", "$0/c", "/a/b", "/ab"})
			case p.Prefix != "":
				p.Rewrite = pick(rng, append([]string{"/r", "/r/"}, genPrefixes...))
			default:
				p.Rewrite = pick(rng, append([]string{"/r", "/zz"}, genPaths...))
			}
		}
	}
}

// TestVerif_C12_Twin: two real muxes from the same spec, cacheSize 0 and n, fed the
// same request sequence; every observable must agree.
func TestVerif_C12_Twin(t *testing.T) {
	r := kit.Start(t, "C12")
	defer r.Finish()
	r.Rule("seeded HTTPServer specs (header-conditioned entries ahead of unconditional ones, method lists, IP filters at server/rule/path level, shadowing duplicates; one class of virtual-host servers whose rules each carry their own IP filter and produce 200/404/405 per host) x cache sizes {1,2,8,64} x sequences of 40 requests from mixed clients drawn from a pool of 10 (so repeats, warm-ups by other clients/headers and evictions occur) plus crafted (host,method,path) concatenation collisions; one class of rewrite-heavy servers (most header-less exact/prefix/regexp entries carry a rewriteTarget, targets inside and outside the request vocabulary); in every class a request that was served with a rewritten path is followed, at once or later in the same history, by a request of the same host/method/headers/client whose OWN path equals that rewritten path (a run must contain such follow-ups after exact, prefix and regexp rewrites whose originating route is in the cache); the same sequence is served by a cache-less twin; distinct = (cache hit?, uncached status, cached-entry kind, spec class, collision?, follow-up of a rewritten path?)")
	r.Assume("twin with cacheSize 0 is the oracle; both twins see byte-identical requests; cache hits are observed through the ARC cache's Contains on the key the request will use")
	nSpecs := r.N(1500, 40000)
	sizes := []int{1, 2, 8, 64}
	missing := map[string]bool{"gone": true}
	for i := 0; i < nSpecs; i++ {
		if !r.Mine(i) {
			continue
		}
		rng := r.CaseRand(i)
		class := i % 6 // 0: plain, 1: headers, 2: ip filters, 3: both, 4: virtual hosts with their own filters, 5: rewrite-heavy
		o := genOpts{headers: class == 1 || class == 3, ipf: class >= 2 && class <= 4, maxRules: 3, maxPaths: 3}
		withClients := class >= 2 && class <= 4
		spec := genSpec(rng, o)
		if class == 4 {
			spec = c12VirtualHosts(rng)
		}
		if class == 5 {
			c12RewriteHeavy(rng, spec)
		}
		if class == 1 {
			// the shape the property names: header-conditioned entry ahead of an unconditional
			// one, in the same rule or in an earlier rule matching the same host
			p := pick(rng, genPaths)
			canary := gPath{Path: p, Backend: "be-canary", Headers: []gHeader{{Key: "X-V", Values: []string{"canary"}}}}
			stable := gPath{Path: p, Backend: "be-stable"}
			switch rng.Intn(3) {
			case 0:
				spec.Rules = append([]gRule{{Paths: []gPath{canary, stable}}}, spec.Rules...)
			case 1:
				spec.Rules = append([]gRule{{Paths: []gPath{canary}}, {Paths: []gPath{stable}}}, spec.Rules...)
			}
		}
		cached := *spec
		cached.CacheSize = sizes[rng.Intn(len(sizes))]
		r.Case(i, map[string]interface{}{"spec": spec, "cacheSize": cached.CacheSize})
		m0, err0 := buildMux(spec, &recMapper{missing: missing})
		m1, err1 := buildMux(&cached, &recMapper{missing: missing})
		if err0 != nil || err1 != nil {
			r.Count("spec_rejected", 1)
			r.Note("spec rejected: %v %v", err0, err1)
			continue
		}
		// request pool: few distinct requests so that the sequence revisits keys
		pool := make([]gReq, 0, 12)
		for k := 0; k < 8; k++ {
			pool = append(pool, genReq(rng, spec, withClients))
		}
		if class == 4 {
			// per virtual host: a routed path, an unknown path (404) and an unlisted method (405),
			// each requested by several clients, so that negative results are cached for one
			// host, other hosts are searched in between, and the key is then hit by a client
			// the host's own filter treats differently
			pool = pool[:0]
			for _, r := range spec.Rules {
				for _, shape := range []gReq{{Method: "GET", Path: "/a"}, {Method: "GET", Path: "/nope"}, {Method: "PATCH", Path: "/a"}} {
					for n := 0; n < 2; n++ {
						q := shape
						q.Host = r.Host
						q.RemoteAddr = net.JoinHostPort(pick(rng, genClients), "55")
						pool = append(pool, q)
					}
				}
			}
		}
		// same key, other headers / other client
		for k := 0; k < 2; k++ {
			v := pool[rng.Intn(len(pool))]
			v.Headers = nil
			if rng.Intn(2) == 0 {
				v.Headers = [][2]string{{"X-V", "canary"}}
			}
			if withClients {
				v.RemoteAddr = pick(rng, genClients) + ":99"
			}
			pool = append(pool, v)
		}
		ca, cb := c12Collisions(rng)
		pool = append(pool, ca, cb)
		probe := c12Probe{owner: map[string][3]string{}}
		var trace []map[string]interface{}
		// follow-ups: key of a request whose own path is the rewritten path of an earlier one
		// -> that earlier request and the kind of rewrite it went through
		type c12Origin struct {
			req  gReq
			kind string
		}
		followUp := map[string]c12Origin{}
		requested := map[string]bool{}   // keys asked for so far in this history
		preexisting := map[string]bool{} // keys under which an entry was found before anybody asked for them
		var next *gReq
		for k := 0; k < 40; k++ {
			q := pool[rng.Intn(len(pool))]
			if next != nil {
				q, next = *next, nil
			}
			mi := m1.inst.Load().(*muxInstance)
			key := c12Key(&q)
			// The probe does not assume the cache's key representation: any cached key whose
			// printed form, braces and blanks removed, equals host+method+path counts.
			hit := false
			var cachedKind string
			if mi.cache != nil {
				for _, ck := range mi.cache.Keys() {
					if c12Norm(fmt.Sprint(ck)) != key {
						continue
					}
					if v, ok := mi.cache.Peek(ck); ok {
						hit = true
						if rt := v.(*route); rt.code != 0 {
							cachedKind = fmt.Sprintf("code%d", rt.code)
						} else {
							cachedKind = "route"
						}
					}
				}
			}
			collision := false
			if own, ok := probe.owner[key]; ok && hit {
				collision = own != [3]string{q.Host, q.Method, q.Path}
			}
			var g0, g1 gOut
			in := map[string]interface{}{"spec": spec, "cacheSize": cached.CacheSize, "req": q}
			if r.Guard("C12:nocache", in, func() { g0 = serve(m0, &q) }) {
				continue
			}
			if r.Guard("C12:cache", in, func() { g1 = serve(m1, &q) }) {
				continue
			}
			if _, ok := probe.owner[key]; !ok || !hit {
				probe.owner[key] = [3]string{q.Host, q.Method, q.Path}
			}
			if hit && !requested[key] {
				preexisting[key] = true
			}
			neverRequested := preexisting[key]
			requested[key] = true
			origin, isFollowUp := followUp[key]
			if isFollowUp {
				r.Count("rewrite_followups", 1)
				if oh, ok := muxCacheProbe(m1, &origin.req); oh && ok == "route" {
					// the route that produced the rewritten path is (still) in the cache
					r.Count("rewrite_followup_origin_cached_"+origin.kind, 1)
				}
			}
			if g0.Status == 200 && g0.Path != q.Path && g0.Path != "" && len(pool) < 28 {
				// served with a rewritten path: a request for exactly that path joins the pool and,
				// every other time, is the very next request
				f := q
				f.Path = g0.Path
				fk := c12Key(&f)
				if _, ok := followUp[fk]; !ok {
					followUp[fk] = c12Origin{req: q, kind: refRoute(spec, &q, missing).Rewrite}
					pool = append(pool, f)
					if rng.Intn(2) == 0 {
						next = &pool[len(pool)-1]
					}
				}
			}
			r.Eval(1)
			if hit {
				r.Count("cache_hits", 1)
				r.Count("cache_hits_class_"+fmt.Sprint(class), 1)
			}
			if collision {
				r.Count("key_collisions_exercised", 1)
			}
			r.Cover(fmt.Sprintf("hit=%v/%d/%s/class%d/coll=%v/followup=%v", hit, g0.Status, cachedKind, class, collision, isFollowUp))
			trace = append(trace, map[string]interface{}{"req": q, "hit": hit, "nocache": g0, "cache": g1})
			if g0.Status == g1.Status && g0.Backend == g1.Backend && g0.Path == g1.Path {
				continue
			}
			// classify the disagreement by what the cache did
			ref := refRoute(spec, &q, missing)
			kind := "other"
			switch {
			case !hit:
				kind = "miss-path-differs"
			case neverRequested && isFollowUp:
				kind = "entry-found-under-key-never-requested:key-path-is-rewritten-path-of-earlier-request:rewrite=" + origin.kind
			case neverRequested:
				kind = "entry-found-under-key-never-requested"
			case collision:
				kind = "key-collision:entry-stored-by-different-host-method-path"
			case cachedKind == "route" && g0.Status != 403 && (ref.Why == "hdr400" || (ref.Rule >= 0 && len(spec.Rules[ref.Rule].Paths[ref.PathIdx].Headers) > 0)):
				kind = "cached-headerless-route-hides-earlier-header-conditioned-entry"
			case g0.Status == 403 && cachedKind != "route":
				kind = "cached-" + cachedKind + "-served-to-client-the-uncached-server-refuses-403"
			case g0.Status == 403 && cachedKind == "route":
				kind = "cached-route-skips-ip-filter-of-earlier-host-matching-rule"
			case g1.Status == 403 && cachedKind == "route":
				kind = "cached-route-403-but-uncached-serves"
			case isFollowUp:
				kind = "entry-differs-under-key-whose-path-is-rewritten-path-of-earlier-request:rewrite=" + origin.kind
			}
			tail := trace
			if len(tail) > 12 {
				tail = tail[len(tail)-12:]
			}
			r.Violation("cache-not-transparent:"+kind, map[string]interface{}{
				"yaml": cached.YAML("verif"), "request": q, "cache_hit": hit, "cached_entry": cachedKind,
				"without_cache": g0, "with_cache": g1, "history_tail": tail,
			})
		}
		if i < 2 {
			r.Sample(map[string]interface{}{"spec": spec, "cacheSize": cached.CacheSize, "trace_head": trace[:minInt(3, len(trace))]})
		}
		m0.close()
		m1.close()
	}
	r.Require("cache_hits_class_0", 1)
	r.Require("cache_hits_class_1", 1)
	r.Require("cache_hits_class_2", 1)
	r.Require("cache_hits_class_3", 1)
	r.Require("cache_hits_class_4", 1)
	r.Require("cache_hits_class_5", 1)
	r.Require("rewrite_followup_origin_cached_exact", 1)
	r.Require("rewrite_followup_origin_cached_prefix", 1)
	r.Require("rewrite_followup_origin_cached_regexp", 1)
	r.Require("key_collisions_exercised", 1)
}

func minInt(a, b int) int {
	if a < b {
		return a
	}
	return b
}

// ---------------------------------------------------------------- one path entry, several hosts

// c12SharedHosts: the hosts the clients of the shared-path histories ask for; the front
// conditions below accept different subsets of them.
var c12SharedHosts = []string{"a.com", "b.com", "a.co", "x.a.com", "c.org"}

// c12FrontConds: host conditions of the rules that lie in front of the rule owning the
// shared entries; each accepts some of c12SharedHosts and not others.
var c12FrontConds = []gRule{
	{Host: "a.com"}, {Host: "b.com"}, {Host: "x.a.com"}, {Host: "a.co"},
	{HostRegexp: `^a\.`}, {HostRegexp: `\.com$`}, {HostRegexp: `^[a-z]+\.a\.com$`}, {HostRegexp: `^(a|b)\.com$`},
	{Host: "c.org", HostRegexp: `^x\.`}, {HostRegexp: `\.(co|org)$`},
}

// c12SplitFilter: a filter that admits some of the generated clients and refuses others.
func c12SplitFilter(rng *rand.Rand) *gIPF {
	nets := genNets[:len(genNets)-1] // without 0.0.0.0/0
	f := &gIPF{BlockByDefault: rng.Intn(2) == 0}
	l := []string{pick(rng, nets)}
	if rng.Intn(2) == 0 {
		l = appendUniq(l, pick(rng, nets))
	}
	if f.BlockByDefault {
		f.Allow = l
	} else {
		f.Block = l
	}
	return f
}

// c12SharedPathSpec: 1-3 front rules with host conditions that accept different subsets of
// the hosts, a third of them without and two thirds with a rule-level IP filter, whose entries
// mostly lie outside the paths the later rule serves (sometimes a method- or header-conditioned
// entry, sometimes an own entry inside that vocabulary); then one rule with a wide host
// condition (catch-all or a wide regexp) that owns 2-3 header-less entries; sometimes a
// catch-all rule behind it and a server-level filter.  Requests of different hosts therefore
// reach the SAME entry of the wide rule after walking through DIFFERENT earlier rules.
func c12SharedPathSpec(rng *rand.Rand) *gSpec {
	s := &gSpec{}
	n := 0
	be := func() string { n++; return fmt.Sprintf("be-%d", n-1) }
	optFilter := func(oneIn int) *gIPF {
		if rng.Intn(oneIn) != 0 {
			return nil
		}
		if rng.Intn(3) == 0 {
			return genIPF(rng)
		}
		return c12SplitFilter(rng)
	}
	nFront := 1 + rng.Intn(3)
	for i := 0; i < nFront; i++ {
		c := c12FrontConds[rng.Intn(len(c12FrontConds))]
		ru := gRule{Host: c.Host, HostRegexp: c.HostRegexp}
		if rng.Intn(3) != 0 {
			ru.IPF = optFilter(1)
		}
		for j := 1 + rng.Intn(2); j > 0; j-- {
			var p gPath
			switch rng.Intn(6) {
			case 0, 1:
				p = gPath{Prefix: "/admin"}
			case 2, 3:
				p = gPath{Path: fmt.Sprintf("/front%d", i)}
			case 4: // conditional entry inside the shared vocabulary
				if rng.Intn(2) == 0 {
					p = gPath{Path: "/a", Methods: []string{"DELETE"}}
				} else {
					p = gPath{Prefix: "/b", Headers: []gHeader{{Key: "X-V", Values: []string{"canary"}}}}
				}
			default: // the front rule owns a part of the shared vocabulary itself
				p = c12PickPath(rng, []gPath{{Prefix: "/b/a"}, {Path: "/a/b"}, {Regexp: `^/ab`}})
			}
			p.Backend = be()
			ru.Paths = append(ru.Paths, p)
		}
		s.Rules = append(s.Rules, ru)
	}
	wide := c12PickRule(rng, []gRule{{}, {}, {}, {HostRegexp: `\.com$`}, {HostRegexp: `^[a-z.]+$`}, {HostRegexp: `^(a|b|x\.a)\.com?$`}})
	wide.IPF = optFilter(3)
	entries := []gPath{{Path: "/a"}, {Prefix: "/b"}, {Regexp: `^/(a|b)/(.*)$`}, {Prefix: "/a/"}, {Path: "/ab"}, {}}
	rng.Shuffle(len(entries)-1, func(a, b int) { entries[a], entries[b] = entries[b], entries[a] }) // the match-all entry stays last
	for _, p := range entries[:2+rng.Intn(2)] {
		p.Backend = be()
		if rng.Intn(4) == 0 {
			p.Methods = []string{"GET", "POST"}
		}
		p.IPF = optFilter(4)
		if rng.Intn(6) == 0 && (p.Path != "" || p.Prefix != "" || p.Regexp != "") {
			p.Rewrite = "/r"
		}
		wide.Paths = append(wide.Paths, p)
	}
	s.Rules = append(s.Rules, wide)
	if rng.Intn(3) == 0 {
		s.Rules = append(s.Rules, gRule{IPF: optFilter(2), Paths: []gPath{{Prefix: "/", Backend: be()}}})
	}
	s.IPF = optFilter(5)
	return s
}

func c12PickPath(rng *rand.Rand, ps []gPath) gPath { return ps[rng.Intn(len(ps))] }
func c12PickRule(rng *rand.Rand, rs []gRule) gRule { return rs[rng.Intn(len(rs))] }

// c12Step: one request of a shared-path history: a client-less shape, asked by a client.
type c12Step struct {
	shape gReq
	ip    string
	viaH  bool
	role  string
}

// TestVerif_C12_SharedPath: K5 x K7 x K11: the SAME path entry reached through DIFFERENT hosts,
// i.e. through different earlier host-matching rules and their IP filters.
func TestVerif_C12_SharedPath(t *testing.T) {
	r := kit.Start(t, "C12")
	defer r.Finish()
	r.Rule("ONE PATH ENTRY, SEVERAL HOSTS: seeded servers of 1-3 front rules whose host conditions (exact hosts, regexps, both) accept different subsets of the hosts {a.com, b.com, a.co, x.a.com, c.org, one of them also with a port}, two thirds of the front rules with a rule-level IP filter and one third without, their entries mostly outside the paths of the later rule (sometimes a method- or header-conditioned entry or an own entry inside that vocabulary), followed by one rule with a wide host condition (catch-all or wide regexp; with/without rule filter) that owns 2-3 header-less entries (exact, prefix, regexp, match-all; some with path filter, method list, rewriteTarget), sometimes a catch-all rule behind and a server-level filter; x cache sizes {1,2,8,64}; histories: per server 2 pairs of request shapes (host A, host B) that the reference router sends to the same entry of a later rule, 4 of 5 pairs chosen such that the earlier host-matching rules WITH a filter differ between A and B (either order: A walks through more filters than B, or fewer); a client the cache-less server admits for A asks A (fills), a client it admits for B asks B (other key, miss, fills), then B is asked by 5 random clients plus up to 2 clients which the cache-less server treats differently for A and for B (refused for one, served for the other), then A by 3 clients; now and then a random request in between (evictions at size 1); 8 random requests at the end; every response (status, backend, rewritten path) must equal the cache-less twin's for that very request; a run must contain cache hits on a route under host B's key after another host with a different list of earlier filters reached the same entry, by clients the cache-less server refuses for the first host but admits for this one, and by clients it admits for the first host but refuses for this one; distinct = (cache hit?, cached-entry kind, uncached status, other host with other earlier filters reached the entry before?, client treated differently for that host?, cache size)")
	r.Assume("twin with cacheSize 0 is the oracle (it also tells, request by request, which clients a host admits: it keeps no state between requests); the reference router (IP filters ignored) and the spec's host conditions are used only to choose the histories and to label them, never for a verdict")
	nSpecs := r.N(200, 8000)
	sizes := []int{1, 2, 8, 64}
	missing := map[string]bool{"gone": true}
	for i := 0; i < nSpecs; i++ {
		if !r.Mine(i) {
			continue
		}
		rng := r.CaseRand(i)
		spec := c12SharedPathSpec(rng)
		cached := *spec
		cached.CacheSize = sizes[rng.Intn(len(sizes))]
		r.Case(i, map[string]interface{}{"kind": "shared-path", "spec": spec, "cacheSize": cached.CacheSize})
		m0, err0 := buildMux(spec, &recMapper{missing: missing})
		m1, err1 := buildMux(&cached, &recMapper{missing: missing})
		if err0 != nil || err1 != nil {
			r.Count("spec_rejected", 1)
			r.Note("spec rejected: %v %v", err0, err1)
			continue
		}
		panicked := false
		plain := func(q gReq) gOut { // the cache-less server's answer (stateless)
			var o gOut
			if r.Guard("C12:nocache", map[string]interface{}{"spec": spec, "req": q}, func() { o = serve(m0, &q) }) {
				panicked = true
			}
			return o
		}
		// earlier host-matching rules that carry a filter, for a request that ends in rule `upto`
		frontMemo := map[string]string{}
		frontSig := func(host string, upto int) string {
			mk := fmt.Sprintf("%s|%d", host, upto)
			if v, ok := frontMemo[mk]; ok {
				return v
			}
			var b strings.Builder
			for ri := 0; ri < upto; ri++ {
				if ok, _ := refHostMatch(&spec.Rules[ri], host); ok && spec.Rules[ri].IPF != nil {
					fmt.Fprintf(&b, "%d,", ri)
				}
			}
			frontMemo[mk] = b.String()
			return b.String()
		}
		// the shapes, grouped by the header-less entry the reference router sends them to
		hosts := append([]string{}, c12SharedHosts...)
		hosts = append(hosts, pick(rng, c12SharedHosts)+pick(rng, []string{":80", ":8080"}))
		var shapes []gReq
		groups := map[string][]gReq{}
		var groupIDs []string
		for _, h := range hosts {
			for _, p := range []string{"/a", "/a/b", "/ab", "/b", "/b/a", "/a/x", "/zz", "/b/x/y", "/front0", "/admin/x"} {
				for _, m := range []string{"GET", "POST", "DELETE"} {
					if m != "GET" && rng.Intn(4) != 0 {
						continue
					}
					q := gReq{Method: m, Host: h, Path: p}
					shapes = append(shapes, q)
					ref := refRoute(spec, &q, missing)
					if ref.Rule < 1 || len(spec.Rules[ref.Rule].Paths[ref.PathIdx].Headers) > 0 {
						continue
					}
					id := fmt.Sprintf("%d/%d", ref.Rule, ref.PathIdx)
					if groups[id] == nil {
						groupIDs = append(groupIDs, id)
					}
					groups[id] = append(groups[id], q)
				}
			}
		}
		type pair struct{ a, b gReq }
		var diffPairs, samePairs []pair
		for _, id := range groupIDs {
			var upto int
			fmt.Sscanf(id, "%d/", &upto)
			g := groups[id]
			for x := range g {
				for y := range g {
					if g[x].Host == g[y].Host {
						continue
					}
					if frontSig(g[x].Host, upto) != frontSig(g[y].Host, upto) {
						diffPairs = append(diffPairs, pair{g[x], g[y]})
					} else {
						samePairs = append(samePairs, pair{g[x], g[y]})
					}
				}
			}
		}
		if len(diffPairs) == 0 {
			r.Count("shared_path_specs_without_an_entry_reached_through_different_earlier_filters", 1)
		}
		randomStep := func(role string) c12Step {
			return c12Step{shape: shapes[rng.Intn(len(shapes))], ip: pick(rng, genClients), viaH: rng.Intn(3) == 0, role: role}
		}
		admitted := func(shape gReq) string { // a client the cache-less server does not refuse for this shape
			for _, k := range rng.Perm(len(genClients)) {
				if plain(c12WithClient(shape, genClients[k], false)).Status != 403 {
					return genClients[k]
				}
			}
			return pick(rng, genClients)
		}
		var hist []c12Step
		for n := 0; n < 2; n++ {
			var pr pair
			switch {
			case len(diffPairs) > 0 && (rng.Intn(5) != 0 || len(samePairs) == 0):
				pr = diffPairs[rng.Intn(len(diffPairs))]
			case len(samePairs) > 0:
				pr = samePairs[rng.Intn(len(samePairs))]
			default:
				continue
			}
			hist = append(hist, c12Step{shape: pr.a, ip: admitted(pr.a), viaH: rng.Intn(3) == 0, role: "host-A-fills"})
			if rng.Intn(4) == 0 {
				hist = append(hist, randomStep("in-between"))
			}
			hist = append(hist, c12Step{shape: pr.b, ip: admitted(pr.b), viaH: rng.Intn(3) == 0, role: "host-B-misses"})
			if rng.Intn(4) == 0 {
				hist = append(hist, randomStep("in-between"))
			}
			// clients the cache-less server treats differently for A and for B
			var split []string
			for _, ip := range genClients {
				if (plain(c12WithClient(pr.a, ip, false)).Status == 403) != (plain(c12WithClient(pr.b, ip, false)).Status == 403) {
					split = append(split, ip)
				}
			}
			rng.Shuffle(len(split), func(a, b int) { split[a], split[b] = split[b], split[a] })
			if len(split) > 2 {
				split = split[:2]
			}
			bClients := split
			for k := 0; k < 5; k++ {
				bClients = append(bClients, pick(rng, genClients))
			}
			rng.Shuffle(len(bClients), func(a, b int) { bClients[a], bClients[b] = bClients[b], bClients[a] })
			for _, ip := range bClients {
				hist = append(hist, c12Step{shape: pr.b, ip: ip, viaH: rng.Intn(3) == 0, role: "host-B-again"})
			}
			for k := 0; k < 3; k++ {
				hist = append(hist, c12Step{shape: pr.a, ip: pick(rng, genClients), viaH: rng.Intn(3) == 0, role: "host-A-again"})
			}
		}
		for k := 0; k < 8; k++ {
			hist = append(hist, randomStep("random"))
		}
		if panicked {
			continue
		}
		// who reached which entry so far (requests the cache-less server did not refuse)
		type reach struct {
			shape gReq
			front string
		}
		reached := map[string][]reach{}
		var trace []map[string]interface{}
		for _, st := range hist {
			q := c12WithClient(st.shape, st.ip, st.viaH)
			hit, cachedKind := muxCacheProbe(m1, &q)
			var g0, g1 gOut
			in := map[string]interface{}{"spec": spec, "cacheSize": cached.CacheSize, "req": q}
			if r.Guard("C12:nocache", in, func() { g0 = serve(m0, &q) }) {
				break
			}
			if r.Guard("C12:cache", in, func() { g1 = serve(m1, &q) }) {
				break
			}
			r.Eval(1)
			// label the step: did another host, which walks through other earlier filters, reach
			// the entry of this request before, and does the cache-less server treat this client
			// differently when it asks for that host
			ref := refRoute(spec, &q, missing)
			otherFront, treated := false, "same"
			if ref.Rule >= 0 {
				id := fmt.Sprintf("%d/%d", ref.Rule, ref.PathIdx)
				front := frontSig(q.Host, ref.Rule)
				for _, e := range reached[id] {
					if e.shape.Host == q.Host || e.front == front {
						continue
					}
					otherFront = true
					if v := plain(c12WithClient(e.shape, st.ip, false)); (v.Status == 403) != (g0.Status == 403) {
						if g0.Status == 403 {
							treated = "refused-here-admitted-for-first-host"
						} else {
							treated = "admitted-here-refused-for-first-host"
						}
						break
					}
				}
				if g0.Status != 403 {
					reached[id] = append(reached[id], reach{shape: st.shape, front: front})
				}
			}
			if hit {
				r.Count("shared_path_cache_hits", 1)
			}
			if hit && cachedKind == "route" && otherFront {
				r.Count("hits_on_route_after_other_host_with_other_earlier_filters_reached_the_entry", 1)
				switch treated {
				case "admitted-here-refused-for-first-host":
					r.Count("such_hits_by_client_admitted_for_this_host_but_refused_for_the_first_host", 1)
				case "refused-here-admitted-for-first-host":
					r.Count("such_hits_by_client_refused_for_this_host_but_admitted_for_the_first_host", 1)
				}
			}
			r.Cover(fmt.Sprintf("shared/hit=%v/%s/%d/otherfront=%v/%s/size=%d", hit, cachedKind, g0.Status, otherFront, treated, cached.CacheSize))
			trace = append(trace, map[string]interface{}{"role": st.role, "req": q, "hit": hit, "nocache": g0, "cache": g1})
			if g0.Status == g1.Status && g0.Backend == g1.Backend && g0.Path == g1.Path {
				continue
			}
			kind := "other"
			switch {
			case !hit:
				kind = "miss-path-differs"
			case cachedKind == "route" && otherFront && g1.Status == 403 && g0.Status != 403:
				kind = "cached-route-refuses-403-client-the-uncached-server-serves:same-entry-was-reached-before-by-other-host-through-other-earlier-rule-filters"
			case cachedKind == "route" && otherFront && g0.Status == 403 && g1.Status != 403:
				kind = "cached-route-serves-client-the-uncached-server-refuses-403:same-entry-was-reached-before-by-other-host-through-other-earlier-rule-filters"
			case g0.Status == 403 && cachedKind == "route":
				kind = "cached-route-skips-ip-filter-of-earlier-host-matching-rule"
			case g0.Status == 403:
				kind = "cached-" + cachedKind + "-served-to-client-the-uncached-server-refuses-403"
			case g1.Status == 403 && cachedKind == "route":
				kind = "cached-route-403-but-uncached-serves"
			}
			tail := trace
			if len(tail) > 14 {
				tail = tail[len(tail)-14:]
			}
			r.Violation("cache-not-transparent:shared-path:"+kind, map[string]interface{}{
				"yaml": cached.YAML("verif"), "request": q, "step": st.role, "cache_hit": hit, "cached_entry": cachedKind,
				"without_cache": g0, "with_cache": g1, "other_host_with_other_earlier_filters_reached_entry_before": otherFront,
				"client_vs_first_host": treated, "history_tail": tail,
			})
		}
		if i < 2 {
			r.Sample(map[string]interface{}{"kind": "shared-path", "spec": spec, "cacheSize": cached.CacheSize, "trace_head": trace[:minInt(4, len(trace))]})
		}
		m0.close()
		m1.close()
	}
	r.Require("hits_on_route_after_other_host_with_other_earlier_filters_reached_the_entry", 1)
	r.Require("such_hits_by_client_admitted_for_this_host_but_refused_for_the_first_host", 1)
	r.Require("such_hits_by_client_refused_for_this_host_but_admitted_for_the_first_host", 1)
}

// c12WithClient returns the request shape as asked by the given client (address given by
// the connection or by X-Real-IP).
func c12WithClient(shape gReq, ip string, viaHeader bool) gReq {
	q := shape
	q.Headers = append([][2]string{}, shape.Headers...)
	if viaHeader {
		q.Headers = append(q.Headers, [2]string{"X-Real-Ip", ip})
		q.RemoteAddr = "127.0.0.1:1"
	} else {
		q.RemoteAddr = net.JoinHostPort(ip, "4711")
	}
	return q
}

// TestVerif_C12_Concurrent: K8 ("any mix of clients") as concurrent histories: several client
// goroutines with different addresses ask the cached server for the same host/method/path at
// the same time; each single response must be the one the cache-less twin gives that client.
func TestVerif_C12_Concurrent(t *testing.T) {
	r := kit.Start(t, "C12")
	defer r.Finish()
	r.Rule("CONCURRENT histories: seeded HTTPServer specs with IP filters (generated servers with filters at server/rule/path level, half of them with header conditions; virtual-host servers whose rules carry their own filter; stacked servers whose 2-3 rules all accept the same host, most with a rule-level filter) x cache sizes {1,2,8,64}; out of 12 generated request shapes the 2 are taken on which the generated clients disagree most (some refused 403, some served/404/405 by the cache-less twin); 6 client goroutines, each with its own address (via the connection or X-Real-IP; at least one refused and one admitted client when the shapes allow, in half of the cases two goroutines share the address of a refused client), first learn from the cache-less twin, sequentially, what each of them gets for each shape; then, in two thirds of the cases after one of them has warmed the cache, they all ask the cached server for the same shapes at the same time, 25 rounds each, released together by a barrier; every single response (status, backend, rewritten path) must equal what the cache-less twin gave THAT client; the Go race detector watches the mux meanwhile (mux functions are in the race scope of this property); a run must contain requests served while another was in flight inside the mux, keys on which refused and admitted clients met concurrently with the key already in the cache and with the cache being filled by that very meeting, and such meetings in each of the three server classes; distinct = (spec class, warm-up?, cache size, per-shape mix of cache-less outcomes)")
	r.Assume("the cache-less twin is a function of the single request (no state between requests), so its sequential answers are the oracle for every concurrent schedule; overlap is observed with an in-flight counter around the call into the mux, no timing bound is used")
	nSpecs := r.N(120, 4000)
	const goroutines, rounds = 6, 25
	sizes := []int{1, 2, 8, 64}
	missing := map[string]bool{"gone": true}
	for i := 0; i < nSpecs; i++ {
		if !r.Mine(i) {
			continue
		}
		rng := r.CaseRand(i)
		class := i % 3
		var spec *gSpec
		switch class {
		case 0:
			spec = genSpec(rng, genOpts{headers: i%2 == 1, ipf: true, maxRules: 3, maxPaths: 3})
			if spec.IPF == nil && rng.Intn(2) == 0 {
				spec.IPF = genIPF(rng)
			}
		case 1:
			spec = c12VirtualHosts(rng)
		default:
			spec = genStackedSpec(rng, genOpts{ipf: true, maxRules: 3, maxPaths: 2})
		}
		cached := *spec
		cached.CacheSize = sizes[rng.Intn(len(sizes))]
		warm := rng.Intn(3) != 0
		r.Case(i, map[string]interface{}{"kind": "concurrent-clients", "spec": spec, "cacheSize": cached.CacheSize, "warm_up": warm})
		m0, err0 := buildMux(spec, &recMapper{missing: missing})
		m1, err1 := buildMux(&cached, &recMapper{missing: missing})
		if err0 != nil || err1 != nil {
			r.Count("spec_rejected", 1)
			r.Note("spec rejected: %v %v", err0, err1)
			continue
		}
		// candidate shapes, scored by how much the clients disagree on them at the cache-less twin
		type cand struct {
			q       gReq
			refused []string
			others  []string
		}
		var cands []cand
		panicked := false
		for k := 0; k < 12 && !panicked; k++ {
			q := genReq(rng, spec, false)
			switch class {
			case 1:
				q.Host = spec.Rules[rng.Intn(len(spec.Rules))].Host
				q.Method, q.Path = pick(rng, []string{"GET", "GET", "PATCH"}), pick(rng, []string{"/a", "/a", "/b/x", "/nope"})
			case 2:
				q.Host = "a.com"
			}
			c := cand{q: q}
			for _, ip := range genClients {
				qc := c12WithClient(q, ip, false)
				var g gOut
				if r.Guard("C12:nocache", map[string]interface{}{"spec": spec, "req": qc}, func() { g = serve(m0, &qc) }) {
					panicked = true
					break
				}
				if g.Status == 403 {
					c.refused = append(c.refused, ip)
				} else {
					c.others = append(c.others, ip)
				}
			}
			cands = append(cands, c)
		}
		if panicked {
			continue
		}
		score := func(c *cand) int {
			if len(c.refused) < len(c.others) {
				return len(c.refused)
			}
			return len(c.others)
		}
		var shapes []cand
		for n := 0; n < 2; n++ {
			best := -1
			for k := range cands {
				dup := false
				for _, sh := range shapes {
					dup = dup || c12Key(&sh.q) == c12Key(&cands[k].q)
				}
				if !dup && (best < 0 || score(&cands[k]) > score(&cands[best])) {
					best = k
				}
			}
			if best >= 0 {
				shapes = append(shapes, cands[best])
			}
		}
		// the clients: a refused and an admitted one of the first shape when there are such
		ips := make([]string, 0, goroutines)
		if len(shapes[0].refused) > 0 && len(shapes[0].others) > 0 {
			ips = append(ips, pick(rng, shapes[0].refused), pick(rng, shapes[0].others))
			if rng.Intn(2) == 0 {
				ips = append(ips, ips[0]) // a second connection of the refused client
			}
		}
		for len(ips) < goroutines {
			ips = append(ips, pick(rng, genClients))
		}
		rng.Shuffle(len(ips), func(a, b int) { ips[a], ips[b] = ips[b], ips[a] })
		reqs := make([][]gReq, goroutines)
		exp := make([][]gOut, goroutines)
		mixed := make([]bool, len(shapes))
		for s := range shapes {
			n403, nOther := 0, 0
			for g := 0; g < goroutines && !panicked; g++ {
				q := c12WithClient(shapes[s].q, ips[g], rng.Intn(3) == 0)
				var o gOut
				if r.Guard("C12:nocache", map[string]interface{}{"spec": spec, "req": q}, func() { o = serve(m0, &q) }) {
					panicked = true
				}
				reqs[g], exp[g] = append(reqs[g], q), append(exp[g], o)
				if o.Status == 403 {
					n403++
				} else {
					nOther++
				}
			}
			mixed[s] = n403 > 0 && nOther > 0
			r.Cover(fmt.Sprintf("concurrent/class%d/warm=%v/size=%d/refused=%d/others=%d", class, warm, cached.CacheSize, n403, nOther))
		}
		if panicked {
			continue
		}
		type mismatch struct {
			g, s, round int
			got         gOut
			inFlight    int64
		}
		var (
			mu       sync.Mutex
			bad      []mismatch
			nBad     int
			inFlight int64
			overlap  int64
			served   int64
		)
		if warm {
			g := rng.Intn(goroutines)
			for s := range shapes {
				var o gOut
				q := reqs[g][s]
				if r.Guard("C12:cache", map[string]interface{}{"spec": spec, "cacheSize": cached.CacheSize, "req": q}, func() { o = serve(m1, &q) }) {
					continue
				}
				r.Eval(1)
				if e := exp[g][s]; o.Status != e.Status || o.Backend != e.Backend || o.Path != e.Path {
					bad = append(bad, mismatch{g: g, s: s, round: -1, got: o})
					nBad++
				}
			}
		}
		cachedBefore := make([]bool, len(shapes))
		for s := range shapes {
			cachedBefore[s], _ = muxCacheProbe(m1, &shapes[s].q)
		}
		start := make(chan struct{})
		var wg sync.WaitGroup
		for g := 0; g < goroutines; g++ {
			wg.Add(1)
			go func(g int) {
				defer wg.Done()
				<-start
				for round := 0; round < rounds; round++ {
					for s := range shapes {
						q := reqs[g][s]
						var o gOut
						n := atomic.AddInt64(&inFlight, 1)
						p := r.Guard("C12:cache:concurrent", map[string]interface{}{"spec": spec, "cacheSize": cached.CacheSize, "req": q}, func() { o = serve(m1, &q) })
						atomic.AddInt64(&inFlight, -1)
						if p {
							return
						}
						atomic.AddInt64(&served, 1)
						if n > 1 {
							atomic.AddInt64(&overlap, 1)
						}
						if e := exp[g][s]; o.Status != e.Status || o.Backend != e.Backend || o.Path != e.Path {
							mu.Lock()
							nBad++
							if len(bad) < 6 {
								bad = append(bad, mismatch{g: g, s: s, round: round, got: o, inFlight: n})
							}
							mu.Unlock()
						}
					}
				}
			}(g)
		}
		close(start)
		wg.Wait()
		r.Eval(int(served))
		r.Count("concurrent_requests_served", served)
		r.Count("concurrent_requests_served_while_another_was_in_flight", overlap)
		for s := range shapes {
			if !mixed[s] || overlap == 0 {
				continue
			}
			r.Count("keys_asked_concurrently_by_refused_and_admitted_clients", 1)
			if cachedBefore[s] {
				r.Count("keys_asked_concurrently_by_refused_and_admitted_clients_key_cached_beforehand", 1)
			} else {
				r.Count("keys_asked_concurrently_by_refused_and_admitted_clients_cache_filled_concurrently", 1)
			}
			r.Count(fmt.Sprintf("keys_asked_concurrently_by_refused_and_admitted_clients_class_%d", class), 1)
		}
		for _, b := range bad {
			e := exp[b.g][b.s]
			kind := "other-difference"
			switch {
			case b.round < 0:
				kind = "sequential-warm-up-differs"
			case e.Status == 403 && b.got.Status != 403:
				kind = "client-the-uncached-server-refuses-403-got-the-cached-result"
			case e.Status != 403 && b.got.Status == 403:
				kind = "client-the-uncached-server-serves-got-403"
			}
			all := map[string]gOut{}
			for g := 0; g < goroutines; g++ {
				all[fmt.Sprintf("goroutine%d client=%s", g, reqs[g][b.s].clientIP())] = exp[g][b.s]
			}
			r.Violation("cache-not-transparent:concurrent-clients:"+kind, map[string]interface{}{
				"yaml": cached.YAML("verif"), "request": reqs[b.g][b.s], "round": b.round, "warm_up": warm,
				"without_cache": e, "with_cache": b.got, "in_flight_at_entry": b.inFlight, "mismatches_in_this_case": nBad,
				"key_cached_before_concurrent_phase": cachedBefore[b.s], "cacheless_answers_of_all_clients_for_this_key": all,
			})
		}
		if i < 2 {
			r.Sample(map[string]interface{}{"kind": "concurrent-clients", "spec": spec, "cacheSize": cached.CacheSize, "clients": ips, "shapes": []gReq{shapes[0].q}})
		}
		m0.close()
		m1.close()
	}
	r.Require("concurrent_requests_served_while_another_was_in_flight", 1)
	r.Require("keys_asked_concurrently_by_refused_and_admitted_clients_key_cached_beforehand", 1)
	r.Require("keys_asked_concurrently_by_refused_and_admitted_clients_cache_filled_concurrently", 1)
	for c := 0; c < 3; c++ {
		r.Require(fmt.Sprintf("keys_asked_concurrently_by_refused_and_admitted_clients_class_%d", c), 1)
	}
}
