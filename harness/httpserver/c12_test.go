//go:build verif

package httpserver

import (
	"fmt"
	"math/rand"
	"net"
	"strings"
	"testing"

	"verif.local/kit"
)

// c12Probe tells, just before a request is served, whether the route cache of the
// cached twin already holds an entry under the key this request will look up, and
// which (host, method, path) triple put it there (tracked by the harness).
type c12Probe struct {
	owner map[string][3]string
}

func c12Key(q *gReq) string { return q.Host + q.Method + q.Path }

// c12VirtualHosts: 2-4 rules with distinct exact hosts, each with its own rule-level IP
// filter (different networks), paths with method lists so that 200, 404 and 405 all occur.
func c12VirtualHosts(rng *rand.Rand) *gSpec {
	s := &gSpec{}
	n := 2 + rng.Intn(3)
	for i := 0; i < n; i++ {
		f := &gIPF{BlockByDefault: rng.Intn(2) == 0}
		f.Allow = []string{genNets[(i*3+rng.Intn(3))%len(genNets)]}
		f.Block = []string{genNets[(i*3+1+rng.Intn(3))%len(genNets)]}
		s.Rules = append(s.Rules, gRule{Host: genHosts[i%len(genHosts)], IPF: f, Paths: []gPath{
			{Path: "/a", Methods: []string{"GET", "POST"}, Backend: fmt.Sprintf("be-%d", i)},
			{Prefix: "/b", Backend: fmt.Sprintf("be-%d", i+10)},
		}})
	}
	return s
}

func c12Norm(s string) string {
	return strings.NewReplacer("{", "", "}", "", " ", "", "\x00", "").Replace(s)
}

func c12Collisions(rng *rand.Rand) (a, b gReq) {
	// two different (host, method, path) triples whose plain concatenations coincide
	switch rng.Intn(3) {
	case 0: // host "a.co"+"MGET" vs host "a.com"+"GET"
		return gReq{Method: "GET", Host: "a.com", Path: "/a"}, gReq{Method: "MGET", Host: "a.co", Path: "/a"}
	case 1: // method GET + path "/a" on host "b.comP"?  use host/method boundary again
		return gReq{Method: "PUT", Host: "a.co", Path: "/b"}, gReq{Method: "T", Host: "a.coPU", Path: "/b"}
	default:
		return gReq{Method: "POST", Host: "b.com", Path: "/a/b"}, gReq{Method: "MPOST", Host: "b.co", Path: "/a/b"}
	}
}

// TestVerif_C12_Twin: two real muxes from the same spec, cacheSize 0 and n, fed the
// same request sequence; every observable must agree.
func TestVerif_C12_Twin(t *testing.T) {
	r := kit.Start(t, "C12")
	defer r.Finish()
	r.Rule("seeded HTTPServer specs (header-conditioned entries ahead of unconditional ones, method lists, IP filters at server/rule/path level, shadowing duplicates; one class of virtual-host servers whose rules each carry their own IP filter and produce 200/404/405 per host) x cache sizes {1,2,8,64} x sequences of 40 requests from mixed clients drawn from a pool of 10 (so repeats, warm-ups by other clients/headers and evictions occur) plus crafted (host,method,path) concatenation collisions; the same sequence is served by a cache-less twin; distinct = (cache hit?, uncached status, cached-entry kind, ip filters present, headers present, collision?)")
	r.Assume("twin with cacheSize 0 is the oracle; both twins see byte-identical requests; cache hits are observed through the ARC cache's Contains on the key the request will use")
	nSpecs := r.N(1500, 40000)
	sizes := []int{1, 2, 8, 64}
	missing := map[string]bool{"gone": true}
	for i := 0; i < nSpecs; i++ {
		if !r.Mine(i) {
			continue
		}
		rng := r.CaseRand(i)
		class := i % 5 // 0: plain, 1: headers, 2: ip filters, 3: both, 4: virtual hosts with their own filters
		o := genOpts{headers: class == 1 || class == 3, ipf: class >= 2, maxRules: 3, maxPaths: 3}
		spec := genSpec(rng, o)
		if class == 4 {
			spec = c12VirtualHosts(rng)
		}
		if class == 1 {
			// the shape the property names: header-conditioned entry ahead of an unconditional
			// one, in the same rule or in an earlier rule matching the same host
			p := pick(rng, genPaths)
			canary := gPath{Path: p, Backend: "be-canary", Headers: []gHeader{{Key: "X-V", Values: []string{"canary"}}}}
			stable := gPath{Path: p, Backend: "be-stable"}
			switch rng.Intn(3) {
			case 0:
				spec.Rules = append([]gRule{{Paths: []gPath{canary, stable}}}, spec.Rules...)
			case 1:
				spec.Rules = append([]gRule{{Paths: []gPath{canary}}, {Paths: []gPath{stable}}}, spec.Rules...)
			}
		}
		cached := *spec
		cached.CacheSize = sizes[rng.Intn(len(sizes))]
		r.Case(i, map[string]interface{}{"spec": spec, "cacheSize": cached.CacheSize})
		m0, err0 := buildMux(spec, &recMapper{missing: missing})
		m1, err1 := buildMux(&cached, &recMapper{missing: missing})
		if err0 != nil || err1 != nil {
			r.Count("spec_rejected", 1)
			r.Note("spec rejected: %v %v", err0, err1)
			continue
		}
		// request pool: few distinct requests so that the sequence revisits keys
		pool := make([]gReq, 0, 12)
		for k := 0; k < 8; k++ {
			pool = append(pool, genReq(rng, spec, class >= 2))
		}
		if class == 4 {
			// per virtual host: a routed path, an unknown path (404) and an unlisted method (405),
			// each requested by several clients, so that negative results are cached for one
			// host, other hosts are searched in between, and the key is then hit by a client
			// the host's own filter treats differently
			pool = pool[:0]
			for _, r := range spec.Rules {
				for _, shape := range []gReq{{Method: "GET", Path: "/a"}, {Method: "GET", Path: "/nope"}, {Method: "PATCH", Path: "/a"}} {
					for n := 0; n < 2; n++ {
						q := shape
						q.Host = r.Host
						q.RemoteAddr = net.JoinHostPort(pick(rng, genClients), "55")
						pool = append(pool, q)
					}
				}
			}
		}
		// same key, other headers / other client
		for k := 0; k < 2; k++ {
			v := pool[rng.Intn(len(pool))]
			v.Headers = nil
			if rng.Intn(2) == 0 {
				v.Headers = [][2]string{{"X-V", "canary"}}
			}
			if class >= 2 {
				v.RemoteAddr = pick(rng, genClients) + ":99"
			}
			pool = append(pool, v)
		}
		ca, cb := c12Collisions(rng)
		pool = append(pool, ca, cb)
		probe := c12Probe{owner: map[string][3]string{}}
		var trace []map[string]interface{}
		for k := 0; k < 40; k++ {
			q := pool[rng.Intn(len(pool))]
			mi := m1.inst.Load().(*muxInstance)
			key := c12Key(&q)
			// The probe does not assume the cache's key representation: any cached key whose
			// printed form, braces and blanks removed, equals host+method+path counts.
			hit := false
			var cachedKind string
			if mi.cache != nil {
				for _, ck := range mi.cache.Keys() {
					if c12Norm(fmt.Sprint(ck)) != key {
						continue
					}
					if v, ok := mi.cache.Peek(ck); ok {
						hit = true
						if rt := v.(*route); rt.code != 0 {
							cachedKind = fmt.Sprintf("code%d", rt.code)
						} else {
							cachedKind = "route"
						}
					}
				}
			}
			collision := false
			if own, ok := probe.owner[key]; ok && hit {
				collision = own != [3]string{q.Host, q.Method, q.Path}
			}
			var g0, g1 gOut
			in := map[string]interface{}{"spec": spec, "cacheSize": cached.CacheSize, "req": q}
			if r.Guard("C12:nocache", in, func() { g0 = serve(m0, &q) }) {
				continue
			}
			if r.Guard("C12:cache", in, func() { g1 = serve(m1, &q) }) {
				continue
			}
			if _, ok := probe.owner[key]; !ok || !hit {
				probe.owner[key] = [3]string{q.Host, q.Method, q.Path}
			}
			r.Eval(1)
			if hit {
				r.Count("cache_hits", 1)
				r.Count("cache_hits_class_"+fmt.Sprint(class), 1)
			}
			if collision {
				r.Count("key_collisions_exercised", 1)
			}
			r.Cover(fmt.Sprintf("hit=%v/%d/%s/class%d/coll=%v", hit, g0.Status, cachedKind, class, collision))
			trace = append(trace, map[string]interface{}{"req": q, "hit": hit, "nocache": g0, "cache": g1})
			if g0.Status == g1.Status && g0.Backend == g1.Backend && g0.Path == g1.Path {
				continue
			}
			// classify the disagreement by what the cache did
			ref := refRoute(spec, &q, missing)
			kind := "other"
			switch {
			case !hit:
				kind = "miss-path-differs"
			case collision:
				kind = "key-collision:entry-stored-by-different-host-method-path"
			case cachedKind == "route" && g0.Status != 403 && (ref.Why == "hdr400" || (ref.Rule >= 0 && len(spec.Rules[ref.Rule].Paths[ref.PathIdx].Headers) > 0)):
				kind = "cached-headerless-route-hides-earlier-header-conditioned-entry"
			case g0.Status == 403 && cachedKind != "route":
				kind = "cached-" + cachedKind + "-served-to-client-the-uncached-server-refuses-403"
			case g0.Status == 403 && cachedKind == "route":
				kind = "cached-route-skips-ip-filter-of-earlier-host-matching-rule"
			case g1.Status == 403 && cachedKind == "route":
				kind = "cached-route-403-but-uncached-serves"
			}
			tail := trace
			if len(tail) > 12 {
				tail = tail[len(tail)-12:]
			}
			r.Violation("cache-not-transparent:"+kind, map[string]interface{}{
				"yaml": cached.YAML("verif"), "request": q, "cache_hit": hit, "cached_entry": cachedKind,
				"without_cache": g0, "with_cache": g1, "history_tail": tail,
			})
		}
		if i < 2 {
			r.Sample(map[string]interface{}{"spec": spec, "cacheSize": cached.CacheSize, "trace_head": trace[:minInt(3, len(trace))]})
		}
		m0.close()
		m1.close()
	}
	r.Require("cache_hits_class_0", 1)
	r.Require("cache_hits_class_1", 1)
	r.Require("cache_hits_class_2", 1)
	r.Require("cache_hits_class_3", 1)
	r.Require("cache_hits_class_4", 1)
	r.Require("key_collisions_exercised", 1)
}

func minInt(a, b int) int {
	if a < b {
		return a
	}
	return b
}
