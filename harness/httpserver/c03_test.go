//go:build verif

package httpserver

// C03: Proxy forwards requests/responses faithfully, hop-by-hop stripped, well-framed.
// Reference model written from the property sentence; the real code runs behind real
// sockets (see c03rig_test.go).

import (
	"bytes"
	"fmt"
	"hash/fnv"
	"math/rand"
	"sort"
	"strings"
	"sync"
	"testing"

	"verif.local/kit"
)

// c03Ex is one generated exchange.
type c03Ex struct {
	ID        string    `json:"id"`
	Req       e2eReq    `json:"req"`
	ReqBody   string    `json:"reqBody"`
	ReqPlain  []byte    `json:"-"` // request content before the labelled encoding
	ReqGzip   bool      `json:"reqGzip,omitempty"`
	Script    e2eScript `json:"script"`
	RespBody  string    `json:"respBody"`
	RespPlain []byte    `json:"-"` // response content before the labelled encoding
	RespGzip  bool      `json:"respGzip,omitempty"`
	Host      string    `json:"host"`
	rawPath   string
	rawQuery  string
}

var c03HopNames = []string{"Connection", "Keep-Alive", "Proxy-Connection", "Proxy-Authenticate", "Proxy-Authorization", "Te", "Trailer", "Transfer-Encoding", "Upgrade"}

var c03Paths = []string{
	"/", "/a", "/a/b/c", "/a%2Fb", "/A%2fb", "/a%20b", "/a+b", "/caf%C3%A9", "/%E4%B8%AD/x",
	"/a%3Fb=c", "/a%3fb", "/a%23frag", "/a%2541", "/a%25zz", "/a%25",
	"//x//y", "/a/./b/../c", "/a;p=1", "/a:b@c", "/%7Euser", "/a%41", "/a,b", "/a!$&'()*=", "/a%22q%5Cb%7Cc",
	"/lim/x", "/index.html",
}

var c03Queries = []string{
	"", "", "a=1", "a=1&a=2&b=", "q=%26%3D%2B", "x=a+b%20c", "k", "=v", "a=b=c", "a=1;b=2", "u=%zz",
	"x=%E4%B8%AD", "a[]=1&a[]=2", "a=1?b=2", "h=%23", "r=http://x/y?z=1",
}

var c03Methods = []string{"GET", "GET", "POST", "POST", "PUT", "DELETE", "PATCH", "OPTIONS", "HEAD", "PURGE"}

var c03Hosts = []string{"svc.example.com", "api.test:8080", "10.1.2.3:80"}

// c03Body: a compressible body names its owner (exchange id and direction) in every
// record, so that bytes of another exchange are recognisable in it; the other kind is
// random bytes.
func c03Body(rng *rand.Rand, n int, compressible bool, owner string) []byte {
	b := make([]byte, n)
	if compressible {
		pat := []byte(fmt.Sprintf("lorem ipsum %d dolor sit amet [%s]; ", rng.Intn(1000), owner))
		for i := range b {
			b[i] = pat[i%len(pat)]
		}
		return b
	}
	rng.Read(b)
	return b
}

func c03Sizes(cfg *e2eCfg, rng *rand.Rand) int {
	if cfg.Compression != nil && rng.Intn(2) == 0 {
		m := *cfg.Compression
		c := []int{m - 1, m, m + 1, 2*m + 7}
		n := c[rng.Intn(len(c))]
		if n < 0 {
			n = 0
		}
		return n
	}
	if rng.Intn(40) == 0 {
		return 1 << 20
	}
	c := []int{0, 1, 2, 63, 64, 65, 300, 1023, 1024, 1025, 5000, 65536}
	return c[rng.Intn(len(c))]
}

var c03Adaptors = []*e2eAdaptor{
	nil, nil, nil,
	{Body: "adaptor-made body 0123456789"},
	{Compress: true},
	{Decompress: true},
	{Body: "adaptor body, then gzip " + strings.Repeat("z", 90), Compress: true},
}

func c03Cfg(i int, rng *rand.Rand) *e2eCfg {
	c := &e2eCfg{}
	switch i % 4 {
	case 1:
		c.HostNameServer = true
	case 2:
		c.HostNameServer, c.KeepHost = true, true
	case 3:
		c.KeepHost = rng.Intn(2) == 0
	}
	mins := []int{-1, -1, 0, 64, 1024}
	if m := mins[(i/2)%len(mins)]; m >= 0 {
		c.Compression = &m
	}
	c.ReqAd = c03Adaptors[(i/3)%len(c03Adaptors)]
	c.RespAd = c03Adaptors[(i/5)%len(c03Adaptors)]
	if rng.Intn(4) == 0 {
		c.ReqAd = c03Adaptors[rng.Intn(len(c03Adaptors))]
	}
	if rng.Intn(4) == 0 {
		c.RespAd = c03Adaptors[rng.Intn(len(c03Adaptors))]
	}
	if i%3 == 2 {
		c.CacheSize = []int{1, 4, 64}[rng.Intn(3)] // route cache on: repeated paths are served from it
	}
	if i%7 == 3 || rng.Intn(8) == 0 {
		c.ServerClientMax = -1 // request bodies are streamed
	}
	if i%9 == 4 || rng.Intn(8) == 0 { // response bodies are streamed
		if rng.Intn(2) == 0 {
			c.ProxyServerMax = -1
		} else {
			c.PoolServerMax = -1
		}
	}
	return c
}

// c03Gen generates exchange number k of case i.
func c03Gen(cfg *e2eCfg, rng *rand.Rand, id string, last bool) *c03Ex {
	ex := &c03Ex{ID: id}
	q := &ex.Req
	q.Method = c03Methods[rng.Intn(len(c03Methods))]
	ex.rawPath = c03Paths[rng.Intn(len(c03Paths))]
	ex.rawQuery = c03Queries[rng.Intn(len(c03Queries))]
	q.Target = ex.rawPath
	if ex.rawQuery != "" {
		q.Target += "?" + ex.rawQuery
	}
	ex.Host = c03Hosts[rng.Intn(len(c03Hosts))]
	h := [][2]string{{"Host", ex.Host}, {e2eIDHeader, id}}
	add := func(k, v string) { h = append(h, [2]string{k, v}) }
	// end-to-end headers
	if rng.Intn(2) == 0 {
		add("Accept", "*/*")
	}
	customA := rng.Intn(2) == 0
	if customA {
		add("X-Custom-A", "v1")
		if rng.Intn(2) == 0 {
			add("X-Custom-A", "v2, v3")
		}
	}
	if rng.Intn(3) == 0 {
		add("x-lower-case", "abc")
	}
	if rng.Intn(3) == 0 {
		add("Cookie", "a=1; b=2")
	}
	if rng.Intn(3) == 0 {
		add("Authorization", "Bearer abc.def-ghi")
	}
	if rng.Intn(4) == 0 {
		add("X-Empty", "")
	}
	if rng.Intn(2) == 0 {
		add("User-Agent", "e2e-raw/1.0")
	}
	if rng.Intn(4) == 0 {
		add("X-Comma", "a, b,c")
	}
	switch rng.Intn(5) {
	case 0:
		add("Accept-Encoding", "gzip")
	case 1:
		add("Accept-Encoding", "identity")
	case 2:
		add("Accept-Encoding", "br, gzip;q=0.5")
	}
	// hop-by-hop headers
	for _, kv := range [][2]string{{"Keep-Alive", "timeout=5, max=100"}, {"Proxy-Connection", "keep-alive"}, {"Proxy-Authenticate", "Basic realm=x"},
		{"Proxy-Authorization", "Basic Zm9vOmJhcg=="}, {"TE", "trailers"}, {"Upgrade", "foo/2"}, {"Trailer", "X-T"}} {
		if rng.Intn(5) == 0 {
			add(kv[0], kv[1])
		}
	}
	switch rng.Intn(10) {
	case 0:
		add("Connection", "keep-alive")
	case 1:
		add("Connection", "X-Hop-1")
		add("X-Hop-1", "secret-1")
	case 2:
		add("X-Hop-1", "secret-1")
		add("X-Hop-2", "secret-2a")
		add("Connection", "x-hop-1, X-Hop-2")
		add("X-Hop-2", "secret-2b")
	case 3:
		add("Connection", "X-Hop-1")
		add("Connection", "keep-alive , X-Hop-2")
		add("X-Hop-1", "secret-1")
		add("X-Hop-2", "secret-2")
	case 4:
		if !customA {
			add("X-Custom-A", "v9")
		}
		add("Connection", "X-Custom-A")
	case 5:
		add("Connection", "X-Absent")
	case 6:
		add("Connection", "Keep-Alive, TE, x-hop-1")
		add("Keep-Alive", "timeout=9")
		add("X-Hop-1", "secret-1")
	}
	if last {
		add("Connection", "close")
	}
	// body
	hasBody := false
	switch q.Method {
	case "POST", "PUT", "PATCH", "PURGE":
		hasBody = true
	case "DELETE":
		hasBody = rng.Intn(2) == 0
	case "GET":
		hasBody = rng.Intn(10) == 0
	}
	q.Framing = "none"
	if hasBody {
		ex.ReqPlain = c03Body(rng, c03Sizes(cfg, rng), rng.Intn(2) == 0, id+"/req")
		q.Body = ex.ReqPlain
		if rng.Intn(3) == 0 || (cfg.ReqAd != nil && cfg.ReqAd.Decompress && rng.Intn(2) == 0) {
			ex.ReqGzip = true
			q.Body = e2eGzip(ex.ReqPlain)
			add("Content-Encoding", "gzip")
		}
		add("Content-Type", "application/octet-stream")
		if rng.Intn(2) == 0 {
			q.Framing = "cl"
		} else {
			q.Framing = "chunked"
			q.Chunk = []int{1, 7, 100, 4096, 70000}[rng.Intn(5)]
			if len(q.Body) > 100000 && q.Chunk < 100 {
				q.Chunk = 4096
			}
		}
	}
	q.Headers = h
	ex.ReqBody = e2eBrief(q.Body)
	// scripted response
	sc := &ex.Script
	sc.Status = []int{200, 200, 200, 200, 200, 200, 201, 404, 500, 503, 301, 204, 418}[rng.Intn(13)]
	sh := [][2]string{{"Content-Type", []string{"text/plain; charset=utf-8", "application/json"}[rng.Intn(2)]}}
	sadd := func(k, v string) { sh = append(sh, [2]string{k, v}) }
	if rng.Intn(2) == 0 {
		sadd("X-Resp-A", "1")
		if rng.Intn(2) == 0 {
			sadd("X-Resp-A", "2")
		}
	}
	if rng.Intn(3) == 0 {
		sadd("Set-Cookie", "a=1; Path=/")
		sadd("Set-Cookie", "b=2; HttpOnly")
	}
	if rng.Intn(3) == 0 {
		sadd("Cache-Control", "max-age=60")
	}
	if rng.Intn(3) == 0 {
		sadd("ETag", `"abc-123"`)
	}
	if sc.Status == 301 {
		sadd("Location", "http://elsewhere.example/x?y=1")
	}
	if rng.Intn(5) == 0 {
		sadd("X-Empty-R", "")
	}
	c03OverlapHeaders(id, sh, sadd)
	sc.Mode = "cl"
	if sc.Status != 204 {
		ex.RespPlain = c03Body(rng, c03Sizes(cfg, rng), rng.Intn(3) != 0, id+"/resp")
		sc.Body = ex.RespPlain
		if rng.Intn(4) == 0 {
			ex.RespGzip = true
			sc.Body = e2eGzip(ex.RespPlain)
			sadd("Content-Encoding", "gzip")
		}
		if rng.Intn(2) == 0 {
			sc.Mode = "chunked"
		}
	}
	sc.Headers = sh
	ex.RespBody = e2eBrief(sc.Body)
	return ex
}

// c03OverlapHeaders adds end-to-end response headers of the kind the gateway's own response
// transformations (proxy compression, ResponseAdaptor compress / decompress / body, the
// streamed write-out) write or live next to: Vary in every wire shape (one value, a list
// on one line, several lines, a value the gateway would add itself, lower case, *),
// repeated Cache-Control lines, validators and representation metadata.  They are the
// backend's, so they must reach the client whatever the gateway does to the body.  The
// draws come from a generator of their own (a pure function of the exchange id, hence of
// seed and case), so that the rest of the exchange is what it was without them.
func c03OverlapHeaders(id string, have [][2]string, sadd func(k, v string)) {
	h := fnv.New64a()
	h.Write([]byte("c03-overlap-headers/" + id))
	rng := rand.New(rand.NewSource(int64(h.Sum64())))
	switch rng.Intn(10) {
	case 0, 1:
		sadd("Vary", []string{"Origin", "Accept-Language", "Cookie", "X-Tenant"}[rng.Intn(4)])
	case 2:
		sadd("Vary", "Origin, Accept-Language")
	case 3:
		sadd("Vary", "Origin")
		sadd("Vary", "Accept-Language")
	case 4:
		sadd("Vary", "Accept-Encoding")
		sadd("Vary", "origin,x-tenant")
		sadd("Vary", "Cookie")
	case 5:
		sadd("Vary", []string{"Accept-Encoding", "Content-Encoding", "accept-encoding, Origin", "*"}[rng.Intn(4)])
	}
	if rng.Intn(3) == 0 {
		sadd("Cache-Control", []string{"private", "must-revalidate", "public, s-maxage=30"}[rng.Intn(3)])
		if rng.Intn(2) == 0 {
			sadd("Cache-Control", "stale-while-revalidate=5")
		}
	}
	if len(e2eValues(have, "ETag")) == 0 && rng.Intn(4) == 0 {
		sadd("ETag", `W/"weak-77"`)
	}
	if rng.Intn(4) == 0 {
		sadd("Last-Modified", "Wed, 21 Oct 2015 07:28:00 GMT")
	}
	if rng.Intn(5) == 0 {
		sadd("Content-Language", "en, de")
	}
	if rng.Intn(5) == 0 {
		sadd("Accept-Ranges", "bytes")
	}
	if rng.Intn(5) == 0 {
		sadd("Link", `</a.css>; rel=preload`)
		sadd("Link", `</b.js>; rel=preload, </c>; rel="next"`)
	}
	if rng.Intn(6) == 0 {
		sadd("Content-Disposition", `attachment; filename="r.bin"`)
	}
	if rng.Intn(6) == 0 {
		sadd("Expires", "Thu, 01 Dec 1994 16:00:00 GMT")
		sadd("Age", "12")
	}
}

// c03RespTx names what became of the Content-Encoding label of the response, as observed
// on the two sides (the backend's label against the label the client got).  Several
// transformations can hide behind one name: a kept label may be a response the gateway's
// transport un-gzipped and the proxy compressed again, or one the proxy compressed and a
// ResponseAdaptor decompressed.
func c03RespTx(ex *c03Ex, resp *e2eResp) string {
	ce := strings.Join(e2eValues(resp.Headers, "Content-Encoding"), ",")
	switch {
	case ce == "gzip" && !ex.RespGzip:
		return "label-none-to-gzip"
	case ce == "" && ex.RespGzip:
		return "label-gzip-to-none"
	case ce == "gzip" && ex.RespGzip:
		return "label-gzip-kept"
	case ce == "":
		return "label-none-kept"
	}
	return "label-other"
}

// c03VaryLost returns the field values (list members, compared case-insensitively) of the
// backend's Vary lines that no Vary line of the client's response carries.  The gateway
// may add members (Content-Encoding when it compresses), split or join lines.
func c03VaryLost(want, got []string) []string {
	var lost []string
	for _, t := range e2eTokens(want) {
		if !e2eHasToken(got, t) {
			lost = append(lost, t)
		}
	}
	return lost
}

// c03Unescape decodes %XX (nothing else).
func c03Unescape(s string) string {
	var b strings.Builder
	for i := 0; i < len(s); i++ {
		if s[i] == '%' && i+2 < len(s) {
			if v, ok := c03Hex2(s[i+1], s[i+2]); ok {
				b.WriteByte(v)
				i += 2
				continue
			}
		}
		b.WriteByte(s[i])
	}
	return b.String()
}

func c03Hex2(a, b byte) (byte, bool) {
	x, ok1 := c03Hex1(a)
	y, ok2 := c03Hex1(b)
	return x<<4 | y, ok1 && ok2
}

func c03Hex1(c byte) (byte, bool) {
	switch {
	case c >= '0' && c <= '9':
		return c - '0', true
	case c >= 'a' && c <= 'f':
		return c - 'a' + 10, true
	case c >= 'A' && c <= 'F':
		return c - 'A' + 10, true
	}
	return 0, false
}

func c03Split(target string) (string, string) {
	if i := strings.IndexByte(target, '?'); i >= 0 {
		return target[:i], target[i+1:]
	}
	return target, ""
}

func c03Sorted(v []string) []string {
	out := append([]string(nil), v...)
	sort.Strings(out)
	return out
}

func c03SameSet(a, b []string) bool {
	a, b = c03Sorted(a), c03Sorted(b)
	if len(a) != len(b) {
		return false
	}
	for i := range a {
		if a[i] != b[i] {
			return false
		}
	}
	return true
}

// c03PathTrigger names the escapes in the client's path whose decoded form is URL syntax
// (the class of input of the known "URL rebuilt from the decoded path" defect).
func c03PathTrigger(rawPath string) string {
	up := strings.ToUpper(rawPath)
	var t []string
	for _, e := range []string{"%3F", "%23", "%25"} {
		if strings.Contains(up, e) {
			t = append(t, e)
		}
	}
	if len(t) == 0 {
		return ""
	}
	return "path-esc(" + strings.Join(t, ",") + ")"
}

// gateway side reasoning about Accept-Encoding exactly as the property's configuration
// space describes it: does the client's request (as forwarded) admit gzip?
func c03ClientAcceptsGzip(q *e2eReq) bool {
	ae := e2eValues(q.Headers, "Accept-Encoding")
	if len(ae) == 0 {
		return true
	}
	for _, v := range ae {
		if strings.Contains(v, "gzip") || strings.Contains(v, "*/*") {
			return true
		}
	}
	return false
}

// c03RespTrigger classifies the exchange by the input classes of the known response-side
// defects.  It only looks at the configuration and the generated input, never at the
// outcome.
func c03RespTrigger(cfg *e2eCfg, ex *c03Ex) string {
	streamResp := cfg.PoolServerMax < 0 || (cfg.PoolServerMax == 0 && cfg.ProxyServerMax < 0)
	head := ex.Req.Method == "HEAD"
	noBodyStatus := ex.Script.Status == 204
	// the gateway's own transport un-gzips a labelled response when the client did not
	// send Accept-Encoding (then neither the label nor a declared length survives)
	transparent := ex.RespGzip && !head && len(e2eValues(ex.Req.Headers, "Accept-Encoding")) == 0
	// length the backend response declares towards the proxy (-1: none)
	// (net/http reports the Content-Length header of a HEAD response, -1 if it has none,
	// and 0 for a 204)
	declared := -1
	switch {
	case head:
		if ex.Script.Mode == "cl" && !noBodyStatus {
			declared = len(ex.Script.Body)
		}
	case noBodyStatus:
		declared = 0
	case ex.Script.Mode == "cl" && !transparent:
		declared = len(ex.Script.Body)
	}
	compressApplies := cfg.Compression != nil && c03ClientAcceptsGzip(&ex.Req) && !(ex.RespGzip && !transparent) &&
		(declared < 0 || declared >= *cfg.Compression)
	switch {
	case streamResp && compressApplies:
		return "proxy-compression-of-streamed-response"
	case !streamResp && head && declared > 0:
		return "head-request-with-length-declared-response"
	case !streamResp && compressApplies && declared > 0:
		return "proxy-compression-of-length-declared-response"
	}
	if cfg.RespAd != nil && cfg.RespAd.Body != "" && !cfg.RespAd.Compress && !head && !noBodyStatus &&
		declared >= 0 && !compressApplies && declared != len(cfg.RespAd.Body) {
		return "responseadaptor-body-on-length-declared-response"
	}
	return ""
}

type c03Finding struct {
	Sig    string
	Detail map[string]interface{}
	Check  string // the check that failed (the middle part of Sig)
}

// c03Dedupe keeps the kit's bounded violation list from being filled by repetitions: a
// signature that carries a known-defect input class is recorded once per process, any
// other signature up to three times (everything is still counted).
type c03Dedupe struct {
	mu sync.Mutex
	n  map[string]int
}

func (d *c03Dedupe) record(r *kit.Run, f c03Finding) {
	limit := 1
	if strings.HasSuffix(f.Sig, ":plain") {
		limit = 3
	}
	d.mu.Lock()
	if d.n == nil {
		d.n = map[string]int{}
	}
	d.n[f.Sig]++
	n := d.n[f.Sig]
	d.mu.Unlock()
	r.Count("oracle_refutations", 1)
	if n <= limit {
		r.Violation(f.Sig, f.Detail)
	}
}

func c03Sig(check, trig string) string {
	if trig == "" {
		return "C03:" + check + ":plain"
	}
	return "C03:" + check + ":" + trig
}

// c03Check is the oracle for one finished exchange.
func c03Check(cfg *e2eCfg, ex *c03Ex, res *e2eResult, seen *e2eSeen) (out []c03Finding, cover string, inconclusive string) {
	if res.Watchdog {
		return nil, "", "socket watchdog fired: " + res.IOErr + " " + res.WriteErr
	}
	resp := res.Resp
	pathTrig := c03PathTrigger(ex.rawPath)
	respTrig := c03RespTrigger(cfg, ex)
	detail := func(extra map[string]interface{}) map[string]interface{} {
		d := map[string]interface{}{"cfg": cfg, "exchange": ex, "response": resp, "ioErr": res.IOErr, "reusedConn": res.Reused}
		if seen != nil {
			d["backendSaw"] = map[string]interface{}{"method": seen.Method, "requestURI": seen.RequestURI, "host": seen.Host,
				"header": seen.Header, "body": e2eBrief(seen.Body), "bodyErr": seen.BodyErr, "times": seen.N, "contacts": seen.Contacts}
		} else {
			d["backendSaw"] = nil
		}
		for k, v := range extra {
			d[k] = v
		}
		return d
	}
	bad := func(check, trig string, extra map[string]interface{}) {
		out = append(out, c03Finding{c03Sig(check, trig), detail(extra), check})
	}

	// 1. framing of what the client received (always)
	if resp.FramingErr != "" {
		kind := resp.FramingErr
		if i := strings.IndexByte(kind, '('); i > 0 {
			kind = kind[:i]
		}
		bad("framing:"+kind, respTrig, nil)
	}

	// 2. what the backend received
	if seen == nil {
		bad("backend-not-contacted", pathTrig, nil)
	} else {
		if seen.N != 1+ex.Script.FailFirst {
			// (FailFirst > 0 only with a Retry policy: one more contact per failed attempt)
			bad("backend-contacted-more-than-once", "", map[string]interface{}{"wantContacts": 1 + ex.Script.FailFirst})
		}
		if seen.Method != ex.Req.Method {
			bad("req-method", "", nil)
		}
		gotPath, gotQuery := c03Split(seen.RequestURI)
		if c03Unescape(gotPath) != c03Unescape(ex.rawPath) {
			bad("req-path", pathTrig, map[string]interface{}{"wantDecodedPath": c03Unescape(ex.rawPath), "gotDecodedPath": c03Unescape(gotPath)})
		}
		if gotQuery != ex.rawQuery {
			bad("req-query", pathTrig, map[string]interface{}{"wantRawQuery": ex.rawQuery, "gotRawQuery": gotQuery})
		}
		// Host rule
		wantHost := ex.Host
		rule := "ip-server"
		if cfg.HostNameServer && !cfg.KeepHost {
			wantHost = "localhost:" + strings.TrimPrefix(seen.Host, "localhost:")
			if !strings.HasPrefix(seen.Host, "localhost:") {
				wantHost = "localhost:<backend port>"
			}
			rule = "hostname-server"
		} else if cfg.KeepHost {
			rule = "keephost"
		}
		if seen.Host != wantHost {
			bad("req-host:"+rule, "", map[string]interface{}{"wantHost": wantHost, "gotHost": seen.Host})
		}
		// headers
		removed := map[string]bool{}
		for _, n := range c03HopNames {
			removed[n] = true
		}
		var custom []string
		for _, t := range e2eTokens(e2eValues(ex.Req.Headers, "Connection")) {
			removed[e2eCanon(t)] = true
			if !strings.EqualFold(t, "close") && !strings.EqualFold(t, "keep-alive") {
				custom = append(custom, t)
			}
		}
		names := map[string]bool{}
		for _, kv := range ex.Req.Headers {
			names[e2eCanon(kv[0])] = true
		}
		for n := range names {
			if n == "Host" {
				continue
			}
			got := seen.Header.Values(n)
			if removed[n] {
				if n == "Connection" {
					for _, t := range custom {
						if e2eHasToken(got, t) {
							bad("req-hop-by-hop-leak:Connection", "", map[string]interface{}{"header": n, "got": got})
							break
						}
					}
					continue
				}
				if len(got) > 0 {
					kind := n
					if !c03IsFixedHop(n) {
						kind = "connection-listed"
					}
					bad("req-hop-by-hop-leak:"+kind, "", map[string]interface{}{"header": n, "got": got})
				}
				continue
			}
			if n == "Content-Encoding" && cfg.ReqAd != nil {
				continue // the adaptor may re-encode
			}
			want := e2eValues(ex.Req.Headers, n)
			if !c03SameSet(got, want) {
				bad("req-end-to-end-header", "", map[string]interface{}{"header": n, "want": want, "got": got})
			}
		}
		// body
		if seen.BodyErr != "" {
			bad("req-body:backend-read-error", "", nil)
		} else if cfg.ReqAd == nil {
			// every attempt the backend received (more than one with a Retry policy)
			for a, got := range seen.Bodies {
				if seen.BodyErrs[a] == "" && bytes.Equal(got, ex.Req.Body) {
					continue
				}
				what := "req-body:bytes-differ"
				if a > 0 {
					what = "req-body:bytes-differ-on-repeated-attempt"
				}
				bad(what, "", map[string]interface{}{"want": e2eBrief(ex.Req.Body), "got": e2eBrief(got), "attempt": a + 1, "attempts": len(seen.Bodies),
					"readError": seen.BodyErrs[a], "diff": e2eBodyDiff(ex.Req.Body, got)})
				break
			}
		} else {
			want := ex.ReqPlain
			if cfg.ReqAd.Body != "" {
				want = []byte(cfg.ReqAd.Body)
			}
			got := seen.Body
			switch ce := strings.Join(seen.Header.Values("Content-Encoding"), ","); ce {
			case "":
			case "gzip":
				dec, err := e2eGunzip(got)
				if err != nil {
					bad("req-body:undecodable-gzip", "", map[string]interface{}{"err": err.Error()})
					got = nil
					want = nil
				} else {
					got = dec
				}
			default:
				bad("req-body:unexpected-content-encoding", "", map[string]interface{}{"contentEncoding": ce})
			}
			if !bytes.Equal(got, want) {
				bad("req-body:content-differs:reqadaptor="+cfg.ReqAd.String(), "", map[string]interface{}{"want": e2eBrief(want), "got": e2eBrief(got)})
			}
		}
	}

	// 3. what the client received
	complete := resp.FramingErr == "" || !strings.HasPrefix(resp.FramingErr, "eof-before") && resp.Status != 0
	if complete && resp.Status != ex.Script.Status {
		trig := respTrig
		if seen == nil {
			trig = pathTrig
		}
		bad(fmt.Sprintf("status:got%d", resp.Status), trig, map[string]interface{}{"wantStatus": ex.Script.Status})
	} else if complete && seen != nil {
		for _, n := range c03ScriptNames(ex.Script.Headers) {
			switch n {
			case "Content-Length", "Content-Encoding", "Connection", "Date":
				continue
			case "Vary":
				// the gateway may add to it; what the backend named must still be named
				want, got := e2eValues(ex.Script.Headers, n), e2eValues(resp.Headers, n)
				if lost := c03VaryLost(want, got); len(lost) > 0 {
					bad("resp-vary-values-lost:"+c03RespTx(ex, resp), respTrig, map[string]interface{}{"header": n, "want": want, "got": got, "lost": lost})
				}
				continue
			}
			want, got := e2eValues(ex.Script.Headers, n), e2eValues(resp.Headers, n)
			if !c03SameSet(want, got) {
				bad("resp-end-to-end-header", respTrig, map[string]interface{}{"header": n, "want": want, "got": got})
			}
		}
		if resp.FramingErr == "" && resp.Framing != "none" {
			want := ex.RespPlain
			if cfg.RespAd != nil && cfg.RespAd.Body != "" {
				want = []byte(cfg.RespAd.Body)
			}
			got := resp.Body
			ok := true
			switch ce := strings.Join(e2eValues(resp.Headers, "Content-Encoding"), ","); ce {
			case "":
			case "gzip":
				dec, err := e2eGunzip(got)
				if err != nil {
					bad("resp-body:undecodable-gzip", respTrig, map[string]interface{}{"err": err.Error()})
					ok = false
				}
				got = dec
			default:
				bad("resp-body:unexpected-content-encoding", respTrig, map[string]interface{}{"contentEncoding": ce})
				ok = false
			}
			if ok && !bytes.Equal(got, want) {
				kind := "content-differs"
				if len(got) < len(want) && bytes.Equal(got, want[:len(got)]) {
					kind = "truncated"
				}
				bad("resp-body:"+kind, respTrig, map[string]interface{}{"want": e2eBrief(want), "got": e2eBrief(got)})
			}
		} else if resp.FramingErr == "" && len(resp.Body) != 0 {
			bad("resp-body:bytes-on-bodyless-response", respTrig, nil)
		}
	}

	// coverage signature
	conn := e2eTokens(e2eValues(ex.Req.Headers, "Connection"))
	hop := 0
	for _, kv := range ex.Req.Headers {
		if c03IsFixedHop(e2eCanon(kv[0])) && e2eCanon(kv[0]) != "Connection" {
			hop++
		}
	}
	hostRule := "ip"
	if cfg.HostNameServer && !cfg.KeepHost {
		hostRule = "name"
	} else if cfg.KeepHost {
		hostRule = "keep"
	}
	comp := "nocomp"
	if cfg.Compression != nil {
		comp = "comp<"
		if len(ex.Script.Body) >= *cfg.Compression {
			comp = "comp>="
		}
	}
	esc := "plainpath"
	if strings.Contains(ex.rawPath, "%") {
		esc = "escpath"
	}
	cover = fmt.Sprintf("%s/%s/q%v/conn%d.hop%v/%s.gz%v.%s/req=%s/%d.%s.gz%v.%s/resp=%s/%s/%s/cs%v.ss%v",
		ex.Req.Method, esc, ex.rawQuery != "", len(conn), hop > 0, ex.Req.Framing, ex.ReqGzip, c03SizeClass(len(ex.ReqPlain)), cfg.ReqAd.String(),
		ex.Script.Status/100, ex.Script.Mode, ex.RespGzip, c03SizeClass(len(ex.RespPlain)), cfg.RespAd.String(), comp, hostRule,
		cfg.ServerClientMax < 0, cfg.ProxyServerMax < 0 || cfg.PoolServerMax < 0)
	return out, cover, ""
}

func c03SizeClass(n int) string {
	switch {
	case n == 0:
		return "0"
	case n < 64:
		return "tiny"
	case n <= 1025:
		return "small"
	case n <= 65536:
		return "mid"
	}
	return "big"
}

func c03IsFixedHop(n string) bool {
	for _, h := range c03HopNames {
		if h == n {
			return true
		}
	}
	return false
}

func c03ScriptNames(h [][2]string) []string {
	seen := map[string]bool{}
	var out []string
	for _, kv := range h {
		n := e2eCanon(kv[0])
		if !seen[n] {
			seen[n] = true
			out = append(out, n)
		}
	}
	return out
}

// c03Observe counts what the monitor needs to have seen (Require).
func c03Observe(r *kit.Run, cfg *e2eCfg, ex *c03Ex, res *e2eResult, seen *e2eSeen) {
	r.Count("exchanges", 1)
	if seen != nil {
		r.Count("backend_contacted", 1)
		switch {
		case cfg.HostNameServer && !cfg.KeepHost:
			r.Count("hostrule_hostname_server", 1)
		case cfg.KeepHost:
			r.Count("hostrule_keephost", 1)
		default:
			r.Count("hostrule_ip_server", 1)
		}
		for _, t := range e2eTokens(e2eValues(ex.Req.Headers, "Connection")) {
			if !strings.EqualFold(t, "close") && !strings.EqualFold(t, "keep-alive") && len(e2eValues(ex.Req.Headers, t)) > 0 {
				r.Count("connection_listed_header_sent", 1)
				break
			}
		}
		for _, kv := range ex.Req.Headers {
			if n := e2eCanon(kv[0]); c03IsFixedHop(n) && n != "Connection" {
				r.Count("fixed_hop_header_sent", 1)
				break
			}
		}
		if len(e2eValues(ex.Req.Headers, "X-Custom-A")) > 1 {
			r.Count("repeated_request_header", 1)
		}
		if ex.rawQuery != "" {
			r.Count("with_query", 1)
		}
		if ex.Req.Framing == "chunked" {
			r.Count("req_chunked", 1)
		}
		if ex.Req.Framing == "cl" {
			r.Count("req_declared", 1)
		}
		if seen.Chunked {
			r.Count("backend_got_chunked", 1)
		}
		if strings.ToUpper(ex.rawPath) != strings.ToUpper(strings.ReplaceAll(ex.rawPath, "%", "")) {
			r.Count("escaped_path", 1)
		}
	}
	if res.Resp != nil && res.Resp.FramingErr == "" && res.Resp.Status == ex.Script.Status {
		r.Count("status_relayed", 1)
		r.Count("client_framing_"+res.Resp.Framing, 1)
		ce := strings.Join(e2eValues(res.Resp.Headers, "Content-Encoding"), ",")
		if ce == "gzip" && !ex.RespGzip {
			r.Count("gateway_compressed_response", 1)
		}
		if ce == "" && ex.RespGzip && res.Resp.Framing != "none" {
			r.Count("gateway_decompressed_response", 1)
		}
		if ce == "gzip" && ex.RespGzip {
			r.Count("gzip_response_passed_through", 1)
		}
		if cfg.RespAd != nil && cfg.RespAd.Body != "" {
			r.Count("respadaptor_body_replaced", 1)
		}
		if len(e2eValues(ex.Script.Headers, "Set-Cookie")) > 1 {
			r.Count("repeated_response_header", 1)
		}
		if len(e2eValues(ex.Script.Headers, "Cache-Control")) > 1 {
			r.Count("repeated_cache_control_relayed", 1)
		}
		if vary := e2eValues(ex.Script.Headers, "Vary"); len(vary) > 0 {
			// the backend's own Vary against each thing the gateway does to a response
			several := len(e2eTokens(vary)) > 1
			adCompress := cfg.RespAd != nil && cfg.RespAd.Compress
			switch c03RespTx(ex, res.Resp) {
			case "label-none-to-gzip":
				if cfg.Compression != nil && !adCompress {
					r.Count("backend_vary_under_proxy_compression", 1)
					if several {
						r.Count("backend_vary_list_under_proxy_compression", 1)
					}
					if len(vary) > 1 {
						r.Count("backend_vary_lines_under_proxy_compression", 1)
					}
				}
				if cfg.Compression == nil && adCompress {
					r.Count("backend_vary_under_adaptor_compress", 1)
				}
			case "label-gzip-to-none":
				if res.Resp.Framing != "none" {
					r.Count("backend_vary_under_decompression", 1)
				}
			case "label-gzip-kept":
				r.Count("backend_vary_on_gzip_passed_through", 1)
			default:
				r.Count("backend_vary_on_identity_response", 1)
			}
			if (cfg.ProxyServerMax < 0 || cfg.PoolServerMax < 0) && res.Resp.Framing != "none" {
				r.Count("backend_vary_on_streamed_response", 1)
			}
			if cfg.RespAd != nil && cfg.RespAd.Body != "" {
				r.Count("backend_vary_under_adaptor_body", 1)
			}
		}
	}
	if res.Reused {
		r.Count("on_reused_connection", 1)
	}
	if seen != nil && cfg.ReqAd != nil {
		r.Count("reqadaptor_"+cfg.ReqAd.String(), 1)
	}
	if cfg.ServerClientMax < 0 && seen != nil && len(ex.Req.Body) > 0 {
		r.Count("request_streamed", 1)
	}
	if (cfg.ProxyServerMax < 0 || cfg.PoolServerMax < 0) && seen != nil && len(ex.Script.Body) > 0 {
		r.Count("response_streamed", 1)
	}
}

const c03Rule = "seeded gateway configurations (IP / host-name / keepHost server; proxy compression none or minLength 0/64/1024; RequestAdaptor and ResponseAdaptor none/body/compress/decompress/body+compress; buffered or streamed (-1) request and response bodies) x hand-built HTTP/1.1 requests on raw sockets (10 methods; 26 paths with %2F %3F %23 %20 %25 + unicode dot-segments sub-delims; 16 query shapes; repeated, empty, lower-case end-to-end headers; the eight fixed hop-by-hop headers; Connection lists naming present, absent, repeated and otherwise end-to-end headers, split over two lines; bodies 0..1MiB around minLength, length-declared or chunked with chunk sizes 1..70000, gzip-labelled or plain; keep-alive reuse of the client connection) x scripted backend responses (13 statuses, repeated/empty headers, bodies around minLength, length-declared or chunked, gzip-labelled or plain; in 6 of 10 responses a Vary header of the backend's own: one value, a list on one line, two or three lines, lower case, Accept-Encoding / Content-Encoding themselves, *; repeated Cache-Control lines, weak ETag, Last-Modified, Content-Language, Accept-Ranges, repeated Link, Content-Disposition, Expires, Age - the headers that live next to the ones the gateway's compression / decompression / body replacement rewrite; every member of the backend's Vary must still be named in the client's Vary whatever the gateway did to the body, the others are compared as multisets of lines). distinct = (method, path escape class, query, Connection tokens, hop headers, request framing/encoding/size class, request adaptor, response status class/mode/encoding/size class, response adaptor, compression relation, host rule, stream modes)"

var c03Assumptions = []string{
	"path equality is decided on the percent-decoded path (re-encoding of %2F or %41 alone is not flagged); the raw query must be byte-identical",
	"no Expect: 100-continue, trailers, Upgrade flows, absolute-form targets, CONNECT, raw non-ASCII targets; backend responses carry no hop-by-hop headers",
	"headers the gateway adds on its own behalf (User-Agent, Accept-Encoding, X-Forwarded-For, tracing) are allowed extras; header order and casing are not compared; repeated values are compared as multisets",
	"a zero-length body labelled Content-Encoding: gzip decodes to the empty body",
	"Content-Length / Content-Encoding / Date / Connection response headers are the gateway's to rewrite and are checked only through framing and decoded content",
	"Vary is the backend's end-to-end header that the gateway may extend (Content-Encoding when it compresses): every list member of the backend's Vary lines must be a member (case-insensitive) of the client's Vary lines; added members, joined or split lines and their order are not decided",
}

// TestVerif_C03_Exchange: sequential exchanges, several per gateway configuration, on a
// kept-alive raw connection.
func TestVerif_C03_Exchange(t *testing.T) {
	r := kit.Start(t, "C03")
	defer r.Finish()
	if e2eNotReplayed(r) {
		return
	}
	r.Rule(c03Rule)
	for _, a := range c03Assumptions {
		r.Assume(a)
	}
	be, err := e2eNewBackend()
	if err != nil {
		r.Inconclusive("cannot start backend: " + err.Error())
		return
	}
	defer be.Close()
	const perCase = 6
	dd := &c03Dedupe{}
	n := r.N(160, 4000)
	for i := 0; i < n; i++ {
		if !r.Mine(i) {
			continue
		}
		rng := r.CaseRand(i)
		cfg := c03Cfg(i, rng)
		exs := make([]*c03Ex, perCase)
		for k := range exs {
			exs[k] = c03Gen(cfg, rng, fmt.Sprintf("c03-%d-%d-%d", r.Seed(), i, k), k == perCase-1)
		}
		r.Case(i, map[string]interface{}{"cfg": cfg, "exchanges": exs})
		gw, err := e2eStart(cfg, be)
		if err != nil {
			r.Inconclusive("gateway did not start: " + err.Error())
			continue
		}
		cl := &e2eClient{addr: gw.addr}
		for _, ex := range exs {
			c03Run(r, dd, be, gw, cl, cfg, ex)
		}
		if i < 2 {
			r.Sample(map[string]interface{}{"cfg": cfg, "pipeline": cfg.pipelineYAML(be), "exchange": exs[0]})
		}
		cl.Close()
		c03Leftover(r, gw, cfg)
		gw.Close()
		be.CloseIdle()
	}
	c03Requires(r)
}

func c03Run(r *kit.Run, dd *c03Dedupe, be *e2eBackend, gw *e2eGateway, cl *e2eClient, cfg *e2eCfg, ex *c03Ex) (seen *e2eSeen) {
	sc := ex.Script
	be.Script(ex.ID, &sc)
	res := cl.Do(&ex.Req, func() bool { return be.Contacted(ex.ID) })
	seen = be.Take(ex.ID)
	r.Eval(1)
	finds, cover, inc := c03Check(cfg, ex, res, seen)
	for _, entry := range gw.errlog.TakePanics(res.Addrs) {
		// net/http recovered a panic of the mux handler and dropped the connection
		site, msg := e2ePanicSig(entry)
		r.Count("handler_panics", 1)
		finds = append(finds, c03Finding{c03Sig("handler-panic:"+site+":"+msg, c03RespTrigger(cfg, ex)),
			map[string]interface{}{"cfg": cfg, "exchange": ex, "serverLog": c03ClipN(entry, 3000)}, "handler-panic:" + site + ":" + msg})
	}
	if inc != "" {
		r.Inconclusive(inc)
		return seen
	}
	r.Cover(cover)
	c03Observe(r, cfg, ex, res, seen)
	for _, f := range finds {
		dd.record(r, f)
	}
	return seen
}

// c03Leftover reports handler panics that no exchange accounted for.
func c03Leftover(r *kit.Run, gw *e2eGateway, cfg *e2eCfg) {
	for _, entry := range gw.errlog.TakePanics(nil) {
		site, msg := e2ePanicSig(entry)
		r.Violation("C03:handler-panic-unattributed:"+site+":"+msg, map[string]interface{}{"cfg": cfg, "serverLog": c03ClipN(entry, 3000)})
	}
}

func c03Requires(r *kit.Run) {
	for _, k := range []string{"backend_contacted", "status_relayed", "hostrule_ip_server", "hostrule_hostname_server", "hostrule_keephost",
		"connection_listed_header_sent", "fixed_hop_header_sent", "repeated_request_header", "with_query", "escaped_path",
		"req_chunked", "req_declared", "client_framing_cl", "client_framing_chunked", "client_framing_none",
		"gateway_compressed_response", "gateway_decompressed_response", "gzip_response_passed_through", "respadaptor_body_replaced",
		"repeated_response_header", "repeated_cache_control_relayed", "backend_vary_under_proxy_compression", "backend_vary_list_under_proxy_compression",
		"backend_vary_lines_under_proxy_compression", "backend_vary_under_adaptor_compress", "backend_vary_under_decompression",
		"backend_vary_on_gzip_passed_through", "backend_vary_on_identity_response", "backend_vary_on_streamed_response", "backend_vary_under_adaptor_body",
		"on_reused_connection", "reqadaptor_body", "reqadaptor_compress", "reqadaptor_decompress",
		"request_streamed", "response_streamed"} {
		r.Require(k, 1)
	}
}

// c03FailStatus is the status the backend fails first attempts with in the retry cases of
// the concurrent part (listed in the pool's failureCodes; not in the alphabet of scripted
// statuses).
const c03FailStatus = 502

// c03Overlapify makes an exchange of a retry case stay in forwarding for a while: most
// bodies become chunked, and the backend fails the first 0..2 attempts (failure status or
// dropped connection), so that the gateway sends the request again after a back-off.
func c03Overlapify(ex *c03Ex, rng *rand.Rand) {
	q := &ex.Req
	if q.Framing == "cl" && rng.Intn(4) != 0 {
		q.Framing = "chunked"
		q.Chunk = []int{7, 100, 4096, 70000}[rng.Intn(4)]
		if len(q.Body) > 100000 && q.Chunk < 100 {
			q.Chunk = 4096
		}
	}
	ex.Script.FailFirst = []int{0, 0, 1, 1, 2}[rng.Intn(5)]
	ex.Script.FailStatus = []int{c03FailStatus, c03FailStatus, 0}[rng.Intn(3)]
	ex.Script.RespDelayMs = rng.Intn(4)
}

// TestVerif_C03_Concurrent: the same oracle with 8 raw clients hammering one gateway at
// the same time (race detector on).  Even cases: the pool has a Retry policy and the
// backend fails first attempts, so requests are still being forwarded (waiting for their
// next attempt) while the other clients' requests are read; odd cases: a backend that is
// slow to read and to answer.
func TestVerif_C03_Concurrent(t *testing.T) {
	r := kit.Start(t, "C03")
	defer r.Finish()
	if e2eNotReplayed(r) {
		return
	}
	r.Rule(c03Rule + " || concurrent part: 8 clients x one gateway, each client its own kept-alive connection; compressible bodies carry the exchange id in every record. Even cases: buffered requests, no RequestAdaptor, 3 of 4 length-declared bodies turned into chunked ones, pool with Retry policy (3 attempts, wait 8-22 ms) + failureCodes [502], the backend fails the first 0/1/2 attempts with 502 or a dropped connection: every attempt's body must be the client's bytes and the client gets the last attempt's response. Odd cases: a third of the exchanges meet a backend that waits 0-8 ms before reading the body and 0-10 ms before answering")
	be, err := e2eNewBackend()
	if err != nil {
		r.Inconclusive("cannot start backend: " + err.Error())
		return
	}
	defer be.Close()
	const workers = 8
	dd := &c03Dedupe{}
	perWorker := r.N(6, 12)
	n := r.N(10, 200)
	for i := 0; i < n; i++ {
		if !r.Mine(i) {
			continue
		}
		crng := r.CaseRand(i)
		cfg := c03Cfg(i*3+1, crng)
		retry := (i/2)%2 == 0 // (i/2: both shards of the quick tier get both kinds)
		if retry {
			cfg.Retry = &e2eRetry{MaxAttempts: 3, WaitMs: 8 + crng.Intn(15), Random: 0.5}
			cfg.FailureCodes = []int{c03FailStatus}
			cfg.ServerClientMax = 0 // (a streamed request cannot be sent twice)
			cfg.ReqAd = nil
		}
		r.Case(i, map[string]interface{}{"cfg": cfg, "workers": workers, "perWorker": perWorker})
		gw, err := e2eStart(cfg, be)
		if err != nil {
			r.Inconclusive("gateway did not start: " + err.Error())
			continue
		}
		var wg sync.WaitGroup
		for w := 0; w < workers; w++ {
			wg.Add(1)
			go func(w int) {
				defer wg.Done()
				rng := r.Rand(fmt.Sprintf("case/%d/worker/%d", i, w))
				cl := &e2eClient{addr: gw.addr}
				defer cl.Close()
				for k := 0; k < perWorker; k++ {
					ex := c03Gen(cfg, rng, fmt.Sprintf("c03c-%d-%d-%d-%d", r.Seed(), i, w, k), k == perWorker-1)
					if retry {
						c03Overlapify(ex, rng)
					} else if rng.Intn(3) == 0 {
						ex.Script.ReadDelayMs, ex.Script.RespDelayMs = rng.Intn(9), rng.Intn(11)
						r.Count("concurrent_slow_backend_exchanges", 1)
					}
					seen := c03Run(r, dd, be, gw, cl, cfg, ex)
					r.Count("concurrent_exchanges", 1)
					if seen != nil && len(seen.Bodies) > 1 {
						r.Count("concurrent_resent_after_backoff", 1)
						if ex.Req.Framing == "chunked" && len(ex.Req.Body) > 0 {
							r.Count("concurrent_chunked_body_resent_after_backoff", 1)
						}
					}
				}
			}(w)
		}
		wg.Wait()
		c03Leftover(r, gw, cfg)
		gw.Close()
		be.CloseIdle()
	}
	r.Require("concurrent_exchanges", 1)
	r.Require("concurrent_resent_after_backoff", 1)
	r.Require("concurrent_chunked_body_resent_after_backoff", 1)
	r.Require("concurrent_slow_backend_exchanges", 1)
	r.Require("status_relayed", 1)
}

func c03ClipN(s string, n int) string {
	if len(s) > n {
		return s[:n]
	}
	return s
}
