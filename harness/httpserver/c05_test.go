//go:build verif

package httpserver

import (
	"fmt"
	"net"
	"testing"

	"verif.local/kit"
)

func c05Net(e string) *net.IPNet {
	if ip := net.ParseIP(e); ip != nil {
		if v4 := ip.To4(); v4 != nil {
			return &net.IPNet{IP: v4, Mask: net.CIDRMask(32, 32)}
		}
		return &net.IPNet{IP: ip, Mask: net.CIDRMask(128, 128)}
	}
	_, n, err := net.ParseCIDR(e)
	if err != nil {
		panic(err)
	}
	return n
}

// c05Denied is the decision table of the property (nil filter denies nobody).
func c05Denied(f *gIPF, ipstr string) bool {
	if f == nil {
		return false
	}
	ip := net.ParseIP(ipstr)
	in := func(l []string) bool {
		for _, e := range l {
			if c05Net(e).Contains(ip) {
				return true
			}
		}
		return false
	}
	a, b := in(f.Allow), in(f.Block)
	switch {
	case b && !a:
		return true
	case a && !b:
		return false
	default:
		return f.BlockByDefault
	}
}

func c05Strip(s *gSpec) *gSpec {
	t := &gSpec{XFF: s.XFF}
	for _, r := range s.Rules {
		nr := gRule{Host: r.Host, HostRegexp: r.HostRegexp}
		for _, p := range r.Paths {
			p.IPF = nil
			nr.Paths = append(nr.Paths, p)
		}
		t.Rules = append(t.Rules, nr)
	}
	return t
}

// TestVerif_C05_Mux: mux with IP filters at the three levels against a twin mux without
// any filter, over request histories, with and without the route cache.
func TestVerif_C05_Mux(t *testing.T) {
	r := kit.Start(t, "C05")
	defer r.Finish()
	r.Rule("part b: seeded HTTPServer specs with IP filters at server/rule/path level (and header conditions in half of them), cacheSize in {0,1,2,8,64}; histories of 40 requests drawn from a pool of 10 requests by 10 client addresses given via RemoteAddr / a public X-Forwarded-For / X-Real-IP; each request also goes to a twin mux whose spec has every filter removed; must-refuse (denied by the server filter, or by the rule/path filter of the route the twin picks): 4xx, handler never invoked, 403 when the twin finds a route; must-pass (no filter of the server, of any host-matching rule, or of the twin's path denies): identical to the twin; otherwise no verdict; distinct = (verdict class, level that denies, cache hit?, twin status)")
	r.Assume("client address = RemoteAddr host, or a single public X-Forwarded-For value, or X-Real-IP, as resolved by the realip library the server uses")
	nSpecs := r.N(800, 24000)
	sizes := []int{0, 0, 1, 2, 8, 64}
	missing := map[string]bool{"gone": true}
	for i := 0; i < nSpecs; i++ {
		if !r.Mine(i) {
			continue
		}
		rng := r.CaseRand(i)
		spec := genSpec(rng, genOpts{headers: i%2 == 1, ipf: true, maxRules: 3, maxPaths: 3})
		if spec.IPF == nil && rng.Intn(2) == 0 {
			spec.IPF = genIPF(rng)
		}
		spec.CacheSize = sizes[rng.Intn(len(sizes))]
		twinSpec := c05Strip(spec)
		r.Case(i, spec)
		mapper := &recMapper{missing: missing}
		m, err := buildMux(spec, mapper)
		tw, err2 := buildMux(twinSpec, &recMapper{missing: missing})
		if err != nil || err2 != nil {
			r.Count("spec_rejected", 1)
			r.Note("spec rejected: %v %v", err, err2)
			continue
		}
		pool := make([]gReq, 0, 12)
		for k := 0; k < 8; k++ {
			pool = append(pool, genReq(rng, spec, true))
		}
		for k := 0; k < 3; k++ { // same key, other client
			v := pool[rng.Intn(len(pool))]
			v.Headers = append([][2]string{}, v.Headers...)
			kept := v.Headers[:0]
			for _, kv := range v.Headers {
				if kv[0] != "X-Forwarded-For" && kv[0] != "X-Real-Ip" {
					kept = append(kept, kv)
				}
			}
			v.Headers = kept
			v.RemoteAddr = net.JoinHostPort(pick(rng, genClients), "77")
			pool = append(pool, v)
		}
		var trace []map[string]interface{}
		for k := 0; k < 40; k++ {
			q := pool[rng.Intn(len(pool))]
			c := q.clientIP()
			ref := refRoute(twinSpec, &q, missing)
			var got, twin gOut
			in := map[string]interface{}{"spec": spec, "req": q}
			before := mapper.Calls()
			if r.Guard("C05:mux", in, func() { got = serve(m, &q) }) {
				continue
			}
			called := mapper.Calls() - before
			if r.Guard("C05:twin", in, func() { twin = serve(tw, &q) }) {
				continue
			}
			r.Eval(1)
			routeExists := ref.Rule >= 0
			deniedServer := c05Denied(spec.IPF, c)
			deniedRoute := routeExists && (c05Denied(spec.Rules[ref.Rule].IPF, c) || c05Denied(spec.Rules[ref.Rule].Paths[ref.PathIdx].IPF, c))
			deniedAnyVisited := deniedServer || deniedRoute
			for ri := range spec.Rules {
				if ok, _ := refHostMatch(&spec.Rules[ri], q.Host); ok && c05Denied(spec.Rules[ri].IPF, c) {
					deniedAnyVisited = true
				}
			}
			class, level := "no-verdict", "-"
			switch {
			case deniedServer:
				class, level = "must-refuse", "server"
			case deniedRoute:
				class, level = "must-refuse", "route"
			case !deniedAnyVisited:
				class = "must-pass"
			}
			r.Cover(fmt.Sprintf("mux/%s/%s/cache=%v/twin=%d", class, level, spec.CacheSize > 0, twin.Status))
			r.Count("class_"+class, 1)
			trace = append(trace, map[string]interface{}{"req": q, "client": c, "got": got, "twin": twin, "class": class})
			bad := ""
			switch class {
			case "must-refuse":
				switch {
				case called != 0:
					bad = "denied-client-reached-handler"
				case got.Status < 400 || got.Status > 499:
					bad = fmt.Sprintf("denied-client-not-refused-4xx:got%d", got.Status)
				case routeExists && got.Status != 403:
					bad = fmt.Sprintf("denied-client-route-exists-not-403:got%d", got.Status)
				}
				r.Count("refusals_checked", 1)
			case "must-pass":
				if got.Status != twin.Status || got.Backend != twin.Backend || got.Path != twin.Path {
					bad = fmt.Sprintf("allowed-client-routed-differently:got%d-twin%d", got.Status, twin.Status)
				}
				if twin.Status == 200 {
					r.Count("allowed_routed_200", 1)
				}
			}
			if bad != "" {
				tail := trace
				if len(tail) > 10 {
					tail = tail[len(tail)-10:]
				}
				r.Violation("ipfilter-mux:"+bad+":deny-level="+level+fmt.Sprintf(":cache=%v", spec.CacheSize > 0), map[string]interface{}{
					"yaml": spec.YAML("verif"), "request": q, "client": c, "real": got, "twin_without_filters": twin, "history_tail": tail,
				})
			}
		}
		if i < 2 {
			r.Sample(map[string]interface{}{"spec": spec, "trace_head": trace[:minIntC05(3, len(trace))]})
		}
		m.close()
		tw.close()
	}
	r.Require("class_must-refuse", 1)
	r.Require("class_must-pass", 1)
	r.Require("allowed_routed_200", 1)
}

func minIntC05(a, b int) int {
	if a < b {
		return a
	}
	return b
}
