//go:build verif

package httpserver

import (
	"encoding/json"
	"fmt"
	"math/rand"
	"net"
	"testing"

	"github.com/megaease/easegress/pkg/supervisor"
	"verif.local/kit"
)

func c05Net(e string) *net.IPNet {
	if ip := net.ParseIP(e); ip != nil {
		if v4 := ip.To4(); v4 != nil {
			return &net.IPNet{IP: v4, Mask: net.CIDRMask(32, 32)}
		}
		return &net.IPNet{IP: ip, Mask: net.CIDRMask(128, 128)}
	}
	_, n, err := net.ParseCIDR(e)
	if err != nil {
		panic(err)
	}
	return n
}

// c05Denied is the decision table of the property (nil filter denies nobody).
func c05Denied(f *gIPF, ipstr string) bool {
	if f == nil {
		return false
	}
	ip := net.ParseIP(ipstr)
	in := func(l []string) bool {
		for _, e := range l {
			if c05Net(e).Contains(ip) {
				return true
			}
		}
		return false
	}
	a, b := in(f.Allow), in(f.Block)
	switch {
	case b && !a:
		return true
	case a && !b:
		return false
	default:
		return f.BlockByDefault
	}
}

func c05Strip(s *gSpec) *gSpec {
	t := &gSpec{XFF: s.XFF}
	for _, r := range s.Rules {
		nr := gRule{Host: r.Host, HostRegexp: r.HostRegexp}
		for _, p := range r.Paths {
			p.IPF = nil
			nr.Paths = append(nr.Paths, p)
		}
		t.Rules = append(t.Rules, nr)
	}
	return t
}

// c05Verdict is what the property demands for one request under one spec.
type c05Verdict struct {
	class, level      string // must-refuse / must-pass / no-verdict; level that denies
	routeExists       bool
	deniedEarlierRule bool
}

// c05Classify applies the property's decision table to the request under the given spec
// (twinSpec = the same spec with every filter removed, i.e. the route that "exists").
func c05Classify(spec, twinSpec *gSpec, q *gReq, missing map[string]bool) c05Verdict {
	c := q.clientIP()
	ref := refRoute(twinSpec, q, missing)
	v := c05Verdict{class: "no-verdict", level: "-", routeExists: ref.Rule >= 0}
	deniedServer := c05Denied(spec.IPF, c)
	deniedRoute := v.routeExists && (c05Denied(spec.Rules[ref.Rule].IPF, c) || c05Denied(spec.Rules[ref.Rule].Paths[ref.PathIdx].IPF, c))
	deniedAnyVisited := deniedServer || deniedRoute
	for ri := range spec.Rules {
		if ok, _ := refHostMatch(&spec.Rules[ri], q.Host); ok && c05Denied(spec.Rules[ri].IPF, c) {
			deniedAnyVisited = true
		}
	}
	switch {
	case deniedServer:
		v.class, v.level = "must-refuse", "server"
	case deniedRoute:
		v.class, v.level = "must-refuse", "route"
	case !deniedAnyVisited:
		v.class = "must-pass"
	}
	// denied by the rule-level filter of a host-matching rule in front of the one that owns
	// the route (or of any host-matching rule when there is no route)
	for ri := range spec.Rules {
		if v.routeExists && ri >= ref.Rule {
			break
		}
		if ok, _ := refHostMatch(&spec.Rules[ri], q.Host); ok && c05Denied(spec.Rules[ri].IPF, c) {
			v.deniedEarlierRule = true
		}
	}
	if v.class == "no-verdict" {
		v.level = "other-host-matching-rule"
		if v.deniedEarlierRule {
			v.level = "earlier-host-matching-rule"
		}
	}
	return v
}

// c05Update describes the last hot update of the server's spec in an update history.
type c05Update struct {
	changed string // which ipFilter the update changed: server / rule / path / nothing
	kind    string
	old     *gSpec
	// what the live route cache held, just before the update, under the key of each pool
	// request: "route", "code<status>" (absent = nothing)
	cachedBefore map[string]string
}

// c05Env is one server under test with its twins and the history so far.
type c05Env struct {
	r              *kit.Run
	missing        map[string]bool
	spec, twinSpec *gSpec
	mapper         *recMapper
	m, tw, nc      *mux
	trace          []map[string]interface{}
	upd            *c05Update // nil until the first hot update of this history
	// forwarding-header class: the shape of the forwarding headers of each pool request
	// (keyed by c05FwdKey); nil in the other classes
	fwdShape map[string]string
}

func c05FwdKey(q *gReq) string { return fmt.Sprint(q.Headers, q.RemoteAddr) }

// c05AddrClass: what kind of client address the gateway derives for the request: "" for an IP
// address, otherwise "none" (nothing derivable) or "unparsable" (a value that is no address).
func c05AddrClass(c string) string {
	switch {
	case c == "":
		return "none"
	case net.ParseIP(c) == nil:
		return "unparsable"
	}
	return ""
}

func c05Key(q *gReq) string { return q.Host + "\x00" + q.Method + "\x00" + q.Path }

// step serves one request on the server and its twins and judges it against the filters of
// the spec that is in force NOW.
func (e *c05Env) step(q gReq) {
	r, spec, missing := e.r, e.spec, e.missing
	c := q.clientIP()
	v := c05Classify(spec, e.twinSpec, &q, missing)
	class, level, routeExists, deniedEarlierRule := v.class, v.level, v.routeExists, v.deniedEarlierRule
	var got, twin, nocache gOut
	in := map[string]interface{}{"spec": spec, "req": q}
	// what the route cache holds for this request's key just before it is served (only
	// looked at for the open class)
	entry := "-"
	if class == "no-verdict" && spec.CacheSize > 0 && e.nc == nil {
		// same filters, no cache: what the server does for a request without any history
		// (built when the first request of the open class comes up)
		ncSpec := *spec
		ncSpec.CacheSize = 0
		var err3 error
		if e.nc, err3 = buildMux(&ncSpec, &recMapper{missing: missing}); err3 != nil {
			r.Inconclusive(fmt.Sprintf("cache-less twin of an accepted spec rejected: %v", err3))
			e.nc = nil
		}
	}
	if class == "no-verdict" && e.nc != nil {
		entry = "none"
		if hit, kind := muxCacheProbe(e.m, &q); hit {
			entry = kind
		}
	}
	// update histories: what the property demanded for this very request before the last
	// update, and whether its key was in the route cache when the update came
	updTag, updCover, keyBefore := "", "", "none"
	var before c05Verdict
	if e.upd != nil {
		before = c05Classify(e.upd.old, e.twinSpec, &q, missing)
		if k, ok := e.upd.cachedBefore[c05Key(&q)]; ok {
			keyBefore = k
		}
		what := e.upd.changed + "-ipfilter"
		if e.upd.changed == "nothing" {
			what = "nothing"
		}
		updTag = fmt.Sprintf(":after-hot-update-changing=%s:key-cached-before-update=%s", what, keyBefore)
		updCover = fmt.Sprintf("/upd=%s/was=%s/keybefore=%s", e.upd.changed, before.class, keyBefore)
	}
	calls0 := e.mapper.Calls()
	if r.Guard("C05:mux", in, func() { got = serve(e.m, &q) }) {
		return
	}
	called := e.mapper.Calls() - calls0
	if r.Guard("C05:twin", in, func() { twin = serve(e.tw, &q) }) {
		return
	}
	if class == "no-verdict" && e.nc != nil {
		if r.Guard("C05:nocache", in, func() { nocache = serve(e.nc, &q) }) {
			return
		}
	}
	r.Eval(1)
	r.Cover(fmt.Sprintf("mux/%s/%s/cache=%v/entry=%s/twin=%d%s", class, level, spec.CacheSize > 0, entry, twin.Status, updCover))
	r.Count("class_"+class, 1)
	addrTag := ""
	if e.fwdShape != nil {
		shape, ac := e.fwdShape[c05FwdKey(&q)], c05AddrClass(c)
		r.Count("fwd_shape_"+shape, 1)
		r.Cover(fmt.Sprintf("fwd/%s/addr=%s/%s/%s/cache=%v/twin=%d", shape, ac, class, level, spec.CacheSize > 0, twin.Status))
		if ac != "" {
			addrTag = ":derived-client-address=" + ac
			// such an address lies in no list: every filter applying to it decides by its
			// blockByDefault alone
			ref := refRoute(e.twinSpec, &q, missing)
			lv := []struct {
				name string
				f    *gIPF
			}{{"server", spec.IPF}, {"rule", nil}, {"path", nil}}
			if ref.Rule >= 0 {
				lv[1].f, lv[2].f = spec.Rules[ref.Rule].IPF, spec.Rules[ref.Rule].Paths[ref.PathIdx].IPF
			}
			for _, l := range lv {
				if l.f == nil {
					continue
				}
				switch {
				case class == "must-refuse" && l.f.BlockByDefault:
					r.Count("client_address_"+ac+"_refused_by_blockByDefault_true_of_"+l.name+"_filter", 1)
					if hit, _ := muxCacheProbe(e.m, &q); hit {
						r.Count("client_address_"+ac+"_refused_by_blockByDefault_true_key_in_route_cache", 1)
					}
				case class == "must-pass" && !l.f.BlockByDefault && twin.Status == 200:
					r.Count("client_address_"+ac+"_let_through_by_blockByDefault_false_of_"+l.name+"_filter", 1)
				}
			}
		}
	}
	if e.upd != nil {
		r.Count("requests_after_a_hot_update", 1)
		if spec.CacheSize > 0 && keyBefore == "route" {
			switch {
			case class == "must-refuse" && before.class != "must-refuse":
				// the update is what denies this client; the route it asks for was cached (by
				// itself or by another client) before the update
				r.Count("update_denies_client_asking_route_cached_before_update:changed="+e.upd.changed, 1)
			case class == "must-pass" && before.class == "must-refuse":
				r.Count("update_admits_client_asking_route_cached_before_update", 1)
				r.Count("update_admits_client_asking_route_cached_before_update:changed="+e.upd.changed, 1)
			}
		}
	}
	e.trace = append(e.trace, map[string]interface{}{"req": q, "client": c, "got": got, "twin": twin, "class": class, "cache_entry": entry})
	bad := ""
	switch class {
	case "must-refuse":
		switch {
		case called != 0:
			bad = "denied-client-reached-handler"
		case got.Status < 400 || got.Status > 499:
			bad = fmt.Sprintf("denied-client-not-refused-4xx:got%d", got.Status)
		case routeExists && got.Status != 403:
			bad = fmt.Sprintf("denied-client-route-exists-not-403:got%d", got.Status)
		}
		r.Count("refusals_checked", 1)
	case "must-pass":
		if got.Status != twin.Status || got.Backend != twin.Backend || got.Path != twin.Path {
			bad = fmt.Sprintf("allowed-client-routed-differently:got%d-twin%d", got.Status, twin.Status)
		}
		if twin.Status == 200 {
			r.Count("allowed_routed_200", 1)
		}
	case "no-verdict":
		// Whether the filter of a host-matching rule that does not own the route applies is
		// left open; but the answer may not depend on the cache or on who asked before.
		if e.nc == nil {
			break
		}
		r.Count("open_case_compared_with_cacheless_server", 1)
		if entry == "route" && deniedEarlierRule && routeExists {
			// an earlier request put this route into the cache (it was let through), now a
			// client that an earlier host-matching rule denies asks for the same key
			r.Count("open_case_cached_route_asked_by_client_an_earlier_rule_denies", 1)
		}
		if entry != "none" && entry != "route" && deniedEarlierRule {
			r.Count("open_case_cached_"+entry+"_asked_by_client_a_host_matching_rule_denies", 1)
		}
		if got.Status != nocache.Status || got.Backend != nocache.Backend || got.Path != nocache.Path {
			bad = fmt.Sprintf("host-matching-rule-filter:outcome-depends-on-cache-history:nocache%d-cache%d:cache-entry=%s", nocache.Status, got.Status, entry)
		}
	}
	if bad != "" {
		tail := e.trace
		if len(tail) > 10 {
			tail = tail[len(tail)-10:]
		}
		detail := map[string]interface{}{
			"yaml": spec.YAML("verif"), "request": q, "client": c, "real": got, "twin_without_filters": twin, "history_tail": tail,
		}
		if e.upd != nil {
			detail["last_hot_update"] = map[string]interface{}{
				"changed": e.upd.changed + " ipFilter", "kind": e.upd.kind, "yaml_before_update": e.upd.old.YAML("verif"),
				"verdict_before_update": before.class, "key_in_route_cache_before_update": keyBefore,
			}
		}
		if e.fwdShape != nil {
			detail["forwarding_headers_shape"] = e.fwdShape[c05FwdKey(&q)]
		}
		r.Violation("ipfilter-mux:"+bad+":deny-level="+level+fmt.Sprintf(":cache=%v", spec.CacheSize > 0)+updTag+addrTag, detail)
	}
}

func (e *c05Env) close() {
	e.m.close()
	e.tw.close()
	if e.nc != nil {
		e.nc.close()
	}
}

func c05CloneIPF(f *gIPF) *gIPF {
	if f == nil {
		return &gIPF{}
	}
	return &gIPF{BlockByDefault: f.BlockByDefault, Allow: append([]string{}, f.Allow...), Block: append([]string{}, f.Block...)}
}

func c05CloneSpec(s *gSpec) *gSpec {
	b, _ := json.Marshal(s)
	t := &gSpec{}
	if err := json.Unmarshal(b, t); err != nil {
		panic(err)
	}
	return t
}

// c05EntriesContaining: the client's own address and every network of the generator's
// alphabet that contains it.
func c05EntriesContaining(c string) []string {
	out := []string{c}
	ip := net.ParseIP(c)
	for _, e := range genNets {
		if e != c && c05Net(e).Contains(ip) {
			out = append(out, e)
		}
	}
	return out
}

func c05Without(entries []string, c string) []string {
	ip := net.ParseIP(c)
	var out []string
	for _, e := range entries {
		if !c05Net(e).Contains(ip) {
			out = append(out, e)
		}
	}
	return out
}

// c05GenUpdate: the operator edits ONE ipFilter of the running server (server level, one
// rule, or one path) and leaves everything else (rules, hosts, paths, cacheSize) as it is:
// a filter is added, removed, replaced, gets an entry that blocks one of the clients seen
// in the traffic, is edited so that such a client is let through, has blockByDefault flipped;
// now and then the identical spec is applied again.
//
// Returned besides the new spec: the request of the pool the edit is "about" (the client
// that gets blocked / admitted; otherwise just one of the pool).
func c05GenUpdate(rng *rand.Rand, spec, twinSpec *gSpec, pool []gReq, missing map[string]bool, routeCached func(*gReq) bool) (ns *gSpec, changed, kind string, q0 gReq) {
	ns = c05CloneSpec(spec)
	k := rng.Intn(10)
	// the client the edit is about: for a blocking edit preferably one that is served now,
	// for an admitting edit preferably one that is refused now; in both cases preferably one
	// asking for a route that currently sits in the route cache
	off := rng.Intn(len(pool))
	q0 = pool[off]
	if k == 0 {
		return ns, "nothing", "same-spec-applied-again", q0
	}
	if k >= 3 && k <= 8 {
	search:
		for pass := 0; pass < 2; pass++ {
			for j := range pool {
				q := pool[(off+j)%len(pool)]
				refused := c05Classify(spec, twinSpec, &q, missing).class == "must-refuse"
				if refused == (k >= 6) && (pass == 1 || routeCached(&q)) {
					q0 = q
					break search
				}
			}
		}
	}
	c := q0.clientIP()
	ri := rng.Intn(len(ns.Rules))
	pi := rng.Intn(len(ns.Rules[ri].Paths))
	ref := refRoute(twinSpec, &q0, missing)
	if ref.Rule >= 0 && rng.Intn(4) != 0 {
		ri, pi = ref.Rule, ref.PathIdx // the rule / path serving that client's request
	}
	lvl := rng.Intn(3)
	if k >= 6 && k <= 8 && rng.Intn(4) != 0 {
		// admit: edit the filter that refuses the client
		switch {
		case c05Denied(ns.IPF, c):
			lvl = 0
		case ref.Rule >= 0 && c05Denied(ns.Rules[ref.Rule].IPF, c):
			lvl, ri = 1, ref.Rule
		case ref.Rule >= 0 && c05Denied(ns.Rules[ref.Rule].Paths[ref.PathIdx].IPF, c):
			lvl, ri, pi = 2, ref.Rule, ref.PathIdx
		}
	}
	var slot **gIPF
	switch lvl {
	case 0:
		slot, changed = &ns.IPF, "server"
	case 1:
		slot, changed = &ns.Rules[ri].IPF, "rule"
	default:
		slot, changed = &ns.Rules[ri].Paths[pi].IPF, "path"
	}
	switch {
	case k <= 2:
		if *slot != nil && rng.Intn(3) == 0 {
			*slot, kind = nil, "filter-removed"
		} else {
			*slot, kind = genIPF(rng), "filter-replaced"
		}
	case k <= 5:
		f := c05CloneIPF(*slot)
		f.Block = appendUniq(f.Block, pick(rng, c05EntriesContaining(c)))
		if rng.Intn(2) == 0 {
			f.Allow = c05Without(f.Allow, c)
		}
		*slot, kind = f, "entry-blocking-a-seen-client-added"
	case k <= 8:
		f := c05CloneIPF(*slot)
		f.Block = c05Without(f.Block, c)
		if f.BlockByDefault {
			f.Allow = appendUniq(f.Allow, pick(rng, c05EntriesContaining(c)))
		}
		*slot, kind = f, "edited-to-admit-a-seen-client"
	default:
		f := c05CloneIPF(*slot)
		f.BlockByDefault = !f.BlockByDefault
		*slot, kind = f, "blockByDefault-flipped"
	}
	return ns, changed, kind, q0
}

// hotUpdate applies the new spec to the RUNNING server (mux.reload, as HTTPServer does on an
// updated spec); the twins follow: the filter-less twin is unaffected (rules are the same),
// the cache-less twin is rebuilt from the new spec when next needed.
func (e *c05Env) hotUpdate(ns *gSpec, changed, kind string, pool []gReq) bool {
	ss, err := supervisor.NewSpec(ns.YAML("verif"))
	if err != nil {
		e.r.Count("update_spec_rejected", 1)
		e.r.Note("updated spec rejected by validation: %v", err)
		return false
	}
	u := &c05Update{changed: changed, kind: kind, old: e.spec, cachedBefore: map[string]string{}}
	for k := range pool {
		if hit, ek := muxCacheProbe(e.m, &pool[k]); hit {
			u.cachedBefore[c05Key(&pool[k])] = ek
		}
	}
	e.m.reload(ss, e.mapper)
	e.spec, e.upd = ns, u
	if e.nc != nil {
		e.nc.close()
		e.nc = nil
	}
	e.r.Count("hot_updates", 1)
	e.r.Count("hot_updates_changing_"+changed, 1)
	return true
}

// TestVerif_C05_Mux: mux with IP filters at the three levels against a twin mux without
// any filter, over request histories, with and without the route cache, and over histories
// in which the running server's filters are updated between requests.
func TestVerif_C05_Mux(t *testing.T) {
	r := kit.Start(t, "C05")
	defer r.Finish()
	r.Rule("part b: seeded HTTPServer specs with IP filters at server/rule/path level (and header conditions in half of them), cacheSize in {0,1,2,8,64}; every third spec is a 'stacked' server: 2-3 rules whose host conditions (catch-all, exact, regexps) all accept the same host, most of them with their own rule-level filter, cacheSize>0, and a pool of 4 request shapes for that host each asked by 3 different clients, so that a route is first cached by a client the filters let through and then asked for by a client that an earlier host-matching rule (which does not own the path) denies; histories of 40 requests drawn from the pool, client addresses given via RemoteAddr / a public X-Forwarded-For / X-Real-IP; each request also goes to a twin mux whose spec has every filter removed and, when the cache is on, to a twin with the same filters but no cache; must-refuse (denied by the server filter, or by the rule/path filter of the route the twin picks): 4xx, handler never invoked, 403 when the twin finds a route; must-pass (no filter of the server, of any host-matching rule, or of the twin's path denies): identical to the twin; otherwise (denied only by the filter of another host-matching rule: whether that filter applies is left open) the outcome must not depend on the cache or on earlier requests, i.e. equal the cache-less twin's; UPDATE HISTORIES (a further 14% of servers of the same two kinds, cache on in 5 of 6): 3 phases of 12, 18 and 18 requests from the same pool, and between phases the RUNNING server gets a hot update (mux.reload) that leaves rules, hosts, paths and cacheSize alone and edits one ipFilter (server level / one rule / one path, preferably the ones serving a client of the pool): filter added, removed, replaced, an entry blocking a seen client added, edited to admit a seen client, blockByDefault flipped, or the same spec applied again; the client such an edit is about (preferably one whose route sits in the route cache) is the first to ask again after the update; every request after an update is judged by the same three rules against the filters of the spec NOW in force; a run must contain clients that the last update newly denies (server-, rule- and path-level updates each) and clients it newly admits asking for a route that sat in the route cache when the update came; FORWARDING HEADERS (a further 13% of servers of the same two kinds, a filter forced at the server level, on every rule, or on every path in turn, blockByDefault true in half of the filters): every request of the pool gets its client through X-Forwarded-For / X-Real-IP in one of 13 shapes: one public entry; one private entry; several private entries; an unparsable entry (\"unknown\", a host name, a truncated address, address:port); unparsable and private entries; private then public entries; public then private; unparsable then public; nothing usable in X-Forwarded-For plus X-Real-IP; X-Real-IP alone; an unparsable X-Real-IP; an empty X-Forwarded-For with X-Real-IP / with RemoteAddr only; separators with and without blanks; for five of these shapes NO client address is derivable (or the derived value is no address): such a client lies in no list, so each filter applying to it decides by blockByDefault alone: refused under the must-refuse rule when a filter applying to it has blockByDefault true, routed like the filter-less twin when all have it false; a run must contain such clients refused by a blockByDefault:true filter and let through to a backend by a blockByDefault:false filter at the server, the rule and the path level each, and one refused while its key sat in the route cache; distinct = (verdict class, level that denies, cache on?, cache entry found, twin status; after an update also: which filter the update changed, verdict before the update, what the cache held for the key before the update; forwarding class also: header shape, derived-address kind)")
	r.Assume("client address = the one the gateway derives, re-stated in the harness after realip.FromRequest of the unchanged tree: the RemoteAddr host when neither X-Real-IP nor X-Forwarded-For carries a value; otherwise the first comma-separated X-Forwarded-For entry (blanks trimmed) that parses as an IP address outside loopback/private/link-local ranges; if there is none, the X-Real-IP value as sent, possibly empty; one header line per name. Which address a chain of headers SHOULD yield is not judged (the property takes the derived address as given); judged is only the property's table applied to it: a derived value that is empty or no IP address lies in neither the allowed nor the blocked list of any filter, hence is denied by a filter iff that filter's blockByDefault is set")
	r.Assume("a spec update has been applied when mux.reload returned (requests and updates are sequential in these histories; concurrent updates are C11's subject): from then on 'the filter applying to it' means the filter of the updated spec")
	nSpecs := r.N(800, 24000)
	nUpd := r.N(112, 3360)
	nFwd := r.N(120, 3600)
	sizes := []int{0, 0, 1, 2, 8, 64}
	updSizes := []int{0, 2, 8, 64, 64, 64}
	missing := map[string]bool{"gone": true}
	for i := 0; i < nSpecs+nUpd+nFwd; i++ {
		if !r.Mine(i) {
			continue
		}
		rng := r.CaseRand(i)
		withUpdates := i >= nSpecs && i < nSpecs+nUpd
		withFwd := i >= nSpecs+nUpd
		stacked := i%3 == 2
		var spec *gSpec
		if stacked {
			// several rules accept the same host; rule-level filters on most of them
			spec = genStackedSpec(rng, genOpts{headers: i%2 == 1, ipf: true, maxRules: 3, maxPaths: 2})
			spec.CacheSize = sizes[2+rng.Intn(len(sizes)-2)]
		} else {
			spec = genSpec(rng, genOpts{headers: i%2 == 1, ipf: true, maxRules: 3, maxPaths: 3})
			if spec.IPF == nil && rng.Intn(2) == 0 {
				spec.IPF = genIPF(rng)
			}
			spec.CacheSize = sizes[rng.Intn(len(sizes))]
		}
		if withUpdates {
			spec.CacheSize = updSizes[rng.Intn(len(updSizes))]
		}
		if withFwd {
			// a filter at the server level, on every rule, or on every path, in turn
			switch fresh := func(f *gIPF) *gIPF {
				if f == nil {
					f = genIPF(rng)
				}
				return f
			}; (i - nSpecs - nUpd) % 3 {
			case 0:
				spec.IPF = fresh(spec.IPF)
			case 1:
				for ri := range spec.Rules {
					spec.Rules[ri].IPF = fresh(spec.Rules[ri].IPF)
				}
			default:
				for ri := range spec.Rules {
					for pi := range spec.Rules[ri].Paths {
						spec.Rules[ri].Paths[pi].IPF = fresh(spec.Rules[ri].Paths[pi].IPF)
					}
				}
			}
		}
		twinSpec := c05Strip(spec)
		if withUpdates {
			r.Case(i, map[string]interface{}{"kind": "update-history", "initial_spec": spec})
		} else {
			r.Case(i, spec)
		}
		mapper := &recMapper{missing: missing}
		m, err := buildMux(spec, mapper)
		tw, err2 := buildMux(twinSpec, &recMapper{missing: missing})
		if err != nil || err2 != nil {
			r.Count("spec_rejected", 1)
			r.Note("spec rejected: %v %v", err, err2)
			continue
		}
		env := &c05Env{r: r, missing: missing, spec: spec, twinSpec: twinSpec, mapper: mapper, m: m, tw: tw}
		if withFwd {
			env.fwdShape = map[string]string{}
		}
		pool := make([]gReq, 0, 12)
		nShapes, nOthers := 8, 3
		if stacked {
			nShapes, nOthers = 4, 8
		}
		for k := 0; k < nShapes; k++ {
			q := genReq(rng, spec, true)
			if stacked {
				q.Host = "a.com"
				if rng.Intn(4) == 0 {
					q.Host = "a.com:8080"
				}
			}
			if withFwd {
				shape := genFwdClient(rng, &q)
				env.fwdShape[c05FwdKey(&q)] = shape
			}
			pool = append(pool, q)
		}
		for k := 0; k < nOthers; k++ { // same key, other client
			v := pool[k%nShapes]
			if !stacked {
				v = pool[rng.Intn(len(pool))]
			}
			v.Headers = append([][2]string{}, v.Headers...)
			kept := v.Headers[:0]
			for _, kv := range v.Headers {
				if kv[0] != "X-Forwarded-For" && kv[0] != "X-Real-Ip" {
					kept = append(kept, kv)
				}
			}
			v.Headers = kept
			v.RemoteAddr = net.JoinHostPort(pick(rng, genClients), "77")
			if withFwd {
				shape := genFwdClient(rng, &v)
				env.fwdShape[c05FwdKey(&v)] = shape
			}
			pool = append(pool, v)
		}
		if !withUpdates {
			for k := 0; k < 40; k++ {
				env.step(pool[rng.Intn(len(pool))])
			}
		} else {
			for phase := 0; phase < 3; phase++ {
				n := 12
				if phase > 0 {
					n = 18
					ns, changed, kind, about := c05GenUpdate(rng, env.spec, twinSpec, pool, missing, func(q *gReq) bool {
						hit, ek := muxCacheProbe(env.m, q)
						return hit && ek == "route"
					})
					env.hotUpdate(ns, changed, kind, pool)
					// the client the edit was about comes back first
					env.step(about)
					n--
				}
				for k := 0; k < n; k++ {
					env.step(pool[rng.Intn(len(pool))])
				}
			}
		}
		if i < 2 {
			r.Sample(map[string]interface{}{"spec": spec, "trace_head": env.trace[:minIntC05(3, len(env.trace))]})
		}
		if i == nSpecs || i == nSpecs+1 {
			r.Sample(map[string]interface{}{"kind": "update-history", "initial_spec": spec, "last_update": map[string]string{"changed": env.upd.changed, "kind": env.upd.kind}, "final_yaml": env.spec.YAML("verif")})
		}
		env.close()
	}
	r.Require("class_must-refuse", 1)
	r.Require("class_must-pass", 1)
	r.Require("allowed_routed_200", 1)
	r.Require("open_case_compared_with_cacheless_server", 1)
	r.Require("open_case_cached_route_asked_by_client_an_earlier_rule_denies", 1)
	r.Require("requests_after_a_hot_update", 1)
	for _, l := range []string{"server", "rule", "path"} {
		r.Require("update_denies_client_asking_route_cached_before_update:changed="+l, 1)
	}
	r.Require("update_admits_client_asking_route_cached_before_update", 1)
	for _, sh := range []string{"xff-one-public", "xff-one-private(none)", "xff-several-all-private(none)", "xff-unparsable(none)", "xff-unparsable-and-private(none)",
		"xff-private-then-public", "xff-public-then-private", "xff-unparsable-then-public", "xff-nothing-usable+x-real-ip", "x-real-ip-only", "x-real-ip-unparsable",
		"xff-empty+x-real-ip", "xff-empty-remoteaddr"} {
		r.Require("fwd_shape_"+sh, 1)
	}
	for _, l := range []string{"server", "rule", "path"} {
		r.Require("client_address_none_refused_by_blockByDefault_true_of_"+l+"_filter", 1)
		r.Require("client_address_none_let_through_by_blockByDefault_false_of_"+l+"_filter", 1)
	}
	r.Require("client_address_unparsable_refused_by_blockByDefault_true_of_server_filter", 1)
	r.Require("client_address_none_refused_by_blockByDefault_true_key_in_route_cache", 1)
}

func minIntC05(a, b int) int {
	if a < b {
		return a
	}
	return b
}
