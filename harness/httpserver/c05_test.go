//go:build verif

package httpserver

import (
	"fmt"
	"net"
	"testing"

	"verif.local/kit"
)

func c05Net(e string) *net.IPNet {
	if ip := net.ParseIP(e); ip != nil {
		if v4 := ip.To4(); v4 != nil {
			return &net.IPNet{IP: v4, Mask: net.CIDRMask(32, 32)}
		}
		return &net.IPNet{IP: ip, Mask: net.CIDRMask(128, 128)}
	}
	_, n, err := net.ParseCIDR(e)
	if err != nil {
		panic(err)
	}
	return n
}

// c05Denied is the decision table of the property (nil filter denies nobody).
func c05Denied(f *gIPF, ipstr string) bool {
	if f == nil {
		return false
	}
	ip := net.ParseIP(ipstr)
	in := func(l []string) bool {
		for _, e := range l {
			if c05Net(e).Contains(ip) {
				return true
			}
		}
		return false
	}
	a, b := in(f.Allow), in(f.Block)
	switch {
	case b && !a:
		return true
	case a && !b:
		return false
	default:
		return f.BlockByDefault
	}
}

func c05Strip(s *gSpec) *gSpec {
	t := &gSpec{XFF: s.XFF}
	for _, r := range s.Rules {
		nr := gRule{Host: r.Host, HostRegexp: r.HostRegexp}
		for _, p := range r.Paths {
			p.IPF = nil
			nr.Paths = append(nr.Paths, p)
		}
		t.Rules = append(t.Rules, nr)
	}
	return t
}

// TestVerif_C05_Mux: mux with IP filters at the three levels against a twin mux without
// any filter, over request histories, with and without the route cache.
func TestVerif_C05_Mux(t *testing.T) {
	r := kit.Start(t, "C05")
	defer r.Finish()
	r.Rule("part b: seeded HTTPServer specs with IP filters at server/rule/path level (and header conditions in half of them), cacheSize in {0,1,2,8,64}; every third spec is a 'stacked' server: 2-3 rules whose host conditions (catch-all, exact, regexps) all accept the same host, most of them with their own rule-level filter, cacheSize>0, and a pool of 4 request shapes for that host each asked by 3 different clients, so that a route is first cached by a client the filters let through and then asked for by a client that an earlier host-matching rule (which does not own the path) denies; histories of 40 requests drawn from the pool, client addresses given via RemoteAddr / a public X-Forwarded-For / X-Real-IP; each request also goes to a twin mux whose spec has every filter removed and, when the cache is on, to a twin with the same filters but no cache; must-refuse (denied by the server filter, or by the rule/path filter of the route the twin picks): 4xx, handler never invoked, 403 when the twin finds a route; must-pass (no filter of the server, of any host-matching rule, or of the twin's path denies): identical to the twin; otherwise (denied only by the filter of another host-matching rule: whether that filter applies is left open) the outcome must not depend on the cache or on earlier requests, i.e. equal the cache-less twin's; distinct = (verdict class, level that denies, cache on?, cache entry found, twin status)")
	r.Assume("client address = RemoteAddr host, or a single public X-Forwarded-For value, or X-Real-IP, as resolved by the realip library the server uses")
	nSpecs := r.N(800, 24000)
	sizes := []int{0, 0, 1, 2, 8, 64}
	missing := map[string]bool{"gone": true}
	for i := 0; i < nSpecs; i++ {
		if !r.Mine(i) {
			continue
		}
		rng := r.CaseRand(i)
		stacked := i%3 == 2
		var spec *gSpec
		if stacked {
			// several rules accept the same host; rule-level filters on most of them
			spec = genStackedSpec(rng, genOpts{headers: i%2 == 1, ipf: true, maxRules: 3, maxPaths: 2})
			spec.CacheSize = sizes[2+rng.Intn(len(sizes)-2)]
		} else {
			spec = genSpec(rng, genOpts{headers: i%2 == 1, ipf: true, maxRules: 3, maxPaths: 3})
			if spec.IPF == nil && rng.Intn(2) == 0 {
				spec.IPF = genIPF(rng)
			}
			spec.CacheSize = sizes[rng.Intn(len(sizes))]
		}
		twinSpec := c05Strip(spec)
		r.Case(i, spec)
		mapper := &recMapper{missing: missing}
		m, err := buildMux(spec, mapper)
		tw, err2 := buildMux(twinSpec, &recMapper{missing: missing})
		// same filters, no cache: what the server does for a request without any history
		// (built when the first request of the open class comes up)
		var nc *mux
		if err != nil || err2 != nil {
			r.Count("spec_rejected", 1)
			r.Note("spec rejected: %v %v", err, err2)
			continue
		}
		pool := make([]gReq, 0, 12)
		nShapes, nOthers := 8, 3
		if stacked {
			nShapes, nOthers = 4, 8
		}
		for k := 0; k < nShapes; k++ {
			q := genReq(rng, spec, true)
			if stacked {
				q.Host = "a.com"
				if rng.Intn(4) == 0 {
					q.Host = "a.com:8080"
				}
			}
			pool = append(pool, q)
		}
		for k := 0; k < nOthers; k++ { // same key, other client
			v := pool[k%nShapes]
			if !stacked {
				v = pool[rng.Intn(len(pool))]
			}
			v.Headers = append([][2]string{}, v.Headers...)
			kept := v.Headers[:0]
			for _, kv := range v.Headers {
				if kv[0] != "X-Forwarded-For" && kv[0] != "X-Real-Ip" {
					kept = append(kept, kv)
				}
			}
			v.Headers = kept
			v.RemoteAddr = net.JoinHostPort(pick(rng, genClients), "77")
			pool = append(pool, v)
		}
		var trace []map[string]interface{}
		for k := 0; k < 40; k++ {
			q := pool[rng.Intn(len(pool))]
			c := q.clientIP()
			ref := refRoute(twinSpec, &q, missing)
			routeExists := ref.Rule >= 0
			deniedServer := c05Denied(spec.IPF, c)
			deniedRoute := routeExists && (c05Denied(spec.Rules[ref.Rule].IPF, c) || c05Denied(spec.Rules[ref.Rule].Paths[ref.PathIdx].IPF, c))
			deniedAnyVisited := deniedServer || deniedRoute
			for ri := range spec.Rules {
				if ok, _ := refHostMatch(&spec.Rules[ri], q.Host); ok && c05Denied(spec.Rules[ri].IPF, c) {
					deniedAnyVisited = true
				}
			}
			class, level := "no-verdict", "-"
			switch {
			case deniedServer:
				class, level = "must-refuse", "server"
			case deniedRoute:
				class, level = "must-refuse", "route"
			case !deniedAnyVisited:
				class = "must-pass"
			}
			// denied by the rule-level filter of a host-matching rule in front of the one that owns
			// the route (or of any host-matching rule when there is no route)
			deniedEarlierRule := false
			for ri := range spec.Rules {
				if routeExists && ri >= ref.Rule {
					break
				}
				if ok, _ := refHostMatch(&spec.Rules[ri], q.Host); ok && c05Denied(spec.Rules[ri].IPF, c) {
					deniedEarlierRule = true
				}
			}
			if class == "no-verdict" {
				level = "other-host-matching-rule"
				if deniedEarlierRule {
					level = "earlier-host-matching-rule"
				}
			}
			var got, twin, nocache gOut
			in := map[string]interface{}{"spec": spec, "req": q}
			// what the route cache holds for this request's key just before it is served (only
			// looked at for the open class)
			entry := "-"
			if class == "no-verdict" && spec.CacheSize > 0 && nc == nil {
				ncSpec := *spec
				ncSpec.CacheSize = 0
				var err3 error
				if nc, err3 = buildMux(&ncSpec, &recMapper{missing: missing}); err3 != nil {
					r.Inconclusive(fmt.Sprintf("cache-less twin of an accepted spec rejected: %v", err3))
					nc = nil
				}
			}
			if class == "no-verdict" && nc != nil {
				entry = "none"
				if hit, kind := muxCacheProbe(m, &q); hit {
					entry = kind
				}
			}
			before := mapper.Calls()
			if r.Guard("C05:mux", in, func() { got = serve(m, &q) }) {
				continue
			}
			called := mapper.Calls() - before
			if r.Guard("C05:twin", in, func() { twin = serve(tw, &q) }) {
				continue
			}
			if class == "no-verdict" && nc != nil {
				if r.Guard("C05:nocache", in, func() { nocache = serve(nc, &q) }) {
					continue
				}
			}
			r.Eval(1)
			r.Cover(fmt.Sprintf("mux/%s/%s/cache=%v/entry=%s/twin=%d", class, level, spec.CacheSize > 0, entry, twin.Status))
			r.Count("class_"+class, 1)
			trace = append(trace, map[string]interface{}{"req": q, "client": c, "got": got, "twin": twin, "class": class, "cache_entry": entry})
			bad := ""
			switch class {
			case "must-refuse":
				switch {
				case called != 0:
					bad = "denied-client-reached-handler"
				case got.Status < 400 || got.Status > 499:
					bad = fmt.Sprintf("denied-client-not-refused-4xx:got%d", got.Status)
				case routeExists && got.Status != 403:
					bad = fmt.Sprintf("denied-client-route-exists-not-403:got%d", got.Status)
				}
				r.Count("refusals_checked", 1)
			case "must-pass":
				if got.Status != twin.Status || got.Backend != twin.Backend || got.Path != twin.Path {
					bad = fmt.Sprintf("allowed-client-routed-differently:got%d-twin%d", got.Status, twin.Status)
				}
				if twin.Status == 200 {
					r.Count("allowed_routed_200", 1)
				}
			case "no-verdict":
				// Whether the filter of a host-matching rule that does not own the route applies is
				// left open; but the answer may not depend on the cache or on who asked before.
				if nc == nil {
					break
				}
				r.Count("open_case_compared_with_cacheless_server", 1)
				if entry == "route" && deniedEarlierRule && routeExists {
					// an earlier request put this route into the cache (it was let through), now a
					// client that an earlier host-matching rule denies asks for the same key
					r.Count("open_case_cached_route_asked_by_client_an_earlier_rule_denies", 1)
				}
				if entry != "none" && entry != "route" && deniedEarlierRule {
					r.Count("open_case_cached_"+entry+"_asked_by_client_a_host_matching_rule_denies", 1)
				}
				if got.Status != nocache.Status || got.Backend != nocache.Backend || got.Path != nocache.Path {
					bad = fmt.Sprintf("host-matching-rule-filter:outcome-depends-on-cache-history:nocache%d-cache%d:cache-entry=%s", nocache.Status, got.Status, entry)
				}
			}
			if bad != "" {
				tail := trace
				if len(tail) > 10 {
					tail = tail[len(tail)-10:]
				}
				r.Violation("ipfilter-mux:"+bad+":deny-level="+level+fmt.Sprintf(":cache=%v", spec.CacheSize > 0), map[string]interface{}{
					"yaml": spec.YAML("verif"), "request": q, "client": c, "real": got, "twin_without_filters": twin, "history_tail": tail,
				})
			}
		}
		if i < 2 {
			r.Sample(map[string]interface{}{"spec": spec, "trace_head": trace[:minIntC05(3, len(trace))]})
		}
		m.close()
		tw.close()
		if nc != nil {
			nc.close()
		}
	}
	r.Require("class_must-refuse", 1)
	r.Require("class_must-pass", 1)
	r.Require("allowed_routed_200", 1)
	r.Require("open_case_compared_with_cacheless_server", 1)
	r.Require("open_case_cached_route_asked_by_client_an_earlier_rule_denies", 1)
}

func minIntC05(a, b int) int {
	if a < b {
		return a
	}
	return b
}
