//go:build verif

package httpserver

// C13 generator: YAML-tree mutation of hand-written seed specs.  The grammar guidance
// comes from (a) the seeds, which use every section of their kind, (b) the node types in
// the tree, (c) the minimum/maximum bounds extracted from the JSON schemas easegress
// itself generates for the spec types (v.GetSchemaInJSON), keyed by property name.

import (
	"encoding/json"
	"fmt"
	"math/rand"
	"reflect"
	"sort"
	"strconv"
	"strings"
	"time"

	yaml "gopkg.in/yaml.v2"

	"github.com/megaease/easegress/pkg/v"
)

// ---------------------------------------------------------------- tree helpers

func x13Norm(n interface{}) interface{} {
	switch t := n.(type) {
	case map[interface{}]interface{}:
		m := make(map[string]interface{}, len(t))
		for k, val := range t {
			m[fmt.Sprint(k)] = x13Norm(val)
		}
		return m
	case map[string]interface{}:
		m := make(map[string]interface{}, len(t))
		for k, val := range t {
			m[k] = x13Norm(val)
		}
		return m
	case []interface{}:
		l := make([]interface{}, len(t))
		for i := range t {
			l[i] = x13Norm(t[i])
		}
		return l
	default:
		return n
	}
}

func x13ParseYAML(s string) map[string]interface{} {
	var raw interface{}
	if err := yaml.Unmarshal([]byte(s), &raw); err != nil {
		panic(fmt.Errorf("c13 harness: seed is not YAML: %v\n%s", err, s))
	}
	m, ok := x13Norm(raw).(map[string]interface{})
	if !ok {
		panic("c13 harness: seed is not a mapping")
	}
	return m
}

func x13Clone(n interface{}) interface{} { return x13Norm(n) }

// x13Export converts the tree to what the YAML encoder should see: mapping keys that
// are integers are emitted as integers (map[int]string fields such as TopicMapper's
// headers would not accept a quoted key).
func x13Export(n interface{}) interface{} {
	switch t := n.(type) {
	case map[string]interface{}:
		m := make(map[interface{}]interface{}, len(t))
		for k, val := range t {
			if i, err := strconv.Atoi(k); err == nil && strconv.Itoa(i) == k {
				m[i] = x13Export(val)
			} else {
				m[k] = x13Export(val)
			}
		}
		return m
	case []interface{}:
		l := make([]interface{}, len(t))
		for i := range t {
			l[i] = x13Export(t[i])
		}
		return l
	default:
		return n
	}
}

func x13ToYAML(n interface{}) string {
	b, err := yaml.Marshal(x13Export(n))
	if err != nil {
		return fmt.Sprintf("<<marshal error: %v>>", err)
	}
	return string(b)
}

type x13Path []interface{} // string keys and int indexes

func (p x13Path) String() string {
	var b strings.Builder
	for i, e := range p {
		switch t := e.(type) {
		case string:
			if i > 0 {
				b.WriteByte('.')
			}
			b.WriteString(t)
		case int:
			fmt.Fprintf(&b, "[%d]", t)
		}
	}
	return b.String()
}

// Shape is the path without list indexes (coverage class of a mutation point).
func (p x13Path) Shape() string {
	var parts []string
	for _, e := range p {
		if s, ok := e.(string); ok {
			parts = append(parts, s)
		}
	}
	return strings.Join(parts, ".")
}

func (p x13Path) leafName() string {
	for i := len(p) - 1; i >= 0; i-- {
		if s, ok := p[i].(string); ok {
			return s
		}
	}
	return ""
}

func x13Get(root interface{}, p x13Path) (interface{}, bool) {
	cur := root
	for _, e := range p {
		switch k := e.(type) {
		case string:
			m, ok := cur.(map[string]interface{})
			if !ok {
				return nil, false
			}
			cur, ok = m[k]
			if !ok {
				return nil, false
			}
		case int:
			l, ok := cur.([]interface{})
			if !ok || k < 0 || k >= len(l) {
				return nil, false
			}
			cur = l[k]
		}
	}
	return cur, true
}

// x13Set replaces the node at p (which must exist); drop removes it.
func x13Set(root map[string]interface{}, p x13Path, val interface{}, drop bool) bool {
	if len(p) == 0 {
		return false
	}
	parent, ok := x13Get(root, p[:len(p)-1])
	if !ok {
		return false
	}
	switch k := p[len(p)-1].(type) {
	case string:
		m, ok := parent.(map[string]interface{})
		if !ok {
			return false
		}
		if _, ok := m[k]; !ok && drop {
			return false
		}
		if drop {
			delete(m, k)
		} else {
			m[k] = val
		}
		return true
	case int:
		l, ok := parent.([]interface{})
		if !ok || k < 0 || k >= len(l) {
			return false
		}
		if !drop {
			l[k] = val
			return true
		}
		nl := append(append([]interface{}{}, l[:k]...), l[k+1:]...)
		return x13Set(root, p[:len(p)-1], nl, false)
	}
	return false
}

// ---------------------------------------------------------------- schema bounds

type x13Bound struct{ min, max *float64 }

var x13Bounds = map[string][]x13Bound{}

func x13CollectBounds(spec interface{}) {
	if spec == nil {
		return
	}
	b, err := v.GetSchemaInJSON(reflect.TypeOf(spec))
	if err != nil {
		return
	}
	var s interface{}
	if json.Unmarshal(b, &s) != nil {
		return
	}
	var walk func(n interface{})
	walk = func(n interface{}) {
		switch t := n.(type) {
		case map[string]interface{}:
			if props, ok := t["properties"].(map[string]interface{}); ok {
				for name, p := range props {
					if pm, ok := p.(map[string]interface{}); ok {
						var bd x13Bound
						if f, ok := pm["minimum"].(float64); ok {
							bd.min = &f
						}
						if f, ok := pm["maximum"].(float64); ok {
							bd.max = &f
						}
						if bd.min != nil || bd.max != nil {
							x13Bounds[name] = append(x13Bounds[name], bd)
						}
					}
				}
			}
			for _, c := range t {
				walk(c)
			}
		case []interface{}:
			for _, c := range t {
				walk(c)
			}
		}
	}
	walk(s)
}

// ---------------------------------------------------------------- mutations

type x13Mut struct {
	Path x13Path
	Op   string      // class of the mutation, e.g. drop, null, str-empty, int=0
	Val  interface{} // replacement (unless drop)
	Drop bool
	Sets []x13SetOp // hand-written multi-point mutation (cross-section inconsistency)
}

type x13SetOp struct {
	Path x13Path
	Val  interface{}
	Drop bool
	Add  bool // create the key if missing
}

func (m *x13Mut) Desc() string {
	if len(m.Sets) > 0 {
		return "x:" + m.Op
	}
	return m.Path.String() + ":" + m.Op
}

// Class is the coverage class of the mutation: path shape + op.
func (m *x13Mut) Class() string {
	if len(m.Sets) > 0 {
		return "x:" + m.Op
	}
	return m.Path.Shape() + ":" + m.Op
}

func (m *x13Mut) apply(root map[string]interface{}) bool {
	if len(m.Sets) > 0 {
		ok := true
		for _, s := range m.Sets {
			if s.Add {
				par, found := x13Get(root, s.Path[:len(s.Path)-1])
				pm, isMap := par.(map[string]interface{})
				if !found || !isMap {
					ok = false
					continue
				}
				pm[s.Path[len(s.Path)-1].(string)] = x13Clone(s.Val)
				continue
			}
			if !x13Set(root, s.Path, x13Clone(s.Val), s.Drop) {
				ok = false
			}
		}
		return ok
	}
	return x13Set(root, m.Path, x13Clone(m.Val), m.Drop)
}

func x13IsDuration(s string) bool {
	if s == "" {
		return false
	}
	c := s[len(s)-1]
	if c != 's' && c != 'm' && c != 'h' {
		return false
	}
	_, err := time.ParseDuration(s)
	return err == nil
}

func x13AsInt(n interface{}) (int64, bool) {
	switch t := n.(type) {
	case int:
		return int64(t), true
	case int64:
		return t, true
	case uint64:
		return int64(t), true
	}
	return 0, false
}

// x13Protected tells whether a node is owned by the harness and is not mutated: the
// top-level kind (a different kind is a different seed) and listening ports (always
// replaced by a free port when the object is instantiated).
func x13Protected(p x13Path) bool {
	if len(p) == 1 && p[0] == "kind" {
		return true
	}
	if len(p) == 1 && p[0] == "port" {
		return true
	}
	return false
}

// x13Enumerate lists every single-point mutation of the tree, in a deterministic order.
func x13Enumerate(root map[string]interface{}) []x13Mut {
	var out []x13Mut
	add := func(p x13Path, op string, val interface{}) {
		out = append(out, x13Mut{Path: append(x13Path{}, p...), Op: op, Val: val})
	}
	var walk func(n interface{}, p x13Path)
	walk = func(n interface{}, p x13Path) {
		if len(p) > 0 && !x13Protected(p) {
			out = append(out, x13Mut{Path: append(x13Path{}, p...), Op: "drop", Drop: true})
			if n != nil {
				add(p, "null", nil)
			}
			switch t := n.(type) {
			case string:
				if t != "" {
					add(p, "str-empty", "")
				}
				add(p, "str-dangling", "nope-verif")
				add(p, "str-malformed", "%zz(")
				if x13IsDuration(t) {
					add(p, "dur=0s", "0s")
					add(p, "dur=-1s", "-1s")
					add(p, "dur=1ns", "1ns")
				}
			case bool:
				add(p, "bool-flip", !t)
			case float64:
				add(p, "num=0", 0)
				add(p, "num=-1", -1)
				add(p, "num=1", 1)
			case map[string]interface{}:
				if len(t) > 0 {
					add(p, "map-empty", map[string]interface{}{})
				}
				c := x13Clone(t).(map[string]interface{})
				c["X-Verif-Null"] = nil
				add(p, "map+nullvalue", c)
			case []interface{}:
				if len(t) > 0 {
					add(p, "list-empty", []interface{}{})
					add(p, "list+null", append(x13Clone(t).([]interface{}), nil))
					add(p, "list+dup", append(x13Clone(t).([]interface{}), x13Clone(t[0])))
				}
				if len(t) > 1 {
					add(p, "list-first-only", []interface{}{x13Clone(t[0])})
				}
			default:
				if iv, ok := x13AsInt(n); ok {
					vals := map[string]int64{"int=0": 0, "int=1": 1, "int=-1": -1, "int=large": 1000003}
					for _, bd := range x13Bounds[p.leafName()] {
						if bd.min != nil {
							vals["int=min"] = int64(*bd.min)
							vals["int=min-1"] = int64(*bd.min) - 1
						}
						if bd.max != nil {
							vals["int=max"] = int64(*bd.max)
							vals["int=max+1"] = int64(*bd.max) + 1
						}
					}
					keys := make([]string, 0, len(vals))
					for k := range vals {
						keys = append(keys, k)
					}
					sort.Strings(keys)
					seen := map[int64]bool{iv: true}
					for _, k := range keys {
						if seen[vals[k]] {
							continue
						}
						seen[vals[k]] = true
						add(p, k, int(vals[k]))
					}
				}
			}
		}
		switch t := n.(type) {
		case map[string]interface{}:
			keys := make([]string, 0, len(t))
			for k := range t {
				keys = append(keys, k)
			}
			sort.Strings(keys)
			for _, k := range keys {
				walk(t[k], append(p, k))
			}
		case []interface{}:
			for i := range t {
				walk(t[i], append(p, i))
			}
		}
	}
	walk(root, nil)
	return out
}

// x13P builds a path from a dotted string: "pools.0.servers.1.weight".
func x13P(s string) x13Path {
	var p x13Path
	for _, e := range strings.Split(s, ".") {
		if i, err := strconv.Atoi(e); err == nil {
			p = append(p, i)
		} else {
			p = append(p, e)
		}
	}
	return p
}

// x13X is a hand-written (cross-section) mutation: name + alternating path,value pairs.
// A value of x13DropMark drops the node; x13AddMark{v} creates the key.
type x13DropT struct{}
type x13AddMark struct{ V interface{} }

var x13DropMark = x13DropT{}

func x13X(name string, pv ...interface{}) x13Mut {
	m := x13Mut{Op: name}
	for i := 0; i+1 < len(pv); i += 2 {
		s := x13SetOp{Path: x13P(pv[i].(string))}
		switch t := pv[i+1].(type) {
		case x13DropT:
			s.Drop = true
		case x13AddMark:
			s.Add, s.Val = true, t.V
		default:
			s.Val = t
		}
		m.Sets = append(m.Sets, s)
	}
	return m
}

// x13PickCombo chooses 2-3 distinct single mutations at unrelated points.
// Most combinations draw only mutations that validation accepts on their own (ok),
// otherwise nearly every triple would be rejected and the case would be trivial.
func x13PickCombo(rng *rand.Rand, muts []x13Mut, ok func(i int) bool) []x13Mut {
	if len(muts) == 0 {
		return nil
	}
	n := 2 + rng.Intn(2)
	onlyAccepted := rng.Intn(100) < 85
	var out []x13Mut
	for tries := 0; len(out) < n && tries < 40; tries++ {
		idx := rng.Intn(len(muts))
		if onlyAccepted && !ok(idx) {
			continue
		}
		m := muts[idx]
		clash := false
		for _, o := range out {
			a, b := o.Path.String(), m.Path.String()
			if len(o.Sets) == 0 && len(m.Sets) == 0 && (strings.HasPrefix(a, b) || strings.HasPrefix(b, a)) {
				clash = true
			}
			if len(o.Sets) > 0 && len(m.Sets) > 0 {
				clash = true
			}
		}
		if !clash {
			out = append(out, m)
		}
	}
	return out
}
