//go:build verif

package httpserver

// C13, request class "boundary-shaped requests": "can then handle ANY request" is a
// statement over the request space too, and code on the request path has limits of its
// own that no configuration mentions (fixed-size tables indexed by the number of path
// segments, buffers, per-header loops).  The ordinary request set has paths of at most 4
// segments, at most 9 headers and the usual methods, so everything indexed or sized by the
// shape of the request was only ever exercised far from its limits.
//
// This class sends, to everything that serves HTTP requests (every HTTP filter kind,
// Pipeline, GlobalFilter, and the real mux of every accepted HTTPServer spec), requests
// that net/http's server-side parser accepts (they are built by httptest.NewRequest, i.e.
// http.ReadRequest) and that sit at a boundary in ONE dimension of their shape:
//
//   path-depth    1,2,127,128,255,256,257,512 non-empty segments
//   path-slashes  2,127,128,255,256,257,512 slashes and nothing else (that many empty segments)
//   long-segment  one segment of 1 KiB / 64 KiB
//   query         "?" alone, 1000 parameters, only separators
//   header-count  0, 1, 100, 1000 header lines; 1000 values under one name
//   header-size   8 KiB values in the headers the seeds look at; an 8 KiB header name
//   method        one-letter, lower-case, extension token, OPTIONS *, CONNECT authority-form
//
// The oracle is the panic monitor's, unchanged.  Unmutated seed cases and every HTTPServer
// case get the whole set; every other case a window of x13BoundWindow shapes that moves with
// the case index, so that the shapes meet all configurations over a run.

import (
	stdcontext "context"
	"fmt"
	"strings"
	"time"
)

const x13BoundWindow = 4

type x13BReq struct {
	dim string
	req x13Req
}

// x13BoundDim: the dimension of a boundary request class "boundary/<dimension>/<shape>", else "".
func x13BoundDim(reqClass string) string {
	if !strings.HasPrefix(reqClass, "boundary/") {
		return ""
	}
	rest := reqClass[len("boundary/"):]
	if j := strings.Index(rest, "/"); j > 0 {
		return rest[:j]
	}
	return rest
}

func x13BoundSet(jwt string) []x13BReq {
	// headers that pass the validators / matchers of the seeds, so that the request reaches
	// the filters behind them
	base := func(extra ...[2]string) [][2]string {
		return append([][2]string{
			{"X-Verif-Id", "alice"}, {"X-Env", "staging"}, {"X-Trace", "abc-1"},
			{"Authorization", "Bearer " + jwt}, {"Cookie", "auth=" + jwt}, {"X-User", "u1"}}, extra...)
	}
	var out []x13BReq
	add := func(dim, shape string, q x13Req) {
		q.name = "boundary/" + dim + "/" + shape
		if q.host == "" {
			q.host = "a.com"
		}
		out = append(out, x13BReq{dim: dim, req: q})
	}
	for _, n := range []int{1, 2, 127, 128, 255, 256, 257, 512} {
		add("path-depth", fmt.Sprintf("segments=%d", n), x13Req{method: "GET", path: "/api" + strings.Repeat("/s", n-1), hdr: base()})
	}
	for _, n := range []int{2, 127, 128, 255, 256, 257, 512} {
		add("path-slashes", fmt.Sprintf("slashes=%d", n), x13Req{method: "GET", path: strings.Repeat("/", n), hdr: base()})
	}
	add("long-segment", "1KiB", x13Req{method: "GET", path: "/api/" + strings.Repeat("a", 1<<10), hdr: base()})
	add("long-segment", "64KiB", x13Req{method: "POST", path: "/" + strings.Repeat("b", 64<<10) + "/x", body: "x", hdr: base()})

	var qs []string
	for i := 0; i < 1000; i++ {
		qs = append(qs, fmt.Sprintf("p%d=v%d", i, i))
	}
	add("query", "bare-question-mark", x13Req{method: "GET", path: "/api?", hdr: base()})
	add("query", "params=1000", x13Req{method: "GET", path: "/api/bananas?" + strings.Join(qs, "&"), hdr: base()})
	add("query", "separators-only", x13Req{method: "GET", path: "/api?&&=&=&&", hdr: base()})

	many := func(n int) [][2]string {
		var hs [][2]string
		for i := 0; i < n; i++ {
			hs = append(hs, [2]string{fmt.Sprintf("X-B-%d", i), fmt.Sprintf("v%d", i)})
		}
		return hs
	}
	add("header-count", "headers=0", x13Req{method: "GET", path: "/api"})
	add("header-count", "headers=1", x13Req{method: "GET", path: "/api", hdr: [][2]string{{"X-Verif-Id", "alice"}}})
	add("header-count", "headers=100", x13Req{method: "GET", path: "/api", hdr: base(many(94)...)})
	add("header-count", "headers=1000", x13Req{method: "POST", path: "/api", body: `{"a":1}`, hdr: base(many(994)...)})
	var same [][2]string
	for i := 0; i < 1000; i++ {
		same = append(same, [2]string{"X-Verif-Id", fmt.Sprintf("alice%d", i)})
	}
	add("header-count", "one-name-values=1000", x13Req{method: "GET", path: "/api", hdr: same})

	big := strings.Repeat("v", 8<<10)
	add("header-size", "values=8KiB", x13Req{method: "GET", path: "/api", hdr: [][2]string{
		{"X-Verif-Id", big}, {"X-Env", big}, {"Authorization", "Bearer " + big}, {"Cookie", "auth=" + big}, {"X-User", big},
		{"Origin", "http://" + big}, {"X-Forwarded-For", big}, {"X-Kafka-Topic", big}, {"Content-Type", big}}})
	add("header-size", "name=8KiB", x13Req{method: "GET", path: "/api", hdr: base([2]string{"X-" + strings.Repeat("n", 8<<10), "1"})})

	add("method", "one-letter", x13Req{method: "X", path: "/api", hdr: base()})
	add("method", "lower-case", x13Req{method: "get", path: "/exact", hdr: base()})
	add("method", "extension-token", x13Req{method: "M-SEARCH", path: "/api", body: "q", hdr: base()})
	add("method", "options-asterisk", x13Req{method: "OPTIONS", target: "*", hdr: base()})
	add("method", "connect-authority", x13Req{method: "CONNECT", target: "a.com:443", hdr: base()})
	return out
}

// boundReqs: the set, memoised; every member was built once under recover(), so that a
// shape httptest.NewRequest refuses can never take the harness down later (it would make
// the run inconclusive instead).
func (h *x13H) boundReqs() []x13BReq {
	if h.bounds != nil {
		return h.bounds
	}
	for _, b := range x13BoundSet(h.env.jwtHS256) {
		b := b
		if msg, _, p := x13Recover(func() { h.stdReq(&b.req, stdcontext.Background()) }); p {
			h.r.Inconclusive("boundary request " + b.req.name + " is not accepted by net/http's request parser: " + msg)
			continue
		}
		h.bounds = append(h.bounds, b)
	}
	return h.bounds
}

// boundary drives one instantiated thing with boundary-shaped requests; do handles one
// request on the given context under the panic monitor and tells whether it panicked.
func (h *x13H) boundary(do func(q *x13Req, sctx stdcontext.Context) (panicked bool)) (handled int) {
	all := h.boundReqs()
	if len(all) == 0 {
		return 0
	}
	t0 := time.Now()
	defer func() {
		h.reqClass = ""
		h.r.Count("ms_boundary/"+h.kind, time.Since(t0).Milliseconds())
	}()
	n, first := len(all), 0
	if !h.boundFull && h.kind != "HTTPServer" {
		n, first = x13BoundWindow, (h.caseIdx*x13BoundWindow)%len(all)
	}
	for k := 0; k < n; k++ {
		b := all[(first+k)%len(all)]
		q := b.req
		h.reqClass = q.name
		// the deadline is the watchdog of the ordinary requests, never a verdict
		sctx, cancel := stdcontext.WithTimeout(stdcontext.Background(), 400*time.Millisecond)
		panicked := do(&q, sctx)
		cancel()
		if !panicked {
			handled++
		}
		h.count("boundary_requests")
		h.count("boundary_" + b.dim)
		h.r.Cover(fmt.Sprintf("boundary:%s:%s:panic=%v", h.kind, q.name, panicked))
	}
	return handled
}

// x13BoundRequire: the observations without which the class was not exercised: every
// kind that serves HTTP requests saw every shape of every dimension at least once.
func x13BoundRequire(h *x13H, kinds []string) {
	perDim := map[string]int64{}
	all := h.boundReqs()
	for _, b := range all {
		perDim[b.dim]++
	}
	for _, k := range kinds {
		switch k {
		case "Retry", "CircuitBreaker", "MQTTProxy", "KafkaMQTT", "TopicMapper", "MQTTClientAuth", "ConnectControl":
			continue // no HTTP request
		}
		h.r.Require("boundary_requests/"+k, int64(len(all)))
		for dim, n := range perDim {
			h.r.Require("boundary_"+dim+"/"+k, n)
		}
	}
}
