//go:build verif

package resilience

// C08 part 3: circuitBreakerWrapper.Wrap records exactly one outcome per admitted call, a
// panic of the handler counts as a failure, a short-circuited call does not reach the
// handler.  The breaker runs on the real clock here (its nowFunc is not reachable from this
// package), so only count-based windows are used and nothing depends on an upper bound of
// real time: "still OPEN" is only judged with waitDurationInOpenState = 1h, "HALF_OPEN
// reached" only after sleeping well beyond a 1ms wait (a lower bound).

import (
	"context"
	"errors"
	"fmt"
	"math/rand"
	"sync"
	"sync/atomic"
	"testing"
	"time"

	"github.com/megaease/easegress/pkg/logger"
	libcb "github.com/megaease/easegress/pkg/util/circuitbreaker"
	"verif.local/kit"
)

func init() { logger.InitNop() }

type c08wPolicy struct {
	FailTh    int  `json:"failureRateThreshold"`
	SlowTh    int  `json:"slowCallRateThreshold"`
	N         int  `json:"slidingWindowSize"`
	MinCalls  int  `json:"minimumNumberOfCalls"`
	Permitted int  `json:"permittedNumberOfCallsInHalfOpenState"`
	ShortWait bool `json:"waitIs1ms"`  // else 1h
	AllSlow   bool `json:"slowIs1ms"`  // slowCallDurationThreshold 1ms and every handler sleeps 3ms; else 1h
	ViaYAML   bool `json:"viaNewPolicy"`
}

func (p *c08wPolicy) wrapper() (Wrapper, error) {
	wait, slow := "1h", "1h"
	if p.ShortWait {
		wait = "1ms"
	}
	if p.AllSlow {
		slow = "1ms"
	}
	if p.ViaYAML {
		pol, err := NewPolicy(map[string]interface{}{
			"name": "cb", "kind": "CircuitBreaker", "slidingWindowType": "COUNT_BASED",
			"failureRateThreshold": p.FailTh, "slowCallRateThreshold": p.SlowTh, "slidingWindowSize": p.N,
			"minimumNumberOfCalls": p.MinCalls, "permittedNumberOfCallsInHalfOpenState": p.Permitted,
			"slowCallDurationThreshold": slow, "waitDurationInOpenState": wait,
		})
		if err != nil {
			return nil, err
		}
		return pol.CreateWrapper(), nil
	}
	pol := &CircuitBreakerPolicy{
		SlidingWindowType: "COUNT_BASED", FailureRateThreshold: uint8(p.FailTh), SlowCallRateThreshold: uint8(p.SlowTh),
		SlidingWindowSize: uint32(p.N), MinimumNumberOfCalls: uint32(p.MinCalls), PermittedNumberOfCallsInHalfOpen: uint32(p.Permitted),
		SlowCallDurationThreshold: slow, WaitDurationInOpen: wait,
	}
	return pol.CreateWrapper(), nil
}

func c08wGenPolicy(rng *rand.Rand, i int) *c08wPolicy {
	th := []int{1, 50, 99, 100}
	p := &c08wPolicy{FailTh: th[i%4], SlowTh: 100, N: 1 + rng.Intn(10), Permitted: []int{1, 2, 5}[rng.Intn(3)]}
	switch (i / 4) % 4 {
	case 0:
		p.MinCalls = 0
	case 1:
		p.MinCalls = 1
	case 2:
		p.MinCalls = p.N
	default:
		p.MinCalls = p.N + 1
	}
	eff := p.MinCalls
	if eff < 1 {
		eff = 1
	}
	if eff < p.Permitted { // keep the half-open decision point fixed by the property
		p.Permitted = 1
	}
	p.ShortWait = rng.Intn(4) == 0
	p.ViaYAML = rng.Intn(2) == 0
	return p
}

// count-based reference automaton (one result per admitted call)
const (
	c08wClosed = iota
	c08wOpen
	c08wHalf
)

var c08wStName = []string{"CLOSED", "OPEN", "HALF_OPEN"}

type c08wModel struct {
	p        *c08wPolicy
	st       int
	win      []uint8 // 0 success 1 failure 2 slow
	admitted int
	trials   []uint8
}

func (m *c08wModel) trips(rs []uint8) bool {
	f, s := 0, 0
	for _, r := range rs {
		if r == 1 {
			f++
		} else if r == 2 {
			s++
		}
	}
	return f*100 >= m.p.FailTh*len(rs) || s*100 >= m.p.SlowTh*len(rs)
}

// admit: waited = the harness slept beyond the open wait before this call.
func (m *c08wModel) admit(waited bool) bool {
	switch m.st {
	case c08wClosed:
		return true
	case c08wOpen:
		if !waited {
			return false
		}
		m.st, m.admitted, m.trials = c08wHalf, 1, nil
		return true
	}
	if m.admitted < m.p.Permitted {
		m.admitted++
		return true
	}
	return false
}

func (m *c08wModel) result(r uint8) {
	switch m.st {
	case c08wClosed:
		m.win = append(m.win, r)
		if len(m.win) > m.p.N {
			m.win = m.win[len(m.win)-m.p.N:]
		}
		if len(m.win) >= m.p.MinCalls && m.trips(m.win) {
			m.st, m.win = c08wOpen, nil
		}
	case c08wHalf:
		m.trials = append(m.trials, r)
		if len(m.trials) >= m.p.Permitted {
			if m.trips(m.trials) {
				m.st = c08wOpen
			} else {
				m.st = c08wClosed
			}
			m.win, m.trials, m.admitted = nil, nil, 0
		}
	}
}

func (m *c08wModel) libState() libcb.State {
	return []libcb.State{libcb.StateClosed, libcb.StateOpen, libcb.StateHalfOpen}[m.st]
}

var c08wErrBackend = errors.New("c08 backend error")

type c08wPanic struct{ n int }

// c08wCall runs one wrapped call; outcome: 0 ok, 1 error, 2 panic.
func c08wCall(w Wrapper, outcome int, sleep time.Duration, invoked *int64, id int) (err error, panicked interface{}) {
	h := w.Wrap(func(ctx context.Context) error {
		atomic.AddInt64(invoked, 1)
		if sleep > 0 {
			time.Sleep(sleep)
		}
		switch outcome {
		case 1:
			return c08wErrBackend
		case 2:
			panic(c08wPanic{id})
		}
		return nil
	})
	defer func() {
		if e := recover(); e != nil {
			panicked = e
		}
	}()
	err = h(context.Background())
	return
}

func TestVerif_C08_Wrapper(t *testing.T) {
	r := kit.Start(t, "C08")
	defer r.Finish()
	r.Rule("count-based policies (thresholds {1,50,99,100} x minimumNumberOfCalls {0,1,N,N+1} systematic; window 1-10, permitted {1,2,5}, created half through NewPolicy(yaml map) half directly); 40 sequential wrapped calls per policy whose handler returns nil / an error / panics; wait 1h: short-circuiting judged; wait 1ms: harness sleeps 5ms whenever the reference is OPEN, so HALF_OPEN trials are judged; plus all-slow policies (threshold 1ms, handlers sleep 3ms) and concurrent bursts of exactly N failing/panicking calls; distinct = (policy class, outcome, reference state before/after)")
	r.Assume("count-based windows only (the breaker's clock is real time here); no verdict depends on an upper bound of elapsed real time")
	n := r.N(600, 12000)
	for i := 0; i < n; i++ {
		if !r.Mine(i) {
			continue
		}
		rng := r.CaseRand(i)
		pol := c08wGenPolicy(rng, i)
		if i%10 == 9 { // all-slow variant, short
			pol.AllSlow, pol.ShortWait = true, false
			pol.SlowTh = []int{1, 50, 99, 100}[rng.Intn(4)]
		}
		r.Case(i, pol)
		w, err := pol.wrapper()
		if err != nil {
			r.Count("policy_rejected", 1)
			r.Note("policy rejected: %v", err)
			continue
		}
		cbw, ok := w.(circuitBreakerWrapper)
		if !ok {
			r.Violation("wrapper:unexpected-wrapper-type", fmt.Sprintf("%T", w))
			continue
		}
		m := &c08wModel{p: pol}
		var trace []string
		pErr, pPanic := []int{10, 40, 80}[rng.Intn(3)], []int{5, 30}[rng.Intn(2)]
		calls := 40
		var sleep time.Duration
		if pol.AllSlow {
			calls, sleep = 8, 3*time.Millisecond
		}
		for k := 0; k < calls; k++ {
			outcome := 0
			if x := rng.Intn(100); x < pPanic {
				outcome = 2
			} else if x < pPanic+pErr {
				outcome = 1
			}
			waited := false
			if m.st == c08wOpen && pol.ShortWait {
				time.Sleep(5 * time.Millisecond) // lower bound: the 1ms wait has certainly elapsed
				waited = true
			}
			before := m.st
			wantAdmit := m.admit(waited)
			var invoked int64
			gotErr, gotPanic := c08wCall(w, outcome, sleep, &invoked, k)
			r.Eval(1)
			trace = append(trace, fmt.Sprintf("call#%d handler=%s -> err=%v panic=%v invoked=%d (reference %s, admit=%v)", k, []string{"ok", "error", "panic"}[outcome], gotErr, gotPanic, invoked, c08wStName[before], wantAdmit))
			det := func() map[string]interface{} { return map[string]interface{}{"policy": pol, "calls": trace} }
			bad := ""
			switch {
			case !wantAdmit && (gotErr != ErrShortCircuited || gotPanic != nil):
				bad = "expected-short-circuit-in-" + c08wStName[before]
			case !wantAdmit && invoked != 0:
				bad = "handler-invoked-on-short-circuit"
			case wantAdmit && gotErr == ErrShortCircuited && invoked == 0:
				bad = "unexpected-short-circuit-in-" + c08wStName[before]
			case wantAdmit && invoked != 1:
				bad = "handler-call-count"
			case wantAdmit && outcome == 0 && (gotErr != nil || gotPanic != nil):
				bad = "ok-result-not-returned"
			case wantAdmit && outcome == 1 && (gotErr != c08wErrBackend || gotPanic != nil):
				bad = "handler-error-not-returned"
			case wantAdmit && outcome == 2 && gotPanic != (c08wPanic{k}):
				bad = "panic-not-propagated"
			}
			if bad != "" {
				r.Violation("wrapper:"+bad, det())
				break
			}
			if wantAdmit {
				res := uint8(0)
				switch {
				case outcome != 0:
					res = 1
				case pol.AllSlow:
					res = 2
				}
				m.result(res)
				r.Count("admitted_"+[]string{"ok", "error", "panic"}[outcome], 1)
			} else {
				r.Count("short_circuited", 1)
			}
			// quiescent: State() may be read.  With the 1ms wait an OPEN breaker may already be
			// HALF_OPEN-able but State() stays Open until the next call; the reference agrees.
			if got := cbw.State(); got != m.libState() {
				r.Violation(fmt.Sprintf("wrapper:state-after-%s-in-%s:model=%s:real=%d", []string{"ok", "error", "panic"}[outcome], c08wStName[before], c08wStName[m.st], got), det())
				break
			}
			if before != m.st {
				r.Count("transition_"+c08wStName[before]+"_to_"+c08wStName[m.st], 1)
			}
			wt := "1h"
			if pol.ShortWait {
				wt = "1ms"
			}
			r.Cover(fmt.Sprintf("wrap/f%d/slow=%v/wait=%s/%s/%d/%s->%s", pol.FailTh, pol.AllSlow, wt, c08wStName[before], outcome, map[bool]string{true: "admit", false: "reject"}[wantAdmit], c08wStName[m.st]))
		}
		if i < 2 {
			r.Sample(map[string]interface{}{"policy": pol, "calls": trace})
		}
	}
	for _, k := range []string{"admitted_ok", "admitted_error", "admitted_panic", "short_circuited",
		"transition_CLOSED_to_OPEN", "transition_OPEN_to_HALF_OPEN", "transition_HALF_OPEN_to_CLOSED", "transition_HALF_OPEN_to_OPEN"} {
		r.Require(k, 1)
	}
}

// TestVerif_C08_WrapperConcurrent: K callers fail (error or panic) concurrently on a breaker
// that opens exactly when K failures are in the window: if a panic were not recorded the
// breaker would stay CLOSED, if a call were recorded twice it would open early and
// short-circuit some of the K callers.
func TestVerif_C08_WrapperConcurrent(t *testing.T) {
	r := kit.Start(t, "C08")
	defer r.Finish()
	r.Rule("K in 2..10 goroutines call a wrapped handler once each at the same time (released by a barrier inside the handler, so all K are admitted before any result is recorded); policy window=K, minimumNumberOfCalls=K, failure threshold 100, wait 1h; handlers return an error or panic; afterwards: all K handlers ran, breaker is OPEN, the next call is short-circuited; a variant with one successful caller must leave the breaker CLOSED; distinct = (K, number of panics, variant)")
	n := r.N(300, 6000)
	for i := 0; i < n; i++ {
		if !r.Mine(i) {
			continue
		}
		rng := r.CaseRand(i)
		K := 2 + rng.Intn(9)
		oneOK := rng.Intn(3) == 0
		desc := map[string]interface{}{"K": K, "oneSuccess": oneOK}
		r.Case(i, desc)
		pol := &CircuitBreakerPolicy{SlidingWindowType: "COUNT_BASED", FailureRateThreshold: 100, SlowCallRateThreshold: 100,
			SlidingWindowSize: uint32(K), MinimumNumberOfCalls: uint32(K), PermittedNumberOfCallsInHalfOpen: 1,
			SlowCallDurationThreshold: "1h", WaitDurationInOpen: "1h"}
		w := pol.CreateWrapper()
		cbw := w.(circuitBreakerWrapper)
		var invoked, arrived int64
		release := make(chan struct{})
		outcomes := make([]int, K)
		panics := 0
		for k := range outcomes {
			outcomes[k] = 1 + rng.Intn(2)
			if outcomes[k] == 2 {
				panics++
			}
		}
		if oneOK {
			if outcomes[0] == 2 {
				panics--
			}
			outcomes[0] = 0
		}
		errs := make([]error, K)
		pans := make([]interface{}, K)
		var wg sync.WaitGroup
		for k := 0; k < K; k++ {
			wg.Add(1)
			go func(k int) {
				defer wg.Done()
				h := w.Wrap(func(ctx context.Context) error {
					atomic.AddInt64(&invoked, 1)
					atomic.AddInt64(&arrived, 1)
					<-release
					switch outcomes[k] {
					case 1:
						return c08wErrBackend
					case 2:
						panic(c08wPanic{k})
					}
					return nil
				})
				defer func() {
					if e := recover(); e != nil {
						pans[k] = e
					}
				}()
				errs[k] = h(context.Background())
			}(k)
		}
		// wait (generously) until all K are inside their handler; a timeout decides nothing
		deadline := time.Now().Add(60 * time.Second)
		for atomic.LoadInt64(&arrived) < int64(K) && time.Now().Before(deadline) {
			time.Sleep(50 * time.Microsecond)
		}
		all := atomic.LoadInt64(&arrived) == int64(K)
		close(release)
		wg.Wait()
		r.Eval(K)
		if !all {
			r.Inconclusive(fmt.Sprintf("case %d: not all callers reached the handler within 60s", i))
			continue
		}
		r.Count("concurrent_bursts", 1)
		r.Count("concurrent_panicking_calls", int64(panics))
		desc["outcomes"] = outcomes
		for k := 0; k < K; k++ {
			bad := ""
			switch outcomes[k] {
			case 0:
				if errs[k] != nil || pans[k] != nil {
					bad = "ok-result-not-returned"
				}
			case 1:
				if errs[k] != c08wErrBackend || pans[k] != nil {
					bad = "handler-error-not-returned"
				}
			case 2:
				if pans[k] != (c08wPanic{k}) {
					bad = "panic-not-propagated"
				}
			}
			if bad != "" {
				r.Violation("wrapper-conc:"+bad, desc)
			}
		}
		st := cbw.State() // quiescent
		wantOpen := !oneOK
		if wantOpen && st != libcb.StateOpen {
			r.Violation(fmt.Sprintf("wrapper-conc:K-failures-recorded-but-state=%d:panics=%v", st, panics > 0), desc)
		}
		if !wantOpen && st != libcb.StateClosed {
			r.Violation(fmt.Sprintf("wrapper-conc:one-success-among-K-but-state=%d", st), desc)
		}
		// one more call: short-circuited iff OPEN
		var inv2 int64
		e2, p2 := c08wCall(w, 0, 0, &inv2, 0)
		if wantOpen && (e2 != ErrShortCircuited || inv2 != 0 || p2 != nil) {
			r.Violation("wrapper-conc:call-after-opening-not-short-circuited", desc)
		}
		if !wantOpen && (e2 != nil || inv2 != 1) {
			r.Violation("wrapper-conc:call-while-closed-not-admitted", desc)
		}
		r.Cover(fmt.Sprintf("wrapconc/K%d/p%d/ok=%v", K, panics, oneOK))
	}
	r.Require("concurrent_bursts", 1)
	r.Require("concurrent_panicking_calls", 1)
}
