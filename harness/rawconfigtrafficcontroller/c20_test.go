//go:build verif

package rawconfigtrafficcontroller

import (
	"fmt"
	"math/rand"
	"os"
	"sort"
	"strings"
	"testing"

	"verif.local/kit"
)

// c20Case is one snapshot sequence fed to a fresh Supervisor, optionally with scripted
// panics (object name -> set of k: the k-th lifecycle callback on that name panics).
type c20Case struct {
	Seq     []c20Snapshot
	PanicAt map[string]map[int]bool
	// Cohabit: a further traffic gate (c20SentinelName) lives in the namespace and changes
	// its spec with every snapshot; it is judged like the generated names.
	Cohabit bool
}

func (c c20Case) desc() map[string]interface{} {
	p := []string{}
	for n, ks := range c.PanicAt {
		for k := range ks {
			p = append(p, fmt.Sprintf("%s#%d", n, k))
		}
	}
	sort.Strings(p)
	return map[string]interface{}{"snapshots": c20SeqString(c.Seq), "panic_at_callback": p, "cohabitant_gate": c.Cohabit}
}

// c20Block is a finite space of sequences: all sequences of exactly Len snapshots in
// which each of the first Names names takes every state of Alphabet (state codes 0..6).
type c20Block struct {
	Names    int
	Alphabet []int
	Len      int
}

var (
	c20Full = []int{0, 1, 2, 3, 4, 5, 6, 7, 8, 9}
	c20Mid  = []int{0, 1, 2, 4, 7} // -, P1, P2, GA1, GB1
	c20Min  = []int{0, 1, 4, 7}    // -, P1, GA1, GB1
)

func (b c20Block) size() int {
	n := 1
	for i := 0; i < b.Names*b.Len; i++ {
		n *= len(b.Alphabet)
	}
	return n
}

func (b c20Block) decode(idx int) []c20Snapshot {
	seq := make([]c20Snapshot, b.Len)
	for k := 0; k < b.Len; k++ {
		snap := make(c20Snapshot, len(c20Names))
		for n := 0; n < b.Names; n++ {
			snap[n] = c20StateOf(b.Alphabet[idx%len(b.Alphabet)])
			idx /= len(b.Alphabet)
		}
		seq[k] = snap
	}
	return seq
}

func (b c20Block) String() string {
	al := make([]string, len(b.Alphabet))
	for i, c := range b.Alphabet {
		al[i] = c20StateOf(c).String()
	}
	return fmt.Sprintf("%d name(s) x states {%s} x exactly %d snapshot(s) = %d sequences", b.Names, strings.Join(al, ","), b.Len, b.size())
}

// c20ReplayOfAnotherPart: ./check --replay sets VERIF_ONLY=<part>:<case> for every part;
// the parts it does not name have nothing to do.
func c20ReplayOfAnotherPart(t *testing.T) bool {
	v := os.Getenv("VERIF_ONLY")
	i := strings.LastIndex(v, ":")
	return v != "" && i >= 0 && v[:i] != t.Name()
}

// c20Stuck is set when a watchdog fired (nothing could be established about the state of
// the controller): the remaining cases of the process are skipped and the run is inconclusive.
var c20Stuck bool

// c20ChangeGroup: the transitions that make the controller touch a live object again.
func c20ChangeGroup(tr string) string {
	switch tr {
	case "spec-change", "disappear":
		return tr
	case "kind-change", "kind-change-across-categories":
		return "kind-change"
	}
	return ""
}

// c20Survivors keeps the Require() counters of one input class: a snapshot whose deletions
// (disappear or change of kind) leave objects of exactly ONE category (pipelines only / traffic
// gates only) live in the namespace, followed - in the same or in a later snapshot - by a
// change or the removal of such a survivor.
type c20Survivors struct {
	pending map[int]string // name index -> class, survivor not touched again yet
}

func (sv *c20Survivors) observe(r *kit.Run, prev c20Snapshot, transitions []string, cohabit bool) {
	if sv.pending == nil {
		sv.pending = map[int]string{}
	}
	for i, cls := range sv.pending {
		if g := c20ChangeGroup(transitions[i]); g != "" {
			r.Count("tc_survivor_"+cls+"_later_"+g, 1)
			delete(sv.pending, i)
		}
	}
	deleted, pipes, gates := 0, 0, 0
	var surv []int
	for i, tr := range transitions {
		switch tr {
		case "disappear", "kind-change", "kind-change-across-categories":
			deleted++
		case "unchanged", "spec-change":
			surv = append(surv, i)
			if c20Category(prev[i].Kind) == "pipeline" {
				pipes++
			} else {
				gates++
			}
		}
	}
	if cohabit {
		gates++
	}
	if deleted == 0 || (pipes > 0) == (gates > 0) {
		return
	}
	cls := "gates-only"
	if pipes > 0 {
		cls = "pipelines-only"
	}
	r.Count("tc_delete_leaves_"+cls, 1)
	if cohabit {
		r.Count("tc_delete_leaves_cohabitant_and_gates-only", 1)
	}
	for _, i := range surv {
		if transitions[i] == "spec-change" {
			r.Count("tc_survivor_"+cls+"_changed_in_same_snapshot", 1)
		} else {
			sv.pending[i] = cls
		}
	}
}

// c20Run executes one case against the real Supervisor and compares with the model after
// every snapshot.
func c20Run(r *kit.Run, c c20Case) {
	if c20Stuck {
		return // a watchdog fired earlier in this process: do not burn the outer budget
	}
	c20rec.reset()
	rig, ok := c20NewRig(r.TmpDir(), c.Cohabit)
	if !ok {
		c20Stuck = true
		r.Inconclusive("watchdog: supervisor did not finish its first event")
		return
	}
	c20rec.setScript(c.PanicAt)
	defer func() {
		r.Count("quiesce_goroutine_dumps", rig.polls)
		if !rig.close() {
			c20Stuck = true
			r.Inconclusive("watchdog: Supervisor.Close did not return")
		}
	}()
	model := c20NewModel(len(c20Names))
	hist := make([][]string, len(c20Names))
	everPresent := make([]bool, len(c20Names))
	var survivors c20Survivors
	seq := c.Seq
	first := 0
	if c.Cohabit {
		// the cohabitant is created alone, before any generated object exists (snapshot index -1)
		seq = append([]c20Snapshot{make(c20Snapshot, len(c20Names))}, seq...)
		first = -1
	}
	for j, snap := range seq {
		k := j + first
		if !rig.apply(snap) {
			c20Stuck = true
			r.Inconclusive(fmt.Sprintf("watchdog: %v after snapshot %d of %s was pushed the syncer channel was not read or the controller's event loop did not become idle", c20Watchdog, k, c20SeqString(c.Seq)))
			return
		}
		r.Count("barriers", 1)
		events := c20rec.take()
		prev := model.prev
		sent := rig.sentinelState()
		life, transitions, panicked := model.consume(snap, sent, events)
		views, dup := rig.liveViews()
		mism := model.qualify(life, model.checkLiveSet(snap, sent, views, dup))
		r.Eval(1)

		// coverage and required observations (not for the cohabitant's own start-up)
		if k >= 0 {
			changed := 0
			for i, tr := range transitions {
				r.Count("t_"+tr, 1)
				if tr == "appear" && everPresent[i] {
					r.Count("t_reappear", 1)
				}
				if snap[i].Kind != 0 {
					everPresent[i] = true
				}
				if tr != "absent" && tr != "unchanged" {
					changed++
				}
				if tr != "absent" || len(hist[i]) > 0 {
					hist[i] = append(hist[i], tr)
				}
			}
			if changed >= 2 {
				r.Count("coalesced_changes", 1)
			}
			survivors.observe(r, prev, transitions, c.Cohabit)
			sorted := append([]string(nil), transitions...)
			sort.Strings(sorted)
			sig := "snapshot:" + strings.Join(sorted, ",")
			if c.Cohabit {
				sig = "cohabitant/" + sig
				r.Count("tc_snapshots_with_cohabitant", 1)
			} else {
				r.Count("tc_snapshots_without_cohabitant", 1)
			}
			if len(panicked) > 0 {
				r.Count("panics_fired", int64(len(panicked)))
				others := 0
				for i, tr := range transitions {
					if !panicked[c20Names[i]] && tr != "absent" && tr != "unchanged" {
						others++
					}
				}
				if others > 0 {
					r.Count("panic_while_other_names_change", 1)
				}
				ops := []string{}
				for _, e := range events {
					if e.Panicked {
						ops = append(ops, e.Op)
					}
				}
				sort.Strings(ops)
				sig += fmt.Sprintf("/panic-in:%s/others-changing:%d", strings.Join(ops, "+"), others)
			}
			r.Cover(sig)
		}
		r.Count("callbacks_seen", int64(len(events)))

		for _, mm := range mism {
			mm.Detail["sequence"] = c20SeqString(c.Seq)
			mm.Detail["cohabitant_gate"] = c.Cohabit
			mm.Detail["at_snapshot_index"] = k
			mm.Detail["previous_snapshot"] = prev.String()
			mm.Detail["snapshot"] = snap.String()
			mm.Detail["panic_script"] = c.desc()["panic_at_callback"]
			var lit []string
			for _, e := range events {
				lit = append(lit, e.String())
			}
			mm.Detail["all_callbacks_of_this_snapshot"] = lit
			r.Violation(mm.Sig, mm.Detail)
		}
	}
	for i := range hist {
		if len(hist[i]) > 0 {
			h := hist[i]
			if len(h) > 4 {
				h = h[len(h)-4:]
			}
			r.Cover("name-history:" + strings.Join(h, ">"))
		}
	}
	r.Count("instances_left_unclosed_and_not_live", int64(model.leaked()))
}

func c20RequireAll(r *kit.Run) {
	for _, k := range []string{"t_appear", "t_unchanged", "t_spec-change", "t_kind-change", "t_kind-change-across-categories", "t_disappear", "t_reappear", "coalesced_changes", "barriers"} {
		r.Require(k, 1)
	}
}

// TestVerif_C20_Exhaustive enumerates finite spaces of snapshot sequences completely.
func TestVerif_C20_TC_Exhaustive(t *testing.T) {
	if c20ReplayOfAnotherPart(t) {
		t.Skip("replaying a case of another part")
	}
	r := kit.Start(t, "C20")
	defer r.Finish()
	blocks := []c20Block{
		{1, c20Full, 1}, {1, c20Full, 2}, {1, c20Full, 3},
		{2, c20Mid, 1}, {2, c20Mid, 2},
		{3, c20Min, 1},
	}
	if r.Thorough() {
		blocks = append(blocks,
			c20Block{2, c20Full, 2},
			c20Block{3, c20Mid, 2},
			c20Block{2, c20Min, 3},
			// two names of ONE category over three snapshots: a delete always leaves one category
			// only, and the survivor can change or go in the snapshot after
			c20Block{2, []int{0, 1, 2}, 3},
			c20Block{2, []int{0, 4, 5}, 3},
		)
	}
	desc := make([]string, len(blocks))
	total := 0
	for i, b := range blocks {
		desc[i] = b.String()
		total += b.size()
	}
	r.Rule("part (b): complete enumeration, each sequence on a fresh Supervisor + TrafficController + RawConfigTrafficController (MustNew on a mocked cluster, snapshots pushed through the syncer channel), of: " + strings.Join(desc, "; ") +
		". State of a name = absent or (real Pipeline P carrying a recording filter | test-only traffic gate kind GA | GB, spec variant 1..3). The namespace holds exactly the objects of the snapshot (no helper object), so a deletion can leave pipelines only, traffic gates only or nothing. Barrier after every snapshot, independent of any lifecycle callback: the snapshot is pushed three times through the unbuffered syncer channel (3rd push accepted => the registry has emitted every event of the first two), then the controller's event channel must be empty and its run loop parked in its own select (goroutine dump, a stop-the-world cut); a watchdog on that => inconclusive. Then the recorded Init/Inherit/Close calls per name, the instances involved and two live-set views (TrafficController namespace, the controller's watcher.entities) are compared with the lifecycle model. distinct = multiset of per-name transitions of a snapshot, and per-name transition histories")
	r.Assume("a lifecycle callback that panics still counts as the one call the property asks for; the order of Close and Init in a kind change is not prescribed; Supervisor shutdown is not judged; a Pipeline name is no longer judged in later snapshots once a scripted panic has fired inside its recording filter (the pipeline then drops the filter, the observation point is gone)")
	r.Exhaustive(true)
	i := 0
	for _, b := range blocks {
		for idx := 0; idx < b.size(); idx, i = idx+1, i+1 {
			if !r.Mine(i) {
				continue
			}
			c := c20Case{Seq: b.decode(idx)}
			r.Case(i, c.desc())
			c20Run(r, c)
			if i%997 == 0 {
				r.Sample(c.desc())
			}
		}
	}
	r.Note("enumerated %d sequences in %d blocks", total, len(blocks))
	c20RequireAll(r)
	for _, k := range []string{"tc_delete_leaves_pipelines-only", "tc_delete_leaves_gates-only", "tc_survivor_pipelines-only_changed_in_same_snapshot", "tc_snapshots_without_cohabitant"} {
		r.Require(k, 1)
	}
}

// c20ExpectedCalls: how many callbacks the model expects per name over a sequence (used
// only to aim the panic scripts at calls that exist).
func c20ExpectedCalls(seq []c20Snapshot) map[string]int {
	out := map[string]int{}
	prev := make(c20Snapshot, len(c20Names))
	for _, s := range seq {
		for i := range s {
			w := c20Want(c20Transition(prev[i], s[i]))[0]
			if w != "" {
				out[c20Names[i]] += len(strings.Split(w, " "))
			}
		}
		prev = s
	}
	return out
}

func c20RandomSeq(rng *rand.Rand, length int) []c20Snapshot {
	seq := make([]c20Snapshot, length)
	cur := make(c20Snapshot, len(c20Names))
	for k := range seq {
		next := make(c20Snapshot, len(c20Names))
		for n := range next {
			switch p := rng.Intn(10); {
			case p < 3: // unchanged
				next[n] = cur[n]
			case p < 5 && cur[n].Kind != 0: // same kind, another variant
				next[n] = c20State{Kind: cur[n].Kind, Variant: 1 + (cur[n].Variant+rng.Intn(2))%3}
			case p < 6 && cur[n].Kind != 0: // other kind, same variant
				next[n] = c20State{Kind: 1 + (cur[n].Kind+rng.Intn(2))%3, Variant: cur[n].Variant}
			default:
				next[n] = c20StateOf(rng.Intn(10))
			}
		}
		seq[k] = next
		cur = next
	}
	return seq
}

// TestVerif_C20_Sampled: seeded sequences of 4..8 snapshots over all 3 names.
func TestVerif_C20_TC_Sampled(t *testing.T) {
	if c20ReplayOfAnotherPart(t) {
		t.Skip("replaying a case of another part")
	}
	r := kit.Start(t, "C20")
	defer r.Finish()
	r.Rule("seeded random sequences of 4..8 snapshots over 3 names x (absent | Pipeline, gate A, gate B x 3 variants), biased towards unchanged / variant change / kind change of live names; every second case runs with a cohabitant (a further traffic gate in the same namespace whose spec changes in every snapshot and which is judged by the same model: one Inherit from its live generation per snapshot, always in the live set); same callback-independent barrier and same oracle as the enumerated part")
	n := r.N(200, 5000)
	for i := 0; i < n; i++ {
		if !r.Mine(i) {
			continue
		}
		rng := r.CaseRand(i)
		c := c20Case{Seq: c20RandomSeq(rng, 4+rng.Intn(5)), Cohabit: i%2 == 1}
		r.Case(i, c.desc())
		c20Run(r, c)
		if i < 2 {
			r.Sample(c.desc())
		}
	}
	c20RequireAll(r)
	r.Require("tc_snapshots_with_cohabitant", 1)
	r.Require("tc_snapshots_without_cohabitant", 1)
}

// c20SurvivorSeq generates one sequence of the class "a deletion leaves objects of exactly
// one category live, then a survivor is changed or removed":
//
//	populate (in one or two snapshots) -> delete the victims (everything of the other category
//	and possibly some of the survivors' category; a victim disappears or changes its kind), in
//	1 of 3 cases together with a spec change of a survivor -> 0..2 unchanged snapshots ->
//	every survivor changes spec / changes kind / disappears / stays (at least one is touched)
//	-> optionally one more snapshot (victims come back, survivors change again).
//
// onlyPipelines chooses the surviving category.  With a cohabitant gate in the namespace the
// gate category is never empty, so pipelines-only sequences are generated for cases without one.
func c20SurvivorSeq(rng *rand.Rand, onlyPipelines bool) []c20Snapshot {
	n := len(c20Names)
	perm := rng.Perm(n)
	live := 2 + rng.Intn(n-1) // 2..n objects
	surv := 1 + rng.Intn(live-1)
	survKind := func() int {
		if onlyPipelines {
			return 1
		}
		return 2 + rng.Intn(2)
	}
	full := make(c20Snapshot, n)
	isSurv := make([]bool, n)
	for j := 0; j < live; j++ {
		i := perm[j]
		if j < surv {
			isSurv[i] = true
			full[i] = c20State{Kind: survKind(), Variant: 1 + rng.Intn(3)}
		} else {
			// both happen: the other category is populated and then emptied, or never populated
			full[i] = c20State{Kind: 1 + rng.Intn(3), Variant: 1 + rng.Intn(3)}
		}
	}
	var seq []c20Snapshot
	clone := func(s c20Snapshot) c20Snapshot { return append(c20Snapshot(nil), s...) }
	if rng.Intn(3) == 0 { // populate in two steps
		half := clone(full)
		half[perm[rng.Intn(live)]] = c20State{}
		seq = append(seq, half)
	}
	seq = append(seq, clone(full))
	variantOther := func(v int) int { return 1 + (v+rng.Intn(2))%3 }
	// the deleting snapshot
	del := clone(full)
	for j := surv; j < live; j++ {
		i := perm[j]
		if rng.Intn(4) == 0 && !onlyPipelines && full[i].Kind != 1 {
			// a victim of the survivors' category (gates) changes its kind: delete + create
			del[i] = c20State{Kind: 5 - full[i].Kind, Variant: full[i].Variant}
		} else {
			del[i] = c20State{}
		}
	}
	if rng.Intn(3) == 0 {
		i := perm[rng.Intn(surv)]
		del[i].Variant = variantOther(del[i].Variant)
	}
	seq = append(seq, del)
	cur := del
	for g := []int{0, 0, 0, 1, 1, 2}[rng.Intn(6)]; g > 0; g-- {
		seq = append(seq, clone(cur))
	}
	// the survivors are touched
	next := clone(cur)
	touched := false
	for !touched {
		for j := 0; j < surv; j++ {
			i := perm[j]
			switch rng.Intn(5) {
			case 0:
				next[i] = cur[i]
			case 1, 2:
				next[i] = c20State{Kind: cur[i].Kind, Variant: variantOther(cur[i].Variant)}
			case 3:
				next[i] = c20State{}
			case 4:
				next[i] = c20State{Kind: 1 + (cur[i].Kind+rng.Intn(2))%3, Variant: cur[i].Variant}
			}
			if next[i] != cur[i] {
				touched = true
			}
		}
	}
	seq = append(seq, next)
	if rng.Intn(2) == 0 {
		last := clone(next)
		for j := 0; j < live; j++ {
			i := perm[j]
			switch {
			case !isSurv[i] && rng.Intn(2) == 0:
				last[i] = full[i] // a victim comes back
			case last[i].Kind != 0 && rng.Intn(2) == 0:
				last[i].Variant = variantOther(last[i].Variant)
			}
		}
		seq = append(seq, last)
	}
	return seq
}

// TestVerif_C20_TC_Survivors: objects that survive the deletion of their neighbours.
func TestVerif_C20_TC_Survivors(t *testing.T) {
	if c20ReplayOfAnotherPart(t) {
		t.Skip("replaying a case of another part")
	}
	r := kit.Start(t, "C20")
	defer r.Finish()
	r.Rule("seeded sequences of 3..8 snapshots over 3 names of the class: 2..3 objects live in the namespace; a snapshot deletes some of them (disappear or change of kind) such that objects of exactly one category stay live - pipelines only (cases without cohabitant) or traffic gates only (with and without the cohabitant gate, see the sampled part) - in 1 of 3 cases changing a survivor's spec in the same snapshot; after 0..2 unchanged snapshots every survivor changes its spec, changes its kind, disappears or stays (at least one is touched); optionally the victims come back and the survivors change once more. Same callback-independent barrier and same oracle (lifecycle model per name incl. the cohabitant, live-set views of TrafficController namespace and watcher) as the enumerated part. distinct as there")
	n := r.N(160, 6000)
	for i := 0; i < n; i++ {
		if !r.Mine(i) {
			continue
		}
		rng := r.CaseRand(i)
		c := c20Case{}
		switch i % 4 {
		case 0, 2:
			c.Seq = c20SurvivorSeq(rng, true)
		case 1:
			c.Seq = c20SurvivorSeq(rng, false)
		case 3:
			c.Seq, c.Cohabit = c20SurvivorSeq(rng, false), true
		}
		r.Case(i, c.desc())
		c20Run(r, c)
		if i < 4 {
			r.Sample(c.desc())
		}
	}
	for _, cls := range []string{"pipelines-only", "gates-only"} {
		r.Require("tc_delete_leaves_"+cls, 1)
		for _, then := range []string{"changed_in_same_snapshot", "later_spec-change", "later_disappear", "later_kind-change"} {
			r.Require("tc_survivor_"+cls+"_"+then, 1)
		}
	}
	r.Require("tc_delete_leaves_cohabitant_and_gates-only", 1)
	r.Require("barriers", 1)
}

// TestVerif_C20_Panics: scripted panics in Init / Inherit / Close.
func TestVerif_C20_TC_Panics(t *testing.T) {
	if c20ReplayOfAnotherPart(t) {
		t.Skip("replaying a case of another part")
	}
	r := kit.Start(t, "C20")
	defer r.Finish()
	block := c20Block{2, c20Mid, 2}
	r.Rule("(a) every sequence of " + block.String() + " x every single (name, k) such that the k-th lifecycle callback on that name panics, k up to the number of calls the model expects for the name; (b) seeded sequences of 2..6 snapshots over 3 names with 1..3 scripted panics. Half of the cases run with the cohabitant gate of the sampled part (never scripted to panic, judged). The lifecycle model does not depend on panics: all names of the snapshot, including the panicking one, must still show exactly the expected calls and the live set must equal the snapshot")
	i := 0
	for idx := 0; idx < block.size(); idx++ {
		seq := block.decode(idx)
		exp := c20ExpectedCalls(seq)
		for ni := 0; ni < block.Names; ni++ {
			name := c20Names[ni]
			for k := 1; k <= exp[name]; k, i = k+1, i+1 {
				if !r.Thorough() && (uint32(i)*2654435761>>16)%4 != uint32(r.Seed()%4) { // quick: a seeded quarter of the space
					continue
				}
				if !r.Mine(i) {
					continue
				}
				c := c20Case{Seq: seq, PanicAt: map[string]map[int]bool{name: {k: true}}, Cohabit: (i/4)%2 == 1}
				r.Case(i, c.desc())
				c20Run(r, c)
			}
		}
	}
	r.Note("enumerated panic space: %d (sequence, name, k) triples", i)
	base := 1000000
	n := r.N(150, 5000)
	for j := 0; j < n; j++ {
		i := base + j
		if !r.Mine(i) {
			continue
		}
		rng := r.CaseRand(i)
		seq := c20RandomSeq(rng, 2+rng.Intn(5))
		exp := c20ExpectedCalls(seq)
		pa := map[string]map[int]bool{}
		for p := 1 + rng.Intn(3); p > 0; p-- {
			name := c20Names[rng.Intn(len(c20Names))]
			if exp[name] == 0 {
				continue
			}
			if pa[name] == nil {
				pa[name] = map[int]bool{}
			}
			pa[name][1+rng.Intn(exp[name])] = true
		}
		c := c20Case{Seq: seq, PanicAt: pa, Cohabit: j%2 == 1}
		r.Case(i, c.desc())
		c20Run(r, c)
		if j < 2 {
			r.Sample(c.desc())
		}
	}
	r.Require("panics_fired", 1)
	r.Require("panic_while_other_names_change", 1)
	r.Require("barriers", 1)
}
