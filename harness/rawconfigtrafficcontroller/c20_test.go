//go:build verif

package rawconfigtrafficcontroller

import (
	"fmt"
	"math/rand"
	"os"
	"sort"
	"strings"
	"testing"

	"verif.local/kit"
)

// c20Case is one snapshot sequence fed to a fresh Supervisor, optionally with scripted
// panics (object name -> set of k: the k-th lifecycle callback on that name panics).
type c20Case struct {
	Seq     []c20Snapshot
	PanicAt map[string]map[int]bool
}

func (c c20Case) desc() map[string]interface{} {
	p := []string{}
	for n, ks := range c.PanicAt {
		for k := range ks {
			p = append(p, fmt.Sprintf("%s#%d", n, k))
		}
	}
	sort.Strings(p)
	return map[string]interface{}{"snapshots": c20SeqString(c.Seq), "panic_at_callback": p}
}

// c20Block is a finite space of sequences: all sequences of exactly Len snapshots in
// which each of the first Names names takes every state of Alphabet (state codes 0..6).
type c20Block struct {
	Names    int
	Alphabet []int
	Len      int
}

var (
	c20Full = []int{0, 1, 2, 3, 4, 5, 6, 7, 8, 9}
	c20Mid  = []int{0, 1, 2, 4, 7} // -, P1, P2, GA1, GB1
	c20Min  = []int{0, 1, 4, 7}    // -, P1, GA1, GB1
)

func (b c20Block) size() int {
	n := 1
	for i := 0; i < b.Names*b.Len; i++ {
		n *= len(b.Alphabet)
	}
	return n
}

func (b c20Block) decode(idx int) []c20Snapshot {
	seq := make([]c20Snapshot, b.Len)
	for k := 0; k < b.Len; k++ {
		snap := make(c20Snapshot, len(c20Names))
		for n := 0; n < b.Names; n++ {
			snap[n] = c20StateOf(b.Alphabet[idx%len(b.Alphabet)])
			idx /= len(b.Alphabet)
		}
		seq[k] = snap
	}
	return seq
}

func (b c20Block) String() string {
	al := make([]string, len(b.Alphabet))
	for i, c := range b.Alphabet {
		al[i] = c20StateOf(c).String()
	}
	return fmt.Sprintf("%d name(s) x states {%s} x exactly %d snapshot(s) = %d sequences", b.Names, strings.Join(al, ","), b.Len, b.size())
}

// c20ReplayOfAnotherPart: ./check --replay sets VERIF_ONLY=<part>:<case> for every part;
// the parts it does not name have nothing to do.
func c20ReplayOfAnotherPart(t *testing.T) bool {
	v := os.Getenv("VERIF_ONLY")
	i := strings.LastIndex(v, ":")
	return v != "" && i >= 0 && v[:i] != t.Name()
}

// c20Stuck is set when a barrier watchdog fired: the remaining cases of the process are
// skipped and the run is inconclusive.
var c20Stuck bool

// c20Run executes one case against the real Supervisor and compares with the model after
// every snapshot.
func c20Run(r *kit.Run, c c20Case) {
	if c20Stuck {
		return // a watchdog fired earlier in this process: do not burn the outer budget
	}
	c20rec.reset()
	rig, ok := c20NewRig(r.TmpDir())
	if !ok {
		c20Stuck = true
		r.Inconclusive("watchdog: supervisor did not finish its first event / the sentinel-only snapshot")
		return
	}
	c20rec.take()
	c20rec.setScript(c.PanicAt)
	defer func() {
		if !rig.close() {
			c20Stuck = true
			r.Inconclusive("watchdog: Supervisor.Close did not return")
		}
	}()
	model := c20NewModel(len(c20Names))
	hist := make([][]string, len(c20Names))
	everPresent := make([]bool, len(c20Names))
	for k, snap := range c.Seq {
		if !rig.apply(snap) {
			c20Stuck = true
			r.Inconclusive(fmt.Sprintf("watchdog: sentinel callback not seen %v after snapshot %d of %s was pushed", c20Watchdog, k, c20SeqString(c.Seq)))
			return
		}
		r.Count("barriers", 1)
		events := c20rec.take()
		prev := model.prev
		life, transitions, panicked := model.consume(snap, events)
		views, dup := rig.liveViews()
		mism := model.qualify(life, model.checkLiveSet(snap, views, dup))
		r.Eval(1)

		// coverage and required observations
		changed := 0
		for i, tr := range transitions {
			r.Count("t_"+tr, 1)
			if tr == "appear" && everPresent[i] {
				r.Count("t_reappear", 1)
			}
			if snap[i].Kind != 0 {
				everPresent[i] = true
			}
			if tr != "absent" && tr != "unchanged" {
				changed++
			}
			if tr != "absent" || len(hist[i]) > 0 {
				hist[i] = append(hist[i], tr)
			}
		}
		if changed >= 2 {
			r.Count("coalesced_changes", 1)
		}
		sorted := append([]string(nil), transitions...)
		sort.Strings(sorted)
		sig := "snapshot:" + strings.Join(sorted, ",")
		if len(panicked) > 0 {
			r.Count("panics_fired", int64(len(panicked)))
			others := 0
			for i, tr := range transitions {
				if !panicked[c20Names[i]] && tr != "absent" && tr != "unchanged" {
					others++
				}
			}
			if others > 0 {
				r.Count("panic_while_other_names_change", 1)
			}
			ops := []string{}
			for _, e := range events {
				if e.Panicked {
					ops = append(ops, e.Op)
				}
			}
			sort.Strings(ops)
			sig += fmt.Sprintf("/panic-in:%s/others-changing:%d", strings.Join(ops, "+"), others)
		}
		r.Cover(sig)
		r.Count("callbacks_seen", int64(len(events)))

		for _, mm := range mism {
			mm.Detail["sequence"] = c20SeqString(c.Seq)
			mm.Detail["at_snapshot_index"] = k
			mm.Detail["previous_snapshot"] = prev.String()
			mm.Detail["snapshot"] = snap.String()
			mm.Detail["panic_script"] = c.desc()["panic_at_callback"]
			var lit []string
			for _, e := range events {
				lit = append(lit, e.String())
			}
			mm.Detail["all_callbacks_of_this_snapshot"] = lit
			r.Violation(mm.Sig, mm.Detail)
		}
	}
	for i := range hist {
		if len(hist[i]) > 0 {
			h := hist[i]
			if len(h) > 4 {
				h = h[len(h)-4:]
			}
			r.Cover("name-history:" + strings.Join(h, ">"))
		}
	}
	r.Count("instances_left_unclosed_and_not_live", int64(model.leaked()))
}

func c20RequireAll(r *kit.Run) {
	for _, k := range []string{"t_appear", "t_unchanged", "t_spec-change", "t_kind-change", "t_kind-change-across-categories", "t_disappear", "t_reappear", "coalesced_changes", "barriers"} {
		r.Require(k, 1)
	}
}

// TestVerif_C20_Exhaustive enumerates finite spaces of snapshot sequences completely.
func TestVerif_C20_TC_Exhaustive(t *testing.T) {
	if c20ReplayOfAnotherPart(t) {
		t.Skip("replaying a case of another part")
	}
	r := kit.Start(t, "C20")
	defer r.Finish()
	blocks := []c20Block{
		{1, c20Full, 1}, {1, c20Full, 2}, {1, c20Full, 3},
		{2, c20Mid, 1}, {2, c20Mid, 2},
		{3, c20Min, 1},
	}
	if r.Thorough() {
		blocks = append(blocks,
			c20Block{2, c20Full, 2},
			c20Block{3, c20Mid, 2},
			c20Block{2, c20Min, 3},
		)
	}
	desc := make([]string, len(blocks))
	total := 0
	for i, b := range blocks {
		desc[i] = b.String()
		total += b.size()
	}
	r.Rule("part (b): complete enumeration, each sequence on a fresh Supervisor + TrafficController + RawConfigTrafficController (MustNew on a mocked cluster, snapshots pushed through the syncer channel), of: " + strings.Join(desc, "; ") +
		". State of a name = absent or (real Pipeline P carrying a recording filter | test-only traffic gate kind GA | GB, spec variant 1..3). After every snapshot (sentinel traffic gate as barrier) the recorded Init/Inherit/Close calls per name, the instances involved and two live-set views (TrafficController namespace, the controller's watcher.entities) are compared with the lifecycle model. distinct = multiset of per-name transitions of a snapshot, and per-name transition histories")
	r.Assume("a lifecycle callback that panics still counts as the one call the property asks for; the order of Close and Init in a kind change is not prescribed; Supervisor shutdown is not judged; a Pipeline name is no longer judged in later snapshots once a scripted panic has fired inside its recording filter (the pipeline then drops the filter, the observation point is gone)")
	r.Exhaustive(true)
	i := 0
	for _, b := range blocks {
		for idx := 0; idx < b.size(); idx, i = idx+1, i+1 {
			if !r.Mine(i) {
				continue
			}
			c := c20Case{Seq: b.decode(idx)}
			r.Case(i, c.desc())
			c20Run(r, c)
			if i%997 == 0 {
				r.Sample(c.desc())
			}
		}
	}
	r.Note("enumerated %d sequences in %d blocks", total, len(blocks))
	c20RequireAll(r)
}

// c20ExpectedCalls: how many callbacks the model expects per name over a sequence (used
// only to aim the panic scripts at calls that exist).
func c20ExpectedCalls(seq []c20Snapshot) map[string]int {
	out := map[string]int{}
	prev := make(c20Snapshot, len(c20Names))
	for _, s := range seq {
		for i := range s {
			w := c20Want(c20Transition(prev[i], s[i]))[0]
			if w != "" {
				out[c20Names[i]] += len(strings.Split(w, " "))
			}
		}
		prev = s
	}
	return out
}

func c20RandomSeq(rng *rand.Rand, length int) []c20Snapshot {
	seq := make([]c20Snapshot, length)
	cur := make(c20Snapshot, len(c20Names))
	for k := range seq {
		next := make(c20Snapshot, len(c20Names))
		for n := range next {
			switch p := rng.Intn(10); {
			case p < 3: // unchanged
				next[n] = cur[n]
			case p < 5 && cur[n].Kind != 0: // same kind, another variant
				next[n] = c20State{Kind: cur[n].Kind, Variant: 1 + (cur[n].Variant+rng.Intn(2))%3}
			case p < 6 && cur[n].Kind != 0: // other kind, same variant
				next[n] = c20State{Kind: 1 + (cur[n].Kind+rng.Intn(2))%3, Variant: cur[n].Variant}
			default:
				next[n] = c20StateOf(rng.Intn(10))
			}
		}
		seq[k] = next
		cur = next
	}
	return seq
}

// TestVerif_C20_Sampled: seeded sequences of 4..8 snapshots over all 3 names.
func TestVerif_C20_TC_Sampled(t *testing.T) {
	if c20ReplayOfAnotherPart(t) {
		t.Skip("replaying a case of another part")
	}
	r := kit.Start(t, "C20")
	defer r.Finish()
	r.Rule("seeded random sequences of 4..8 snapshots over 3 names x (absent | Pipeline, gate A, gate B x 3 variants), biased towards unchanged / variant change / kind change of live names; same oracle as the enumerated part")
	n := r.N(200, 5000)
	for i := 0; i < n; i++ {
		if !r.Mine(i) {
			continue
		}
		rng := r.CaseRand(i)
		c := c20Case{Seq: c20RandomSeq(rng, 4+rng.Intn(5))}
		r.Case(i, c.desc())
		c20Run(r, c)
		if i < 2 {
			r.Sample(c.desc())
		}
	}
	c20RequireAll(r)
}

// TestVerif_C20_Panics: scripted panics in Init / Inherit / Close.
func TestVerif_C20_TC_Panics(t *testing.T) {
	if c20ReplayOfAnotherPart(t) {
		t.Skip("replaying a case of another part")
	}
	r := kit.Start(t, "C20")
	defer r.Finish()
	block := c20Block{2, c20Mid, 2}
	r.Rule("(a) every sequence of " + block.String() + " x every single (name, k) such that the k-th lifecycle callback on that name panics, k up to the number of calls the model expects for the name; (b) seeded sequences of 2..6 snapshots over 3 names with 1..3 scripted panics. The lifecycle model does not depend on panics: all names of the snapshot, including the panicking one, must still show exactly the expected calls and the live set must equal the snapshot")
	i := 0
	for idx := 0; idx < block.size(); idx++ {
		seq := block.decode(idx)
		exp := c20ExpectedCalls(seq)
		for ni := 0; ni < block.Names; ni++ {
			name := c20Names[ni]
			for k := 1; k <= exp[name]; k, i = k+1, i+1 {
				if !r.Thorough() && (uint32(i)*2654435761>>16)%4 != uint32(r.Seed()%4) { // quick: a seeded quarter of the space
					continue
				}
				if !r.Mine(i) {
					continue
				}
				c := c20Case{Seq: seq, PanicAt: map[string]map[int]bool{name: {k: true}}}
				r.Case(i, c.desc())
				c20Run(r, c)
			}
		}
	}
	r.Note("enumerated panic space: %d (sequence, name, k) triples", i)
	base := 1000000
	n := r.N(150, 5000)
	for j := 0; j < n; j++ {
		i := base + j
		if !r.Mine(i) {
			continue
		}
		rng := r.CaseRand(i)
		seq := c20RandomSeq(rng, 2+rng.Intn(5))
		exp := c20ExpectedCalls(seq)
		pa := map[string]map[int]bool{}
		for p := 1 + rng.Intn(3); p > 0; p-- {
			name := c20Names[rng.Intn(len(c20Names))]
			if exp[name] == 0 {
				continue
			}
			if pa[name] == nil {
				pa[name] = map[int]bool{}
			}
			pa[name][1+rng.Intn(exp[name])] = true
		}
		c := c20Case{Seq: seq, PanicAt: pa}
		r.Case(i, c.desc())
		c20Run(r, c)
		if j < 2 {
			r.Sample(c.desc())
		}
	}
	r.Require("panics_fired", 1)
	r.Require("panic_while_other_names_change", 1)
	r.Require("barriers", 1)
}
