//go:build verif

package rawconfigtrafficcontroller

// C20 part (b) rig: the real Supervisor + ObjectRegistry + TrafficController +
// RawConfigTrafficController, fed with snapshots of real Pipelines (carrying one
// recording filter, through which Pipeline.Init/Inherit/Close are observed) and of two
// test-only TrafficGate kinds.  Same lifecycle model as part (a)
// (harness/supervisor/c20_rig_test.go); a Go test file cannot be shared between two
// packages, hence the copy.
//
// Unlike part (a) the barrier after a snapshot does not use a sentinel object's callback: a
// sentinel living in the namespace under test shares the fate of the objects under test
// (if the controller loses track of the namespace, the sentinel's callback never comes and
// nothing could be judged).  See c20Rig.apply / quiesce.  The former sentinel gate survives
// as an optional, fully judged *cohabitant*.

import (
	"bytes"
	"fmt"
	"runtime"
	"sort"
	"strings"
	"sync"
	"time"

	"github.com/megaease/easegress/pkg/cluster"
	"github.com/megaease/easegress/pkg/cluster/clustertest"
	"github.com/megaease/easegress/pkg/context"
	"github.com/megaease/easegress/pkg/filters"
	"github.com/megaease/easegress/pkg/logger"
	"github.com/megaease/easegress/pkg/object/pipeline"
	"github.com/megaease/easegress/pkg/option"
	"github.com/megaease/easegress/pkg/supervisor"
)

const (
	c20KindGateA    = "VerifC20GateA"
	c20KindGateB    = "VerifC20GateB"
	c20KindSentinel = "VerifC20SentinelGate"
	c20KindRec      = "VerifC20Rec"
	c20SentinelName = "zz-sentinel"
	c20Watchdog     = 120 * time.Second
)

var (
	c20Names = []string{"obj-a", "obj-b", "obj-c"}
	// index 0 = absent; 1 = real Pipeline; 2, 3 = test-only traffic gates; 4 = the cohabitant
	// gate (only ever used for the name c20SentinelName, never generated for c20Names)
	c20Kinds    = []string{"", pipeline.Kind, c20KindGateA, c20KindGateB, c20KindSentinel}
	c20KindChar = []string{"-", "P", "GA", "GB", "S"}
)

const c20KindIdxSentinel = 4

func c20Category(kind int) string {
	if kind == 1 {
		return "pipeline"
	}
	return "gate"
}

// ---------------------------------------------------------------- recording kinds

type c20ObjSpec struct {
	Variant int `yaml:"variant" jsonschema:"omitempty"`
}

// c20Base: identity of one object generation (for a Pipeline: of its recording filter).
// Fields are only touched under c20rec.mu.
type c20Base struct {
	id   int
	name string
}

type c20Inst interface{ c20base() *c20Base }

func (b *c20Base) c20base() *c20Base { return b }

type c20Event struct {
	Op       string // Init | Inherit | Close
	Inst     *c20Base
	InstID   int
	Kind     string
	Name     string
	Variant  int
	Prev     *c20Base
	PrevID   int
	PrevKind string
	Panicked bool
}

func (e c20Event) String() string {
	p := ""
	if e.Panicked {
		p = "!panic"
	}
	switch e.Op {
	case "Inherit":
		return fmt.Sprintf("%s.Inherit(%s v%d, inst#%d <- prev inst#%d of kind %s)%s", e.Kind, e.Name, e.Variant, e.InstID, e.PrevID, e.PrevKind, p)
	case "Init":
		return fmt.Sprintf("%s.Init(%s v%d, inst#%d)%s", e.Kind, e.Name, e.Variant, e.InstID, p)
	}
	return fmt.Sprintf("%s.Close(%s inst#%d)%s", e.Kind, e.Name, e.InstID, p)
}

type c20Recorder struct {
	mu       sync.Mutex
	frozen   bool
	events   []c20Event
	perName  map[string]int
	panicAt  map[string]map[int]bool
	nextID   int
}

var c20rec = &c20Recorder{}

func (rec *c20Recorder) reset() {
	rec.mu.Lock()
	defer rec.mu.Unlock()
	rec.frozen = false
	rec.events = nil
	rec.perName = map[string]int{}
	rec.panicAt = nil
	rec.nextID = 0
}

func (rec *c20Recorder) setScript(panicAt map[string]map[int]bool) {
	rec.mu.Lock()
	rec.panicAt = panicAt
	rec.mu.Unlock()
}

func (rec *c20Recorder) freeze() {
	rec.mu.Lock()
	rec.frozen = true
	rec.mu.Unlock()
}

func (rec *c20Recorder) take() []c20Event {
	rec.mu.Lock()
	defer rec.mu.Unlock()
	ev := rec.events
	rec.events = nil
	return ev
}

func (rec *c20Recorder) idOf(b *c20Base) int {
	if b.id == 0 {
		rec.nextID++
		b.id = rec.nextID
	}
	return b.id
}

// record notes one lifecycle callback; name is "" for Close (the instance remembers it).
func (rec *c20Recorder) record(op, kind string, b *c20Base, name string, variant int, prev *c20Base, prevKind string) bool {
	rec.mu.Lock()
	defer rec.mu.Unlock()
	if rec.frozen {
		return false
	}
	e := c20Event{Op: op, Inst: b, Kind: kind, Variant: variant, Prev: prev, PrevKind: prevKind}
	e.InstID = rec.idOf(b)
	if name != "" {
		b.name = name
	}
	e.Name = b.name
	if prev != nil {
		e.PrevID = rec.idOf(prev)
	}
	rec.perName[e.Name]++
	if rec.panicAt[e.Name][rec.perName[e.Name]] {
		e.Panicked = true
	}
	rec.events = append(rec.events, e)
	return e.Panicked
}

// --- traffic gates

func c20GateInherit(kind string, b *c20Base, s *supervisor.Spec, prev supervisor.Object) {
	var pb *c20Base
	if pi, ok := prev.(c20Inst); ok {
		pb = pi.c20base()
	}
	pk := ""
	if prev != nil {
		pk = prev.Kind()
	}
	if c20rec.record("Inherit", kind, b, s.Name(), s.ObjectSpec().(*c20ObjSpec).Variant, pb, pk) {
		panic("c20: scripted panic in Inherit")
	}
}

func c20GateInit(kind string, b *c20Base, s *supervisor.Spec) {
	if c20rec.record("Init", kind, b, s.Name(), s.ObjectSpec().(*c20ObjSpec).Variant, nil, "") {
		panic("c20: scripted panic in Init")
	}
}

func c20GateClose(kind string, b *c20Base) {
	if c20rec.record("Close", kind, b, "", 0, nil, "") {
		panic("c20: scripted panic in Close")
	}
}

type c20GateA struct{ c20Base }

func (c *c20GateA) Category() supervisor.ObjectCategory { return supervisor.CategoryTrafficGate }
func (c *c20GateA) Kind() string                        { return c20KindGateA }
func (c *c20GateA) DefaultSpec() interface{}            { return &c20ObjSpec{} }
func (c *c20GateA) Status() *supervisor.Status {
	return &supervisor.Status{ObjectStatus: struct{}{}}
}
func (c *c20GateA) Init(s *supervisor.Spec, _ context.MuxMapper) { c20GateInit(c20KindGateA, &c.c20Base, s) }
func (c *c20GateA) Inherit(s *supervisor.Spec, prev supervisor.Object, _ context.MuxMapper) {
	c20GateInherit(c20KindGateA, &c.c20Base, s, prev)
}
func (c *c20GateA) Close() { c20GateClose(c20KindGateA, &c.c20Base) }

type c20GateB struct{ c20Base }

func (c *c20GateB) Category() supervisor.ObjectCategory { return supervisor.CategoryTrafficGate }
func (c *c20GateB) Kind() string                        { return c20KindGateB }
func (c *c20GateB) DefaultSpec() interface{}            { return &c20ObjSpec{} }
func (c *c20GateB) Status() *supervisor.Status {
	return &supervisor.Status{ObjectStatus: struct{}{}}
}
func (c *c20GateB) Init(s *supervisor.Spec, _ context.MuxMapper) { c20GateInit(c20KindGateB, &c.c20Base, s) }
func (c *c20GateB) Inherit(s *supervisor.Spec, prev supervisor.Object, _ context.MuxMapper) {
	c20GateInherit(c20KindGateB, &c.c20Base, s, prev)
}
func (c *c20GateB) Close() { c20GateClose(c20KindGateB, &c.c20Base) }

// c20SentinelGate is the *cohabitant*: in the cases that run with one, a traffic gate named
// c20SentinelName lives in the same namespace as the objects under test and changes its spec
// with every snapshot.  It is an ordinary recorded object, judged by the same lifecycle model
// (one Init when the rig starts, exactly one Inherit from its live generation per snapshot,
// always present in the live set).  It is NOT the barrier: the barrier (c20Rig.quiesce) does
// not depend on any lifecycle callback being delivered.
type c20SentinelGate struct{ c20Base }

func (c *c20SentinelGate) Category() supervisor.ObjectCategory { return supervisor.CategoryTrafficGate }
func (c *c20SentinelGate) Kind() string                        { return c20KindSentinel }
func (c *c20SentinelGate) DefaultSpec() interface{}            { return &c20ObjSpec{} }
func (c *c20SentinelGate) Status() *supervisor.Status {
	return &supervisor.Status{ObjectStatus: struct{}{}}
}
func (c *c20SentinelGate) Init(s *supervisor.Spec, _ context.MuxMapper) {
	c20GateInit(c20KindSentinel, &c.c20Base, s)
}
func (c *c20SentinelGate) Inherit(s *supervisor.Spec, prev supervisor.Object, _ context.MuxMapper) {
	c20GateInherit(c20KindSentinel, &c.c20Base, s, prev)
}
func (c *c20SentinelGate) Close() { c20GateClose(c20KindSentinel, &c.c20Base) }

// --- recording filter: the observable of a real Pipeline's lifecycle.
// Pipeline.Init   => rec.Init
// Pipeline.Inherit(prev) => rec.Inherit(prev's rec) followed by prev.Close() => prevrec.Close
// Pipeline.Close  => rec.Close

type c20RecSpec struct {
	filters.BaseSpec `yaml:",inline"`
	Variant          int `yaml:"variant" jsonschema:"omitempty"`
}

type c20RecFilter struct {
	c20Base
	spec *c20RecSpec
}

var c20RecKind = &filters.Kind{
	Name:           c20KindRec,
	Description:    "records the lifecycle of the pipeline it belongs to",
	Results:        []string{},
	DefaultSpec:    func() filters.Spec { return &c20RecSpec{} },
	CreateInstance: func(spec filters.Spec) filters.Filter { return &c20RecFilter{spec: spec.(*c20RecSpec)} },
}

func (f *c20RecFilter) Name() string                  { return f.spec.Name() }
func (f *c20RecFilter) Kind() *filters.Kind           { return c20RecKind }
func (f *c20RecFilter) Spec() filters.Spec            { return f.spec }
func (f *c20RecFilter) Handle(*context.Context) string { return "" }
func (f *c20RecFilter) Status() interface{}           { return nil }
func (f *c20RecFilter) Init() {
	if c20rec.record("Init", pipeline.Kind, &f.c20Base, f.spec.Pipeline(), f.spec.Variant, nil, "") {
		panic("c20: scripted panic in Init")
	}
}
func (f *c20RecFilter) Inherit(prev filters.Filter) {
	var pb *c20Base
	pk := "foreign-filter"
	if pf, ok := prev.(*c20RecFilter); ok {
		pb, pk = &pf.c20Base, pipeline.Kind
	}
	if c20rec.record("Inherit", pipeline.Kind, &f.c20Base, f.spec.Pipeline(), f.spec.Variant, pb, pk) {
		panic("c20: scripted panic in Inherit")
	}
}
func (f *c20RecFilter) Close() {
	if c20rec.record("Close", pipeline.Kind, &f.c20Base, "", 0, nil, "") {
		panic("c20: scripted panic in Close")
	}
}

func init() {
	logger.InitNop()
	filters.Register(c20RecKind)
	supervisor.Register(&c20GateA{})
	supervisor.Register(&c20GateB{})
	supervisor.Register(&c20SentinelGate{})
}

// ---------------------------------------------------------------- snapshots

// c20State: Kind 0 absent, 1 Pipeline, 2 gate A, 3 gate B; Variant 1..3.
type c20State struct {
	Kind    int
	Variant int
}

func (s c20State) String() string {
	if s.Kind == 0 {
		return "-"
	}
	return fmt.Sprintf("%s%d", c20KindChar[s.Kind], s.Variant)
}

// c20StateOf decodes 0..9.
func c20StateOf(code int) c20State {
	if code == 0 {
		return c20State{}
	}
	return c20State{Kind: 1 + (code-1)/3, Variant: 1 + (code-1)%3}
}

type c20Snapshot []c20State

func (s c20Snapshot) String() string {
	parts := make([]string, len(s))
	for i, st := range s {
		parts[i] = c20Names[i] + ":" + st.String()
	}
	return "{" + strings.Join(parts, " ") + "}"
}

func c20SeqString(seq []c20Snapshot) string {
	parts := make([]string, len(seq))
	for i, s := range seq {
		parts[i] = s.String()
	}
	return strings.Join(parts, " -> ")
}

func c20YAML(name string, kind, variant int) string {
	if kind == 1 {
		return fmt.Sprintf("name: %s\nkind: %s\nfilters:\n- name: rec\n  kind: %s\n  variant: %d\n", name, pipeline.Kind, c20KindRec, variant)
	}
	return fmt.Sprintf("name: %s\nkind: %s\nvariant: %d\n", name, c20Kinds[kind], variant)
}

// ---------------------------------------------------------------- rig

type c20Rig struct {
	super  *supervisor.Supervisor
	rctc   *RawConfigTrafficController
	ch     chan map[string]string
	prefix string
	// cohabit: a c20SentinelGate lives in the namespace next to the objects under test and
	// changes its spec (variant = seq) in every snapshot.  Without it the namespace holds
	// exactly the objects of the snapshot (so a delete can leave pipelines only, gates only
	// or nothing).
	cohabit bool
	seq     int
	polls   int64 // goroutine dumps taken by quiesce (evidence only)
}

func c20NewRig(home string, cohabit bool) (*c20Rig, bool) {
	rig := &c20Rig{ch: make(chan map[string]string), cohabit: cohabit}
	layout := &cluster.Layout{}
	rig.prefix = layout.ConfigObjectPrefix()
	syncer := clustertest.NewMockedSyncer()
	syncer.MockedSyncPrefix = func(string) (<-chan map[string]string, error) { return rig.ch, nil }
	cls := clustertest.NewMockedCluster()
	cls.MockedLayout = func() *cluster.Layout { return layout }
	cls.MockedGetPrefix = func(string) (map[string]string, error) { return map[string]string{}, nil }
	cls.MockedSyncer = func(time.Duration) (cluster.Syncer, error) { return syncer, nil }
	rig.super = supervisor.MustNew(&option.Options{AbsHomeDir: home}, cls)
	select {
	case <-rig.super.FirstHandleDone():
	case <-time.After(c20Watchdog):
		return rig, false
	}
	rig.rctc = rig.super.MustGetSystemController(Kind).Instance().(*RawConfigTrafficController)
	return rig, true
}

// sentinelState is what the cohabitant has to be after the snapshot pushed last.
func (rig *c20Rig) sentinelState() c20State {
	if !rig.cohabit {
		return c20State{}
	}
	return c20State{Kind: c20KindIdxSentinel, Variant: rig.seq}
}

func (rig *c20Rig) config(snap c20Snapshot) map[string]string {
	m := map[string]string{}
	for i, st := range snap {
		if st.Kind != 0 {
			m[rig.prefix+c20Names[i]] = c20YAML(c20Names[i], st.Kind, st.Variant)
		}
	}
	if rig.cohabit {
		m[rig.prefix+c20SentinelName] = c20YAML(c20SentinelName, c20KindIdxSentinel, rig.seq)
	}
	return m
}

func (rig *c20Rig) send(m map[string]string) bool {
	select {
	case rig.ch <- m:
		return true
	case <-time.After(c20Watchdog):
		return false
	}
}

// apply pushes the snapshot (with the cohabitant's spec changed, if there is one) and waits
// until it has been reconciled completely.  The barrier does not depend on any lifecycle
// callback being delivered, i.e. not on the behaviour under test being correct:
//
//  1. the snapshot is pushed three times (the 2nd and 3rd push are identical to the first, as
//     the periodic re-sync of a real syncer delivers them).  The syncer channel is unbuffered
//     and ObjectRegistry.run handles one snapshot at a time, so when the 3rd push has been
//     accepted, applyConfig of the 1st and of the 2nd have returned: every watcher event they
//     produce is in the watcher's channel or already taken out of it.  (The 3rd one, which may
//     still be running, is a repetition of a snapshot already applied twice.)
//  2. quiesce: the controller's event channel is empty and its run loop is parked in its
//     select - every event taken out of the channel has been handled to the end.
//
// Anything a repeated identical snapshot triggers is recorded with this snapshot and judged
// (the property asks for no call at all then).
func (rig *c20Rig) apply(snap c20Snapshot) bool {
	if rig.cohabit {
		rig.seq++
	}
	m := rig.config(snap)
	for i := 0; i < 3; i++ {
		if !rig.send(m) {
			return false
		}
	}
	return rig.quiesce()
}

var (
	c20StackBuf  = make([]byte, 1<<20)
	c20RunFrame  = []byte("rawconfigtrafficcontroller.(*RawConfigTrafficController).run(")
	c20GoroutSep = []byte("\n\n")
)

// c20LoopIdle takes a goroutine dump (runtime.Stack stops the world: a consistent cut) and
// reports whether exactly one RawConfigTrafficController.run goroutine exists and is parked
// in run's own select (state "select", innermost non-runtime frame = run, i.e. not inside
// handleEvent).  The loops of earlier rigs have had their done channel closed and go away;
// while one of them is still around the answer is "not idle yet".
func c20LoopIdle() bool {
	var dump []byte
	for {
		n := runtime.Stack(c20StackBuf, true)
		if n < len(c20StackBuf) {
			dump = c20StackBuf[:n]
			break
		}
		c20StackBuf = make([]byte, 2*len(c20StackBuf))
	}
	loops, parked := 0, 0
	for _, g := range bytes.Split(dump, c20GoroutSep) {
		if !bytes.Contains(g, c20RunFrame) {
			continue
		}
		lines := bytes.Split(g, []byte("\n"))
		// a goroutine *created by* run would mention it in its last lines only
		isLoop := false
		for _, l := range lines[1:] {
			if bytes.Contains(l, c20RunFrame) && !bytes.HasPrefix(l, []byte("created by ")) {
				isLoop = true
			}
		}
		if !isLoop {
			continue
		}
		loops++
		// header: "goroutine 57 [select]:" or "goroutine 57 [select, 2 minutes]:"
		hdr := lines[0]
		lb, rb := bytes.IndexByte(hdr, '['), bytes.IndexByte(hdr, ']')
		if lb < 0 || rb < lb {
			continue
		}
		state := hdr[lb+1 : rb]
		if c := bytes.IndexByte(state, ','); c >= 0 {
			state = state[:c]
		}
		if string(state) != "select" {
			continue
		}
		for _, l := range lines[1:] {
			if bytes.HasPrefix(l, []byte("\t")) || bytes.HasPrefix(l, []byte("runtime.")) {
				continue
			}
			if bytes.Contains(l, c20RunFrame) {
				parked++
			}
			break
		}
	}
	return loops == 1 && parked == 1
}

// quiesce polls (no verdict depends on how long it takes; the watchdog firing means that
// nothing can be established: inconclusive) until the controller has nothing queued and
// nothing in progress.  No new event can be queued meanwhile, see apply.
func (rig *c20Rig) quiesce() bool {
	deadline := time.Now().Add(c20Watchdog)
	events := rig.rctc.watcher.Watch()
	for spin := 0; ; spin++ {
		if len(events) == 0 {
			rig.polls++
			if c20LoopIdle() && len(events) == 0 {
				return true
			}
		}
		if time.Now().After(deadline) {
			return false
		}
		if spin < 50 {
			runtime.Gosched()
		} else {
			time.Sleep(200 * time.Microsecond)
		}
	}
}

func (rig *c20Rig) close() bool {
	c20rec.freeze()
	done := make(chan struct{})
	go func() {
		var wg sync.WaitGroup
		wg.Add(1)
		rig.super.Close(&wg)
		close(done)
	}()
	select {
	case <-done:
		return true
	case <-time.After(c20Watchdog):
		return false
	}
}

// ---------------------------------------------------------------- reference model

const (
	c20Live = iota + 1
	c20Superseded
	c20Closed
)

type c20Model struct {
	prev     c20Snapshot
	prevSent c20State // the cohabitant's state after the previous snapshot (Kind 0: none)
	live     map[string]*c20Base
	state    map[*c20Base]int
	diverged map[string]string // name -> signature of the first mismatch on that name in this sequence
	// unjudged: Pipeline names on which a scripted panic has fired inside the recording
	// filter.  Pipeline.reload then leaves the filter out of the pipeline, so later
	// generations of that name can no longer be observed through it; the name is not judged
	// for the rest of the sequence (the other names are - which is what the panic clause asks).
	unjudged map[string]bool
}

func c20NewModel(names int) *c20Model {
	return &c20Model{prev: make(c20Snapshot, names), live: map[string]*c20Base{}, state: map[*c20Base]int{}, diverged: map[string]string{}, unjudged: map[string]bool{}}
}

func c20Transition(from, to c20State) string {
	switch {
	case from.Kind == 0 && to.Kind == 0:
		return "absent"
	case from.Kind == 0:
		return "appear"
	case to.Kind == 0:
		return "disappear"
	case from == to:
		return "unchanged"
	case from.Kind == to.Kind:
		return "spec-change"
	case c20Category(from.Kind) != c20Category(to.Kind):
		return "kind-change-across-categories"
	}
	return "kind-change"
}

func c20Want(tr string) []string {
	switch tr {
	case "appear":
		return []string{"Init(fresh)"}
	case "spec-change":
		return []string{"Inherit(fresh,prev=live,prevkind=same)"}
	case "disappear":
		return []string{"Close(live)"}
	case "kind-change", "kind-change-across-categories":
		return []string{"Close(live) Init(fresh)", "Init(fresh) Close(live)"}
	}
	return []string{""}
}

func c20StateName(st int) string {
	switch st {
	case c20Live:
		return "live-elsewhere"
	case c20Superseded:
		return "superseded"
	case c20Closed:
		return "closed"
	}
	return "uninitialised"
}

type c20Mismatch struct {
	Name   string
	Sig    string
	Detail map[string]interface{}
}

// qualify decides which mismatches are consequences of an earlier one.  A name is
// *diverged* once the implementation's live set for it differs from the snapshot (the
// model's premise for all later expectations on that name is then gone): from the next
// snapshot on, every mismatch on that name is reported as "cascade-of{<root>}" (its own
// signature goes into the detail; one signature per root keeps the kit's per-run cap on
// recorded violations from ever crowding out a new kind of failure), where root is the lifecycle mismatch that came with the divergence (or the live-set
// mismatch itself if there was none).  A lifecycle mismatch after which the live set
// still equals the snapshot does not diverge the name: later snapshots are judged normally.
func c20Cascade(root string, mm c20Mismatch) c20Mismatch {
	mm.Detail["cascade_signature"] = mm.Sig
	mm.Sig = "cascade-of{" + root + "}"
	return mm
}

func (m *c20Model) qualify(life, liveset []c20Mismatch) []c20Mismatch {
	var out []c20Mismatch
	rootNow := map[string]string{}
	for _, mm := range life {
		if root, ok := m.diverged[mm.Name]; ok {
			mm = c20Cascade(root, mm)
		} else if _, has := rootNow[mm.Name]; !has {
			rootNow[mm.Name] = mm.Sig
		}
		out = append(out, mm)
	}
	newly := map[string]string{}
	for _, mm := range liveset {
		if root, ok := m.diverged[mm.Name]; ok {
			mm = c20Cascade(root, mm)
		} else if root, ok := rootNow[mm.Name]; ok {
			newly[mm.Name] = root
			mm = c20Cascade(root, mm)
		} else if _, ok := newly[mm.Name]; !ok {
			newly[mm.Name] = mm.Sig
		}
		out = append(out, mm)
	}
	for n, root := range newly {
		m.diverged[n] = root
	}
	return out
}

// pipelineView folds the recording filter's view of Pipeline.Inherit (rec.Inherit(prev)
// then, unless that panicked, prev.Close()) into the single object-level Inherit call.
func c20FoldPipelineInherit(evs []c20Event) []c20Event {
	var out []c20Event
	for i := 0; i < len(evs); i++ {
		out = append(out, evs[i])
		e := evs[i]
		if e.Op == "Inherit" && e.Kind == pipeline.Kind && e.Prev != nil && i+1 < len(evs) &&
			evs[i+1].Op == "Close" && evs[i+1].Inst == e.Prev {
			if evs[i+1].Panicked {
				out[len(out)-1].Panicked = true
			}
			i++
		}
	}
	return out
}

// consume judges the callbacks recorded for one snapshot.  sent is the state the cohabitant
// gate must have after this snapshot (Kind 0 when the case runs without one); it is judged
// like every other name but does not appear in the returned transitions (coverage is about
// the generated names).
func (m *c20Model) consume(next c20Snapshot, sent c20State, events []c20Event) (mism []c20Mismatch, transitions []string, panickedNames map[string]bool) {
	byName := map[string][]c20Event{}
	panickedNames = map[string]bool{}
	for _, e := range events {
		byName[e.Name] = append(byName[e.Name], e)
		if e.Panicked {
			panickedNames[e.Name] = true
		}
	}
	known := map[string]bool{}
	judge := func(name string, from, to c20State) string {
		known[name] = true
		tr := c20Transition(from, to)
		var got []string
		for _, e := range c20FoldPipelineInherit(byName[name]) {
			got = append(got, m.shape(name, to, e))
		}
		gotS := strings.Join(got, " ")
		want := c20Want(tr)
		ok := false
		for _, w := range want {
			if gotS == w {
				ok = true
			}
		}
		if !ok && !m.unjudged[name] {
			var evs []string
			for _, e := range byName[name] {
				evs = append(evs, e.String())
			}
			role := "generated name"
			if name == c20SentinelName {
				role = "cohabitant gate (lives in the same namespace, its spec changes with every snapshot)"
			}
			mism = append(mism, c20Mismatch{
				Name: name,
				Sig:  fmt.Sprintf("lifecycle:%s:got=[%s]:want=[%s]", tr, gotS, want[0]),
				Detail: map[string]interface{}{
					"name": name, "role": role, "transition": fmt.Sprintf("%s -> %s", from, to), "callbacks_seen": evs,
					"panic_scripted_on_this_name_in_this_snapshot": panickedNames[name],
				},
			})
		}
		if to.Kind == 0 {
			m.live[name] = nil
		}
		for _, e := range byName[name] {
			if e.Panicked && e.Kind == pipeline.Kind {
				m.unjudged[name] = true
			}
		}
		return tr
	}
	for i := range next {
		transitions = append(transitions, judge(c20Names[i], m.prev[i], next[i]))
	}
	if sent.Kind != 0 || m.prevSent.Kind != 0 {
		judge(c20SentinelName, m.prevSent, sent)
	}
	for name, evs := range byName {
		if known[name] {
			continue
		}
		var got, lit []string
		for _, e := range evs {
			got = append(got, m.shape(name, c20State{}, e))
			lit = append(lit, e.String())
		}
		mism = append(mism, c20Mismatch{
			Name:   name,
			Sig:    fmt.Sprintf("lifecycle:orphan-call:got=[%s]", strings.Join(got, " ")),
			Detail: map[string]interface{}{"name": name, "callbacks_seen": lit},
		})
	}
	m.prev = append(c20Snapshot(nil), next...)
	m.prevSent = sent
	return
}

func (m *c20Model) shape(name string, target c20State, e c20Event) string {
	switch e.Op {
	case "Init", "Inherit":
		attrs := []string{"fresh"}
		if st, seen := m.state[e.Inst]; seen {
			attrs[0] = "reused-" + c20StateName(st)
			if m.live[name] == e.Inst {
				attrs[0] = "reused-live"
			}
		}
		if e.Op == "Inherit" {
			p := "prev="
			switch {
			case e.Prev == nil:
				p += "foreign"
			case m.live[name] == e.Prev && m.state[e.Prev] == c20Live:
				p += "live"
			default:
				p += c20StateName(m.state[e.Prev])
			}
			attrs = append(attrs, p)
			if e.PrevKind == e.Kind {
				attrs = append(attrs, "prevkind=same")
			} else {
				attrs = append(attrs, "prevkind=other")
			}
			if e.Prev != nil {
				m.state[e.Prev] = c20Superseded
			}
		}
		if target.Kind == 0 || e.Kind != c20Kinds[target.Kind] || e.Variant != target.Variant {
			attrs = append(attrs, "spec-not-of-snapshot")
		}
		m.state[e.Inst] = c20Live
		m.live[name] = e.Inst
		return e.Op + "(" + strings.Join(attrs, ",") + ")"
	}
	st, seen := m.state[e.Inst]
	a := ""
	switch {
	case !seen:
		a = "uninitialised"
	case st == c20Live && m.live[name] == e.Inst:
		a = "live"
		m.live[name] = nil
	default:
		a = c20StateName(st)
	}
	m.state[e.Inst] = c20Closed
	return "Close(" + a + ")"
}

func (m *c20Model) leaked() int {
	liveSet := map[*c20Base]bool{}
	for _, b := range m.live {
		if b != nil {
			liveSet[b] = true
		}
	}
	n := 0
	for b, st := range m.state {
		if st == c20Live && !liveSet[b] {
			n++
		}
	}
	return n
}

// ---------------------------------------------------------------- live-set views

type c20View struct {
	Kind    string
	Variant int
	Inst    *c20Base // gates only; a Pipeline's recording filter is not reachable from outside its package
}

func c20ViewOf(entities []*supervisor.ObjectEntity) (map[string]c20View, []string) {
	out := map[string]c20View{}
	var dup []string
	for _, e := range entities {
		name := e.Spec().Name()
		v := c20View{Kind: e.Spec().Kind()}
		switch os := e.Spec().ObjectSpec().(type) {
		case *c20ObjSpec:
			v.Variant = os.Variant
		case *pipeline.Spec:
			if len(os.Filters) == 1 {
				if n, ok := os.Filters[0]["variant"].(int); ok {
					v.Variant = n
				}
			}
		}
		if ci, ok := e.Instance().(c20Inst); ok {
			v.Inst = ci.c20base()
		}
		if _, exists := out[name]; exists {
			dup = append(dup, name)
		}
		out[name] = v
	}
	return out, dup
}

// liveViews reads the TrafficController's namespace (pipelines and traffic gates, through
// its own mutex) and the controller's watcher (through its mutex) at a quiescent point.
func (rig *c20Rig) liveViews() (map[string]map[string]c20View, []string) {
	var ents []*supervisor.ObjectEntity
	ents = append(ents, rig.rctc.tc.ListPipelines(DefaultNamespace)...)
	ents = append(ents, rig.rctc.tc.ListTrafficGates(DefaultNamespace)...)
	tcView, dup := c20ViewOf(ents)
	var w []*supervisor.ObjectEntity
	for _, e := range rig.rctc.watcher.Entities() {
		w = append(w, e)
	}
	wView, _ := c20ViewOf(w)
	return map[string]map[string]c20View{"trafficcontroller": tcView, "watcher": wView}, dup
}

func (m *c20Model) checkLiveSet(snap c20Snapshot, sent c20State, views map[string]map[string]c20View, dup []string) (mism []c20Mismatch) {
	names := append([]string(nil), c20Names[:len(snap)]...)
	states := append([]c20State(nil), snap...)
	if sent.Kind != 0 {
		names, states = append(names, c20SentinelName), append(states, sent)
	}
	for _, name := range dup {
		if m.unjudged[name] {
			continue
		}
		mism = append(mism, c20Mismatch{
			Name:   name,
			Sig:    "liveset:trafficcontroller:name-live-as-pipeline-and-as-gate",
			Detail: map[string]interface{}{"name": name, "snapshot": snap.String()},
		})
	}
	viewNames := make([]string, 0, len(views))
	for v := range views {
		viewNames = append(viewNames, v)
	}
	sort.Strings(viewNames)
	for _, vn := range viewNames {
		view := views[vn]
		seen := map[string]bool{}
		for i, st := range states {
			name := names[i]
			seen[name] = true
			got, present := view[name]
			bad := ""
			if m.unjudged[name] {
				continue
			}
			switch {
			case st.Kind == 0 && present:
				bad = "extra-name"
			case st.Kind != 0 && !present:
				bad = "missing-name"
			case st.Kind == 0:
			case got.Kind != c20Kinds[st.Kind]:
				bad = "wrong-kind"
			case got.Variant != st.Variant:
				bad = "stale-spec"
			case vn == "trafficcontroller" && st.Kind != 1 && got.Inst != m.live[name]:
				bad = "instance-is-not-the-live-generation"
			}
			if bad != "" {
				mism = append(mism, c20Mismatch{
					Name:   name,
					Sig:    "liveset:" + vn + ":" + bad,
					Detail: map[string]interface{}{"name": name, "snapshot": snap.String(), "view": fmt.Sprintf("%+v present=%v", got, present)},
				})
			}
		}
		for name := range view {
			if !seen[name] {
				mism = append(mism, c20Mismatch{Name: name, Sig: "liveset:" + vn + ":extra-name", Detail: map[string]interface{}{"name": name}})
			}
		}
	}
	return
}

