//go:build verif

package ratelimiter

// C09, part 1b: the limiter shapes the MQTT proxy uses (timeout 0): request limiter
// (AcquirePermission), byte limiter (AcquireNPermission(n)) and MultiRateLimiter
// ([1, n] against [requestRate, bytesRate]), all under the virtual clock; plus
// MultiRateLimiter with unit counts and a non-zero timeout, judged per dimension.

import (
	"fmt"
	"math/rand"
	"testing"
	"time"

	"verif.local/kit"
)

// c09PktBook is the oracle state for "packets/bytes admitted per aligned period".
type c09PktBook struct {
	start, period int64
	reqRate       int // 0 = dimension absent
	bytesRate     int // 0 = dimension absent
	pkts          map[int64]int
	bytes         map[int64]int
	reserved      map[int64]int // bytes incl. the part of an oversize packet that spills into later periods
}

func c09NewPktBook(start, period int64, reqRate, bytesRate int) *c09PktBook {
	return &c09PktBook{start: start, period: period, reqRate: reqRate, bytesRate: bytesRate,
		pkts: map[int64]int{}, bytes: map[int64]int{}, reserved: map[int64]int{}}
}

// arrive judges (admitted?) for a packet of n bytes at time t.
func (b *c09PktBook) arrive(t int64, n int, ok bool) (bad []string, class string) {
	p := (t - b.start) / b.period
	if !ok {
		// wrongful only if under BOTH readings of an oversize packet's overshoot (forgiven
		// at the period end / charged to the following periods) something is spare
		reqSpare := b.reqRate == 0 || b.pkts[p] < b.reqRate
		byteSpare := b.bytesRate == 0 || b.reserved[p] < b.bytesRate
		if reqSpare && byteSpare {
			bad = append(bad, "rejected-while-period-has-spare-packets-and-bytes")
		}
		class = "rejected"
		if b.bytesRate > 0 && b.bytes[p] < b.bytesRate && b.reserved[p] >= b.bytesRate && (b.reqRate == 0 || b.pkts[p] < b.reqRate) {
			class = "rejected-by-earlier-overshoot"
		}
		return
	}
	class = "admitted"
	if b.reqRate > 0 {
		b.pkts[p]++
		if b.pkts[p] > b.reqRate {
			bad = append(bad, "more-than-requestRate-packets-in-one-period")
		}
	}
	if b.bytesRate > 0 {
		if b.bytes[p] >= b.bytesRate {
			bad = append(bad, "bytes-overshoot-by-a-whole-packet-or-more")
		}
		if b.bytes[p]+n > b.bytesRate {
			class = "admitted-overshooting"
		}
		b.bytes[p] += n
		rem := n
		for j := p; rem > 0; j++ {
			room := b.bytesRate - b.reserved[j]
			if room <= 0 {
				continue
			}
			if room > rem {
				room = rem
			}
			b.reserved[j] += room
			rem -= room
		}
	}
	return
}

type c09PktEv struct {
	T     int64  `json:"t_ns"`
	Gap   string `json:"gap"`
	Bytes int    `json:"bytes"`
	Ok    bool   `json:"admitted"`
	Wait  int64  `json:"wait_ns"`
}

func c09PktSize(rng *rand.Rand, bytesRate int) int {
	if bytesRate == 0 {
		return 1 + rng.Intn(100)
	}
	switch rng.Intn(6) {
	case 0:
		return 1
	case 1:
		return bytesRate // exactly the whole budget
	case 2:
		return bytesRate + 1 + rng.Intn(2*bytesRate) // oversize
	case 3:
		return bytesRate - 1 + 2*rng.Intn(2)
	}
	return 1 + rng.Intn(bytesRate/2+1)
}

func TestVerif_C09_UtilPacketsBytes(t *testing.T) {
	r := kit.Start(t, "C09")
	defer r.Finish()
	clk, restore := c09Install()
	defer restore()
	r.Rule("modes {request limiter, byte limiter via AcquireNPermission, MultiRateLimiter [1,bytes]} x requestRate 1-5 x bytesRate 1-200 x period 1-3 s, timeout 0; 60 packets of sizes {1, <=rate/2, rate-1, rate, rate+1, oversize up to 3x rate} with the same gap kinds as the sequential part; the harness books admitted packets and bytes per aligned period; distinct = (mode, outcome class, gap kind, size class)")
	r.Assume("an oversize packet's overshoot may either be forgiven at the period end or charged to following periods: a rejection is only judged wrongful when both readings leave spare capacity")
	n := r.N(6000, 150000)
	for i := 0; i < n; i++ {
		if !r.Mine(i) {
			continue
		}
		rng := r.CaseRand(i)
		mode := []string{"req", "bytes", "multi"}[i%3]
		reqRate, bytesRate := 0, 0
		if mode != "bytes" {
			reqRate = 1 + rng.Intn(5)
		}
		if mode != "req" {
			bytesRate = []int{1, 2, 10, 50, 200}[rng.Intn(5)]
			if rng.Intn(2) == 0 {
				bytesRate = 1 + rng.Intn(200)
			}
		}
		period := time.Duration(1+rng.Intn(3)) * time.Second
		start := rng.Int63n(int64(time.Hour))
		desc := map[string]interface{}{"mode": mode, "requestRate": reqRate, "bytesRate": bytesRate, "period_ns": period, "start_ns": start}
		r.Case(i, desc)
		clk.Set(start)
		var single *RateLimiter
		var multi *MultiRateLimiter
		switch mode {
		case "req":
			single = New(NewPolicy(0, period, reqRate))
		case "bytes":
			single = New(NewPolicy(0, period, bytesRate))
		case "multi":
			multi = NewMulti(NewMultiPolicy(0, period, []int{reqRate, bytesRate}))
		}
		book := c09NewPktBook(start, int64(period), reqRate, bytesRate)
		pol := c09Pol{Limit: 1, Period: period}
		var hist []c09PktEv
		for k := 0; k < 60; k++ {
			kind := c09GapKinds[rng.Intn(len(c09GapKinds))]
			if kind == "toLastRelease" {
				kind = "small"
			}
			now := clk.Off()
			now += c09Gap(rng, kind, now, start, pol, 0)
			clk.Set(now)
			size := c09PktSize(rng, bytesRate)
			var ok bool
			var wait time.Duration
			var err error
			if r.Guard("C09:util:"+mode, map[string]interface{}{"case": desc, "history": hist}, func() {
				switch mode {
				case "req":
					ok, wait = single.AcquirePermission()
				case "bytes":
					ok, wait = single.AcquireNPermission(size)
				case "multi":
					ok, wait, err = multi.AcquirePermission([]int{1, size})
				}
			}) {
				break
			}
			r.Eval(1)
			hist = append(hist, c09PktEv{T: now - start, Gap: kind, Bytes: size, Ok: ok, Wait: int64(wait)})
			bad, class := book.arrive(now, size, ok)
			if err != nil {
				bad = append(bad, "unexpected-error")
			}
			if ok && wait != 0 {
				bad = append(bad, "admitted-with-nonzero-wait-at-timeout-0")
			}
			sc := "small"
			if bytesRate > 0 && size >= bytesRate {
				sc = "ge-rate"
			}
			r.Cover(fmt.Sprintf("%s/%s/gap:%s/%s", mode, class, kind, sc))
			r.Count(mode+"_"+class, 1)
			for _, b := range bad {
				r.Violation("util:"+mode+":"+b, map[string]interface{}{"case": desc, "history(t relative to start)": hist, "failing_index": k})
			}
		}
		if i < 3 {
			r.Sample(map[string]interface{}{"case": desc, "history": hist[:10]})
		}
	}
	for _, k := range []string{"req_admitted", "req_rejected", "bytes_admitted", "bytes_admitted-overshooting", "bytes_rejected", "multi_admitted", "multi_admitted-overshooting", "multi_rejected"} {
		r.Require(k, 1)
	}
}

// MultiRateLimiter with unit counts and a timeout: every dimension is a limiter of its
// own, so the release bound must hold for every dimension's limit.
func TestVerif_C09_UtilMultiUnit(t *testing.T) {
	r := kit.Start(t, "C09")
	defer r.Finish()
	clk, restore := c09Install()
	defer restore()
	r.Rule("MultiRateLimiter with 2-3 dimensions (limits 1-5 each), counts all 1, policies and gaps as in the sequential part; judged with one book whose limit is the smallest dimension limit (releases per aligned period <= every dimension's limit, 0<=wait<=timeout, immediate when the period has a spare permit in every dimension, rejection only when full through the whole-period horizon); distinct = (timeout class, limits, outcome, gap kind)")
	n := r.N(4000, 100000)
	for i := 0; i < n; i++ {
		if !r.Mine(i) {
			continue
		}
		rng := r.CaseRand(i)
		pol := c09GenPol(rng, i)
		dims := 2 + rng.Intn(2)
		limits := make([]int, dims)
		ones := make([]int, dims)
		min := 1 << 30
		for d := range limits {
			limits[d] = 1 + rng.Intn(5)
			ones[d] = 1
			if limits[d] < min {
				min = limits[d]
			}
		}
		pol.Limit = min
		start := rng.Int63n(int64(time.Hour))
		desc := map[string]interface{}{"policy": pol, "limits": limits, "start_ns": start}
		r.Case(i, desc)
		clk.Set(start)
		rl := NewMulti(NewMultiPolicy(pol.Timeout, pol.Period, limits))
		book := c09NewBook(start, pol)
		var hist []c09Ev
		var lastRel int64
		burst := rng.Intn(2) == 0
		for k := 0; k < 40; k++ {
			kind := c09GapKinds[rng.Intn(len(c09GapKinds))]
			if burst && rng.Intn(3) != 0 {
				kind = "zero"
			}
			now := clk.Off()
			now += c09Gap(rng, kind, now, start, pol, lastRel)
			clk.Set(now)
			var ok bool
			var wait time.Duration
			var err error
			if r.Guard("C09:util:multi-unit", map[string]interface{}{"case": desc, "history": c09Tail(hist, 60)}, func() { ok, wait, err = rl.AcquirePermission(ones) }) {
				break
			}
			r.Eval(1)
			hist = append(hist, c09Ev{T: now - start, Gap: kind, Ok: ok, Wait: int64(wait)})
			bad, class := book.arrive(now, ok, wait)
			if err != nil {
				bad = append(bad, "unexpected-error")
			}
			if ok && wait > 0 {
				lastRel = now + int64(wait)
			}
			r.Count("multiunit_"+class[:4], 1)
			r.Cover(fmt.Sprintf("%s/%v/%s/gap:%s", pol.TClass, limits, class, kind))
			for _, b := range bad {
				r.Violation("util:multi-unit:"+b+":timeout="+pol.TClass, map[string]interface{}{"case": desc, "history_tail(t relative to start)": c09Tail(hist, 60), "failing_index": k})
			}
		}
	}
	for _, k := range []string{"multiunit_imme", "multiunit_wait", "multiunit_reje"} {
		r.Require(k, 1)
	}
}
