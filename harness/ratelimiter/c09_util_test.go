//go:build verif

package ratelimiter

// C09, part 1: pkg/util/ratelimiter under a virtual clock (nowFunc).
//
// The oracle is a history checker written from the property sentence: the harness keeps
// its own book "releases per aligned period" from the observed (t, permitted, wait)
// triples and never looks at the limiter's fields.
//
//   conservation : releases (t+wait) per aligned period <= limitForPeriod
//   wait bound   : 0 <= wait <= timeoutDuration
//   immediacy    : current period has a spare permit  =>  admitted with wait 0
//   rejection    : only when every period p .. p+floor(timeout/period) is full
//
// Periods are aligned to the limiter's creation time (the virtual clock value at New).

import (
	"fmt"
	"math/rand"
	"sort"
	"sync"
	"sync/atomic"
	"testing"
	"time"

	"verif.local/kit"
)

// ---------------------------------------------------------------- virtual clock

var c09Base = time.Date(2022, 3, 1, 12, 0, 0, 0, time.UTC)

type c09Clock struct{ ns atomic.Int64 }

func (c *c09Clock) Now() time.Time      { return c09Base.Add(time.Duration(c.ns.Load())) }
func (c *c09Clock) Off() int64          { return c.ns.Load() }
func (c *c09Clock) Set(off int64)       { c.ns.Store(off) }
func (c *c09Clock) Add(d time.Duration) { c.ns.Add(int64(d)) }
func c09Install() (*c09Clock, func()) {
	old := nowFunc
	c := &c09Clock{}
	nowFunc = c.Now
	return c, func() { nowFunc = old }
}

// ---------------------------------------------------------------- policies

type c09Pol struct {
	Limit   int           `json:"limit"`
	Period  time.Duration `json:"period_ns"`
	Timeout time.Duration `json:"timeout_ns"`
	TClass  string        `json:"timeout_class"`
}

var c09Periods = []time.Duration{10 * time.Millisecond, 25 * time.Millisecond, 100 * time.Millisecond, 333 * time.Millisecond, time.Second}
var c09TClasses = []string{"zero", "ltP", "P-1ns", "eq1P", "eq2P", "eq3P", "between1-2", "2P-1ns", "between2-3", "1ns"}

func c09Timeout(rng *rand.Rand, class string, p time.Duration) time.Duration {
	switch class {
	case "zero":
		return 0
	case "1ns":
		return 1
	case "ltP":
		return time.Duration(1 + rng.Int63n(int64(p)-1))
	case "P-1ns":
		return p - 1
	case "eq1P":
		return p
	case "eq2P":
		return 2 * p
	case "eq3P":
		return 3 * p
	case "between1-2":
		return p + time.Duration(1+rng.Int63n(int64(p)-1))
	case "2P-1ns":
		return 2*p - 1
	case "between2-3":
		return 2*p + time.Duration(1+rng.Int63n(int64(p)-1))
	}
	panic(class)
}

// systematic prefix (limit x {10ms,1s} x timeout class), then a seeded random tail.
func c09GenPol(rng *rand.Rand, i int) c09Pol {
	nSys := 5 * 2 * len(c09TClasses)
	var pol c09Pol
	if i < nSys {
		pol.Limit = 1 + i%5
		pol.Period = []time.Duration{10 * time.Millisecond, time.Second}[(i/5)%2]
		pol.TClass = c09TClasses[i/10]
	} else {
		pol.Limit = 1 + rng.Intn(5)
		if rng.Intn(3) == 0 {
			pol.Period = time.Duration(10+rng.Intn(991)) * time.Millisecond
		} else {
			pol.Period = c09Periods[rng.Intn(len(c09Periods))]
		}
		pol.TClass = c09TClasses[rng.Intn(len(c09TClasses))]
	}
	pol.Timeout = c09Timeout(rng, pol.TClass, pol.Period)
	return pol
}

// ---------------------------------------------------------------- the book (oracle state)

type c09Book struct {
	start   int64 // clock offset at creation of the limiter
	pol     c09Pol
	horizon int64 // whole periods ahead that the timeout reaches
	rel     map[int64]int
}

func c09NewBook(start int64, pol c09Pol) *c09Book {
	return &c09Book{start: start, pol: pol, horizon: int64(pol.Timeout / pol.Period), rel: map[int64]int{}}
}

func (b *c09Book) period(t int64) int64 { return (t - b.start) / int64(b.pol.Period) }

func (b *c09Book) spareNow(t int64) int {
	s := b.pol.Limit - b.rel[b.period(t)]
	if s < 0 {
		s = 0
	}
	return s
}

func (b *c09Book) freeInHorizon(t int64) int {
	p := b.period(t)
	n := 0
	for j := p; j <= p+b.horizon; j++ {
		if f := b.pol.Limit - b.rel[j]; f > 0 {
			n += f
		}
	}
	return n
}

// arrive judges one observed outcome against the book and then books the release.
// Returns the violation kinds (empty = fine) and a coverage class.
func (b *c09Book) arrive(t int64, ok bool, wait time.Duration) (bad []string, class string) {
	p := b.period(t)
	spare := b.rel[p] < b.pol.Limit
	if !ok {
		if spare {
			bad = append(bad, "rejected-while-current-period-has-spare-permit")
		} else if b.freeInHorizon(t) > 0 {
			bad = append(bad, "rejected-while-permit-free-within-timeout-horizon")
		}
		return bad, "rejected"
	}
	if wait < 0 {
		bad = append(bad, "negative-wait")
	}
	if wait > b.pol.Timeout {
		bad = append(bad, "wait-exceeds-timeout")
	}
	if spare && wait != 0 {
		bad = append(bad, "spare-permit-in-current-period-but-made-to-wait")
	}
	rp := b.period(t + int64(wait))
	b.rel[rp]++
	if b.rel[rp] > b.pol.Limit {
		bad = append(bad, "more-than-limit-releases-in-one-period")
	}
	if wait == 0 {
		return bad, "immediate"
	}
	return bad, fmt.Sprintf("waited+%d", rp-p)
}

// ---------------------------------------------------------------- arrival gaps

var c09GapKinds = []string{"zero", "zero", "zero", "zero", "zero", "zero", "small", "small", "small", "toBoundary", "boundary-1ns", "boundary+1ns", "onePeriod", "kPeriods", "huge", "toLastRelease", "tiny"}

// c09Gap returns the clock advance (>= 0) for a gap kind.
func c09Gap(rng *rand.Rand, kind string, now, start int64, pol c09Pol, lastRelease int64) int64 {
	P := int64(pol.Period)
	next := start + ((now-start)/P+1)*P // next boundary strictly after now
	switch kind {
	case "zero":
		return 0
	case "tiny":
		return 1 + rng.Int63n(1000)
	case "small":
		return 1 + rng.Int63n(P-1)
	case "toBoundary":
		return next - now
	case "boundary-1ns":
		if next-1 > now {
			return next - 1 - now
		}
		return 0
	case "boundary+1ns":
		return next + 1 - now
	case "onePeriod":
		return P
	case "kPeriods":
		return int64(2+rng.Intn(4)) * P
	case "huge":
		return int64(1000+rng.Intn(100000))*P + rng.Int63n(P)
	case "toLastRelease":
		if lastRelease > now {
			return lastRelease - now
		}
		return 0
	}
	panic(kind)
}

type c09Ev struct {
	T    int64  `json:"t_ns"`
	Gap  string `json:"gap"`
	Ok   bool   `json:"permitted"`
	Wait int64  `json:"wait_ns"`
}

func c09Tail(h []c09Ev, n int) []c09Ev {
	if len(h) > n {
		return h[len(h)-n:]
	}
	return h
}

// ---------------------------------------------------------------- sequential histories

func TestVerif_C09_UtilSequential(t *testing.T) {
	r := kit.Start(t, "C09")
	defer r.Finish()
	clk, restore := c09Install()
	defer restore()
	r.Rule("policies: limit 1-5 x period {10ms,25ms,100ms,333ms,1s,random ms} x timeout class {0,1ns,<P,P-1ns,P,2P,3P,between,2P-1ns} (systematic prefix then seeded random); 50 arrivals per policy on a virtual clock with gaps {0, tiny, <P, exactly to the next boundary, boundary-1ns, boundary+1ns, P, kP, thousands of periods, exactly to the last promised release}; every AcquirePermission result is judged against a book of releases per aligned period kept by the harness; distinct = (timeout class, limit, outcome incl. periods waited, gap kind, reservations outstanding at arrival)")
	r.Assume("periods are aligned to the limiter's creation instant; a release exactly on a boundary belongs to the period that starts there; timeout horizon read in whole periods (floor(timeout/period))")
	const arrivals = 50
	n := r.N(10000, 300000)
	for i := 0; i < n; i++ {
		if !r.Mine(i) {
			continue
		}
		rng := r.CaseRand(i)
		pol := c09GenPol(rng, i)
		start := rng.Int63n(int64(time.Hour))
		r.Case(i, map[string]interface{}{"policy": pol, "start_ns": start})
		clk.Set(start)
		rl := New(NewPolicy(pol.Timeout, pol.Period, pol.Limit))
		book := c09NewBook(start, pol)
		var hist []c09Ev
		var lastRel int64
		// burst-heavy or gap-heavy sequence
		burst := rng.Intn(2) == 0
		for k := 0; k < arrivals; k++ {
			kind := c09GapKinds[rng.Intn(len(c09GapKinds))]
			if burst && rng.Intn(3) != 0 {
				kind = "zero"
			}
			if k == 0 && rng.Intn(2) == 0 {
				kind = "zero" // arrival exactly at creation time
			}
			now := clk.Off()
			now += c09Gap(rng, kind, now, start, pol, lastRel)
			clk.Set(now)
			p := book.period(now)
			outstanding := 0
			for j := p; j <= p+book.horizon+1; j++ {
				outstanding += book.rel[j]
			}
			var ok bool
			var wait time.Duration
			if r.Guard("C09:util", map[string]interface{}{"policy": pol, "history": c09Tail(hist, 60)}, func() { ok, wait = rl.AcquirePermission() }) {
				break
			}
			r.Eval(1)
			hist = append(hist, c09Ev{T: now - start, Gap: kind, Ok: ok, Wait: int64(wait)})
			bad, class := book.arrive(now, ok, wait)
			if ok && wait > 0 {
				lastRel = now + int64(wait)
			}
			r.Count("outcome_"+map[bool]string{true: "waited", false: class}[ok && wait > 0], 1)
			if (now-start)%int64(pol.Period) == 0 && now != start {
				r.Count("arrivals_exactly_on_boundary", 1)
			}
			if ok && wait > 0 && book.period(now+int64(wait))-p >= 2 {
				r.Count("waited_two_or_more_periods", 1)
			}
			if kind != "zero" && outstanding > 0 && len(hist) > 1 && book.period(hist[len(hist)-2].T+start) != p {
				r.Count("rollover_with_outstanding_reservations", 1)
			}
			o := outstanding
			if o > 3 {
				o = 3
			}
			r.Cover(fmt.Sprintf("%s/L%d/%s/gap:%s/out%d", pol.TClass, pol.Limit, class, kind, o))
			for _, b := range bad {
				r.Violation("util:"+b+":timeout="+pol.TClass, map[string]interface{}{
					"policy": pol, "start_ns": start, "history_tail(t relative to start)": c09Tail(hist, 60), "failing_index": k,
				})
			}
		}
		if i < 2 {
			r.Sample(map[string]interface{}{"policy": pol, "history": c09Tail(hist, 12)})
		}
	}
	for _, k := range []string{"outcome_immediate", "outcome_waited", "outcome_rejected", "arrivals_exactly_on_boundary", "waited_two_or_more_periods", "rollover_with_outstanding_reservations"} {
		r.Require(k, 1)
	}
}

// ---------------------------------------------------------------- concurrent acquirers at a frozen time

type c09Res struct {
	Ok   bool  `json:"permitted"`
	Wait int64 `json:"wait_ns"`
}

func c09SortRes(a []c09Res) {
	sort.Slice(a, func(i, j int) bool {
		if a[i].Ok != a[j].Ok {
			return a[i].Ok
		}
		return a[i].Wait < a[j].Wait
	})
}

func TestVerif_C09_UtilConcurrent(t *testing.T) {
	r := kit.Start(t, "C09")
	defer r.Finish()
	clk, restore := c09Install()
	defer restore()
	r.Rule("per policy (same generator as the sequential part) 8 steps: advance the virtual clock by a generated gap, then N (2..(horizon+1)*limit+3, max 24) goroutines call AcquirePermission at that frozen instant on limiter A while a twin limiter B created at the same instant with the same history is driven N times sequentially; the multiset of (permitted, wait) must be equal, and A's results are judged order-insensitively against the harness' book (conservation per period, wait bounds, #admitted = min(N, free permits within horizon), #immediate = min(N, spare permits of current period)); distinct = (timeout class, limit, N class, admitted/immediate/rejected mix)")
	r.Assume("the clock only moves while no acquirer is running (quiescent points)")
	n := r.N(5000, 100000)
	var inflight, maxInflight atomic.Int64
	for i := 0; i < n; i++ {
		if !r.Mine(i) {
			continue
		}
		rng := r.CaseRand(i)
		pol := c09GenPol(rng, i)
		start := rng.Int63n(int64(time.Hour))
		r.Case(i, map[string]interface{}{"policy": pol, "start_ns": start})
		clk.Set(start)
		a := New(NewPolicy(pol.Timeout, pol.Period, pol.Limit))
		b := New(NewPolicy(pol.Timeout, pol.Period, pol.Limit))
		book := c09NewBook(start, pol)
		var steps []interface{}
		var lastRel int64
		for s := 0; s < 8; s++ {
			kind := c09GapKinds[rng.Intn(len(c09GapKinds))]
			if s == 0 {
				kind = "zero"
			}
			now := clk.Off()
			now += c09Gap(rng, kind, now, start, pol, lastRel)
			clk.Set(now)
			maxN := (int(book.horizon)+1)*pol.Limit + 3
			if maxN > 24 {
				maxN = 24
			}
			N := 2 + rng.Intn(maxN-1)
			resA := make([]c09Res, N)
			var wg sync.WaitGroup
			gate := make(chan struct{})
			var panics atomic.Int64
			for g := 0; g < N; g++ {
				wg.Add(1)
				go func(g int) {
					defer wg.Done()
					defer func() {
						if e := recover(); e != nil {
							panics.Add(1)
						}
					}()
					<-gate
					c := inflight.Add(1)
					for {
						m := maxInflight.Load()
						if c <= m || maxInflight.CompareAndSwap(m, c) {
							break
						}
					}
					ok, w := a.AcquirePermission()
					inflight.Add(-1)
					resA[g] = c09Res{ok, int64(w)}
				}(g)
			}
			close(gate)
			wg.Wait()
			r.Eval(N)
			if panics.Load() > 0 {
				r.Violation("util:concurrent:panic-in-AcquirePermission", map[string]interface{}{"policy": pol, "steps": steps})
				break
			}
			resB := make([]c09Res, N)
			for g := 0; g < N; g++ {
				ok, w := b.AcquirePermission()
				resB[g] = c09Res{ok, int64(w)}
			}
			c09SortRes(resA)
			c09SortRes(resB)
			step := map[string]interface{}{"t_ns": now - start, "gap": kind, "N": N, "concurrent": resA, "sequential_twin": resB}
			steps = append(steps, step)
			detail := func() interface{} {
				return map[string]interface{}{"policy": pol, "start_ns": start, "steps": steps}
			}
			for g := range resA {
				if resA[g] != resB[g] {
					r.Violation("util:concurrent:multiset-differs-from-sequential-twin:timeout="+pol.TClass, detail())
					break
				}
			}
			// order-insensitive judgement against the book
			free := book.freeInHorizon(now)
			spare := book.spareNow(now)
			admitted, immediate := 0, 0
			bad := map[string]bool{}
			for _, x := range resA {
				if !x.Ok {
					continue
				}
				admitted++
				if x.Wait == 0 {
					immediate++
				}
				if x.Wait < 0 {
					bad["negative-wait"] = true
				}
				if x.Wait > int64(pol.Timeout) {
					bad["wait-exceeds-timeout"] = true
				}
				rp := book.period(now + x.Wait)
				book.rel[rp]++
				if book.rel[rp] > pol.Limit {
					bad["more-than-limit-releases-in-one-period"] = true
				}
				if x.Wait > 0 {
					lastRel = now + x.Wait
				}
			}
			wantAdm, wantImm := N, N
			if free < wantAdm {
				wantAdm = free
			}
			if spare < wantImm {
				wantImm = spare
			}
			if admitted < wantAdm {
				bad["rejected-while-permit-free-within-timeout-horizon"] = true
			}
			if immediate < wantImm {
				bad["spare-permit-in-current-period-but-made-to-wait"] = true
			}
			for k := range bad {
				r.Violation("util:concurrent:"+k+":timeout="+pol.TClass, detail())
			}
			nc := "N<=limit"
			if N > pol.Limit {
				nc = "N>limit"
			}
			if N > free {
				nc = "N>free"
			}
			r.Cover(fmt.Sprintf("%s/L%d/%s/adm%d/imm%d/rej%d", pol.TClass, pol.Limit, nc, c09Cap(admitted, 6), c09Cap(immediate, 5), c09Cap(N-admitted, 3)))
			if admitted > immediate {
				r.Count("bursts_with_waiters", 1)
			}
			if admitted < N {
				r.Count("bursts_with_rejections", 1)
			}
		}
		if i < 2 {
			r.Sample(map[string]interface{}{"policy": pol, "steps": steps[:2]})
		}
	}
	r.Max("overlaps_observed_max_inflight", maxInflight.Load())
	if maxInflight.Load() >= 2 {
		r.Count("overlaps_observed", 1)
	}
	r.Require("overlaps_observed", 1)
	r.Require("bursts_with_waiters", 1)
	r.Require("bursts_with_rejections", 1)
}

func c09Cap(v, m int) int {
	if v > m {
		return m
	}
	return v
}
